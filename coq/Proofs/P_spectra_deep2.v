(* C13 (deepening) - the inverse-real-FFT shift theorem behind the 'cor' estimator, its consequence for sd_cor,
   and the transport of the two-carrier evaluators sd_per_x / sd_cor_x along a ring homomorphism
   (generic, then instantiated with the dyadic big-integer carrier DyOps -> Q -> Qc). *)
From Coq Require Import List Arith Bool Lia Ring Field ZArith QArith Qcanon.
From PyOMA.Base Require Import Carrier Cplx.
From PyOMA.Model Require Import M_spectra.
From PyOMA.Proofs Require Import P_spectra.
Import ListNotations.

(* ================= Part A: irfft shift theorem and the 'cor' estimator ================= *)
Section D.
Variable R:Type. Variable K:Ops R.
Hypothesis Rth : ring_theory (o0 K) (o1 K) (oadd K) (omul K) (osub K) (oopp K) (@eq R).
Add Ring RrD : Rth.
Local Open Scope K_scope.
Notation "0" := (o0 K) : K_scope. Notation "1" := (o1 K) : K_scope.
Infix "+" := (oadd K) : K_scope. Infix "*" := (omul K) : K_scope. Infix "-" := (osub K) : K_scope.
Notation "- x" := (oopp K x) : K_scope.
Notation CR := (C R).
Notation csum := (sumn (COps K)).
Notation "x +c y" := (cadd K x y) (at level 50, left associativity).
Notation "x *c y" := (cmul K x y) (at level 40, left associativity).
Notation cj := (cconj K).
Lemma CRd : ring_theory (c0 K) (c1 K) (cadd K) (cmul K) (csub K) (copp K) (@eq CR).
Proof. exact (CRth R K Rth). Qed.
Add Ring CrD : CRd.

(* ---------- the alternating sign (-1)^t ---------- *)
Lemma alt_sq d : alt K d * alt K d = 1.
Proof. unfold alt. destruct (Nat.even d); ring. Qed.
Lemma alt_add a b : alt K (a + b)%nat = alt K a * alt K b.
Proof. unfold alt. rewrite Nat.even_add. destruct (Nat.even a), (Nat.even b); cbn; ring. Qed.
Lemma even_mod_even n t : Nat.even n = true -> n <> 0%nat -> Nat.even (t mod n) = Nat.even t.
Proof.
  intros He Hn. rewrite (Nat.div_mod t n Hn) at 2. rewrite Nat.even_add, Nat.even_mul, He. cbn.
  destruct (Nat.even (t mod n)); reflexivity.
Qed.
Lemma alt_mod n t : Nat.even n = true -> n <> 0%nat -> alt K (t mod n) = alt K t.
Proof. intros He Hn. unfold alt. rewrite even_mod_even by assumption. reflexivity. Qed.

(* the index a circular delay by d reads from *)
Definition back (n d t:nat) : nat := ((t + (n - d)) mod n)%nat.
Lemma back_lt n d t : (d < n)%nat -> (back n d t < n)%nat.
Proof. intros Hd. unfold back. apply Nat.mod_upper_bound. lia. Qed.
Lemma back_fwd n d t : (d < n)%nat -> (t < n)%nat -> ((back n d t + d) mod n = t)%nat.
Proof.
  intros Hd Ht. unfold back. rewrite Nat.add_mod_idemp_l by lia.
  replace (t + (n - d) + d)%nat with (t + 1 * n)%nat by lia. rewrite Nat.mod_add by lia. apply Nat.mod_small; lia.
Qed.
Lemma fwd_back n d u : (d < n)%nat -> (u < n)%nat -> (back n d ((u + d) mod n) = u)%nat.
Proof.
  intros Hd Hu. unfold back. rewrite Nat.add_mod_idemp_l by lia.
  replace (u + d + (n - d))%nat with (u + 1 * n)%nat by lia. rewrite Nat.mod_add by lia. apply Nat.mod_small; lia.
Qed.

(* ---------- inverse real FFT of a delayed spectrum ----------
   Pij k = g tw k d Pii k on the lines 0 .. n/2  =>  irfft(Pij) t = g irfft(Pii) ((t - d) mod n).
   Beside the character property and |tw k d| = 1 this needs tw 0 d = 1 (line 0 of numpy's table is exp(0) = 1) and
   tw (n/2) d = (-1)^d: irfft reads only the real parts of the lines 0 and n/2.  Pii need not be real. *)
Theorem irfft_circular_delay (tw:nat->nat->CR) (invn:R) (n d:nat) (g:R) (Pii Pij:nat->CR) :
  (d < n)%nat -> Nat.even n = true ->
  (forall k t, (k <= n/2)%nat -> (t<n)%nat -> tw k ((t + d) mod n)%nat = tw k t *c tw k d) ->
  (forall k, (k <= n/2)%nat -> cj (tw k d) *c tw k d = c1 K) ->
  tw 0%nat d = c1 K ->
  tw (n/2)%nat d = cofR K (alt K d) ->
  (forall k, (k <= n/2)%nat -> Pij k = (cofR K g *c tw k d) *c Pii k) ->
  forall t, (t<n)%nat -> irfft_of K tw invn n Pij t = g * irfft_of K tw invn n Pii ((t + (n - d)) mod n)%nat.
Proof.
  intros Hd He Hch Hunit H0 Hny Hij t Ht.
  change ((t + (n - d)) mod n)%nat with (back n d t). set (t' := back n d t).
  assert (Ht' : (t' < n)%nat) by (apply back_lt; assumption).
  assert (Hft : ((t' + d) mod n = t)%nat) by (apply back_fwd; assumption).
  assert (Hn0 : n <> 0%nat) by lia.
  assert (Ha : alt K t * alt K d = alt K t').
  { rewrite <- Hft at 1. rewrite (alt_mod n _ He Hn0), alt_add.
    transitivity (alt K t' * (alt K d * alt K d)); [ring|rewrite alt_sq; ring]. }
  unfold irfft_of.
  assert (E0 : cre (Pij 0%nat) = g * cre (Pii 0%nat)).
  { rewrite (Hij 0%nat) by lia. rewrite H0. cbn. ring. }
  assert (Eh : alt K t * cre (Pij (n/2)%nat) = g * (alt K t' * cre (Pii (n/2)%nat))).
  { rewrite (Hij (n/2)%nat) by lia. rewrite Hny. rewrite <- Ha. cbn. ring. }
  assert (Es : sumn K (n/2 - 1) (fun q => (1+1) * cre (Pij (S q) *c cj (tw (S q) t)))
             = g * sumn K (n/2 - 1) (fun q => (1+1) * cre (Pii (S q) *c cj (tw (S q) t')))).
  { rewrite <- (sumn_scal R K Rth). apply (sumn_ext R K). intros q Hq.
    assert (Hk : (S q <= n/2)%nat) by lia.
    assert (Etw : tw (S q) t = tw (S q) t' *c tw (S q) d).
    { rewrite <- Hft at 1. apply Hch; assumption. }
    assert (E : Pij (S q) *c cj (tw (S q) t) = cofR K g *c (Pii (S q) *c cj (tw (S q) t'))).
    { rewrite (Hij _ Hk), Etw, (cconj_mul R K Rth).
      transitivity ((cofR K g *c (Pii (S q) *c cj (tw (S q) t'))) *c (cj (tw (S q) d) *c tw (S q) d)); [ring|].
      rewrite (Hunit _ Hk). ring. }
    rewrite E. cbn. ring. }
  rewrite E0, Eh, Es. ring.
Qed.

(* ---------- zero padding: the half-length box-car segments are transformed with nfft = n ---------- *)
Definition zpad (m:nat) (x:nat->R) (t:nat) : R := if (t <? m)%nat then x t else 0.
Lemma csum_c0 n : csum n (fun _ => c0 K) = c0 K.
Proof. exact (sumn_zero CR (COps K) (CRth R K Rth) n). Qed.
Lemma csum_zpad (tw:nat->nat->CR) m n (x:nat->R) k : (m <= n)%nat ->
  csum m (fun t => cscal K (x t) (tw k t)) = csum n (fun t => cscal K (zpad m x t) (tw k t)).
Proof.
  intros Hmn. replace n with (m + (n - m))%nat by lia.
  rewrite (sumn_split CR (COps K) (CRth R K Rth) m (n-m)).
  rewrite (csum_ext R K (n-m) (fun i => cscal K (zpad m x (m+i)%nat) (tw k (m+i)%nat)) (fun _ => c0 K)).
  - rewrite csum_c0.
    rewrite (csum_ext R K m (fun t => cscal K (zpad m x t) (tw k t)) (fun t => cscal K (x t) (tw k t))).
    + cbn [oadd COps]. ring.
    + intros t Ht. unfold zpad. destruct (Nat.ltb_spec t m); [reflexivity|lia].
  - intros i _. unfold zpad. destruct (Nat.ltb_spec (m+i) m); [lia|]. apply c_eq; cbn; ring.
Qed.

(* box-car segment s of channel c (length m, consecutive, mean removed) as the 'cor' estimator cuts it *)
Definition bseg (invm:R) (m:nat) (Y:rsig R) (c s:nat) : nat -> R := seg_dt K invm m (s*m) (Y c).
Lemma stft_ones_zpad (tw:nat->nat->CR) invm m n (Y:rsig R) c s k : (m <= n)%nat ->
  stft K tw (ones K) invm m m (Y c) s k = csum n (fun t => cscal K (zpad m (bseg invm m Y c s) t) (tw k t)).
Proof.
  intros Hmn. unfold stft. rewrite <- (csum_zpad tw m n (bseg invm m Y c s) k Hmn).
  apply (csum_ext R K). intros t _. unfold bseg, ones. apply c_eq; cbn; ring.
Qed.

(* time domain => line by line: if the zero-padded box-car segments of channel j are g times those of channel i delayed
   circularly (mod n) by d, their spectra at line k differ by the factor g tw k d *)
Lemma stft_ones_delay (tw:nat->nat->CR) invm m n d g (Y:rsig R) i j s k : (m <= n)%nat -> (d < n)%nat ->
  (forall t, (t<n)%nat -> tw k ((t + d) mod n)%nat = tw k t *c tw k d) ->
  (forall t, (t<n)%nat -> zpad m (bseg invm m Y j s) t = g * zpad m (bseg invm m Y i s) ((t + (n - d)) mod n)%nat) ->
  stft K tw (ones K) invm m m (Y j) s k = (cofR K g *c tw k d) *c stft K tw (ones K) invm m m (Y i) s k.
Proof.
  intros Hmn Hd Hch Hx. rewrite !(stft_ones_zpad tw invm m n Y _ s k Hmn).
  exact (dft_shift R K Rth tw n d g _ _ k Hd Hch Hx).
Qed.

(* ---------- 'cor': what a circular delay does to every stage of the estimator ---------- *)
Section CorDelay.
Variables (tw:nat->nat->CR) (we:nat->R) (invm invn invK:R) (n nseg d:nat) (g:R) (Y:rsig R) (i j:nat).
Notation P a b := (pxy K tw (ones K) invm invm invK n (n/2) (n/2) nseg Y Y a b).
Notation X c := (stft K tw (ones K) invm (n/2) (n/2) (Y c)).
Notation rii := (irfft_of K tw invn n (P i i)).
Notation rij := (irfft_of K tw invn n (P i j)).
Hypothesis Hd : (d < n)%nat.
Hypothesis He : Nat.even n = true.
Hypothesis Hch : forall k t, (k <= n/2)%nat -> (t<n)%nat -> tw k ((t + d) mod n)%nat = tw k t *c tw k d.
Hypothesis Hunit : forall k, (k <= n/2)%nat -> cj (tw k d) *c tw k d = c1 K.
Hypothesis H0 : tw 0%nat d = c1 K.
Hypothesis Hny : tw (n/2)%nat d = cofR K (alt K d).
(* the segment spectra of channel j are those of channel i times g tw k d, on every line *)
Hypothesis Hspec : forall k s, (k <= n/2)%nat -> (s<nseg)%nat -> X j s k = (cofR K g *c tw k d) *c X i s k.

(* (a) the raw box-car cross periodogram carries the factor; the auto periodogram is real *)
Lemma cor_periodogram_factor k : (k <= n/2)%nat -> P i j k = (cofR K g *c tw k d) *c P i i k.
Proof.
  intros Hk. unfold pxy.
  rewrite (csd_of_factor R K Rth (spec_of K tw (ones K) invm (n/2) (n/2) Y) (fun _ => spec_of K tw (ones K) invm (n/2) (n/2) Y i)
             _ _ (c1 K) (cofR K g *c tw k d) _ nseg i j k).
  - replace (cj (c1 K)) with (c1 K) by (apply c_eq; cbn; ring). unfold csd_of. ring.
  - intros s _. ring.
  - intros s Hs. unfold spec_of. apply Hspec; assumption.
Qed.
Lemma cor_auto_periodogram_real k : cim (P i i k) = 0.
Proof.
  unfold pxy, csd_of, spec_of.
  rewrite (csum_ext R K nseg _ (fun s => cofR K (cnorm2 K (X i s k)))) by (intros; apply (cmul_conj R K Rth)).
  rewrite (csum_cofR R K Rth). cbn. ring.
Qed.
(* (b) the lag-domain sequence (before the exponential window) is delayed circularly by d and scaled by g *)
Lemma cor_lag_delay t : (t<n)%nat -> rij t = g * rii ((t + (n - d)) mod n)%nat.
Proof.
  intros Ht. apply (irfft_circular_delay tw invn n d g (P i i) (P i j) Hd He Hch Hunit H0 Hny); [|exact Ht].
  intros k Hk. apply cor_periodogram_factor; exact Hk.
Qed.
(* (c) the windowed lag sequences: cross-multiplied by the window at the two positions they agree exactly *)
Lemma cor_windowed_lag t : (t<n)%nat ->
  we ((t + (n - d)) mod n)%nat * (we t * rij t) = g * (we t * (we ((t + (n - d)) mod n)%nat * rii ((t + (n - d)) mod n)%nat)).
Proof. intros Ht. rewrite (cor_lag_delay t Ht). ring. Qed.
(* (d) the estimate: Sy[i][j][k] = g tw k d * rfft(advanced window * r_ii)[k], whereas Sy[i][i][k] = rfft(window * r_ii)[k] *)
Lemma cor_delay_spectrum k : (k <= n/2)%nat ->
  sd_cor K tw we invm invn invK n nseg Y Y i j k
  = (cofR K g *c tw k d) *c rfft_of K tw n (fun u => we ((u + d) mod n)%nat * rii u) k.
Proof.
  intros Hk. unfold sd_cor, cor_of, rfft_of.
  apply (dft_shift R K Rth tw n d g (fun u => we ((u + d) mod n)%nat * rii u) (fun t => we t * rij t) k Hd).
  - intros t Ht. apply Hch; assumption.
  - intros t Ht. rewrite (cor_lag_delay t Ht).
    change ((t + (n - d)) mod n)%nat with (back n d t). rewrite (back_fwd n d t Hd Ht). ring.
Qed.
(* (e) a window that the delay only rescales (we ((u+d) mod n) = c we u; c = 1 for no window) leaves the ratio exact *)
Lemma cor_delay_invariant_window c k : (k <= n/2)%nat ->
  (forall u, (u<n)%nat -> we ((u + d) mod n)%nat = c * we u) ->
  sd_cor K tw we invm invn invK n nseg Y Y i j k
  = (cofR K (c * g) *c tw k d) *c sd_cor K tw we invm invn invK n nseg Y Y i i k.
Proof.
  intros Hk Hw. rewrite (cor_delay_spectrum k Hk).
  rewrite (rfft_of_ext R K tw tw n (fun u => we ((u + d) mod n)%nat * rii u) (fun u => c * (we u * rii u)) k)
    by (try reflexivity; intros u Hu; rewrite (Hw u Hu); ring).
  rewrite (rfft_of_scal R K Rth tw n c (fun u => c * (we u * rii u)) (fun u => we u * rii u) k) by reflexivity.
  unfold sd_cor, cor_of. rewrite (cscal_is_mul R K Rth), <- (cofR_mul R K Rth). ring.
Qed.
(* (f) an exponential window we t = a^t satisfies we (u+d) = c we u (c = a^d) as long as u + d does not wrap, so
   Sy[i][j][k] = g tw k d * ( c Sy[i][i][k] + the contribution of the d wrapped lags n-d .. n-1 of r_ii ):
   that residue is all that separates Sy[i][j]/Sy[i][i] from c g tw k d *)
Lemma cor_delay_residue c k : (k <= n/2)%nat ->
  (forall u, (u + d < n)%nat -> we (u + d)%nat = c * we u) ->
  sd_cor K tw we invm invn invK n nseg Y Y i j k
  = (cofR K g *c tw k d) *c
    (cscal K c (sd_cor K tw we invm invn invK n nseg Y Y i i k)
     +c csum d (fun v => cscal K ((we v - c * we (n - d + v)%nat) * rii (n - d + v)%nat) (tw k (n - d + v)%nat))).
Proof.
  intros Hk Hw. rewrite (cor_delay_spectrum k Hk). f_equal.
  set (dl := fun u => (we ((u + d) mod n)%nat - c * we u) * rii u).
  rewrite (rfft_of_add R K Rth tw n _ (fun u => c * (we u * rii u)) dl k) by (intros u; unfold dl; ring).
  rewrite (rfft_of_scal R K Rth tw n c (fun u => c * (we u * rii u)) (fun u => we u * rii u) k) by reflexivity.
  f_equal. unfold rfft_of. replace n with ((n - d) + d)%nat at 1 by lia.
  rewrite (sumn_split CR (COps K) (CRth R K Rth) (n-d) d).
  rewrite (csum_ext R K (n-d) (fun t => cscal K (dl t) (tw k t)) (fun _ => c0 K)).
  - rewrite csum_c0.
    transitivity (csum d (fun v => cscal K (dl (n - d + v)%nat) (tw k (n - d + v)%nat))); [cbn [oadd COps]; ring|].
    apply (csum_ext R K). intros v Hv. unfold dl.
    replace ((n - d + v + d) mod n)%nat with v; [reflexivity|].
    replace (n - d + v + d)%nat with (v + 1 * n)%nat by lia. rewrite Nat.mod_add by lia. symmetry; apply Nat.mod_small; lia.
  - intros u Hu. unfold dl. rewrite (Nat.mod_small (u + d) n) by lia. rewrite (Hw u) by lia. apply c_eq; cbn; ring.
Qed.
End CorDelay.

(* all six stages in one statement, from the hypothesis on the segment spectra *)
Definition cor_delay_conclusions (tw:nat->nat->CR) (we:nat->R) (invm invn invK:R) (n nseg d:nat) (g:R) (Y:rsig R) (i j:nat) : Prop :=
  let P := pxy K tw (ones K) invm invm invK n (n/2) (n/2) nseg Y Y in
  let rii := irfft_of K tw invn n (P i i) in
  let rij := irfft_of K tw invn n (P i j) in
  (forall k, (k <= n/2)%nat -> P i j k = (cofR K g *c tw k d) *c P i i k /\ cim (P i i k) = 0) /\
  (forall t, (t<n)%nat -> rij t = g * rii ((t + (n - d)) mod n)%nat) /\
  (forall t, (t<n)%nat ->
     we ((t + (n - d)) mod n)%nat * (we t * rij t) = g * (we t * (we ((t + (n - d)) mod n)%nat * rii ((t + (n - d)) mod n)%nat))) /\
  (forall k, (k <= n/2)%nat ->
     sd_cor K tw we invm invn invK n nseg Y Y i j k
     = (cofR K g *c tw k d) *c rfft_of K tw n (fun u => we ((u + d) mod n)%nat * rii u) k) /\
  (forall c k, (k <= n/2)%nat -> (forall u, (u<n)%nat -> we ((u + d) mod n)%nat = c * we u) ->
     sd_cor K tw we invm invn invK n nseg Y Y i j k
     = (cofR K (c * g) *c tw k d) *c sd_cor K tw we invm invn invK n nseg Y Y i i k) /\
  (forall c k, (k <= n/2)%nat -> (forall u, (u + d < n)%nat -> we (u + d)%nat = c * we u) ->
     sd_cor K tw we invm invn invK n nseg Y Y i j k
     = (cofR K g *c tw k d) *c
       (cscal K c (sd_cor K tw we invm invn invK n nseg Y Y i i k)
        +c csum d (fun v => cscal K ((we v - c * we (n - d + v)%nat) * rii (n - d + v)%nat) (tw k (n - d + v)%nat)))).

Theorem sd_cor_spectral_delay (tw:nat->nat->CR) (we:nat->R) (invm invn invK:R) (n nseg d:nat) (g:R) (Y:rsig R) (i j:nat) :
  (d < n)%nat -> Nat.even n = true ->
  (forall k t, (k <= n/2)%nat -> (t<n)%nat -> tw k ((t + d) mod n)%nat = tw k t *c tw k d) ->
  (forall k, (k <= n/2)%nat -> cj (tw k d) *c tw k d = c1 K) ->
  tw 0%nat d = c1 K -> tw (n/2)%nat d = cofR K (alt K d) ->
  (forall k s, (k <= n/2)%nat -> (s<nseg)%nat ->
     stft K tw (ones K) invm (n/2) (n/2) (Y j) s k = (cofR K g *c tw k d) *c stft K tw (ones K) invm (n/2) (n/2) (Y i) s k) ->
  cor_delay_conclusions tw we invm invn invK n nseg d g Y i j.
Proof.
  intros Hd He Hch Hunit H0 Hny Hspec. unfold cor_delay_conclusions. cbv zeta.
  split; [intros k Hk; split; [apply (cor_periodogram_factor tw invm invK n nseg d g Y i j Hspec k Hk)
                              |apply cor_auto_periodogram_real]|].
  split; [intros t Ht; apply (cor_lag_delay tw invm invn invK n nseg d g Y i j Hd He Hch Hunit H0 Hny Hspec t Ht)|].
  split; [intros t Ht; apply (cor_windowed_lag tw we invm invn invK n nseg d g Y i j Hd He Hch Hunit H0 Hny Hspec t Ht)|].
  split; [intros k Hk; apply (cor_delay_spectrum tw we invm invn invK n nseg d g Y i j Hd He Hch Hunit H0 Hny Hspec k Hk)|].
  split; [intros c k Hk Hw; apply (cor_delay_invariant_window tw we invm invn invK n nseg d g Y i j Hd He Hch Hunit H0 Hny Hspec c k Hk Hw)|].
  intros c k Hk Hw; apply (cor_delay_residue tw we invm invn invK n nseg d g Y i j Hd He Hch Hunit H0 Hny Hspec c k Hk Hw).
Qed.

(* the same from the time domain: zero-padded box-car segments of channel j = g * those of channel i delayed circularly by d *)
Theorem sd_cor_circular_delay (tw:nat->nat->CR) (we:nat->R) (invm invn invK:R) (n nseg d:nat) (g:R) (Y:rsig R) (i j:nat) :
  (d < n)%nat -> Nat.even n = true ->
  (forall k t, (k <= n/2)%nat -> (t<n)%nat -> tw k ((t + d) mod n)%nat = tw k t *c tw k d) ->
  (forall k, (k <= n/2)%nat -> cj (tw k d) *c tw k d = c1 K) ->
  tw 0%nat d = c1 K -> tw (n/2)%nat d = cofR K (alt K d) ->
  (forall s t, (s<nseg)%nat -> (t<n)%nat ->
     zpad (n/2) (bseg invm (n/2) Y j s) t = g * zpad (n/2) (bseg invm (n/2) Y i s) ((t + (n - d)) mod n)%nat) ->
  cor_delay_conclusions tw we invm invn invK n nseg d g Y i j.
Proof.
  intros Hd He Hch Hunit H0 Hny Hseg.
  assert (Hm : (n/2 <= n)%nat) by (apply Nat.div_le_upper_bound; lia).
  apply sd_cor_spectral_delay; try assumption.
  intros k s Hk Hs. apply (stft_ones_delay tw invm (n/2) n d g Y i j s k Hm Hd).
  - intros t Ht. apply Hch; assumption.
  - intros t Ht. apply Hseg; assumption.
Qed.
End D.

Arguments zpad {R} K m x t. Arguments bseg {R} K invm m Y c s.
Arguments cor_delay_conclusions {R} K tw we invm invn invK n nseg d g Y i j.

(* ---------- the statement without the hypothesis tw 0 d = 1 is false ----------
   (the text of Properties/C13.v's C13_full_statement): rows 0 and 1 of the table below are both the character (-1)^t of Z/2,
   every hypothesis holds with n = 2, d = 1, g = 1, Pii = 1, Pij k = tw k 1 = -1, and irfft(Pij) 0 = -2 whereas irfft(Pii) 1 = 0 *)
Definition irfft_shift_claim (R:Type) (K:Ops R) : Prop :=
  forall (tw:nat->nat->C R) (invn:R) (n d:nat) (g:R) (Pii Pij:nat->C R),
  (d < n)%nat -> Nat.even n = true ->
  (forall k t, (k <= n/2)%nat -> (t<n)%nat -> tw k ((t + d) mod n)%nat = cmul K (tw k t) (tw k d)) ->
  (forall k, (k <= n/2)%nat -> cmul K (cconj K (tw k d)) (tw k d) = c1 K) ->
  tw (n/2)%nat d = cofR K (alt K d) ->
  (forall k, (k <= n/2)%nat -> cim (Pii k) = o0 K) ->
  (forall k, (k <= n/2)%nat -> Pij k = cmul K (cmul K (cofR K g) (tw k d)) (Pii k)) ->
  forall t, (t<n)%nat -> irfft_of K tw invn n Pij t = omul K g (irfft_of K tw invn n Pii ((t + (n - d)) mod n)%nat).

Lemma irfft_shift_claim_refuted : ~ irfft_shift_claim Qc QcOps.
Proof.
  intros H.
  set (tw := fun (k t:nat) => if Nat.even t then c1 QcOps else copp QcOps (c1 QcOps)).
  specialize (H tw 1%Qc 2%nat 1%nat 1%Qc (fun _ => c1 QcOps) (fun k => tw k 1%nat)).
  assert (F : irfft_of QcOps tw 1%Qc 2 (fun k => tw k 1%nat) 0 = omul QcOps 1%Qc (irfft_of QcOps tw 1%Qc 2 (fun _ => c1 QcOps) ((0 + (2 - 1)) mod 2)%nat)).
  { apply H.
    - lia.
    - reflexivity.
    - intros k t _ Ht. destruct t as [|[|t]]; [| |lia]; apply c_eq; apply Qc_is_canon; vm_compute; reflexivity.
    - intros k _. apply c_eq; apply Qc_is_canon; vm_compute; reflexivity.
    - apply c_eq; apply Qc_is_canon; vm_compute; reflexivity.
    - intros k _. reflexivity.
    - intros k _. apply c_eq; apply Qc_is_canon; vm_compute; reflexivity.
    - lia. }
  apply (f_equal (fun x:Qc => Qnum (this x))) in F. vm_compute in F. discriminate F.
Qed.

(* ================= Part B: transport of the two-carrier evaluators along a ring homomorphism ================= *)
Section Hom.
Variables (R1 R2:Type) (K1:Ops R1) (K2:Ops R2) (phi:R1->R2).
Hypothesis R2th : ring_theory (o0 K2) (o1 K2) (oadd K2) (omul K2) (osub K2) (oopp K2) (@eq R2).
Hypothesis phi_0 : phi (o0 K1) = o0 K2.
Hypothesis phi_1 : phi (o1 K1) = o1 K2.
Hypothesis phi_add : forall a b, phi (oadd K1 a b) = oadd K2 (phi a) (phi b).
Hypothesis phi_mul : forall a b, phi (omul K1 a b) = omul K2 (phi a) (phi b).
Hypothesis phi_sub : forall a b, phi (osub K1 a b) = osub K2 (phi a) (phi b).
Hypothesis phi_opp : forall a, phi (oopp K1 a) = oopp K2 (phi a).
Add Ring RrH : R2th.
Notation cp := (cphi phi).

Lemma hom_sumn n (f:nat->R1) : phi (sumn K1 n f) = sumn K2 n (fun k => phi (f k)).
Proof. induction n; cbn [sumn]; [exact phi_0|]. rewrite phi_add, IHn. reflexivity. Qed.
Lemma cp_c0 : cp (c0 K1) = c0 K2.
Proof. unfold cphi, c0. cbn. rewrite phi_0. reflexivity. Qed.
Lemma cp_add x y : cp (cadd K1 x y) = cadd K2 (cp x) (cp y).
Proof. unfold cphi, cadd. cbn. rewrite !phi_add. reflexivity. Qed.
Lemma cp_mul x y : cp (cmul K1 x y) = cmul K2 (cp x) (cp y).
Proof. unfold cphi, cmul. cbn. rewrite phi_sub, phi_add, !phi_mul. reflexivity. Qed.
Lemma cp_conj x : cp (cconj K1 x) = cconj K2 (cp x).
Proof. unfold cphi, cconj. cbn. rewrite phi_opp. reflexivity. Qed.
Lemma cp_scal a x : cp (cscal K1 a x) = cscal K2 (phi a) (cp x).
Proof. unfold cphi, cscal. cbn. rewrite !phi_mul. reflexivity. Qed.
Lemma cre_cp x : cre (cp x) = phi (cre x).
Proof. reflexivity. Qed.
Lemma hom_csum n (f:nat->C R1) : cp (sumn (COps K1) n f) = sumn (COps K2) n (fun k => cp (f k)).
Proof. induction n; cbn [sumn]; [exact cp_c0|]. cbn [oadd COps]. rewrite cp_add, IHn. reflexivity. Qed.
Lemma hom_dbl n k : phi (dbl K1 n k) = dbl K2 n k.
Proof. unfold dbl. destruct (k =? 0)%nat; [exact phi_1|]. destruct (Nat.even n && (k =? n/2)%nat); [exact phi_1|]. rewrite phi_add, phi_1. reflexivity. Qed.
Lemma hom_alt t : phi (alt K1 t) = alt K2 t.
Proof. unfold alt. destruct (Nat.even t); [exact phi_1|]. rewrite phi_opp, phi_1. reflexivity. Qed.

(* lists *)
Lemma lget_map_phi (l:list R1) i : lget K2 (map phi l) i = phi (lget K1 l i).
Proof. unfold lget. rewrite <- phi_0. apply map_nth. Qed.
Lemma lget_map_cp (l:list (C R1)) i : lget (COps K2) (map cp l) i = cp (lget (COps K1) l i).
Proof. unfold lget. cbn [o0 COps]. rewrite <- cp_c0. apply map_nth. Qed.
Lemma sig_of_map (Yl:list (list R1)) a t : sig_of K2 (map (map phi) Yl) a t = phi (sig_of K1 Yl a t).
Proof.
  unfold sig_of, ent. change (@nil R2) with (map phi (@nil R1)). rewrite (map_nth (map phi)).
  rewrite <- phi_0. apply map_nth.
Qed.
Lemma tw_of_map (twl:list (C R1)) n k t : tw_of K2 (map cp twl) n k t = cp (tw_of K1 twl n k t).
Proof. unfold tw_of. apply lget_map_cp. Qed.

(* the stages of the model commute with phi *)
Lemma hom_seg_dt invm m off (y:nat->R1) t :
  phi (seg_dt K1 invm m off y t) = seg_dt K2 (phi invm) m off (fun u => phi (y u)) t.
Proof. unfold seg_dt, seg_mean. rewrite phi_sub, phi_mul, hom_sumn. reflexivity. Qed.
Lemma hom_stft tw w invm m step (y:nat->R1) s k :
  cp (stft K1 tw w invm m step y s k)
  = stft K2 (fun k t => cp (tw k t)) (fun t => phi (w t)) (phi invm) m step (fun u => phi (y u)) s k.
Proof.
  unfold stft. rewrite hom_csum. apply (csum_ext R2 K2). intros t _. rewrite cp_scal, phi_mul, hom_seg_dt. reflexivity.
Qed.
Lemma hom_csd_of (XA XR:nat->nat->nat->C R1) coef nseg i j k :
  cp (csd_of K1 XA XR coef nseg i j k)
  = csd_of K2 (fun a s k => cp (XA a s k)) (fun a s k => cp (XR a s k)) (fun k => phi (coef k)) nseg i j k.
Proof.
  unfold csd_of. rewrite cp_scal, hom_csum. f_equal. apply (csum_ext R2 K2). intros s _. rewrite cp_mul, cp_conj. reflexivity.
Qed.
Lemma hom_irfft tw invn n (P:nat->C R1) t :
  phi (irfft_of K1 tw invn n P t) = irfft_of K2 (fun k t => cp (tw k t)) (phi invn) n (fun k => cp (P k)) t.
Proof.
  unfold irfft_of. rewrite phi_mul, !phi_add, phi_mul, hom_alt, hom_sumn. f_equal. f_equal.
  apply (sumn_ext R2 K2). intros q _. rewrite phi_mul, phi_add, phi_1. rewrite <- cre_cp, cp_mul, cp_conj. reflexivity.
Qed.
Lemma hom_rfft tw n (x:nat->R1) k :
  cp (rfft_of K1 tw n x k) = rfft_of K2 (fun k t => cp (tw k t)) n (fun t => phi (x t)) k.
Proof. unfold rfft_of. rewrite hom_csum. apply (csum_ext R2 K2). intros t _. apply cp_scal. Qed.
Lemma hom_cor_of tw we invn n (P:nat->C R1) k :
  cp (cor_of K1 tw we invn n P k)
  = cor_of K2 (fun k t => cp (tw k t)) (fun t => phi (we t)) (phi invn) n (fun q => cp (P q)) k.
Proof.
  unfold cor_of. rewrite hom_rfft. apply (rfft_of_ext R2 K2); [|reflexivity]. intros t _. rewrite phi_mul, hom_irfft. reflexivity.
Qed.

(* extensionality in every argument (carrier K2) *)
Lemma stft_ext_all tw tw' (w w':nat->R2) invm m step (y y':nat->R2) s k :
  (forall t, (t<m)%nat -> tw k t = tw' k t) -> (forall t, (t<m)%nat -> w t = w' t) -> (forall u, y u = y' u) ->
  stft K2 tw w invm m step y s k = stft K2 tw' w' invm m step y' s k.
Proof.
  intros Ht Hw Hy. unfold stft. apply (csum_ext R2 K2). intros t Hlt.
  rewrite (Ht t Hlt), (Hw t Hlt), (seg_dt_ext R2 K2 invm m (s*step) y y' t Hy). reflexivity.
Qed.
Lemma cor_of_ext_all tw tw' (we we':nat->R2) invn n (P P':nat->C R2) k : (2 <= n)%nat -> (k <= n/2)%nat ->
  (forall q t, (q <= n/2)%nat -> (t<n)%nat -> tw q t = tw' q t) -> (forall t, (t<n)%nat -> we t = we' t) ->
  (forall q, (q <= n/2)%nat -> P q = P' q) ->
  cor_of K2 tw we invn n P k = cor_of K2 tw' we' invn n P' k.
Proof.
  intros Hn Hk Ht Hw HP. unfold cor_of. apply (rfft_of_ext R2 K2).
  - intros t Hlt. rewrite (Hw t Hlt). f_equal. apply (irfft_of_ext R2 K2); [exact HP| |exact Hn].
    intros q Hq. apply Ht; assumption.
  - intros t Hlt. apply Ht; assumption.
Qed.

(* segment spectra read from the K1 tables, mapped by phi, are the segment spectra of the mapped data over K2 *)
Lemma look3_transport twl wf invm m step nch nseg n (Yl:list (list R1)) (w2:nat->R2) c s k :
  (c<nch)%nat -> (s<nseg)%nat -> (k < nlines n)%nat -> (m <= n)%nat -> (forall t, (t<m)%nat -> phi (wf t) = w2 t) ->
  cp (look3 K1 (stft_tab K1 (tw_tab K1 twl n (nlines n)) wf invm m step nch nseg (nlines n) (sig_of K1 Yl)) c s k)
  = stft K2 (tw_of K2 (map cp twl) n) w2 (phi invm) m step (sig_of K2 (map (map phi) Yl) c) s k.
Proof.
  intros Hc Hs Hk Hm Hw. rewrite (stft_tab_entry R1 K1) by assumption. rewrite hom_stft.
  apply stft_ext_all.
  - intros t Ht. rewrite (tw_tab_entry R1 K1) by (try assumption; lia). symmetry. apply tw_of_map.
  - exact Hw.
  - intros u. symmetry. apply sig_of_map.
Qed.

Theorem sd_per_x_transport twl wl invn1 fs n nov Ndat nall nref Yl Yrefl i j k :
  phi invn1 = odiv K2 (o1 K2) (ofnat K2 n) ->
  (i<nall)%nat -> (j<nref)%nat -> (k < nlines n)%nat ->
  ent3 R2 K2 (sd_per_x K1 K2 phi twl wl invn1 fs n nov Ndat nall nref Yl Yrefl) i j k
  = ent3 R2 K2 (sd_per_l K2 (map cp twl) (map phi wl) fs n nov Ndat nall nref (map (map phi) Yl) (map (map phi) Yrefl)) i j k.
Proof.
  intros Hinv Hi Hj Hk. rewrite (sd_per_l_entry R2 K2) by assumption.
  unfold ent3, sd_per_x. cbv zeta. rewrite nth_map_seq by assumption.
  rewrite (nth_tab2 (C R2)) by assumption. rewrite (lget_tab (C R2) (COps K2)) by assumption.
  rewrite hom_csd_of. unfold sd_per, pxy, csd_of, spec_of, coef_of.
  rewrite (csum_ext R2 K2 (nsegs Ndat n nov) _
     (fun s => cmul K2 (cconj K2 (stft K2 (tw_of K2 (map cp twl) n) (lget K2 (map phi wl)) (odiv K2 (o1 K2) (ofnat K2 n)) n (n - nov)
                                   (sig_of K2 (map (map phi) Yl) i) s k))
                       (stft K2 (tw_of K2 (map cp twl) n) (lget K2 (map phi wl)) (odiv K2 (o1 K2) (ofnat K2 n)) n (n - nov)
                                   (sig_of K2 (map (map phi) Yrefl) j) s k))).
  - rewrite hom_sumn.
    rewrite (sumn_ext R2 K2 n (fun t => phi (omul K1 (lget K1 wl t) (lget K1 wl t)))
               (fun t => omul K2 (lget K2 (map phi wl) t) (lget K2 (map phi wl) t)))
      by (intros t _; rewrite phi_mul, lget_map_phi; reflexivity).
    rewrite phi_1. apply c_eq; cbn; ring.
  - intros s Hs. rewrite <- Hinv.
    rewrite !(look3_transport twl (lget K1 wl) invn1 n (n - nov) _ (nsegs Ndat n nov) n _ (lget K2 (map phi wl)))
      by (try assumption; try lia; intros t _; symmetry; apply lget_map_phi).
    reflexivity.
Qed.

Lemma lget_map_len {A B} (KA:Ops A) (KB:Ops B) (f:A->B) (l:list A) k : (k < length l)%nat ->
  lget KB (map f l) k = f (lget KA l k).
Proof.
  intros Hk. unfold lget. rewrite nth_indep with (d' := f (o0 KA)) by (rewrite map_length; exact Hk). apply map_nth.
Qed.

Lemma some_inj_spectra {A} (x y:A) : Some x = Some y -> x = y.
Proof. intros H. injection H. auto. Qed.

Theorem sd_cor_x_transport twl wel invm1 invn1 n Ndat nall nref Yl Yrefl res resx i j k :
  phi invm1 = odiv K2 (o1 K2) (ofnat K2 (n/2)) -> phi invn1 = odiv K2 (o1 K2) (ofnat K2 n) ->
  sd_cor_l K2 (map cp twl) (map phi wel) n Ndat nall nref (map (map phi) Yl) (map (map phi) Yrefl) = Some res ->
  sd_cor_x K1 K2 phi twl wel invm1 invn1 n Ndat nall nref Yl Yrefl = Some resx ->
  (2 <= n)%nat -> (i<nall)%nat -> (j<nref)%nat -> (k < nlines n)%nat ->
  ent3 R2 K2 resx i j k = ent3 R2 K2 res i j k.
Proof.
  intros Hm1 Hn1 E1 E2 Hn Hi Hj Hk.
  destruct (sd_cor_l_entry R2 K2 _ _ _ _ _ _ _ _ res i j k E1 Hn Hi Hj Hk) as [He ->].
  unfold sd_cor_x in E2. rewrite He in E2. change (negb true) with false in E2. cbv iota zeta in E2. apply some_inj_spectra in E2. subst resx.
  assert (Hm : (n/2 <= n)%nat) by (apply Nat.div_le_upper_bound; lia).
  assert (Hkk : (k <= n/2)%nat) by (unfold nlines in Hk; lia).
  unfold ent3. rewrite !nth_map_seq by assumption.
  rewrite (lget_map_len (COps K1) (COps K2)) by (unfold cor_of_l; cbv zeta; rewrite tab_length; exact Hk).
  rewrite (cor_of_l_entry R1 K1 _ (tw_of K1 twl n)) by (try assumption; intros; apply (tw_tab_entry R1 K1); assumption).
  rewrite hom_cor_of. rewrite <- (cor_of_scal R2 K2 R2th _ _ _ _ _ _ _ _ (fun q => eq_refl)).
  rewrite Hn1. unfold sd_cor. apply cor_of_ext_all; try assumption.
  - intros q t _ _. symmetry. apply tw_of_map.
  - intros t _. symmetry. apply lget_map_phi.
  - intros q Hq. rewrite hom_csd_of. unfold pxy, csd_of, spec_of, coef_of.
    rewrite (csum_ext R2 K2 (nsegs Ndat (n/2) 0) _
       (fun s => cmul K2 (cconj K2 (stft K2 (tw_of K2 (map cp twl) n) (ones K2) (odiv K2 (o1 K2) (ofnat K2 (n/2))) (n/2) (n/2)
                                     (sig_of K2 (map (map phi) Yl) i) s q))
                         (stft K2 (tw_of K2 (map cp twl) n) (ones K2) (odiv K2 (o1 K2) (ofnat K2 (n/2))) (n/2) (n/2)
                                     (sig_of K2 (map (map phi) Yrefl) j) s q))).
    + rewrite phi_mul, hom_dbl, Hm1. apply c_eq; cbn; ring.
    + intros s Hs. rewrite <- Hm1.
      rewrite !(look3_transport twl (ones K1) invm1 (n/2) (n/2) _ (nsegs Ndat (n/2) 0) n _ (ones K2))
        by (try assumption; try (unfold nlines; lia); intros t _; exact phi_1).
      reflexivity.
Qed.
End Hom.

(* ---------- the scaling carrier may be changed afterwards by a homomorphism psi that also respects division ---------- *)
Section Post.
Variables (R1 R2 R3:Type) (K1:Ops R1) (K2:Ops R2) (K3:Ops R3) (phi:R1->R2) (psi:R2->R3).
Hypothesis psi_0 : psi (o0 K2) = o0 K3.
Hypothesis psi_1 : psi (o1 K2) = o1 K3.
Hypothesis psi_add : forall a b, psi (oadd K2 a b) = oadd K3 (psi a) (psi b).
Hypothesis psi_mul : forall a b, psi (omul K2 a b) = omul K3 (psi a) (psi b).
Hypothesis psi_div : forall a b, psi (odiv K2 a b) = odiv K3 (psi a) (psi b).

Lemma post_ofnat n : psi (ofnat K2 n) = ofnat K3 n.
Proof. unfold ofnat. induction n; cbn [sumn]; [exact psi_0|]. rewrite psi_add, IHn, psi_1. reflexivity. Qed.
Lemma post_dbl n k : psi (dbl K2 n k) = dbl K3 n k.
Proof. unfold dbl. destruct (k =? 0)%nat; [exact psi_1|]. destruct (Nat.even n && (k =? n/2)%nat); [exact psi_1|]. rewrite psi_add, psi_1. reflexivity. Qed.
Lemma post_cscal a (z:C R1) : cphi psi (cscal K2 a (cphi phi z)) = cscal K3 (psi a) (cphi (fun x => psi (phi x)) z).
Proof. unfold cphi, cscal. cbn. rewrite !psi_mul. reflexivity. Qed.

Theorem sd_per_x_post twl wl invn1 fs n nov Ndat nall nref Yl Yrefl i j k :
  (i<nall)%nat -> (j<nref)%nat -> (k < nlines n)%nat ->
  cphi psi (ent3 R2 K2 (sd_per_x K1 K2 phi twl wl invn1 fs n nov Ndat nall nref Yl Yrefl) i j k)
  = ent3 R3 K3 (sd_per_x K1 K3 (fun x => psi (phi x)) twl wl invn1 (psi fs) n nov Ndat nall nref Yl Yrefl) i j k.
Proof.
  intros Hi Hj Hk. unfold ent3, sd_per_x. cbv zeta. rewrite !nth_map_seq by assumption.
  rewrite (nth_tab2 (C R2)), (nth_tab2 (C R3)) by assumption.
  rewrite (lget_tab (C R2) (COps K2)), (lget_tab (C R3) (COps K3)) by assumption.
  rewrite post_cscal. f_equal. unfold coef_of.
  rewrite !psi_mul, post_dbl, !psi_div, psi_1, psi_mul, post_ofnat. reflexivity.
Qed.

Theorem sd_cor_x_post twl wel invm1 invn1 n Ndat nall nref Yl Yrefl res2 res3 i j k :
  sd_cor_x K1 K2 phi twl wel invm1 invn1 n Ndat nall nref Yl Yrefl = Some res2 ->
  sd_cor_x K1 K3 (fun x => psi (phi x)) twl wel invm1 invn1 n Ndat nall nref Yl Yrefl = Some res3 ->
  (i<nall)%nat -> (j<nref)%nat -> (k < nlines n)%nat ->
  cphi psi (ent3 R2 K2 res2 i j k) = ent3 R3 K3 res3 i j k.
Proof.
  unfold sd_cor_x. destruct (Nat.even n); [|discriminate]. change (negb true) with false. cbv iota zeta.
  intros E2 E3 Hi Hj Hk. apply some_inj_spectra in E2. apply some_inj_spectra in E3. subst res2 res3.
  unfold ent3. rewrite !nth_map_seq by assumption.
  rewrite (lget_map_len (COps K1) (COps K2)), (lget_map_len (COps K1) (COps K3))
    by (unfold cor_of_l; cbv zeta; rewrite tab_length; exact Hk).
  rewrite post_cscal. f_equal. rewrite psi_div, psi_1, post_ofnat. reflexivity.
Qed.
End Post.

(* ================= Part C: the dyadic big-integer carrier embeds homomorphically into the rationals =================
   The carrier DyOps of Model/M_spectra.v is restated over an ARBITRARY implementation T of the integers (operations
   add, mul, opp, shiftl, of_Z, zero, one and a reading toZ : T -> Z): DyOpsG / dy2qG below are the text of DyOps / dy2q
   with BigZ's operations replaced by variables, and DyOps = DyOpsG BigZ... holds by reflexivity (end of the file).
   Everything the proof needs is the specification of the seven operations through toZ; these are hypotheses (so the
   statements are closed under the global context and do not even mention Bignums); for T = bigZ they are Bignums' own
   lemmas BigZ.spec_* (which rest on the Uint63 primitive-integer axioms of Coq's standard library). *)
From Coq Require Import Qpower Zpower.
From Bignums Require Import BigZ.

Lemma Q2Qc_plus_h a b : Q2Qc (a + b) = (Q2Qc a + Q2Qc b)%Qc.
Proof. apply Qc_is_canon. unfold Qcplus, Q2Qc. cbn [this]. rewrite !Qred_correct. reflexivity. Qed.
Lemma Q2Qc_mult_h a b : Q2Qc (a * b) = (Q2Qc a * Q2Qc b)%Qc.
Proof. apply Qc_is_canon. unfold Qcmult, Q2Qc. cbn [this]. rewrite !Qred_correct. reflexivity. Qed.
Lemma Q2Qc_opp_h a : Q2Qc (- a) = (- Q2Qc a)%Qc.
Proof. apply Qc_is_canon. unfold Qcopp, Q2Qc. cbn [this]. rewrite !Qred_correct. reflexivity. Qed.
Lemma Q2Qc_minus_h a b : Q2Qc (a - b) = (Q2Qc a - Q2Qc b)%Qc.
Proof. unfold Qminus, Qcminus. rewrite Q2Qc_plus_h, Q2Qc_opp_h. reflexivity. Qed.
Lemma Q2Qc_div_h a b : Q2Qc (a / b) = (Q2Qc a / Q2Qc b)%Qc.
Proof. apply Qc_is_canon. unfold Qcdiv, Qcmult, Qcinv, Q2Qc, Qdiv. cbn [this]. rewrite !Qred_correct. reflexivity. Qed.

Section DySpec.
Variables (T:Type) (tadd tmul:T->T->T) (topp:T->T) (tshl:T->T->T) (tofZ:Z->T) (t0 t1:T) (toZ:T->Z).
Definition dyG := (T * Z)%type.
Definition dyG_add (x y:dyG) : dyG := let (m1,e1) := x in let (m2,e2) := y in
  match (e1 ?= e2)%Z with
  | Eq => (tadd m1 m2, e1)
  | Lt => (tadd (tshl m1 (tofZ (e2-e1))) m2, e2)
  | Gt => (tadd m1 (tshl m2 (tofZ (e1-e2))), e1)
  end.
Definition dyG_mul (x y:dyG) : dyG := (tmul (fst x) (fst y), (snd x + snd y)%Z).
Definition dyG_opp (x:dyG) : dyG := (topp (fst x), snd x).
Definition DyOpsG : Ops dyG :=
  {| o0 := (t0, 0%Z); o1 := (t1, 0%Z); oadd := dyG_add; omul := dyG_mul; osub := fun x y => dyG_add x (dyG_opp y);
     oopp := dyG_opp; odiv := fun x _ => x; oinv := fun x => x |}.
Definition dy2qG (x:dyG) : Q :=
  match snd x with
  | Zpos e => toZ (fst x) # Pos.shiftl 1 (Npos e)
  | Z0 => toZ (fst x) # 1
  | Zneg e => Z.shiftl (toZ (fst x)) (Zpos e) # 1
  end.
Local Notation "[ x ]" := (toZ x).
Hypothesis s_add : forall x y, [tadd x y] = ([x] + [y])%Z.
Hypothesis s_mul : forall x y, [tmul x y] = ([x] * [y])%Z.
Hypothesis s_opp : forall x, [topp x] = (- [x])%Z.
Hypothesis s_shiftl : forall x p, [tshl x p] = Z.shiftl [x] [p].
Hypothesis s_of_Z : forall z, [tofZ z] = z.
Hypothesis s_0 : [t0] = 0%Z.
Hypothesis s_1 : [t1] = 1%Z.

Definition two : Q := 2 # 1.
Lemma two_nz : ~ two == 0.
Proof. unfold two. intros H. discriminate H. Qed.
(* the value of a dyadic number: mantissa * 2^(-exponent) *)
Definition dyv (x:dyG) : Q := inject_Z [fst x] * two ^ (- snd x).

Lemma pow_inject e : (0 <= e)%Z -> inject_Z (2 ^ e) == two ^ e.
Proof. intros He. unfold two. rewrite (Zpower_Qpower 2 e He). reflexivity. Qed.
Lemma dy2q_value x : dy2qG x == dyv x.
Proof.
  destruct x as [m e]. unfold dy2qG, dyv. cbn [fst snd]. destruct e as [|e|e].
  - cbn. unfold inject_Z. ring.
  - rewrite Qmake_Qdiv. rewrite <- shift_pos_equiv, shift_pos_correct, Z.pow_pos_fold, Z.mul_1_r.
    rewrite (pow_inject (Z.pos e)) by lia. rewrite Qpower_opp. reflexivity.
  - rewrite Z.shiftl_mul_pow2 by lia. change (- Z.neg e)%Z with (Z.pos e). rewrite <- (pow_inject (Z.pos e)) by lia.
    rewrite <- inject_Z_mult. reflexivity.
Qed.

Lemma dyv_mul x y : dyv (dyG_mul x y) == dyv x * dyv y.
Proof.
  unfold dyv, dyG_mul. cbn [fst snd]. rewrite s_mul, inject_Z_mult, Z.opp_add_distr, (Qpower_plus two _ _ two_nz). ring.
Qed.
Lemma dyv_opp x : dyv (dyG_opp x) == - dyv x.
Proof. unfold dyv, dyG_opp. cbn [fst snd]. rewrite s_opp, inject_Z_opp. ring. Qed.
Lemma shift_value m p : (0 < p)%Z -> inject_Z [tshl m (tofZ p)] == inject_Z [m] * two ^ p.
Proof. intros Hp. rewrite s_shiftl, s_of_Z, Z.shiftl_mul_pow2 by lia. rewrite inject_Z_mult, (pow_inject p) by lia. reflexivity. Qed.
Lemma dyv_add x y : dyv (dyG_add x y) == dyv x + dyv y.
Proof.
  destruct x as [m1 e1], y as [m2 e2]. unfold dyG_add. destruct (Z.compare_spec e1 e2) as [E|E|E].
  - subst e2. unfold dyv. cbn [fst snd]. rewrite s_add, inject_Z_plus. ring.
  - unfold dyv. cbn [fst snd]. rewrite s_add, inject_Z_plus, shift_value by lia.
    assert (P : two ^ (- e1) == two ^ (e2 - e1) * two ^ (- e2)).
    { rewrite <- (Qpower_plus two _ _ two_nz). replace (e2 - e1 + - e2)%Z with (- e1)%Z by lia. reflexivity. }
    rewrite P. ring.
  - unfold dyv. cbn [fst snd]. rewrite s_add, inject_Z_plus, shift_value by lia.
    assert (P : two ^ (- e2) == two ^ (e1 - e2) * two ^ (- e1)).
    { rewrite <- (Qpower_plus two _ _ two_nz). replace (e1 - e2 + - e1)%Z with (- e2)%Z by lia. reflexivity. }
    rewrite P. ring.
Qed.

(* dy2qG respects the ring operations up to Qeq ... *)
Theorem dy2q_hom :
  dy2qG (o0 DyOpsG) == 0 /\ dy2qG (o1 DyOpsG) == 1 /\
  (forall x y, dy2qG (oadd DyOpsG x y) == dy2qG x + dy2qG y) /\
  (forall x y, dy2qG (omul DyOpsG x y) == dy2qG x * dy2qG y) /\
  (forall x y, dy2qG (osub DyOpsG x y) == dy2qG x - dy2qG y) /\
  (forall x, dy2qG (oopp DyOpsG x) == - dy2qG x).
Proof.
  cbn [o0 o1 oadd omul osub oopp DyOpsG].
  split; [unfold dy2qG; cbn [fst snd]; rewrite s_0; reflexivity|].
  split; [unfold dy2qG; cbn [fst snd]; rewrite s_1; reflexivity|].
  split; [intros x y; rewrite !dy2q_value; apply dyv_add|].
  split; [intros x y; rewrite !dy2q_value; apply dyv_mul|].
  split; [intros x y; rewrite !dy2q_value, dyv_add, dyv_opp; ring|].
  intros x; rewrite !dy2q_value; apply dyv_opp.
Qed.

(* ... hence dq = Q2Qc o dy2qG is a ring homomorphism DyOpsG -> QcOps for Leibniz equality *)
Definition dq (x:dyG) : Qc := Q2Qc (dy2qG x).
Lemma dq_0 : dq (o0 DyOpsG) = o0 QcOps.
Proof. apply Qc_is_canon. cbn -[dy2qG]. rewrite Qred_correct. apply dy2q_hom. Qed.
Lemma dq_1 : dq (o1 DyOpsG) = o1 QcOps.
Proof. apply Qc_is_canon. cbn -[dy2qG]. rewrite Qred_correct. apply dy2q_hom. Qed.
Lemma dq_add x y : dq (oadd DyOpsG x y) = oadd QcOps (dq x) (dq y).
Proof. unfold dq. cbn [oadd QcOps]. rewrite <- Q2Qc_plus_h. apply Q2Qc_eq_iff. apply dy2q_hom. Qed.
Lemma dq_mul x y : dq (omul DyOpsG x y) = omul QcOps (dq x) (dq y).
Proof. unfold dq. cbn [omul QcOps]. rewrite <- Q2Qc_mult_h. apply Q2Qc_eq_iff. apply dy2q_hom. Qed.
Lemma dq_sub x y : dq (osub DyOpsG x y) = osub QcOps (dq x) (dq y).
Proof. unfold dq. cbn [osub QcOps]. rewrite <- Q2Qc_minus_h. apply Q2Qc_eq_iff. apply dy2q_hom. Qed.
Lemma dq_opp x : dq (oopp DyOpsG x) = oopp QcOps (dq x).
Proof. unfold dq. cbn [oopp QcOps]. rewrite <- Q2Qc_opp_h. apply Q2Qc_eq_iff. apply dy2q_hom. Qed.

(* the evaluator the harness runs (sums over exact dyadics, scaling over plain Q), read in Qc, IS the one-carrier model
   over Qc of the embedded inputs *)
Theorem sd_per_x_dyadic twl wl invn1 (fs:Q) n nov Ndat nall nref Yl Yrefl i j k :
  dq invn1 = odiv QcOps (o1 QcOps) (ofnat QcOps n) ->
  (i<nall)%nat -> (j<nref)%nat -> (k < nlines n)%nat ->
  cphi Q2Qc (ent3 Q QOps_spectra (sd_per_x DyOpsG QOps_spectra dy2qG twl wl invn1 fs n nov Ndat nall nref Yl Yrefl) i j k)
  = ent3 Qc QcOps (sd_per_l QcOps (map (cphi dq) twl) (map dq wl) (Q2Qc fs) n nov Ndat nall nref
                     (map (map dq) Yl) (map (map dq) Yrefl)) i j k.
Proof.
  intros Hinv Hi Hj Hk.
  rewrite (sd_per_x_post dyG Q Qc DyOpsG QOps_spectra QcOps dy2qG Q2Qc eq_refl eq_refl Q2Qc_plus_h Q2Qc_mult_h Q2Qc_div_h)
    by assumption.
  apply (sd_per_x_transport dyG Qc DyOpsG QcOps dq QcRth dq_0 dq_1 dq_add dq_mul dq_sub dq_opp); assumption.
Qed.
Theorem sd_cor_x_dyadic twl wel invm1 invn1 n Ndat nall nref Yl Yrefl res resx i j k :
  dq invm1 = odiv QcOps (o1 QcOps) (ofnat QcOps (n/2)) -> dq invn1 = odiv QcOps (o1 QcOps) (ofnat QcOps n) ->
  sd_cor_l QcOps (map (cphi dq) twl) (map dq wel) n Ndat nall nref (map (map dq) Yl) (map (map dq) Yrefl) = Some res ->
  sd_cor_x DyOpsG QOps_spectra dy2qG twl wel invm1 invn1 n Ndat nall nref Yl Yrefl = Some resx ->
  (2 <= n)%nat -> (i<nall)%nat -> (j<nref)%nat -> (k < nlines n)%nat ->
  cphi Q2Qc (ent3 Q QOps_spectra resx i j k) = ent3 Qc QcOps res i j k.
Proof.
  intros Hm1 Hn1 E1 E2 Hn Hi Hj Hk.
  destruct (sd_cor_x DyOpsG QcOps (fun x => Q2Qc (dy2qG x)) twl wel invm1 invn1 n Ndat nall nref Yl Yrefl) as [resc|] eqn:E3.
  - rewrite (sd_cor_x_post dyG Q Qc DyOpsG QOps_spectra QcOps dy2qG Q2Qc eq_refl eq_refl Q2Qc_plus_h Q2Qc_mult_h Q2Qc_div_h
               twl wel invm1 invn1 n Ndat nall nref Yl Yrefl resx resc i j k E2 E3 Hi Hj Hk).
    apply (sd_cor_x_transport dyG Qc DyOpsG QcOps dq QcRth dq_0 dq_1 dq_add dq_mul dq_sub dq_opp
             twl wel invm1 invn1 n Ndat nall nref Yl Yrefl res resc i j k Hm1 Hn1 E1 E3 Hn Hi Hj Hk).
  - exfalso. unfold sd_cor_x in E2, E3. destruct (Nat.even n); cbn [negb] in E2, E3; discriminate.
Qed.
End DySpec.

(* the model's carrier is the instance T = bigZ, and its hypotheses are Bignums' specification lemmas (these corollaries, and
   only these, mention Bignums: Print Assumptions lists the Uint63 primitives and their specification axioms for them) *)
Lemma DyOps_is_generic : DyOps = DyOpsG bigZ BigZ.add BigZ.mul BigZ.opp BigZ.shiftl BigZ.of_Z BigZ.zero BigZ.one.
Proof. reflexivity. Qed.
Lemma dy2q_is_generic : dy2q = dy2qG bigZ BigZ.to_Z.
Proof. reflexivity. Qed.
Definition dq_bigz : dy -> Qc := dq bigZ BigZ.to_Z.
Corollary sd_per_x_bigz twl wl invn1 (fs:Q) n nov Ndat nall nref Yl Yrefl i j k :
  dq_bigz invn1 = odiv QcOps (o1 QcOps) (ofnat QcOps n) ->
  (i<nall)%nat -> (j<nref)%nat -> (k < nlines n)%nat ->
  cphi Q2Qc (ent3 Q QOps_spectra (sd_per_x DyOps QOps_spectra dy2q twl wl invn1 fs n nov Ndat nall nref Yl Yrefl) i j k)
  = ent3 Qc QcOps (sd_per_l QcOps (map (cphi dq_bigz) twl) (map dq_bigz wl) (Q2Qc fs) n nov Ndat nall nref
                     (map (map dq_bigz) Yl) (map (map dq_bigz) Yrefl)) i j k.
Proof.
  exact (sd_per_x_dyadic bigZ BigZ.add BigZ.mul BigZ.opp BigZ.shiftl BigZ.of_Z BigZ.zero BigZ.one BigZ.to_Z
           BigZ.spec_add BigZ.spec_mul BigZ.spec_opp BigZ.spec_shiftl BigZ.spec_of_Z BigZ.spec_0 BigZ.spec_1
           twl wl invn1 fs n nov Ndat nall nref Yl Yrefl i j k).
Qed.
Corollary sd_cor_x_bigz twl wel invm1 invn1 n Ndat nall nref Yl Yrefl res resx i j k :
  dq_bigz invm1 = odiv QcOps (o1 QcOps) (ofnat QcOps (n/2)) -> dq_bigz invn1 = odiv QcOps (o1 QcOps) (ofnat QcOps n) ->
  sd_cor_l QcOps (map (cphi dq_bigz) twl) (map dq_bigz wel) n Ndat nall nref (map (map dq_bigz) Yl) (map (map dq_bigz) Yrefl) = Some res ->
  sd_cor_x DyOps QOps_spectra dy2q twl wel invm1 invn1 n Ndat nall nref Yl Yrefl = Some resx ->
  (2 <= n)%nat -> (i<nall)%nat -> (j<nref)%nat -> (k < nlines n)%nat ->
  cphi Q2Qc (ent3 Q QOps_spectra resx i j k) = ent3 Qc QcOps res i j k.
Proof.
  exact (sd_cor_x_dyadic bigZ BigZ.add BigZ.mul BigZ.opp BigZ.shiftl BigZ.of_Z BigZ.zero BigZ.one BigZ.to_Z
           BigZ.spec_add BigZ.spec_mul BigZ.spec_opp BigZ.spec_shiftl BigZ.spec_of_Z BigZ.spec_0 BigZ.spec_1
           twl wel invm1 invn1 n Ndat nall nref Yl Yrefl res resx i j k).
Qed.
