(* C08 - independence from the decomposition the SVD kernel returns on NOISY, FULL-RANK data, and the covariance of the
   covariance-driven SSI pipeline in that case (no exact-rank hypothesis, no "true" system).

   Built on Base/Dim.v (dimension theory over a field with decidable equality):
     full_statement_refuted      the statement "a gap of the singular VALUES makes the retained singular subspace unique" is
                                 FALSE on a generic field (H = diag(1,-1) over Qc, a 3-4-5 rotation): the contract as modelled
                                 does not say that singular values are non-negative;
     svd_subspace_unique_c08     the repaired statement: a gap of the SQUARED values (retained of one decomposition against
                                 discarded of the other) and non-zero retained values;
     sv_gap_of_values / sv_gap_of_threshold / svd_subspace_unique_nonneg / _threshold / _R
                                 on an ordered carrier with NON-NEGATIVE singular values (numpy's contract) a gap of the values
                                 gives the gap of the squares;
     lsq_transport               the least-squares solve (pinv, or the QR solve R^-1 Q^T): L M = I and L = X M^T.  For
                                 M' = P M T (P with orthonormal columns, T invertible) the solve of M' is Ti L P^T;
     noisy_similar               hence the identified pair of run 2 is similar to the one of run 1;
     pipeline_*_noisy            hence the same poles (Permutation), one partner per mode, proportional shapes, identical
                                 unity-normalised shapes - for two arbitrary decompositions of the same matrix, for a common
                                 gain, for an orthogonal channel mixing and for a channel permutation; also on the data.
   Kernels are universally quantified under their contracts, as in P_covar_pipeline.v. *)
From Coq Require Import List Arith Lia Ring Field Setoid Morphisms Permutation Bool ZArith QArith Qcanon.
From PyOMA.Base Require Import Carrier FMat Cplx EigCount Dim Show.
From PyOMA.Model Require Import M_hankel M_covar M_realise.
From PyOMA.Proofs Require Import P_hankel P_covar P_realise P_eigcount_c01 P_covar_pipeline.
Import ListNotations.

(* ================= (1) the statement with a gap on the VALUES is false on a generic field ================= *)
Definition svd_value_gap_statement : Prop :=
  forall (R:Type) (K:Ops R),
  field_theory (o0 K) (o1 K) (oadd K) (omul K) (osub K) (oopp K) (odiv K) (oinv K) (@eq R) ->
  forall m n ord (H U:fmat R) S (V U2:fmat R) S2 (V2:fmat R),
  (ord <= n)%nat -> (n <= m)%nat ->
  svd_contract K m n n H U S V -> svd_contract K m n n H U2 S2 V2 ->
  (forall i, (i < ord)%nat -> S i = S2 i) ->
  (forall i j, (i < ord)%nat -> (ord <= j < n)%nat -> S i <> S j /\ S2 i <> S2 j) ->
  exists T Ti:fmat R, feq ord ord (fmul K ord T Ti) (fid K) /\ feq m ord U2 (fmul K ord U T).

Theorem full_statement_refuted : ~ svd_value_gap_statement.
Proof.
  intros Hst. destruct dim_example_svd_sign as (C1 & C2 & Hne & Hno).
  destruct (Hst Qc QcOps QcFth 2%nat 2%nat 1%nat ex_dim_H ex_dim_I ex_dim_S ex_dim_I ex_dim_U2 ex_dim_S ex_dim_V2) as (T & Ti & _ & E).
  - lia.
  - lia.
  - exact C1.
  - exact C2.
  - intros i _. reflexivity.
  - intros i j Hi Hj. assert (i = 0%nat) by lia. assert (j = 1%nat) by lia. subst i j.
    split; exact Hne.
  - apply Hno. exists T. exact E.
Qed.

(* ================= (2) the repaired statement, (3) from a value gap on an ordered carrier ================= *)
Section Gap.
Variable R:Type. Variable K:Ops R.
Hypothesis Fth : field_theory (o0 K) (o1 K) (oadd K) (omul K) (osub K) (oopp K) (odiv K) (oinv K) (@eq R).
Add Field FfGap : Fth.
Local Open Scope K_scope.
Notation "0" := (o0 K) : K_scope. Notation "1" := (o1 K) : K_scope.
Infix "+" := (oadd K) : K_scope. Infix "*" := (omul K) : K_scope. Infix "/" := (odiv K) : K_scope.
Notation fm := (fmul K). Notation fI := (fid K).

(* the order [ord] separates the retained from the discarded singular values of the two decompositions: squares of retained
   values of either differ from squares of discarded values of the other; retained values are non-zero *)
Definition sv_gap_sq (n ord:nat) (S S2:nat -> R) : Prop :=
  (forall a b, (a < ord)%nat -> (ord <= b < n)%nat -> S a * S a <> S2 b * S2 b /\ S2 a * S2 a <> S b * S b) /\
  (forall a, (a < ord)%nat -> S a <> 0 /\ S2 a <> 0).

Theorem svd_subspace_unique_c08 (Rdec:forall x y:R, {x = y} + {x <> y}) :
  forall m n ord (H U:fmat R) S (V U2:fmat R) S2 (V2:fmat R),
  (ord <= n)%nat ->
  svd_contract K m n n H U S V -> svd_contract K m n n H U2 S2 V2 ->
  (forall a b, (a < ord)%nat -> (ord <= b < n)%nat -> S a * S a <> S2 b * S2 b /\ S2 a * S2 a <> S b * S b) ->
  (forall a, (a < ord)%nat -> S a <> 0 /\ S2 a <> 0) ->
  exists T Ti:fmat R, feq ord ord (fm ord T Ti) fI /\ feq ord ord (fm ord Ti T) fI /\ feq m ord U2 (fm ord U T).
Proof. exact (svd_subspace_unique R K Fth Rdec). Qed.

(* ---- an ordered carrier, in the style of Section PU of P_covar.v: a boolean strict order with four facts ---- *)
Variable ltb : R -> R -> bool.
Hypothesis lt_irrefl : forall a, ltb a a = false.
Hypothesis lt_trans : forall a b c, ltb a b = true -> ltb b c = true -> ltb a c = true.
Hypothesis lt_tricho : forall a b, ltb a b = false -> ltb b a = false -> a = b.
Hypothesis lt_mul_pos : forall c a b, ltb 0 c = true -> ltb (c*a) (c*b) = ltb a b.

Lemma gap_pos_of_lt x y : ltb x 0 = false -> ltb x y = true -> ltb 0 y = true.
Proof.
  intros Hx Hxy. destruct (ltb 0 x) eqn:E0.
  - apply (lt_trans 0 x y E0 Hxy).
  - rewrite <- (lt_tricho x 0 Hx E0). exact Hxy.
Qed.
Lemma gap_sq_lt x y : ltb x 0 = false -> ltb x y = true -> ltb (x*x) (y*y) = true.
Proof.
  intros Hx Hxy. pose proof (gap_pos_of_lt x y Hx Hxy) as Hy.
  assert (E2: ltb (y*x) (y*y) = true) by (rewrite (lt_mul_pos y x y Hy); exact Hxy).
  destruct (ltb 0 x) eqn:E0.
  - assert (E1: ltb (x*x) (x*y) = true) by (rewrite (lt_mul_pos x x y E0); exact Hxy).
    replace (x*y) with (y*x) in E1 by ring. apply (lt_trans _ _ _ E1 E2).
  - pose proof (lt_tricho x 0 Hx E0) as Ex. rewrite Ex. rewrite Ex in E2.
    replace (0*0) with (y*0) by ring. exact E2.
Qed.
Lemma gap_sq_ne_lt x y : ltb x 0 = false -> ltb x y = true -> x*x <> y*y /\ y*y <> x*x.
Proof.
  intros Hx Hxy. pose proof (gap_sq_lt x y Hx Hxy) as E.
  split; intros E1; rewrite E1 in E; rewrite lt_irrefl in E; discriminate E.
Qed.
(* non-negative values that differ have different squares *)
Lemma gap_sq_ne x y : ltb x 0 = false -> ltb y 0 = false -> x <> y -> x*x <> y*y.
Proof.
  intros Hx Hy Hne. destruct (ltb x y) eqn:E1; [apply (gap_sq_ne_lt x y Hx E1)|].
  destruct (ltb y x) eqn:E2; [apply (gap_sq_ne_lt y x Hy E2)|].
  exfalso. apply Hne. apply lt_tricho; assumption.
Qed.

(* the hypotheses of the refuted statement PLUS numpy's contract (singular values are non-negative) and full rank on the
   retained part *)
Definition sv_gap_values (n ord:nat) (S S2:nat -> R) : Prop :=
  (forall i, (i < n)%nat -> ltb (S i) 0 = false /\ ltb (S2 i) 0 = false) /\
  (forall i, (i < ord)%nat -> S i = S2 i /\ S i <> 0) /\
  (forall i j, (i < ord)%nat -> (ord <= j < n)%nat -> S i <> S j /\ S2 i <> S2 j).
(* a threshold tau >= 0 separates retained (> tau) from discarded (in [0, tau]) values of both decompositions; with
   numpy's sorted non-negative values: tau = S[ord] *)
Definition sv_gap_threshold (n ord:nat) (S S2:nat -> R) : Prop :=
  exists tau, ltb tau 0 = false /\
    (forall a, (a < ord)%nat -> ltb tau (S a) = true /\ ltb tau (S2 a) = true) /\
    (forall b, (ord <= b < n)%nat -> ltb (S b) 0 = false /\ ltb tau (S b) = false /\ ltb (S2 b) 0 = false /\ ltb tau (S2 b) = false).

Lemma sv_gap_of_values n ord S S2 : (ord <= n)%nat -> sv_gap_values n ord S S2 -> sv_gap_sq n ord S S2.
Proof.
  intros Hord (Hnn & Heq & Hgap). split.
  - intros a b Ha Hb. destruct (Heq a Ha) as [Ea _]. destruct (Hgap a b Ha Hb) as [G1 G2].
    destruct (Hnn a ltac:(lia)) as [Na Na2]. destruct (Hnn b ltac:(lia)) as [Nb Nb2]. split.
    + apply gap_sq_ne; [exact Na|exact Nb2|]. rewrite Ea. exact G2.
    + apply gap_sq_ne; [exact Na2|exact Nb|]. rewrite <- Ea. exact G1.
  - intros a Ha. destruct (Heq a Ha) as [Ea Hnz]. split; [exact Hnz|rewrite <- Ea; exact Hnz].
Qed.

Lemma gap_le_lt_trans x t y : ltb t x = false -> ltb t y = true -> ltb x y = true.
Proof.
  intros Hx Hy. destruct (ltb x t) eqn:E; [apply (lt_trans x t y E Hy)|].
  rewrite (lt_tricho x t E Hx). exact Hy.
Qed.
Lemma sv_gap_of_threshold n ord S S2 : sv_gap_threshold n ord S S2 -> sv_gap_sq n ord S S2.
Proof.
  intros (tau & Ht & Hret & Hdis). split.
  - intros a b Ha Hb. destruct (Hret a Ha) as [R1 R2]. destruct (Hdis b Hb) as (D1 & D2 & D3 & D4). split.
    + apply (gap_sq_ne_lt (S2 b) (S a) D3). apply (gap_le_lt_trans (S2 b) tau (S a) D4 R1).
    + apply (gap_sq_ne_lt (S b) (S2 a) D1). apply (gap_le_lt_trans (S b) tau (S2 a) D2 R2).
  - intros a Ha. destruct (Hret a Ha) as [R1 R2].
    split; intros E; [rewrite E in R1|rewrite E in R2]; congruence.
Qed.

(* equality of the carrier is decided by the order *)
Definition gap_Rdec (x y:R) : {x = y} + {x <> y}.
Proof.
  destruct (ltb x y) eqn:E1; [right; intros ->; rewrite lt_irrefl in E1; discriminate|].
  destruct (ltb y x) eqn:E2; [right; intros ->; rewrite lt_irrefl in E2; discriminate|].
  left. apply lt_tricho; assumption.
Defined.

Theorem svd_subspace_unique_nonneg :
  forall m n ord (H U:fmat R) S (V U2:fmat R) S2 (V2:fmat R),
  (ord <= n)%nat ->
  svd_contract K m n n H U S V -> svd_contract K m n n H U2 S2 V2 ->
  (forall i, (i < n)%nat -> ltb (S i) 0 = false /\ ltb (S2 i) 0 = false) ->
  (forall i, (i < ord)%nat -> S i = S2 i /\ S i <> 0) ->
  (forall i j, (i < ord)%nat -> (ord <= j < n)%nat -> S i <> S j /\ S2 i <> S2 j) ->
  exists T Ti:fmat R, feq ord ord (fm ord T Ti) fI /\ feq ord ord (fm ord Ti T) fI /\ feq m ord U2 (fm ord U T).
Proof.
  intros m n ord H U S V U2 S2 V2 Hord C1 C2 Hnn Heq Hgap.
  destruct (sv_gap_of_values n ord S S2 Hord (conj Hnn (conj Heq Hgap))) as [G1 G2].
  exact (svd_subspace_unique R K Fth gap_Rdec m n ord H U S V U2 S2 V2 Hord C1 C2 G1 G2).
Qed.

Theorem svd_subspace_unique_threshold :
  forall m n ord (H U:fmat R) S (V U2:fmat R) S2 (V2:fmat R) (tau:R),
  (ord <= n)%nat ->
  svd_contract K m n n H U S V -> svd_contract K m n n H U2 S2 V2 ->
  ltb tau 0 = false ->
  (forall a, (a < ord)%nat -> ltb tau (S a) = true /\ ltb tau (S2 a) = true) ->
  (forall b, (ord <= b < n)%nat -> ltb (S b) 0 = false /\ ltb tau (S b) = false /\ ltb (S2 b) 0 = false /\ ltb tau (S2 b) = false) ->
  exists T Ti:fmat R, feq ord ord (fm ord T Ti) fI /\ feq ord ord (fm ord Ti T) fI /\ feq m ord U2 (fm ord U T).
Proof.
  intros m n ord H U S V U2 S2 V2 tau Hord C1 C2 Ht Hret Hdis.
  destruct (sv_gap_of_threshold n ord S S2 (ex_intro _ tau (conj Ht (conj Hret Hdis)))) as [G1 G2].
  exact (svd_subspace_unique R K Fth gap_Rdec m n ord H U S V U2 S2 V2 Hord C1 C2 G1 G2).
Qed.
End Gap.

(* ================= (4) the least-squares solve and the realisation under a change of basis ================= *)
Section Core.
Variable R:Type. Variable K:Ops R.
Hypothesis Fth : field_theory (o0 K) (o1 K) (oadd K) (omul K) (osub K) (oopp K) (odiv K) (oinv K) (@eq R).
Hypothesis Rdec : forall x y:R, {x = y} + {x <> y}.
Add Field FfCore : Fth.
Local Open Scope K_scope.
Notation "0" := (o0 K) : K_scope. Notation "1" := (o1 K) : K_scope.
Infix "+" := (oadd K) : K_scope. Infix "*" := (omul K) : K_scope. Infix "/" := (odiv K) : K_scope.
Notation fm := (fmul K). Notation fI := (fid K).
Let Rth : ring_theory 0 1 (oadd K) (omul K) (osub K) (oopp K) (@eq R) := F_R Fth.
Let assoc := fmul_assoc R K Rth.
Let idl := fmul_id_l R K Rth.
Let idr := fmul_id_r R K Rth.

(* what np.linalg.pinv(M) (ssi.SSI: full column rank, pinv(M) = (M^T M)^-1 M^T) and the QR solve inv(R) Q^T of
   ssi.SSI_fast (M = Q R, inv(R) Q^T = (inv(R) inv(R)^T) M^T) return for a p x n matrix M of full column rank: a left inverse
   whose rows lie in the row space of M^T.  (A left inverse ALONE would not do on noisy data: different left inverses give
   different state matrices when M[l:] is not in the column space of M[:-l].) *)
Definition lsq_inv (p n:nat) (L M:fmat R) : Prop :=
  feq n n (fm p L M) fI /\ exists X:fmat R, feq n p L (fm n X (ftr M)).

Lemma lsq_transport p n (M M' P T Ti L L':fmat R) :
  feq p p (fm p (ftr P) P) fI -> feq n n (fm n T Ti) fI ->
  feq p n M' (fm n (fm p P M) T) ->
  lsq_inv p n L M -> lsq_inv p n L' M' ->
  feq n p L' (fm n Ti (fm p L (ftr P))).
Proof.
  intros HP HT HM' (HL & X & HX) (HL' & X' & HX').
  set (G := fm p (ftr M) M). set (N := fm p (ftr M) (ftr P)). set (Y := fm n X' (ftr T)).
  assert (XG: feq n n (fm n X G) fI).
  { unfold G. rewrite <- (assoc n n p n X (ftr M) M). rewrite <- HX. exact HL. }
  pose proof (left_inv_is_right_inv R K Fth Rdec n G X XG) as GX.
  assert (Etr: feq n p (ftr M') (fm n (ftr T) N)).
  { transitivity (ftr (fm n (fm p P M) T)); [intros i j Hi Hj; unfold ftr; apply HM'; assumption|].
    rewrite (ftr_fmul R K Rth p n n (fm p P M) T). unfold N. rewrite (ftr_fmul R K Rth p p n P M). reflexivity. }
  assert (EL': feq n p L' (fm n Y N)).
  { rewrite HX'. rewrite Etr. unfold Y. symmetry. apply (assoc n n n p X' (ftr T) N). }
  assert (E1: feq n n (fm p N (fm p P M)) G).
  { unfold N, G. rewrite (assoc n p p n (ftr M) (ftr P) (fm p P M)).
    rewrite <- (assoc p p p n (ftr P) P M). rewrite HP. rewrite (idl p n M). reflexivity. }
  assert (YGT: feq n n (fm n (fm n Y G) T) fI).
  { rewrite <- HL'. rewrite EL'. rewrite HM'.
    rewrite (assoc n n p n Y N (fm n (fm p P M) T)). rewrite <- (assoc n p n n N (fm p P M) T). rewrite E1.
    apply (assoc n n n n Y G T). }
  assert (YG: feq n n (fm n Y G) Ti).
  { rewrite <- (idr n n (fm n Y G)). rewrite <- HT. rewrite <- (assoc n n n n (fm n Y G) T Ti). rewrite YGT. apply idl. }
  assert (EY: feq n n Y (fm n Ti X)).
  { rewrite <- (idr n n Y). rewrite <- GX. rewrite <- (assoc n n n n Y G X). rewrite YG. reflexivity. }
  rewrite EL'. rewrite EY. rewrite (assoc n n n p Ti X N). rewrite HX. unfold N.
  rewrite (assoc n n p p X (ftr M) (ftr P)). reflexivity.
Qed.

(* the identified pair of run 2 (Oup' = Pp Oup T, Odn' = Pp Odn T, first block Cb' = Q Cb T) is similar to (A_1, Q C_1) *)
Theorem noisy_similar p l n (Oup Odn Cb Oup' Odn' Cb' Pp Q T Ti L L':fmat R) :
  feq p p (fm p (ftr Pp) Pp) fI -> feq n n (fm n T Ti) fI -> feq n n (fm n Ti T) fI ->
  feq p n Oup' (fm n (fm p Pp Oup) T) -> feq p n Odn' (fm n (fm p Pp Odn) T) -> feq l n Cb' (fm n (fm l Q Cb) T) ->
  lsq_inv p n L Oup -> lsq_inv p n L' Oup' ->
  similar_pair R K l n (fm p L Odn) (fm l Q Cb) (fm p L' Odn') Cb' T Ti.
Proof.
  intros HP HT HT' Hup Hdn HC HL HL'.
  pose proof (lsq_transport p n Oup Oup' Pp T Ti L L' HP HT Hup HL HL') as EL.
  unfold similar_pair. split; [exact HT|]. split; [exact HT'|]. split; [|exact HC].
  rewrite EL. rewrite Hdn.
  rewrite (assoc n n p n Ti (fm p L (ftr Pp)) (fm n (fm p Pp Odn) T)).
  rewrite (assoc n p p n L (ftr Pp) (fm n (fm p Pp Odn) T)).
  rewrite <- (assoc p p n n (ftr Pp) (fm p Pp Odn) T).
  rewrite <- (assoc p p p n (ftr Pp) Pp Odn). rewrite HP. rewrite (idl p n Odn).
  rewrite <- (assoc n p n n L Odn T). reflexivity.
Qed.

(* U' = U T0 on the first n columns, invertible column scalings sq, sq': Obs' = Obs T with T = diag(sq)^-1 T0 diag(sq') *)
Lemma obs_change_of_basis m n (U U' T0 T0i:fmat R) (sq sq':nat -> R) :
  feq n n (fm n T0 T0i) fI -> feq n n (fm n T0i T0) fI -> feq m n U' (fm n U T0) ->
  (forall j, (j < n)%nat -> sq j <> 0 /\ sq' j <> 0) ->
  exists T Ti:fmat R, feq n n (fm n T Ti) fI /\ feq n n (fm n Ti T) fI /\
    feq m n (cv_obs K U' sq') (fm n (cv_obs K U sq) T).
Proof.
  intros H1 H2 HU Hnz.
  assert (Hs: forall j, (j < n)%nat -> sq j <> 0) by (intros j Hj; apply (Hnz j Hj)).
  assert (Hs': forall j, (j < n)%nat -> sq' j <> 0) by (intros j Hj; apply (Hnz j Hj)).
  exists (fun i j => (1 / sq i) * T0 i j * sq' j), (fun i j => (1 / sq' i) * T0i i j * sq j).
  split; [|split].
  - intros i k Hi Hk. unfold fmul.
    rewrite (sumn_ext R K n _ (fun j => ((1 / sq i) * sq k) * (T0 i j * T0i j k))).
    2:{ intros j Hj. field. auto. }
    rewrite (sumn_scal R K Rth). pose proof (H1 i k Hi Hk) as E. unfold fmul in E. rewrite E. unfold fid.
    destruct (Nat.eqb_spec i k) as [->|Hne]; field; auto.
  - intros i k Hi Hk. unfold fmul.
    rewrite (sumn_ext R K n _ (fun j => ((1 / sq' i) * sq' k) * (T0i i j * T0 j k))).
    2:{ intros j Hj. field. auto. }
    rewrite (sumn_scal R K Rth). pose proof (H2 i k Hi Hk) as E. unfold fmul in E. rewrite E. unfold fid.
    destruct (Nat.eqb_spec i k) as [->|Hne]; field; auto.
  - intros a j Ha Hj. unfold cv_obs. rewrite (HU a j Ha Hj). unfold fmul.
    rewrite <- (sumn_scal_r R K Rth). apply sumn_ext. intros i Hi. field. auto.
Qed.
End Core.

(* ================= the composed statements on noisy data ================= *)
Section NP.
Variable R:Type. Variable K:Ops R.
Hypothesis Fth : field_theory (o0 K) (o1 K) (oadd K) (omul K) (osub K) (oopp K) (odiv K) (oinv K) (@eq R).
Hypothesis Hreal : forall a b:R, oadd K (omul K a a) (omul K b b) = o0 K -> a = o0 K.
Variable ltb : R -> R -> bool.
Hypothesis lt_irrefl : forall a, ltb a a = false.
Hypothesis lt_trans : forall a b c, ltb a b = true -> ltb b c = true -> ltb a c = true.
Hypothesis lt_tricho : forall a b, ltb a b = false -> ltb b a = false -> a = b.
Hypothesis lt_mul_pos : forall c a b, ltb (o0 K) c = true -> ltb (omul K c a) (omul K c b) = ltb a b.
Hypothesis sq_nonneg : forall a b, ltb (oadd K (omul K a a) (omul K b b)) (o0 K) = false.
Let Rth := F_R Fth.
Add Field FfNP : Fth.
Notation KC := (COps K).
Let CRt := CRth R K Rth.
Add Ring RrNPc : CRt.
Notation fmc := (fmul KC).
Notation cemb := (cemb R K).
Notation unorm := (cv_unity_norm K ltb).
Local Open Scope K_scope.
Notation "0" := (o0 K) : K_scope. Notation "1" := (o1 K) : K_scope.
Infix "+" := (oadd K) : K_scope. Infix "*" := (omul K) : K_scope. Infix "/" := (odiv K) : K_scope.
Notation fm := (fmul K). Notation fI := (fid K).
Let assoc := fmul_assoc R K Rth.
Let idl := fmul_id_l R K Rth.
Let idr := fmul_id_r R K Rth.
Let Rdec : forall x y:R, {x = y} + {x <> y} := Rdec_ltb R ltb lt_irrefl lt_tricho.

(* one run on noisy data at order [ord]: ANY full decomposition meeting the contract, ANY square roots of the retained
   singular values, the least-squares solve of the shift equation *)
Definition noisy_run (rows cols l ord:nat) (H U:fmat R) (S:nat -> R) (V L:fmat R) (sq:nat -> R) : Prop :=
  svd_contract K rows cols cols H U S V /\
  (forall j, (j < ord)%nat -> sq j * sq j = S j) /\
  lsq_inv R K (rows - l) ord L (cv_obs K U sq).

(* two runs (on H and on H') with their eigen-solver outputs; the poles of run 1 are pairwise different *)
Definition two_runs_noisy (rows cols l ord:nat) (H H':fmat R)
    (U V L:fmat R) (S sq:nat -> R) (U' V' L':fmat R) (S' sq':nat -> R)
    (Vv W Vv' W':fmat (C R)) (d d':nat -> C R) : Prop :=
  noisy_run rows cols l ord H U S V L sq /\ noisy_run rows cols l ord H' U' S' V' L' sq' /\
  eig_run R K ord (ident_A R K rows l L U sq) Vv W d /\
  eig_run R K ord (ident_A R K rows l L' U' sq') Vv' W' d' /\
  (forall i j, (i < ord)%nat -> (j < ord)%nat -> i <> j -> d i <> d j).

Lemma two_runs_noisy_ext rows cols l ord (H H' H2:fmat R) U V L S sq U' V' L' S' sq' Vv W Vv' W' d d' :
  feq rows cols H' H2 ->
  two_runs_noisy rows cols l ord H H' U V L S sq U' V' L' S' sq' Vv W Vv' W' d d' ->
  two_runs_noisy rows cols l ord H H2 U V L S sq U' V' L' S' sq' Vv W Vv' W' d d'.
Proof.
  intros E (H1 & ((S1 & S2 & S3) & Hsq & HL) & H3). split; [exact H1|]. split; [|exact H3].
  split; [|split; assumption]. split; [|split; assumption]. rewrite <- E. exact S1.
Qed.

(* the generic relation between the modes of the two runs: Ch' psi'_k' = s Q (Ch psi_k) *)
Definition rel_generic (l n:nat) (Q Ch:fmat R) (Vv:fmat (C R)) (Ch':fmat R) (Vv':fmat (C R)) (k k':nat) : Prop :=
  exists s, s <> c0 K /\
    shape_of R K l n Ch' Vv' k' = map (cmul K s) (tab l (fun i => fmc l (cemb Q) (fmc n (cemb Ch) Vv) i k)).

Lemma noisy_match l n (A1 C1 A2 C2 Q T Ti:fmat R) (Vv W Vv' W':fmat (C R)) (d d':nat -> C R) :
  similar_pair R K l n A1 (fm l Q C1) A2 C2 T Ti ->
  eig_run R K n A1 Vv W d -> eig_run R K n A2 Vv' W' d' ->
  (forall i j, (i < n)%nat -> (j < n)%nat -> i <> j -> d i <> d j) ->
  poles_shapes_agree R K l n d d' (rel_generic l n Q C1 Vv C2 Vv').
Proof.
  intros Hs2 [HV HW] Heig' Hdist.
  assert (Hs1: similar_pair R K l n A1 C1 A1 C1 fI fI).
  { unfold similar_pair. split; [apply idl|]. split; [apply idl|]. split.
    - rewrite (idr n n A1). rewrite (idl n n A1). reflexivity.
    - symmetry. apply (idr l n C1). }
  assert (Hmod: modal_basis R K n A1 Vv W d).
  { split; [exact HV|]. split; [apply (cplx_left_inv_is_right_inv R K Fth Rdec Hreal n Vv W HW)|]. split; [exact HW|exact Hdist]. }
  assert (HM: feq l n (cemb (fm l Q C1)) (fmc l (cemb Q) (cemb C1))).
  { symmetry. apply (cemb_fmul R K Rth l l n Q C1). }
  destruct (two_runs_match R K Fth Rdec Hreal l l n A1 C1 A1 C1 fI fI (fm l Q C1) A2 C2 T Ti (cemb Q) Vv W Vv W Vv' W' d d d'
              Hs1 Hs2 HM Hmod (conj HV HW) Heig') as [HP Hk].
  split; [exact HP|]. split; [intros clog dt kk Hdt Hkk; apply (poles_time_unit R K Fth); assumption|].
  intros k Hklt. destruct (Hk k Hklt) as (k' & Hk' & Ed & Hu & s & Hs0 & Hsh).
  exists k'. split; [exact Hk'|]. split; [exact Ed|]. split; [exact Hu|].
  exists s. split; [exact Hs0|]. unfold shape_of. rewrite tab_map. apply tab_ext. exact Hsh.
Qed.

(* Obs' = Pp Obs T on the upper and on the shifted rows, first block Q Obs[:l] T: same poles, related shapes *)
Lemma noisy_generic rows l n (Ob Ob' Pp Q T Ti L L':fmat R) (Vv W Vv' W':fmat (C R)) (d d':nat -> C R) :
  feq (rows - l) (rows - l) (fm (rows - l) (ftr Pp) Pp) fI -> feq n n (fm n T Ti) fI -> feq n n (fm n Ti T) fI ->
  feq (rows - l) n Ob' (fm n (fm (rows - l) Pp Ob) T) ->
  feq (rows - l) n (rows_from l Ob') (fm n (fm (rows - l) Pp (rows_from l Ob)) T) ->
  feq l n Ob' (fm n (fm l Q Ob) T) ->
  lsq_inv R K (rows - l) n L Ob -> lsq_inv R K (rows - l) n L' Ob' ->
  eig_run R K n (fm (rows - l) L (rows_from l Ob)) Vv W d -> eig_run R K n (fm (rows - l) L' (rows_from l Ob')) Vv' W' d' ->
  (forall i j, (i < n)%nat -> (j < n)%nat -> i <> j -> d i <> d j) ->
  poles_shapes_agree R K l n d d' (rel_generic l n Q Ob Vv Ob' Vv').
Proof.
  intros HP HT HT' Hup Hdn HC HL HL' He He' Hdist.
  pose proof (noisy_similar R K Fth Rdec (rows - l) l n Ob (rows_from l Ob) Ob Ob' (rows_from l Ob') Ob' Pp Q T Ti L L'
                HP HT HT' Hup Hdn HC HL HL') as Hsim.
  exact (noisy_match l n _ Ob _ Ob' Q T Ti Vv W Vv' W' d d' Hsim He He' Hdist).
Qed.

(* the same with the identity as row transformation *)
Lemma fid_orth p : feq p p (fm p (ftr fI) fI) fI.
Proof. rewrite (ftr_fid R K p). apply idl. Qed.

Lemma noisy_generic_id rows l n (Ob Ob' T Ti L L':fmat R) (Vv W Vv' W':fmat (C R)) (d d':nat -> C R) :
  (l <= rows)%nat -> feq n n (fm n T Ti) fI -> feq n n (fm n Ti T) fI ->
  feq rows n Ob' (fm n Ob T) ->
  lsq_inv R K (rows - l) n L Ob -> lsq_inv R K (rows - l) n L' Ob' ->
  eig_run R K n (fm (rows - l) L (rows_from l Ob)) Vv W d -> eig_run R K n (fm (rows - l) L' (rows_from l Ob')) Vv' W' d' ->
  (forall i j, (i < n)%nat -> (j < n)%nat -> i <> j -> d i <> d j) ->
  poles_shapes_agree R K l n d d' (rel_generic l n fI Ob Vv Ob' Vv').
Proof.
  intros Hl HT HT' HO HL HL' He He' Hdist.
  apply (noisy_generic rows l n Ob Ob' fI fI T Ti L L' Vv W Vv' W' d d'); try assumption.
  - apply fid_orth.
  - rewrite (idl (rows - l) n Ob). intros i j Hi Hj. apply HO; [lia|exact Hj].
  - rewrite (idl (rows - l) n (rows_from l Ob)). intros i j Hi Hj. unfold rows_from at 1.
    rewrite (HO (l + i)%nat j ltac:(lia) Hj). reflexivity.
  - rewrite (idl l n Ob). intros i j Hi Hj. apply HO; [lia|exact Hj].
Qed.

(* from the generic relation to the three relations of P_covar_pipeline.v *)
Lemma rel_generic_gain l n (Ch:fmat R) (Vv:fmat (C R)) (Ch':fmat R) (Vv':fmat (C R)) k k' : (k < n)%nat ->
  rel_generic l n fI Ch Vv Ch' Vv' k k' -> rel_gain R K ltb l n Ch Vv Ch' Vv' k k'.
Proof.
  intros Hk (s & Hs0 & E). unfold rel_gain.
  assert (E2: shape_of R K l n Ch' Vv' k' = map (cmul K s) (shape_of R K l n Ch Vv k)).
  { rewrite E. unfold shape_of. rewrite !tab_map. apply tab_ext. intros i Hi. f_equal.
    rewrite (fmul_ext (C R) KC l l n _ (fid KC) _ (fmc n (cemb Ch) Vv) (cemb_fid R K l) (feq_refl (C R) l n _) i k Hi Hk).
    apply (fmul_id_l (C R) KC CRt l n _ i k Hi Hk). }
  split; [exists s; split; [exact Hs0|exact E2]|].
  rewrite E2. apply (unity_norm_scale R K Fth ltb lt_irrefl lt_tricho lt_mul_pos sq_nonneg).
  apply (cplx_nz R K Fth Hreal). exact Hs0.
Qed.
Lemma rel_generic_mix l n (Q Ch:fmat R) (Vv:fmat (C R)) (Ch':fmat R) (Vv':fmat (C R)) k k' :
  rel_generic l n Q Ch Vv Ch' Vv' k k' -> rel_mix R K ltb l n Q Ch Vv Ch' Vv' k k'.
Proof.
  intros (s & Hs0 & E). fold (shape_mix R K l n Q Ch Vv k) in E. unfold rel_mix.
  split; [exists s; split; [exact Hs0|exact E]|].
  rewrite E. apply (unity_norm_scale R K Fth ltb lt_irrefl lt_tricho lt_mul_pos sq_nonneg).
  apply (cplx_nz R K Fth Hreal). exact Hs0.
Qed.
Lemma rel_mix_perm l n (pi pinv:nat -> nat) (Ch:fmat R) (Vv:fmat (C R)) (Ch':fmat R) (Vv':fmat (C R)) k k' : (k < n)%nat ->
  (forall a, (a < l)%nat -> (pi a < l)%nat /\ pinv (pi a) = a) ->
  (forall c, (c < l)%nat -> (pinv c < l)%nat /\ pi (pinv c) = c) ->
  rel_mix R K ltb l n (pmat K pi) Ch Vv Ch' Vv' k k' -> rel_perm R K ltb l n pi Ch Vv Ch' Vv' k k'.
Proof.
  intros Hk Hp1 Hp2 ((s & Hs0 & E) & _).
  assert (Hpi: forall a, (a < l)%nat -> (pi a < l)%nat) by (intros a Ha; apply (Hp1 a Ha)).
  unfold rel_perm.
  rewrite (shape_mix_pmat R K Fth l n pi _ Vv k Hk Hpi) in E.
  split; [exists s; split; [exact Hs0|exact E]|].
  intros m Hm Hmax. rewrite E.
  rewrite (unity_norm_scale R K Fth ltb lt_irrefl lt_tricho lt_mul_pos sq_nonneg s _ (cplx_nz R K Fth Hreal s Hs0)).
  set (v := shape_of R K l n Ch Vv k) in *.
  assert (Hlen: length v = l) by (unfold v, shape_of; apply tab_length).
  pose proof (unity_norm_perm R K Fth ltb lt_irrefl lt_trans pi v m) as HU. rewrite Hlen in HU.
  apply HU; [exact Hpi| |exact Hm|exact Hmax].
  intros c Hc. exists (pinv c). apply (Hp2 c Hc).
Qed.

Lemma sq_root_nz (x s:R) : x * x = s -> s <> 0 -> x <> 0.
Proof. intros E Hs Hx. apply Hs. rewrite <- E, Hx. ring. Qed.

(* two decompositions of ONE matrix H' separated at [ord]: the observability matrices differ by an invertible factor *)
Lemma noisy_obs_basis rows cols ord (H' U0:fmat R) (S0:nat -> R) (V0 U' :fmat R) (S':nat -> R) (V':fmat R) (sq sq':nat -> R) :
  (ord <= cols)%nat ->
  svd_contract K rows cols cols H' U0 S0 V0 -> svd_contract K rows cols cols H' U' S' V' ->
  sv_gap_sq R K cols ord S0 S' ->
  (forall j, (j < ord)%nat -> sq j <> 0 /\ sq' j <> 0) ->
  exists T Ti:fmat R, feq ord ord (fm ord T Ti) fI /\ feq ord ord (fm ord Ti T) fI /\
    feq rows ord (cv_obs K U' sq') (fm ord (cv_obs K U0 sq) T).
Proof.
  intros Hord C1 C2 [G1 G2] Hnz.
  destruct (svd_subspace_unique R K Fth Rdec rows cols ord H' U0 S0 V0 U' S' V' Hord C1 C2 G1 G2) as (T0 & T0i & E1 & E2 & E3).
  exact (obs_change_of_basis R K Fth rows ord U0 U' T0 T0i sq sq' E1 E2 E3 Hnz).
Qed.

(* identity row transformation: run 1 described by a decomposition (U, S0, V) of the matrix H' run 2 works on *)
Lemma noisy_core_id rows cols l ord (H' U:fmat R) (S0:nat -> R) (V L:fmat R) (sq:nat -> R) (U' V' L':fmat R) (S' sq':nat -> R)
    (Vv W Vv' W':fmat (C R)) (d d':nat -> C R) :
  (l <= rows)%nat -> (ord <= cols)%nat ->
  svd_contract K rows cols cols H' U S0 V -> (forall j, (j < ord)%nat -> sq j <> 0) ->
  lsq_inv R K (rows - l) ord L (cv_obs K U sq) ->
  noisy_run rows cols l ord H' U' S' V' L' sq' ->
  sv_gap_sq R K cols ord S0 S' ->
  eig_run R K ord (ident_A R K rows l L U sq) Vv W d -> eig_run R K ord (ident_A R K rows l L' U' sq') Vv' W' d' ->
  (forall i j, (i < ord)%nat -> (j < ord)%nat -> i <> j -> d i <> d j) ->
  poles_shapes_agree R K l ord d d' (rel_gain R K ltb l ord (ident_C R K U sq) Vv (ident_C R K U' sq') Vv').
Proof.
  intros Hl Hord C1 Hsq HL (C2 & Hsq' & HL') Hgap He He' Hdist.
  assert (Hnz: forall j, (j < ord)%nat -> sq j <> 0 /\ sq' j <> 0).
  { intros j Hj. split; [apply (Hsq j Hj)|]. apply (sq_root_nz (sq' j) (S' j) (Hsq' j Hj)). apply (proj2 Hgap j Hj). }
  destruct (noisy_obs_basis rows cols ord H' U S0 V U' S' V' sq sq' Hord C1 C2 Hgap Hnz) as (T & Ti & HT & HT' & HO).
  apply (psa_mono R K l ord d d' _ _) with (2 := noisy_generic_id rows l ord (cv_obs K U sq) (cv_obs K U' sq') T Ti L L'
            Vv W Vv' W' d d' Hl HT HT' HO HL HL' He He' Hdist).
  intros k k' Hk Hk' Hr. apply (rel_generic_gain l ord _ Vv _ Vv' k k' Hk Hr).
Qed.

(* ===== (0) the same matrix, two arbitrary decompositions ===== *)
Theorem pipeline_svd_choice_noisy rows cols l ord (H:fmat R) U V L S sq U' V' L' S' sq' Vv W Vv' W' d d' :
  (l <= rows)%nat -> (ord <= cols)%nat ->
  two_runs_noisy rows cols l ord H H U V L S sq U' V' L' S' sq' Vv W Vv' W' d d' ->
  sv_gap_sq R K cols ord S S' ->
  poles_shapes_agree R K l ord d d' (rel_gain R K ltb l ord (ident_C R K U sq) Vv (ident_C R K U' sq') Vv').
Proof.
  intros Hl Hord ((C1 & Hsq & HL) & Hrun' & He & He' & Hdist) Hgap.
  apply (noisy_core_id rows cols l ord H U S V L sq U' V' L' S' sq' Vv W Vv' W' d d'); try assumption.
  intros j Hj. apply (sq_root_nz (sq j) (S j) (Hsq j Hj)). apply (proj2 Hgap j Hj).
Qed.

(* ===== (i) common gain: H' = g^2 H; the gap is between g^2 S and S' ===== *)
Theorem pipeline_gain_noisy rows cols l ord (H:fmat R) (g:R) U V L S sq U' V' L' S' sq' Vv W Vv' W' d d' :
  (l <= rows)%nat -> (ord <= cols)%nat ->
  two_runs_noisy rows cols l ord H (fscal K (g*g) H) U V L S sq U' V' L' S' sq' Vv W Vv' W' d d' ->
  sv_gap_sq R K cols ord (fun i => (g*g) * S i) S' ->
  poles_shapes_agree R K l ord d d' (rel_gain R K ltb l ord (ident_C R K U sq) Vv (ident_C R K U' sq') Vv').
Proof.
  intros Hl Hord ((C1 & Hsq & HL) & Hrun' & He & He' & Hdist) Hgap.
  pose proof (svd_gain R K Rth rows cols cols (g*g) H U S V C1) as C1'.
  apply (noisy_core_id rows cols l ord (fscal K (g*g) H) U (fun i => (g*g) * S i) V L sq U' V' L' S' sq' Vv W Vv' W' d d'); try assumption.
  intros j Hj. apply (sq_root_nz (sq j) (S j) (Hsq j Hj)). intros E. apply (proj1 (proj2 Hgap j Hj)). rewrite E. ring.
Qed.

(* ===== (ii) orthogonal mixing Q of the channels, Qr of the references: H' = (I (x) Q) H (I (x) Qr)^T ===== *)
Theorem pipeline_mix_noisy l r br ord (H Q Qr:fmat R) U V L S sq U' V' L' S' sq' Vv W Vv' W' d d' :
  (0 < l)%nat -> (0 < r)%nat -> (ord <= hank_cols r br)%nat ->
  feq l l (fm l (ftr Q) Q) fI -> feq r r (fm r (ftr Qr) Qr) fI ->
  two_runs_noisy (hank_rows l br) (hank_cols r br) l ord H (hank_mix_rhs K l r Q Qr H)
                 U V L S sq U' V' L' S' sq' Vv W Vv' W' d d' ->
  sv_gap_sq R K (hank_cols r br) ord S S' ->
  poles_shapes_agree R K l ord d d' (rel_mix R K ltb l ord Q (ident_C R K U sq) Vv (ident_C R K U' sq') Vv').
Proof.
  intros Hl Hr Hord HQ HQr Hruns Hgap.
  pose proof (two_runs_noisy_ext (hank_rows l br) (hank_cols r br) l ord H _ _ U V L S sq U' V' L' S' sq' Vv W Vv' W' d d'
               (hank_mix_kron R K Rth l r br Q Qr H Hl Hr) Hruns) as Hruns'.
  clear Hruns. unfold hank_rows, hank_cols in *.
  set (rows := (Datatypes.S br * l)%nat) in *. set (cols := (Datatypes.S br * r)%nat) in *.
  set (KQ := kronI K l Q) in *. set (KQr := kronI K r Qr) in *.
  pose proof (kronI_orth R K Rth (Datatypes.S br) l Q Hl HQ) as HP. fold rows KQ in HP.
  pose proof (kronI_orth R K Rth (Datatypes.S br) r Qr Hr HQr) as HPr. fold cols KQr in HPr.
  pose proof (kronI_orth R K Rth br l Q Hl HQ) as HPp. fold KQ in HPp.
  assert (Epl: (rows - l = br * l)%nat) by (unfold rows; lia).
  destruct Hruns' as ((C1 & Hsq & HL) & (C2 & Hsq' & HL') & He & He' & Hdist).
  pose proof (svd_orth R K Rth rows cols cols KQ KQr H U S V C1 HP HPr) as C1'.
  assert (Hnz: forall j, (j < ord)%nat -> sq j <> 0 /\ sq' j <> 0).
  { intros j Hj. split.
    - apply (sq_root_nz (sq j) (S j) (Hsq j Hj)). apply (proj2 Hgap j Hj).
    - apply (sq_root_nz (sq' j) (S' j) (Hsq' j Hj)). apply (proj2 Hgap j Hj). }
  destruct (noisy_obs_basis rows cols ord _ (fm rows KQ U) S (fm cols KQr V) U' S' V' sq sq' Hord C1' C2 Hgap Hnz)
    as (T & Ti & HT & HT' & HO).
  set (Ob := cv_obs K U sq) in *. set (Ob' := cv_obs K U' sq') in *.
  assert (HO2: feq rows ord Ob' (fm ord (fm rows KQ Ob) T)).
  { rewrite HO. rewrite (cv_obs_orth R K Rth rows ord KQ U sq). reflexivity. }
  apply (psa_mono R K l ord d d' (rel_generic l ord Q Ob Vv Ob' Vv') _).
  { intros k k' Hk Hk' Hrel. apply (rel_generic_mix l ord Q Ob Vv Ob' Vv' k k' Hrel). }
  apply (noisy_generic rows l ord Ob Ob' KQ Q T Ti L L' Vv W Vv' W' d d'); try assumption.
  - rewrite Epl. exact HPp.
  - rewrite Epl. unfold KQ. rewrite <- (kron_top_blocks R K Rth br l ord Q Ob Hl). fold rows KQ.
    intros i j Hi Hj. apply HO2; [unfold rows; lia|exact Hj].
  - rewrite Epl. unfold KQ. rewrite <- (kron_shift_blocks R K Rth br l ord Q Ob Hl). fold rows KQ.
    intros i j Hi Hj. unfold rows_from at 1. rewrite (HO2 (l + i)%nat j ltac:(unfold rows; lia) Hj). reflexivity.
  - rewrite <- (kron_first_block R K Rth br l ord Q Ob Hl). fold rows KQ.
    intros i j Hi Hj. apply HO2; [unfold rows; lia|exact Hj].
Qed.

(* ===== (ii') channel permutation pi, reference permutation rho: H' = hank_perm_rhs pi rho H ===== *)
Theorem pipeline_perm_noisy l r br ord (H:fmat R) (pi pinv rho rhoinv:nat -> nat) U V L S sq U' V' L' S' sq' Vv W Vv' W' d d' :
  (forall a, (a < l)%nat -> (pi a < l)%nat /\ pinv (pi a) = a) ->
  (forall c, (c < l)%nat -> (pinv c < l)%nat /\ pi (pinv c) = c) ->
  (forall a, (a < r)%nat -> (rho a < r)%nat /\ rhoinv (rho a) = a) ->
  (forall c, (c < r)%nat -> (rhoinv c < r)%nat /\ rho (rhoinv c) = c) ->
  (0 < l)%nat -> (0 < r)%nat -> (ord <= hank_cols r br)%nat ->
  two_runs_noisy (hank_rows l br) (hank_cols r br) l ord H (hank_perm_rhs l r pi rho H)
                 U V L S sq U' V' L' S' sq' Vv W Vv' W' d d' ->
  sv_gap_sq R K (hank_cols r br) ord S S' ->
  poles_shapes_agree R K l ord d d' (rel_perm R K ltb l ord pi (ident_C R K U sq) Vv (ident_C R K U' sq') Vv').
Proof.
  intros Hp1 Hp2 Hr1 Hr2 Hl Hr Hord Hruns Hgap.
  assert (Hpi: forall a, (a < l)%nat -> (pi a < l)%nat) by (intros a Ha; apply (Hp1 a Ha)).
  assert (Hrho: forall a, (a < r)%nat -> (rho a < r)%nat) by (intros a Ha; apply (Hr1 a Ha)).
  pose proof (pmat_orth R K Rth l pi pinv Hp1 Hp2) as HQ.
  pose proof (pmat_orth R K Rth r rho rhoinv Hr1 Hr2) as HQr.
  pose proof (two_runs_noisy_ext (hank_rows l br) (hank_cols r br) l ord H _ _ U V L S sq U' V' L' S' sq' Vv W Vv' W' d d'
               (hank_perm_is_mix R K Rth l r br pi rho H Hpi Hrho) Hruns) as Hruns'.
  apply (psa_mono R K l ord d d' _ _) with (2 := pipeline_mix_noisy l r br ord H (pmat K pi) (pmat K rho)
            U V L S sq U' V' L' S' sq' Vv W Vv' W' d d' Hl Hr Hord HQ HQr Hruns' Hgap).
  intros k k' Hk Hk' Hrel. apply (rel_mix_perm l ord pi pinv _ Vv _ Vv' k k' Hk Hp1 Hp2 Hrel).
Qed.

(* ===== the same on the DATA, for any Hankel builder of the parametric form of C12 (hank_mm, hank_R) ===== *)
Section DataN.
Variables (win:nat->nat->list nat) (wt:nat->nat->R) (dl rl:nat->nat->nat) (l r br:nat).
Variable Hb : sig R -> sig R -> fmat R.
Hypothesis HbGen : forall Y Yref, feq (hank_rows l br) (hank_cols r br) (Hb Y Yref) (hank_gen K win wt dl rl l r Y Yref).

Theorem pipeline_gain_noisy_data ord (Y Yref:sig R) (g:R) U V L S sq U' V' L' S' sq' Vv W Vv' W' d d' :
  (ord <= hank_cols r br)%nat ->
  two_runs_noisy (hank_rows l br) (hank_cols r br) l ord (Hb Y Yref) (Hb (sgain K g Y) (sgain K g Yref))
                 U V L S sq U' V' L' S' sq' Vv W Vv' W' d d' ->
  sv_gap_sq R K (hank_cols r br) ord (fun i => (g*g) * S i) S' ->
  poles_shapes_agree R K l ord d d' (rel_gain R K ltb l ord (ident_C R K U sq) Vv (ident_C R K U' sq') Vv').
Proof.
  intros Hord Hruns Hgap.
  apply (pipeline_gain_noisy (hank_rows l br) (hank_cols r br) l ord (Hb Y Yref) g U V L S sq U' V' L' S' sq' Vv W Vv' W' d d'); try assumption.
  - unfold hank_rows. lia.
  - apply (two_runs_noisy_ext (hank_rows l br) (hank_cols r br) l ord (Hb Y Yref) _ _ U V L S sq U' V' L' S' sq' Vv W Vv' W' d d'
             (hb_gain R K Rth win wt dl rl l r br Hb HbGen g Y Yref) Hruns).
Qed.

Theorem pipeline_mix_noisy_data ord (Y Yref:sig R) (Q Qr:fmat R) U V L S sq U' V' L' S' sq' Vv W Vv' W' d d' :
  (0 < l)%nat -> (0 < r)%nat -> (ord <= hank_cols r br)%nat ->
  feq l l (fm l (ftr Q) Q) fI -> feq r r (fm r (ftr Qr) Qr) fI ->
  two_runs_noisy (hank_rows l br) (hank_cols r br) l ord (Hb Y Yref) (Hb (smix K l Q Y) (smix K r Qr Yref))
                 U V L S sq U' V' L' S' sq' Vv W Vv' W' d d' ->
  sv_gap_sq R K (hank_cols r br) ord S S' ->
  poles_shapes_agree R K l ord d d' (rel_mix R K ltb l ord Q (ident_C R K U sq) Vv (ident_C R K U' sq') Vv').
Proof.
  intros Hl Hr Hord HQ HQr Hruns Hgap.
  apply (pipeline_mix_noisy l r br ord (Hb Y Yref) Q Qr U V L S sq U' V' L' S' sq' Vv W Vv' W' d d'); try assumption.
  apply (two_runs_noisy_ext (hank_rows l br) (hank_cols r br) l ord (Hb Y Yref) _ _ U V L S sq U' V' L' S' sq' Vv W Vv' W' d d'
           (hb_mix R K Rth win wt dl rl l r br Hb HbGen Q Qr Y Yref) Hruns).
Qed.

Theorem pipeline_perm_noisy_data ord (Y Yref:sig R) (pi pinv rho rhoinv:nat -> nat) U V L S sq U' V' L' S' sq' Vv W Vv' W' d d' :
  (forall a, (a < l)%nat -> (pi a < l)%nat /\ pinv (pi a) = a) ->
  (forall c, (c < l)%nat -> (pinv c < l)%nat /\ pi (pinv c) = c) ->
  (forall a, (a < r)%nat -> (rho a < r)%nat /\ rhoinv (rho a) = a) ->
  (forall c, (c < r)%nat -> (rhoinv c < r)%nat /\ rho (rhoinv c) = c) ->
  (0 < l)%nat -> (0 < r)%nat -> (ord <= hank_cols r br)%nat ->
  two_runs_noisy (hank_rows l br) (hank_cols r br) l ord (Hb Y Yref) (Hb (sperm pi Y) (sperm rho Yref))
                 U V L S sq U' V' L' S' sq' Vv W Vv' W' d d' ->
  sv_gap_sq R K (hank_cols r br) ord S S' ->
  poles_shapes_agree R K l ord d d' (rel_perm R K ltb l ord pi (ident_C R K U sq) Vv (ident_C R K U' sq') Vv').
Proof.
  intros Hp1 Hp2 Hr1 Hr2 Hl Hr Hord Hruns Hgap.
  apply (pipeline_perm_noisy l r br ord (Hb Y Yref) pi pinv rho rhoinv U V L S sq U' V' L' S' sq' Vv W Vv' W' d d'
           Hp1 Hp2 Hr1 Hr2 Hl Hr Hord); [|exact Hgap].
  apply (two_runs_noisy_ext (hank_rows l br) (hank_cols r br) l ord (Hb Y Yref) _ _ U V L S sq U' V' L' S' sq' Vv W Vv' W' d d'
           (hb_perm R K win wt dl rl l r br Hb HbGen pi rho Y Yref (fun a Ha => proj1 (Hp1 a Ha)) (fun a Ha => proj1 (Hr1 a Ha))) Hruns).
Qed.
End DataN.
End NP.

(* ================= (3) at the reals, with Rle: numpy's contract (non-negative singular values) ================= *)
From Coq Require Import Reals Lra.
Lemma cvROps_Fth : field_theory (o0 cvROps) (o1 cvROps) (oadd cvROps) (omul cvROps) (osub cvROps) (oopp cvROps)
                                (odiv cvROps) (oinv cvROps) (@eq R).
Proof.
  constructor.
  - exact RTheory.
  - exact R1_neq_R0.
  - reflexivity.
  - intros p Hp. cbn. apply Rinv_l. exact Hp.
Qed.
Lemma R_sq_ne (x y:R) : (0 <= x)%R -> (0 <= y)%R -> x <> y -> (x * x)%R <> (y * y)%R.
Proof.
  intros Hx Hy Hne E. apply Hne.
  apply Rsqr_inj; [exact Hx|exact Hy|exact E].
Qed.
Theorem svd_subspace_unique_R :
  forall m n ord (H U:fmat R) (S:nat -> R) (V U2:fmat R) (S2:nat -> R) (V2:fmat R),
  (ord <= n)%nat ->
  svd_contract cvROps m n n H U S V -> svd_contract cvROps m n n H U2 S2 V2 ->
  (forall i, (i < n)%nat -> (0 <= S i)%R /\ (0 <= S2 i)%R) ->
  (forall i, (i < ord)%nat -> S i = S2 i /\ S i <> 0%R) ->
  (forall i j, (i < ord)%nat -> (ord <= j < n)%nat -> S i <> S j /\ S2 i <> S2 j) ->
  exists T Ti:fmat R, feq ord ord (fmul cvROps ord T Ti) (fid cvROps) /\ feq ord ord (fmul cvROps ord Ti T) (fid cvROps) /\
    feq m ord U2 (fmul cvROps ord U T).
Proof.
  intros m n ord H U S V U2 S2 V2 Hord C1 C2 Hnn Heq Hgap.
  apply (svd_subspace_unique R cvROps cvROps_Fth Req_EM_T m n ord H U S V U2 S2 V2 Hord C1 C2).
  - intros a b Ha Hb. destruct (Heq a Ha) as [Ea _]. destruct (Hgap a b Ha Hb) as [G1 G2].
    destruct (Hnn a ltac:(lia)) as [Na Na2]. destruct (Hnn b ltac:(lia)) as [Nb Nb2]. split.
    + apply (R_sq_ne (S a) (S2 b) Na Nb2). rewrite Ea. exact G2.
    + apply (R_sq_ne (S2 a) (S b) Na2 Nb). rewrite <- Ea. exact G1.
  - intros a Ha. destruct (Heq a Ha) as [Ea Hnz]. split; [exact Hnz|rewrite <- Ea; exact Hnz].
Qed.

(* ================= a Gaussian-rational instance of the noisy case =================
   l = 2 channels, r = 1 reference, br = 2: H is 6 x 3 of FULL rank 3, singular values (4, 4, 1), order 2: the discarded
   singular value is NOT zero and the shift equation Obs[:-2] A = Obs[2:] has NO exact solution (least-squares residual
   non-zero), so this is outside the exact-rank theorems.  Run 1: the plain decomposition, roots (2, 2).  Run 2 on 9 H
   (gain 3): singular vectors rotated inside the retained 2-dimensional singular subspace (3-4-5 rotation), third vector
   negated, roots (6, -6).  Both least-squares solves are the pseudo-inverses.  Identified poles +- 2i/3, listed in
   different orders with differently scaled eigenvectors. *)
Definition nzx_H := ec1_m [[q (-1) 1; q (-1) 1; q (-3) 2];[q (1) 1; q (1) 1; q (-3) 2];[q (-2) 1; q (-2) 1; q (0) 1];[q (2) 3; q (-2) 3; q (-8) 3];[q (1) 3; q (5) 3; q (7) 6];[q (-5) 3; q (-1) 3; q (7) 6]].
Definition nzx_U := ec1_m [[q (-1) 2; q (0) 1; q (-1) 2];[q (0) 1; q (1) 2; q (-1) 2];[q (-1) 2; q (-1) 2; q (0) 1];[q (-1) 2; q (1) 2; q (0) 1];[q (1) 2; q (0) 1; q (-1) 2];[q (0) 1; q (-1) 2; q (-1) 2]].
Definition nzx_V := ec1_m [[q (1) 3; q (2) 3; q (2) 3];[q (2) 3; q (1) 3; q (-2) 3];[q (2) 3; q (-2) 3; q (1) 3]].
Definition nzx_S := plx_v [q (4) 1; q (4) 1; q (1) 1].
Definition nzx_sq := plx_v [q (2) 1; q (2) 1].
Definition nzx_L := ec1_m [[q (-1) 3; q (0) 1; q (-1) 3; q (-1) 3];[q (0) 1; q (1) 3; q (-1) 3; q (1) 3]].
Definition nzx_X := ec1_m [[q (1) 3; q (0) 1];[q (0) 1; q (1) 3]].
Definition nzx_Ug := ec1_m [[q (-3) 10; q (-2) 5; q (1) 2];[q (-2) 5; q (3) 10; q (1) 2];[q (1) 10; q (-7) 10; q (0) 1];[q (-7) 10; q (-1) 10; q (0) 1];[q (3) 10; q (2) 5; q (1) 2];[q (2) 5; q (-3) 10; q (1) 2]].
Definition nzx_Vg := ec1_m [[q (-1) 3; q (2) 3; q (-2) 3];[q (2) 15; q (11) 15; q (2) 3];[q (14) 15; q (2) 15; q (-1) 3]].
Definition nzx_Sg := plx_v [q (36) 1; q (36) 1; q (9) 1].
Definition nzx_sqg := plx_v [q (6) 1; q (-6) 1].
Definition nzx_Lg := ec1_m [[q (-1) 15; q (-4) 45; q (1) 45; q (-7) 45];[q (4) 45; q (-1) 15; q (7) 45; q (1) 45]].
Definition nzx_Xg := ec1_m [[q (1) 27; q (0) 1];[q (0) 1; q (1) 27]].
Definition nzx_Vv := ec1_cm [[(q (2) 3, q (0) 1); (q (0) 1, q (2) 3)];[(q (0) 1, q (-2) 3); (q (-2) 3, q (0) 1)]].
Definition nzx_W := ec1_cm [[(q (3) 4, q (0) 1); (q (0) 1, q (3) 4)];[(q (0) 1, q (-3) 4); (q (-3) 4, q (0) 1)]].
Definition nzx_Vvg := ec1_cm [[(q (-4) 3, q (-2) 3); (q (-2) 3, q (2) 3)];[(q (-2) 3, q (4) 3); (q (-2) 3, q (-2) 3)]].
Definition nzx_Wg := ec1_cm [[(q (-3) 10, q (3) 20); (q (-3) 20, q (-3) 10)];[(q (-3) 8, q (-3) 8); (q (-3) 8, q (3) 8)]].
Definition nzx_d := ec1_v [(q (0) 1, q (-2) 3); (q (0) 1, q (2) 3)].
Definition nzx_dg := ec1_v [(q (0) 1, q (2) 3); (q (0) 1, q (-2) 3)].
Definition nzx_B := ec1_m [[q 3 5; q 4 5; q 0 1];[q (-4) 5; q 3 5; q 0 1];[q 0 1; q 0 1; q (-1) 1]].
Lemma nzx_run1 : noisy_run Qc QcOps 6 3 2 2 nzx_H nzx_U nzx_S nzx_V nzx_L nzx_sq.
Proof.
  split; [repeat split; plx_feq|]. split.
  - intros j Hj. destruct j as [|[|j]]; [plx_qc|plx_qc|lia].
  - split; [plx_feq|]. exists nzx_X. plx_feq.
Qed.
Lemma nzx_run_gain : noisy_run Qc QcOps 6 3 2 2 (fscal QcOps (q 3 1 * q 3 1)%Qc nzx_H) nzx_Ug nzx_Sg nzx_Vg nzx_Lg nzx_sqg.
Proof.
  split; [repeat split; plx_feq|]. split.
  - intros j Hj. destruct j as [|[|j]]; [plx_qc|plx_qc|lia].
  - split; [plx_feq|]. exists nzx_Xg. plx_feq.
Qed.
(* the least-squares residual of run 1 is not zero: no exact shift structure *)
Lemma nzx_residual :
  fmul QcOps 2 (cv_obs QcOps nzx_U nzx_sq) (ident_A Qc QcOps 6 2 nzx_L nzx_U nzx_sq) 0%nat 0%nat
  <> rows_from 2 (cv_obs QcOps nzx_U nzx_sq) 0%nat 0%nat /\ nzx_S 2%nat <> Q2Qc 0.
Proof. split; intros E; vm_compute in E; discriminate E. Qed.

Lemma nzx_gain_hyps :
  two_runs_noisy Qc QcOps 6 3 2 2 nzx_H (fscal QcOps (q 3 1 * q 3 1)%Qc nzx_H)
    nzx_U nzx_V nzx_L nzx_S nzx_sq nzx_Ug nzx_Vg nzx_Lg nzx_Sg nzx_sqg nzx_Vv nzx_W nzx_Vvg nzx_Wg nzx_d nzx_dg /\
  sv_gap_threshold Qc QcOps Qc_ltb 3 2 (fun i => ((q 3 1 * q 3 1) * nzx_S i)%Qc) nzx_Sg /\
  sv_gap_sq Qc QcOps 3 2 (fun i => ((q 3 1 * q 3 1) * nzx_S i)%Qc) nzx_Sg.
Proof.
  assert (Hthr: sv_gap_threshold Qc QcOps Qc_ltb 3 2 (fun i => ((q 3 1 * q 3 1) * nzx_S i)%Qc) nzx_Sg).
  { exists (q 9 1). split; [vm_compute; reflexivity|]. split.
    - intros a Ha. destruct a as [|[|a]]; [split; vm_compute; reflexivity|split; vm_compute; reflexivity|lia].
    - intros b Hb. assert (b = 2%nat) by lia. subst b. repeat split; vm_compute; reflexivity. }
  split; [|split; [exact Hthr|]].
  - unfold two_runs_noisy. split; [exact nzx_run1|]. split; [exact nzx_run_gain|].
    split; [split; plx_cfeq|]. split; [split; plx_cfeq|].
    intros i j Hi Hj Hne E.
    assert (Hc: ((i = 0 /\ j = 1) \/ (i = 1 /\ j = 0))%nat) by lia.
    destruct Hc as [[-> ->]|[-> ->]]; vm_compute in E; discriminate E.
  - exact (sv_gap_of_threshold Qc QcOps QcFth Qc_ltb Qc_lt_irrefl Qc_lt_trans Qc_lt_tricho Qc_lt_mul_pos 3 2 _ _ Hthr).
Qed.

Definition pipeline_gain_noisy_Qc :=
  pipeline_gain_noisy Qc QcOps QcFth qc_formally_real Qc_ltb Qc_lt_irrefl Qc_lt_tricho Qc_lt_mul_pos Qc_sq_nonneg.

Lemma nzx_gain_fires :
  poles_shapes_agree Qc QcOps 2 2 nzx_d nzx_dg
    (rel_gain Qc QcOps Qc_ltb 2 2 (ident_C Qc QcOps nzx_U nzx_sq) nzx_Vv (ident_C Qc QcOps nzx_Ug nzx_sqg) nzx_Vvg).
Proof.
  destruct nzx_gain_hyps as (Hruns & _ & Hgap).
  exact (pipeline_gain_noisy_Qc 6 3 2 2 nzx_H (q 3 1) nzx_U nzx_V nzx_L nzx_S nzx_sq nzx_Ug nzx_Vg nzx_Lg nzx_Sg nzx_sqg
           nzx_Vv nzx_W nzx_Vvg nzx_Wg nzx_d nzx_dg ltac:(lia) ltac:(lia) Hruns Hgap).
Qed.

(* what it asserts, by evaluation: mode 0 of run 1 and mode 1 of the gained run carry the pole -2i/3 and the same
   unity-normalised shape (1, i) *)
Lemma nzx_evaluated :
  nzx_d 0%nat = nzx_dg 1%nat /\
  plx_sh (unity_norm_Qc (shape_of Qc QcOps 2 2 (ident_C Qc QcOps nzx_Ug nzx_sqg) nzx_Vvg 1))
    = plx_sh (unity_norm_Qc (shape_of Qc QcOps 2 2 (ident_C Qc QcOps nzx_U nzx_sq) nzx_Vv 0)) /\
  plx_sh (unity_norm_Qc (shape_of Qc QcOps 2 2 (ident_C Qc QcOps nzx_U nzx_sq) nzx_Vv 0)) = Some [(1, 0); (0, 1)]%Q.
Proof. vm_compute. repeat split; reflexivity. Qed.

(* the value-gap form (non-negative values, equal retained values, retained <> discarded, retained non-zero) holds for the
   two decompositions of H itself: singular values (4, 4, 1) against (4, 4, 1) at order 2 *)
Lemma nzx_gap_values :
  svd_contract QcOps 6 3 3 nzx_H nzx_U nzx_S nzx_V /\
  svd_contract QcOps 6 3 3 nzx_H (fmul QcOps 3 nzx_U nzx_B) nzx_S (fmul QcOps 3 nzx_V nzx_B) /\
  sv_gap_values Qc QcOps Qc_ltb 3 2 nzx_S nzx_S /\
  nzx_U 0%nat 0%nat <> fmul QcOps 3 nzx_U nzx_B 0%nat 0%nat.
Proof.
  split; [repeat split; plx_feq|]. split; [repeat split; plx_feq|]. split.
  - split; [|split].
    + intros i Hi. destruct i as [|[|[|i]]]; [split; vm_compute; reflexivity..|lia].
    + intros i Hi. destruct i as [|[|i]]; [split; [reflexivity|intros E; vm_compute in E; discriminate E]..|lia].
    + intros i j Hi Hj. assert (j = 2%nat) by lia. subst j.
      destruct i as [|[|i]]; [split; intros E; vm_compute in E; discriminate E..|lia].
  - intros E. vm_compute in E. discriminate E.
Qed.
