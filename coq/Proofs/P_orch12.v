(* C15 - the first machine (M_orch.v: add = a fresh instance) is the instance machine (M_orch2.v) seen through the dict. *)
From Coq Require Import String List Arith Bool Lia.
From PyOMA.Model Require Import M_orch M_orch2.
From PyOMA.Proofs Require Import P_orch P_orch2.
Import ListNotations.

Definition forget (m:Modes2) : Modes := match m with Extract2 r _ _ _ a => Extract r a end.
Definition alg_of (x:inst) : alg := mkAlg (i_cls x) (i_params x) (bound_of x) (i_result x) (option_map forget (i_modes x)).
Definition no_alg : alg := mkAlg 0 None None None None.
Definition abs_entry (heap:list inst) (ni:name*iid) : name*alg :=
  (fst ni, match nth_error heap (snd ni) with Some x => alg_of x | None => no_alg end).
Definition abs_dict (heap:list inst) (dict:list (name*iid)) : list (name*alg) := map (abs_entry heap) dict.
Definition abs (s:mstate) : setup := mkSetup (m_data s) (m_fs s) (abs_dict (m_heap s) (m_dict s)).
Definition abs_err (e:option exn) : option err :=
  match e with None => None | Some ValueE => Some ValueErr | Some KeyE => Some KeyErr | Some _ => Some TypeErr end.

Lemma abs_dict_set_notin heap dict i x' : ~ In i (map snd dict) -> abs_dict (set_nth i x' heap) dict = abs_dict heap dict.
Proof.
  induction dict as [|[n j] t IH]; cbn [abs_dict map snd In]; intros H; [reflexivity|].
  unfold abs_entry at 1 3. cbn [fst snd]. rewrite nth_set_other by (intros ->; apply H; left; reflexivity).
  f_equal. apply IH. intros H1. apply H. right. exact H1.
Qed.

Lemma lookup_abs heap dict a : lookup a (abs_dict heap dict) =
  match dlookup a dict with Some i => Some (match nth_error heap i with Some x => alg_of x | None => no_alg end) | None => None end.
Proof.
  induction dict as [|[n j] t IH]; cbn [abs_dict map abs_entry fst snd lookup dlookup]; [reflexivity|].
  destruct (Nat.eqb n a); [reflexivity|exact IH].
Qed.

Lemma abs_dict_set heap dict a i x x' : NoDup (map snd dict) -> dlookup a dict = Some i -> nth_error heap i = Some x ->
  abs_dict (set_nth i x' heap) dict = update a (alg_of x') (abs_dict heap dict).
Proof.
  intros Hn Hd Hx. induction dict as [|[n j] t IH]; cbn [dlookup] in Hd; [discriminate|].
  cbn [map snd] in Hn. inversion Hn as [|? ? Hnot Hn']. subst.
  cbn [abs_dict map update]. unfold abs_entry at 1 3. cbn [fst snd]. destruct (Nat.eqb n a) eqn:E.
  - injection Hd as ->. rewrite (nth_set_same i x' x heap Hx). f_equal. apply abs_dict_set_notin. exact Hnot.
  - assert (Hji : i <> j). { intros ->. apply Hnot. apply dlookup_in in Hd. apply (in_map snd) in Hd. exact Hd. }
    rewrite nth_set_other by exact Hji. f_equal. exact (IH Hn' Hd).
Qed.

Lemma run_sim x : wf_inst x ->
  match run_inst x with
  | inl e => run_alg (alg_of x) = inl ValueErr /\ e = ValueE
  | inr x' => run_alg (alg_of x) = inr (alg_of x')
  end.
Proof.
  intros _. unfold run_inst, run_alg, alg_of, bound_of. cbn.
  destruct (i_fs x) as [f|] eqn:Ef, (i_data x) as [d|] eqn:Ed; try (split; reflexivity).
  destruct (i_params x) as [p|] eqn:Ep; cbn; rewrite ?Ef, ?Ed, ?Ep; [reflexivity|split; reflexivity].
Qed.

Lemma mpe_sim args x : wf_inst x ->
  match mpe_inst args x with
  | inl e => mpe_alg args (alg_of x) = inl ValueErr /\ e = ValueE
  | inr x' => mpe_alg args (alg_of x) = inr (alg_of x')
  end.
Proof.
  intros (_ & H2 & _). unfold mpe_inst, mpe_alg, alg_of, bound_of. cbn.
  destruct (i_result x) as [r|] eqn:Er; [|split; reflexivity].
  destruct (H2 r eq_refl) as [p Hp]. rewrite Hp. cbn. rewrite ?Er, ?Hp. reflexivity.
Qed.

Lemma on_named_sim s a g g1 : wf_m s ->
  (forall x, wf_inst x -> match g x with inl e => g1 (alg_of x) = inl ValueErr /\ e = ValueE | inr x' => g1 (alg_of x) = inr (alg_of x') end) ->
  match lookup a (s_algs (abs s)) with
  | None => (Some KeyErr, abs s)
  | Some y => match g1 y with inl e => (Some e, abs s) | inr y' => (None, set_algs (abs s) (update a y' (s_algs (abs s)))) end
  end = (abs_err (fst (on_named s a g)), abs (snd (on_named s a g))).
Proof.
  intros [[Hn He] Hw] Hg. cbn [abs s_algs]. rewrite lookup_abs. unfold on_named.
  destruct (dlookup a (m_dict s)) as [i|] eqn:Hd; [|reflexivity].
  destruct (He a i (dlookup_in a i _ Hd)) as (x & Hx & _). rewrite Hx.
  pose proof (Hg x (Hw i x Hx)) as H. destruct (g x) as [e|x'].
  - destruct H as [H ->]. rewrite H. reflexivity.
  - rewrite H. cbn [fst snd abs_err]. unfold abs, set_algs. cbn [set_heap m_data m_fs m_heap m_dict s_data s_fs].
    rewrite (abs_dict_set _ _ a i x x' (dict_ok_nodup_snd _ _ (conj Hn He)) Hd Hx). reflexivity.
Qed.

Lemma run_each_sim l : forall heap, NoDup (map snd l) ->
  (forall n i, In (n,i) l -> exists x, nth_error heap i = Some x) -> (forall j x, nth_error heap j = Some x -> wf_inst x) ->
  run_each (abs_dict heap l) = (abs_err (fst (run_entries l heap)), abs_dict (snd (run_entries l heap)) l).
Proof.
  induction l as [|[n i] t IH]; intros heap Hn Hin Hw; cbn [abs_dict map run_each run_entries]; [reflexivity|].
  cbn [map snd] in Hn. inversion Hn as [|? ? Hnot Hn']. subst.
  destruct (Hin n i (or_introl eq_refl)) as [x Hx]. unfold abs_entry at 1. cbn [fst snd]. rewrite Hx.
  pose proof (run_sim x (Hw i x Hx)) as H. destruct (run_inst x) as [e|x'] eqn:Er.
  - destruct H as [H ->]. rewrite H. cbn [fst snd abs_err abs_dict map]. unfold abs_entry at 2. cbn [fst snd]. rewrite Hx. reflexivity.
  - rewrite H. fold (abs_dict heap t). rewrite <- (abs_dict_set_notin heap t i x' Hnot).
    rewrite (IH (set_nth i x' heap) Hn').
    + destruct (run_entries t (set_nth i x' heap)) as [e h'] eqn:E. cbn [fst snd map]. f_equal. f_equal.
      unfold abs_entry. cbn [fst snd].
      pose proof (run_entries_frame t (set_nth i x' heap) i (existsb_snd_false t i Hnot)) as Hf. rewrite E in Hf. cbn [snd] in Hf.
      rewrite Hf, (nth_set_same i x' x heap Hx). reflexivity.
    + intros m j Hj. destruct (Hin m j (or_intror Hj)) as [y Hy]. destruct (Nat.eq_dec i j) as [->|Hne].
      * exists x'. exact (nth_set_same j x' x heap Hx).
      * exists y. rewrite nth_set_other by exact Hne. exact Hy.
    + intros j y Hy. destruct (nth_set_cases _ _ _ _ _ Hy) as [[_ ->]|[_ Hy']]; [exact (wf_run x x' (Hw i x Hx) Er)|exact (Hw j y Hy')].
Qed.

(* one call of the first machine = the same call of the instance machine, seen through the dict *)
Definition op_of (o:mop) : option op :=
  match o with
  | MRun a => Some (RunByName a) | MRunAll => Some RunAll | MMpe a g => Some (Mpe a g)
  | MRebind d f => Some (Rebind d f) | MSaveLoad => Some SaveLoad | _ => None
  end.

Lemma sim_step s o o1 : wf_m s -> op_of o = Some o1 ->
  step (abs s) o1 = (abs_err (fst (mstep s o)), abs (snd (mstep s o))).
Proof.
  intros Hw Ho. destruct o as [l|j p|a| |a args|d f| |]; cbn [op_of] in Ho; try discriminate; injection Ho as <-; cbn [step mstep].
  - exact (on_named_sim s a run_inst run_alg Hw run_sim).
  - destruct Hw as [[Hn He] Hw]. cbn [abs s_algs].
    rewrite (run_each_sim (m_dict s) (m_heap s) (dict_ok_nodup_snd _ _ (conj Hn He))).
    + destruct (run_entries (m_dict s) (m_heap s)) as [e h]. reflexivity.
    + intros n i Hin. destruct (He n i Hin) as (x & Hx & _). exists x. exact Hx.
    + exact Hw.
  - exact (on_named_sim s a (mpe_inst args) (mpe_alg args) Hw (mpe_sim args)).
  - reflexivity.
  - reflexivity.
Qed.

(* add_algorithms of the first machine = adding an instance that is not registered and holds no result *)
Lemma abs_dict_dupsert heap dict a i : ~ In i (map snd dict) ->
  abs_dict heap (dupsert a i dict) = upsert a (match nth_error heap i with Some x => alg_of x | None => no_alg end) (abs_dict heap dict).
Proof.
  intros _. induction dict as [|[n j] t IH]; cbn [dupsert abs_dict map upsert]; [reflexivity|].
  unfold abs_entry at 2. cbn [fst snd]. destruct (Nat.eqb n a); cbn [map]; [reflexivity|]. fold (abs_dict heap (dupsert a i t)).
  rewrite IH. reflexivity.
Qed.

Lemma sim_add s i x : wf_m s -> nth_error (m_heap s) i = Some x -> ~ In i (map snd (m_dict s)) ->
  i_result x = None -> i_modes x = None ->
  step (abs s) (Add (i_name x) (i_cls x) (i_params x)) = (abs_err (fst (mstep s (MAdd [i]))), abs (snd (mstep s (MAdd [i])))).
Proof.
  intros Hw Hx Hnot Hr Hm. cbn [step abs s_fs s_data s_algs]. destruct (m_fs s) as [f|] eqn:Ef.
  - rewrite (madd_one_spec s i x f Ef Hx). cbn [fst snd abs_err]. unfold abs, set_algs. cbn [m_data m_fs m_heap m_dict s_data s_fs].
    rewrite Ef. f_equal. f_equal. rewrite (abs_dict_dupsert _ _ _ _ Hnot), (nth_set_same i _ x _ Hx), (abs_dict_set_notin _ _ _ _ Hnot).
    f_equal. unfold alg_of, bind_full, bound_of. cbn [i_cls i_params i_data i_fs i_result i_modes]. rewrite Hr, Hm.
    destruct (m_data s); reflexivity.
  - cbn [mstep forallb]. assert (Hlt : Nat.ltb i (length (m_heap s)) = true).
    { apply Nat.ltb_lt. apply nth_error_Some. rewrite Hx. discriminate. }
    rewrite Hlt. cbn [andb negb]. rewrite Ef, Hx. cbn [fst snd abs_err]. unfold abs. cbn [set_heap m_data m_fs m_heap m_dict].
    rewrite Ef, (abs_dict_set_notin _ _ _ _ Hnot). reflexivity.
Qed.

(* ---------------------------------------------------------------- whole histories: the first machine compiled to the second *)
(* every add_algorithms of the first machine constructs its instance beforehand and adds it once *)
Fixpoint compile (next:nat) (h:list op) : list mop * list inst :=
  match h with
  | [] => ([], [])
  | Add a c p :: t => let r := compile (S next) t in (MAdd [next] :: fst r, new_inst a c p :: snd r)
  | RunByName a :: t => let r := compile next t in (MRun a :: fst r, snd r)
  | RunAll :: t => let r := compile next t in (MRunAll :: fst r, snd r)
  | Mpe a g :: t => let r := compile next t in (MMpe a g :: fst r, snd r)
  | Rebind d f :: t => let r := compile next t in (MRebind d f :: fst r, snd r)
  | SaveLoad :: t => let r := compile next t in (MSaveLoad :: fst r, snd r)
  end.

Lemma skipn_ext {A} n : forall (l l':list A), length l = length l' -> (forall j, n <= j -> nth_error l j = nth_error l' j) -> skipn n l = skipn n l'.
Proof.
  induction n as [|n IH]; intros l l' HL H.
  - cbn [skipn]. revert l' HL H. induction l as [|x t IHl]; intros [|y t'] HL H; cbn [length] in HL; try discriminate; [reflexivity|].
    pose proof (H 0 (le_n 0)) as H0. cbn [nth_error] in H0. injection H0 as ->. f_equal. apply IHl; [lia|].
    intros j _. exact (H (S j) (Nat.le_0_l _)).
  - destruct l as [|x t], l' as [|y t']; cbn [length] in HL; try discriminate; cbn [skipn]; [reflexivity|].
    apply IH; [lia|]. intros j Hj. exact (H (S j) (le_n_S _ _ Hj)).
Qed.

Lemma skipn_S_cons {A} n : forall (l:list A) x rest, skipn n l = x :: rest -> skipn (S n) l = rest.
Proof.
  induction n as [|n IH]; intros l x rest H.
  - cbn [skipn] in H. subst l. reflexivity.
  - destruct l as [|y t]; [discriminate|]. cbn [skipn] in H. exact (IH t x rest H).
Qed.

Lemma mstep_length s o : length (m_heap (snd (mstep s o))) = length (m_heap s).
Proof.
  assert (H : hrel (fun _ _ => True) (m_heap s) (m_heap (snd (mstep s o)))) by (apply mstep_hrel; intros; try split; intros; exact I).
  symmetry. exact (proj1 H).
Qed.

Definition inv (s:mstate) (next:nat) (rest:list inst) : Prop :=
  wf_m s /\ skipn next (m_heap s) = rest /\ next + length rest = length (m_heap s) /\
  (forall j y, nth_error rest j = Some y -> fresh_inst y) /\ (forall n i, In (n,i) (m_dict s) -> i < next).

Lemma nth_skipn {A} n (l:list A) j : nth_error (skipn n l) j = nth_error l (n + j).
Proof. revert l. induction n as [|n IH]; intros l; [reflexivity|]. destruct l as [|x t]; [destruct j; reflexivity|]. cbn [skipn plus nth_error]. apply IH. Qed.

Lemma inv_step s next rest o o1 : inv s next rest -> op_of o = Some o1 -> inv (snd (mstep s o)) next rest.
Proof.
  intros (Hw & Hs & HL & Hf & Hd) Ho.
  assert (Hdict : m_dict (snd (mstep s o)) = m_dict s).
  { apply mframe_dict; destruct o; cbn [op_of] in Ho; try discriminate; intros; discriminate. }
  assert (Hlen : length (m_heap (snd (mstep s o))) = length (m_heap s)).
  { apply mstep_length. }
  split; [exact (mstep_wf s o Hw)|]. split; [|split; [|split]].
  - rewrite <- Hs. apply skipn_ext; [exact Hlen|]. intros j Hj. apply mframe.
    assert (Hnot : forall n, ~ In (n,j) (m_dict s)) by (intros n Hin; specialize (Hd n j Hin); lia).
    destruct o as [l|k p|a| |a args|d f| |]; cbn [op_of] in Ho; try discriminate; cbn [touches]; try reflexivity.
    + destruct (dlookup a (m_dict s)) as [k|] eqn:E; [|reflexivity]. apply Nat.eqb_neq. intros ->. exact (Hnot a (dlookup_in a j _ E)).
    + apply existsb_snd_false. intros Hin. apply in_map_iff in Hin. destruct Hin as ([n k] & Hk & Hin). cbn [snd] in Hk. subst k. exact (Hnot n Hin).
    + destruct (dlookup a (m_dict s)) as [k|] eqn:E; [|reflexivity]. apply Nat.eqb_neq. intros ->. exact (Hnot a (dlookup_in a j _ E)).
  - rewrite Hlen. exact HL.
  - exact Hf.
  - rewrite Hdict. exact Hd.
Qed.

Lemma inv_add s next a c p rest : inv s next (new_inst a c p :: rest) ->
  step (abs s) (Add a c p) = (abs_err (fst (mstep s (MAdd [next]))), abs (snd (mstep s (MAdd [next])))) /\
  inv (snd (mstep s (MAdd [next]))) (S next) rest.
Proof.
  intros (Hw & Hs & HL & Hf & Hd).
  assert (Hx : nth_error (m_heap s) next = Some (new_inst a c p)).
  { pose proof (nth_skipn next (m_heap s) 0) as H. rewrite Hs, Nat.add_0_r in H. cbn [nth_error] in H. symmetry. exact H. }
  assert (Hnot : ~ In next (map snd (m_dict s))).
  { intros Hin. apply in_map_iff in Hin. destruct Hin as ([n k] & Hk & Hin). cbn [snd] in Hk. subst k. specialize (Hd n next Hin). lia. }
  split; [exact (sim_add s next (new_inst a c p) Hw Hx Hnot eq_refl eq_refl)|].
  pose proof (mstep_wf s (MAdd [next]) Hw) as Hw'.
  assert (Hlen : length (m_heap (snd (mstep s (MAdd [next])))) = length (m_heap s)).
  { apply mstep_length. }
  split; [exact Hw'|]. split; [|split; [|split]].
  - assert (Hs1 : skipn (S next) (m_heap s) = rest).
    { exact (skipn_S_cons next _ _ _ Hs). }
    rewrite <- Hs1. apply skipn_ext; [exact Hlen|]. intros j Hj. apply mframe. cbn [touches existsb].
    apply orb_false_iff. split; [apply Nat.eqb_neq; lia|reflexivity].
  - rewrite Hlen. cbn [length] in HL. lia.
  - intros j y Hy. exact (Hf (S j) y Hy).
  - intros n i Hin. destruct (m_fs s) as [f|] eqn:Ef.
    + rewrite (madd_one_spec s next _ f Ef Hx) in Hin. cbn [snd m_dict] in Hin.
      destruct (in_dupsert _ _ _ _ _ (proj1 (proj1 Hw)) Hin) as [[_ ->]|[_ Hold]]; [lia|]. specialize (Hd n i Hold). lia.
    + destruct (madd_exception s [next] TypeE) as (Hdd & _).
      { cbn [mstep forallb]. assert (Hlt : Nat.ltb next (length (m_heap s)) = true) by (apply Nat.ltb_lt; apply nth_error_Some; rewrite Hx; discriminate).
        rewrite Hlt. cbn [andb negb]. rewrite Ef, Hx. reflexivity. }
      rewrite Hdd in Hin. specialize (Hd n i Hin). lia.
Qed.

Lemma compile_sim h : forall next s, inv s next (snd (compile next h)) ->
  exec h (abs s) = abs (mexec (fst (compile next h)) s) /\ trace h (abs s) = map abs_err (mtrace (fst (compile next h)) s).
Proof.
  induction h as [|o t IH]; intros next s Hinv; [split; reflexivity|].
  assert (Hgen : forall o2 o1, op_of o2 = Some o1 -> o = o1 -> compile next (o :: t) = (o2 :: fst (compile next t), snd (compile next t)) ->
            exec (o :: t) (abs s) = abs (mexec (fst (compile next (o :: t))) s) /\
            trace (o :: t) (abs s) = map abs_err (mtrace (fst (compile next (o :: t))) s)).
  { intros o2 o1 Ho2 -> Hc. rewrite Hc in *. cbn [fst snd] in *.
    pose proof (sim_step s o2 o1 (proj1 Hinv) Ho2) as Hs. pose proof (inv_step s next _ o2 o1 Hinv Ho2) as Hi.
    destruct (IH next _ Hi) as [E1 E2]. cbn [exec mexec fold_left trace mtrace map]. rewrite Hs. cbn [fst snd].
    split; [exact E1|rewrite E2; reflexivity]. }
  destruct o as [a c p|a| |a g|d f|].
  - cbn [compile fst snd] in *. destruct (inv_add s next a c p _ Hinv) as [Hs Hi].
    destruct (IH (S next) _ Hi) as [E1 E2]. cbn [exec mexec fold_left trace mtrace map]. rewrite Hs. cbn [fst snd].
    split; [exact E1|rewrite E2; reflexivity].
  - exact (Hgen (MRun a) (RunByName a) eq_refl eq_refl eq_refl).
  - exact (Hgen MRunAll RunAll eq_refl eq_refl eq_refl).
  - exact (Hgen (MMpe a g) (Mpe a g) eq_refl eq_refl eq_refl).
  - exact (Hgen (MRebind d f) (Rebind d f) eq_refl eq_refl eq_refl).
  - exact (Hgen MSaveLoad SaveLoad eq_refl eq_refl eq_refl).
Qed.

Lemma compile_fresh h : forall next j y, nth_error (snd (compile next h)) j = Some y -> fresh_inst y.
Proof.
  induction h as [|o t IH]; intros next j y; [destruct j; discriminate|].
  destruct o as [a c p|a| |a g|d f|]; cbn [compile snd]; try apply IH.
  destruct j as [|j]; cbn [nth_error]; [intros H; injection H as <-; repeat split|apply IH].
Qed.

(* every history of the first machine on a new setup is a history of the instance machine on a new setup around the
   instances its adds construct: same exceptions call by call, same final state seen through the dict *)
Theorem first_machine_embeds d0 f0 h :
  exec h (new_setup d0 f0) = abs (mexec (fst (compile 0 h)) (new_mstate d0 f0 (snd (compile 0 h)))) /\
  trace h (new_setup d0 f0) = map abs_err (mtrace (fst (compile 0 h)) (new_mstate d0 f0 (snd (compile 0 h)))).
Proof.
  apply (compile_sim h 0 (new_mstate d0 f0 (snd (compile 0 h)))).
  split; [apply wf_mnew; exact (compile_fresh h 0)|]. split; [reflexivity|]. split; [reflexivity|]. split; [exact (compile_fresh h 0)|].
  intros n i [].
Qed.
