(* C08 - the covariance of the covariance-driven SSI pipeline, composed END TO END in the EXACT-RANK case.

   Pipeline:  data -> Hankel H -> SVD (U,S,V) -> Obs = U[:, :n] sqrt(S) -> A_n = L Obs[l:], C_n = Obs[:l]
              -> eig(A_n) = (d, Vv) -> poles d, shapes C_n Vv -> unity normalisation.
   Setting:   H is an exact rank-n Hankel matrix, H = Ob Gam (Ob with a left inverse, Gam with a right inverse), with the
              block shift structure Ob[l:] = Ob[:-l] A and first block C  [exact_sys]; the true A has a complete complex
              modal basis Phi with pairwise different poles lam  [modal_basis].
   Kernels:   every numerical kernel is universally quantified under its contract - ANY triple meeting the SVD contract
              with zero singular values beyond n, ANY square roots of the first n singular values (sq, inverse sqi)
              [svd_run], ANY left inverse L of Obs[:-l] (pinv / QR solve), ANY full eigen-decomposition A_n Vv = Vv diag d
              with independent columns (W Vv = I)  [eig_run].  Run 1 and run 2 need not make related choices  [two_runs].
   Results:   ident_similar        (A_n, C_n) is similar to the true (A, C), whatever the choices;
              exact_sys_gain/_mix  the transformed matrix  g^2 H  resp.  (I (x) Q) H (I (x) Qr)^T  is the exact Hankel matrix
                                   of (A, g C) resp. (A, Q C);
              pipeline_gain        poles of run 2 = a Permutation of the poles of run 1, every mode has exactly one partner with
                                   the same pole, partner shapes are proportional by a non-zero complex factor and IDENTICAL
                                   after unity normalisation;
              pipeline_mix         the same with shapes proportional to the rotated shape Q (C_n psi) (normalised alike);
              pipeline_perm        channel permutation: proportional to the permuted shape, and when the largest modulus is
                                   attained once the normalised shape of run 2 is the permuted normalised shape of run 1;
              pipeline_svd_choice  g = 1: the result does not depend on the decomposition the SVD kernel returns;
              time unit            in each statement: the continuous poles log(d)/(dt/kk) of run 2 are a Permutation of
                                   kk * log(d)/dt of run 1 (any complex logarithm clog);
              pipeline_*_data      the same on the DATA for every Hankel builder of the parametric form of C12
                                   (hank_mm, hank_R): H = Hb Y Yref, H' = Hb (transformed Y) (transformed Yref).
   Carrier:   a field with a decidable strict order satisfying the five order facts of P_covar (Section PU), formally real
              (a^2 + b^2 = 0 -> a = 0); complex numbers = pairs (Base/Cplx.v).  Holds at Qc (instance at the end).
   NOT here:  noisy full-rank data, where the truncation at order n discards non-zero singular values
              (Properties/C08.v, C08_full_statement). *)
From Coq Require Import List Arith Lia Ring Field Setoid Morphisms Permutation Bool.
From PyOMA.Base Require Import Carrier FMat Cplx EigCount.
From PyOMA.Model Require Import M_hankel M_covar M_realise.
From PyOMA.Proofs Require Import P_hankel P_covar P_realise P_eigcount_c01.
Import ListNotations.

Section PL.
Variable R:Type. Variable K:Ops R.
Hypothesis Rth : ring_theory (o0 K) (o1 K) (oadd K) (omul K) (osub K) (oopp K) (@eq R).
Add Ring RrPL : Rth.
Local Open Scope K_scope.
Notation "0" := (o0 K) : K_scope. Notation "1" := (o1 K) : K_scope.
Infix "+" := (oadd K) : K_scope. Infix "*" := (omul K) : K_scope.
Notation fmul := (fmul K). Notation fid := (fid K). Notation fscal := (fscal K).
Let assoc := fmul_assoc R K Rth.
Let idl := fmul_id_l R K Rth.
Let idr := fmul_id_r R K Rth.

(* exact rank-n Hankel matrix of a system (A, C): H = Ob Gam, Ob with a left inverse, Gam with a right inverse,
   block shift structure Ob[l:] = Ob[:-l] A and first block Ob[:l] = C *)
Definition exact_sys (rows cols l n:nat) (H Ob Gam OL GR A C:fmat R) : Prop :=
  (l <= rows)%nat /\
  feq rows cols H (fmul n Ob Gam) /\ feq n n (fmul rows OL Ob) fid /\ feq n n (fmul cols Gam GR) fid /\
  feq (rows - l) n (rows_from l Ob) (fmul n Ob A) /\ feq l n Ob C.

(* what one call of np.linalg.svd may return on an exact rank-n matrix: any triple meeting the contract, zero singular
   values beyond n, and any square roots sq (with inverses sqi) of the first n *)
Definition svd_run (rows cols k n:nat) (H U:fmat R) (S:nat->R) (V:fmat R) (sq sqi:nat->R) : Prop :=
  (n <= k)%nat /\ svd_contract K rows cols k H U S V /\
  (forall j, (n <= j < k)%nat -> S j = 0) /\
  (forall j, (j < n)%nat -> sq j * sq j = S j /\ sq j * sqi j = 1).

(* the identified pair as the code builds it: Obs = U[:, :n] sqrt(S), A_n = L Obs[l:] with L any left inverse of
   Obs[:-l], C_n = Obs[:l] *)
Definition ident_A (rows l:nat) (L U:fmat R) (sq:nat->R) : fmat R := fmul (rows - l) L (rows_from l (cv_obs K U sq)).
Definition ident_C (U:fmat R) (sq:nat->R) : fmat R := cv_obs K U sq.

Lemma rows_from_dn l (M:fmat R) a b : feq a b (rows_from l M) (rows_dn l M).
Proof. intros i j _ _. unfold rows_from, rows_dn. rewrite Nat.add_comm. reflexivity. Qed.

(* ANY triple, ANY left inverse: the identified pair is similar to the true one *)
Theorem ident_similar rows cols l k n (H Ob Gam OL GR A C U V L:fmat R) (S sq sqi:nat->R) :
  exact_sys rows cols l n H Ob Gam OL GR A C ->
  svd_run rows cols k n H U S V sq sqi ->
  feq n n (fmul (rows - l) L (cv_obs K U sq)) fid ->
  exists T Ti, similar_pair R K l n A C (ident_A rows l L U sq) (ident_C U sq) T Ti.
Proof.
  intros (Hl & HH & HOL & HGR & Hsh & HC) (Hnk & (S1 & S2 & S3) & Hz & Hsq) HL.
  assert (Hsvd: feq rows cols H (fmul k U (fmul k (fdiag K S) (ftr V)))).
  { rewrite S1. apply (assoc rows k k cols U (cv_diag K S) (ftr V)). }
  assert (Hsh': feq (rows - l) n (rows_dn l Ob) (fmul n Ob A)).
  { rewrite <- (rows_from_dn l Ob (rows - l) n). exact Hsh. }
  destruct (ssi_legacy_exact R K Rth rows cols l k n H U V Ob Gam OL GR A C L S sq sqi
              Hnk Hl Hsvd S2 S3 Hz Hsq HH HOL HGR Hsh' HC HL) as (T1 & T2 & T3 & T4).
  eexists. eexists. unfold similar_pair. split; [exact T1|]. split; [exact T2|]. split; [|exact T4].
  rewrite <- T3. unfold ident_A, ssi_legacy_A.
  rewrite (rows_from_dn l (cv_obs K U sq) (rows - l) n). reflexivity.
Qed.

(* ---------- the transformed data have an exact system too ---------- *)
(* common gain g (invertible): H' = g^2 H, true system (A, g C) *)
Theorem exact_sys_gain rows cols l n (H Ob Gam OL GR A C:fmat R) g gi : g * gi = 1 ->
  exact_sys rows cols l n H Ob Gam OL GR A C ->
  exact_sys rows cols l n (fscal (g*g) H) (fscal g Ob) (fscal g Gam) (fscal gi OL) (fscal gi GR) A (fscal g C).
Proof.
  intros Hg (Hl & HH & HOL & HGR & Hsh & HC).
  assert (Hg': gi * g = 1) by (rewrite <- Hg; ring).
  split; [exact Hl|]. split; [|split; [|split; [|split]]].
  - intros i j Hi Hj. rewrite (fmul_scal_l R K Rth rows n cols g Ob (fscal g Gam) i j Hi Hj). unfold FMat.fscal at 1 2.
    rewrite (fmul_scal_r R K Rth rows n cols g Ob Gam i j Hi Hj). unfold FMat.fscal. rewrite (HH i j Hi Hj). ring.
  - apply (realise_gain R K Rth rows n g gi OL Ob Ob Hg HOL).
  - apply (realise_gain R K Rth cols n gi g Gam GR GR Hg' HGR).
  - intros i j Hi Hj. rewrite (fmul_scal_l R K Rth (rows - l) n n g Ob A i j Hi Hj).
    unfold rows_from, FMat.fscal. f_equal. apply (Hsh i j Hi Hj).
  - intros i j Hi Hj. unfold FMat.fscal. f_equal. apply (HC i j Hi Hj).
Qed.

(* orthogonal channel mixing Q (data) and Qr (references): H' = (I (x) Q) H (I (x) Qr)^T, true system (A, Q C) *)
Theorem exact_sys_mix l r br n (H Ob Gam OL GR A C Q Qr:fmat R) : (0 < l)%nat -> (0 < r)%nat ->
  feq l l (fmul l (ftr Q) Q) fid -> feq r r (fmul r (ftr Qr) Qr) fid ->
  exact_sys (hank_rows l br) (hank_cols r br) l n H Ob Gam OL GR A C ->
  exact_sys (hank_rows l br) (hank_cols r br) l n
    (fmul (hank_cols r br) (fmul (hank_rows l br) (kronI K l Q) H) (ftr (kronI K r Qr)))
    (fmul (hank_rows l br) (kronI K l Q) Ob) (fmul (hank_cols r br) Gam (ftr (kronI K r Qr)))
    (fmul (hank_rows l br) OL (ftr (kronI K l Q))) (fmul (hank_cols r br) (kronI K r Qr) GR)
    A (fmul l Q C).
Proof.
  intros Hl0 Hr0 HQ HQr (Hl & HH & HOL & HGR & Hsh & HC).
  unfold hank_rows, hank_cols in *.
  set (rows := (S br * l)%nat) in *. set (cols := (S br * r)%nat) in *.
  set (KQ := kronI K l Q). set (KQr := kronI K r Qr).
  pose proof (kronI_orth R K Rth (S br) l Q Hl0 HQ) as HP. fold rows KQ in HP.
  pose proof (kronI_orth R K Rth (S br) r Qr Hr0 HQr) as HPr. fold cols KQr in HPr.
  assert (Epl: (rows - l = br * l)%nat) by (unfold rows; lia).
  split; [exact Hl|]. split; [|split; [|split; [|split]]].
  - rewrite HH. rewrite <- (assoc rows rows n cols KQ Ob Gam).
    apply (assoc rows n cols cols (fmul rows KQ Ob) Gam (ftr KQr)).
  - apply (realise_orth R K Rth rows n KQ OL Ob Ob HP HOL).
  - rewrite (assoc n cols cols n Gam (ftr KQr) (fmul cols KQr GR)).
    rewrite <- (assoc cols cols cols n (ftr KQr) KQr GR). rewrite HPr. rewrite (idl cols n GR). exact HGR.
  - rewrite Epl in *. unfold rows, KQ.
    rewrite (kron_shift_blocks R K Rth br l n Q Ob Hl0). rewrite Hsh.
    rewrite <- (assoc (br*l) (br*l) n n (kronI K l Q) Ob A).
    rewrite (kron_top_blocks R K Rth br l n Q Ob Hl0). reflexivity.
  - unfold rows, KQ. rewrite (kron_first_block R K Rth br l n Q Ob Hl0). rewrite HC. reflexivity.
Qed.

(* the contract only sees the matrix entries *)
Lemma svd_run_ext rows cols k n (H H2 U:fmat R) (S:nat->R) (V:fmat R) (sq sqi:nat->R) :
  feq rows cols H H2 -> svd_run rows cols k n H U S V sq sqi -> svd_run rows cols k n H2 U S V sq sqi.
Proof.
  intros E (Hnk & (S1 & S2 & S3) & Hz & Hsq). split; [exact Hnk|]. split; [|split; assumption].
  split; [|split; assumption]. rewrite <- E. exact S1.
Qed.

(* a channel permutation is the mixing with its permutation matrix *)
Lemma hank_perm_is_mix l r br pi rho (H:fmat R) :
  (forall a, (a < l)%nat -> (pi a < l)%nat) -> (forall b, (b < r)%nat -> (rho b < r)%nat) ->
  feq (hank_rows l br) (hank_cols r br) (hank_perm_rhs l r pi rho H) (hank_mix_rhs K l r (pmat K pi) (pmat K rho) H).
Proof.
  intros Hpi Hrho I J HI HJ.
  assert (Hl: (0 < l)%nat) by (unfold hank_rows in HI; destruct l; lia).
  assert (Hr: (0 < r)%nat) by (unfold hank_cols in HJ; destruct r; lia).
  assert (Ha: (I mod l < l)%nat) by (apply Nat.mod_upper_bound; lia).
  assert (Hb: (J mod r < r)%nat) by (apply Nat.mod_upper_bound; lia).
  unfold hank_perm_rhs, hank_mix_rhs, bperm, pmat. symmetry.
  rewrite (sumn_ext R K l _ (fun c => (if Nat.eqb c (pi (I mod l)%nat) then 1 else 0) *
      sumn K r (fun d => (if Nat.eqb d (rho (J mod r)%nat) then 1 else 0) * H ((I / l) * l + c)%nat ((J / r) * r + d)%nat))).
  - rewrite (sumn_delta R K Rth l (pi (I mod l)%nat) (fun c => sumn K r (fun d => (if Nat.eqb d (rho (J mod r)%nat) then 1 else 0) *
        H ((I / l) * l + c)%nat ((J / r) * r + d)%nat)) (Hpi _ Ha)).
    apply (sumn_delta R K Rth r (rho (J mod r)%nat) (fun d => H ((I / l) * l + pi (I mod l)%nat)%nat ((J / r) * r + d)%nat) (Hrho _ Hb)).
  - intros c _. rewrite <- (sumn_scal R K Rth). apply sumn_ext; intros d _. ring.
Qed.

(* ---------- any Hankel builder of the parametric form of C12 (cov_mm, cov_R, ...) obeys the three data relations ---------- *)
Section Builder.
Variables (win:nat->nat->list nat) (wt:nat->nat->R) (dl rl:nat->nat->nat) (l r br:nat).
Variable Hb : sig R -> sig R -> fmat R.
Hypothesis HbGen : forall Y Yref, feq (hank_rows l br) (hank_cols r br) (Hb Y Yref) (hank_gen K win wt dl rl l r Y Yref).

Lemma hb_gain g (Y Yref:sig R) :
  feq (hank_rows l br) (hank_cols r br) (Hb (sgain K g Y) (sgain K g Yref)) (fscal (g*g) (Hb Y Yref)).
Proof.
  intros I J HI HJ. rewrite (HbGen _ _ I J HI HJ). unfold FMat.fscal. rewrite (HbGen Y Yref I J HI HJ).
  apply (hank_gain_gen R K Rth).
Qed.
Lemma hb_perm pi rho (Y Yref:sig R) :
  (forall a, (a < l)%nat -> (pi a < l)%nat) -> (forall b, (b < r)%nat -> (rho b < r)%nat) ->
  feq (hank_rows l br) (hank_cols r br) (Hb (sperm pi Y) (sperm rho Yref)) (hank_perm_rhs l r pi rho (Hb Y Yref)).
Proof.
  intros Hpi Hrho I J HI HJ. unfold hank_perm_rhs. rewrite (HbGen _ _ I J HI HJ).
  destruct (bperm_lt l br pi I Hpi HI) as (HI' & _). destruct (bperm_lt r br rho J Hrho HJ) as (HJ' & _).
  rewrite (HbGen Y Yref _ _ HI' HJ'). apply (hank_gen_perm_idx R K _ _ _ _ l r br); assumption.
Qed.
Lemma hb_mix Q Qr (Y Yref:sig R) :
  feq (hank_rows l br) (hank_cols r br) (Hb (smix K l Q Y) (smix K r Qr Yref)) (hank_mix_rhs K l r Q Qr (Hb Y Yref)).
Proof.
  intros I J HI HJ.
  assert (Hl: (0 < l)%nat) by (unfold hank_rows in HI; destruct l; lia).
  assert (Hr: (0 < r)%nat) by (unfold hank_cols in HJ; destruct r; lia).
  rewrite (HbGen _ _ I J HI HJ). rewrite (hank_mix_gen R K Rth win wt dl rl l r Q Qr Y Yref I J Hl Hr).
  unfold hank_mix_rhs. apply sumn_ext; intros c Hc. apply sumn_ext; intros d Hd. f_equal. symmetry. apply HbGen.
  - assert (Hi: (I / l < S br)%nat) by (apply Nat.div_lt_upper_bound; unfold hank_rows in HI; lia). unfold hank_rows. nia.
  - assert (Hj: (J / r < S br)%nat) by (apply Nat.div_lt_upper_bound; unfold hank_cols in HJ; lia). unfold hank_cols. nia.
Qed.
End Builder.
End PL.
(* ---------- matching the modes of two runs (any commutative ring) ---------- *)
Section MM.
Variable R:Type. Variable K:Ops R.
Hypothesis Rth : ring_theory (o0 K) (o1 K) (oadd K) (omul K) (osub K) (oopp K) (@eq R).
Add Ring RrMM : Rth.
Local Open Scope K_scope.
Notation "0" := (o0 K) : K_scope. Notation "1" := (o1 K) : K_scope.
Infix "+" := (oadd K) : K_scope. Infix "*" := (omul K) : K_scope.
Notation fmul := (fmul K).

Variables (l l' n:nat) (B B' M SH SH':fmat R) (lam d d':nat->R) (sg sg':nat->nat) (c c':nat->R).
Hypothesis HB : feq l' n B' (fmul l M B).
Hypothesis Hdist : forall i j, (i < n)%nat -> (j < n)%nat -> i <> j -> lam i <> lam j.
Hypothesis Hb : forall k, (k < n)%nat -> (sg k < n)%nat.
Hypothesis Hd : forall k, (k < n)%nat -> d k = lam (sg k).
Hypothesis Hc : forall k, (k < n)%nat -> (exists ci, ci * c k = 1) /\ forall i, (i < l)%nat -> SH i k = B i (sg k) * c k.
Hypothesis Hb' : forall k, (k < n)%nat -> (sg' k < n)%nat.
Hypothesis Hinj' : forall k k', (k < n)%nat -> (k' < n)%nat -> sg' k = sg' k' -> k = k'.
Hypothesis Hsur' : forall i, (i < n)%nat -> exists k, (k < n)%nat /\ sg' k = i.
Hypothesis Hd' : forall k, (k < n)%nat -> d' k = lam (sg' k).
Hypothesis Hc' : forall k, (k < n)%nat -> c' k <> 0 /\ forall i, (i < l')%nat -> SH' i k = B' i (sg' k) * c' k.

Theorem modes_match k : (k < n)%nat ->
  exists k', (k' < n)%nat /\ d' k' = d k /\ (forall k'', (k'' < n)%nat -> d' k'' = d k -> k'' = k') /\
    exists s, s <> 0 /\ forall i, (i < l')%nat -> SH' i k' = s * fmul l M SH i k.
Proof.
  intros Hk. pose proof (Hb k Hk) as Hj. destruct (Hsur' (sg k) Hj) as (k' & Hk' & Ek').
  exists k'. split; [exact Hk'|]. split; [rewrite (Hd' k' Hk'), (Hd k Hk), Ek'; reflexivity|]. split.
  - intros k'' Hk'' E. apply (Hinj' k'' k' Hk'' Hk'). rewrite Ek'.
    destruct (Nat.eq_dec (sg' k'') (sg k)) as [E0|Hne]; [exact E0|exfalso].
    apply (Hdist (sg' k'') (sg k) (Hb' k'' Hk'') Hj Hne). rewrite <- (Hd' k'' Hk''), <- (Hd k Hk). exact E.
  - destruct (Hc k Hk) as [[ci Hci] Hcol]. destruct (Hc' k' Hk') as [Hnz' Hcol'].
    exists (c' k' * ci). split.
    + intros E. apply Hnz'. transitivity (c' k' * ci * c k); [|rewrite E; ring].
      transitivity (c' k' * (ci * c k)); [rewrite Hci; ring|ring].
    + intros i Hi. rewrite (Hcol' i Hi). rewrite Ek'. rewrite (HB i (sg k) Hi Hj). unfold FMat.fmul.
      rewrite (sumn_ext R K l (fun a => M i a * SH a k) (fun a => (M i a * B a (sg k)) * c k)).
      * rewrite (sumn_scal_r R K Rth). set (X := sumn K l (fun a => M i a * B a (sg k))).
        transitivity (X * c' k' * (ci * c k)); [rewrite Hci; ring|ring].
      * intros a Ha. rewrite (Hcol a Ha). ring.
Qed.
End MM.

(* ---------- two identified pairs, one modal basis: the eigen-solver outputs match ---------- *)
Section PM.
Variable R:Type. Variable K:Ops R.
Hypothesis Fth : field_theory (o0 K) (o1 K) (oadd K) (omul K) (osub K) (oopp K) (odiv K) (oinv K) (@eq R).
Hypothesis Rdec : forall x y:R, {x = y} + {x <> y}.
Hypothesis Hreal : forall a b:R, oadd K (omul K a a) (omul K b b) = o0 K -> a = o0 K.
Let Rth := F_R Fth.
Let Hint := field_integral R K Fth Rdec.
Let H10 := F_1_neq_0 Fth.
Notation KC := (COps K).
Let CRt := CRth R K Rth.
Add Ring RrPMc : CRt.
Notation fm := (fmul KC). Notation fI := (fid KC).
Notation cemb := (cemb R K).

Lemma cplx_nz (s:C R) : s <> c0 K -> cnorm2 K s <> o0 K.
Proof. intros Hs E. apply Hs. apply (cnorm2_zero R K Rth Hreal). exact E. Qed.
Lemma cplx_inv_wit (s:C R) : s <> c0 K -> exists si, omul KC si s = o1 KC.
Proof. intros Hs. exists (cinv K s). apply (cinv_l R K Fth). apply cplx_nz. exact Hs. Qed.
Lemma cmul_nz (s t:C R) : s <> c0 K -> t <> c0 K -> cmul K s t <> c0 K.
Proof. intros Hs Ht E. destruct (cplx_integral R K Rth Hint Hreal s t E) as [E0|E0]; contradiction. Qed.

(* the true system has a complete modal basis over the complex numbers with pairwise different poles *)
Definition modal_basis (n:nat) (A:fmat R) (Phi Phii:fmat (C R)) (lam:nat -> C R) : Prop :=
  feq n n (fm n (cemb A) Phi) (fm n Phi (fdiag KC lam)) /\
  feq n n (fm n Phi Phii) fI /\ feq n n (fm n Phii Phi) fI /\
  (forall i j, (i < n)%nat -> (j < n)%nat -> i <> j -> lam i <> lam j).
(* what the eigen-solver may return for Ah: any full decomposition with independent eigenvector columns *)
Definition eig_run (n:nat) (Ah:fmat R) (Vv W:fmat (C R)) (d:nat -> C R) : Prop :=
  feq n n (fm n (cemb Ah) Vv) (fm n Vv (fdiag KC d)) /\ feq n n (fm n W Vv) fI.

Theorem two_runs_match l l' n (A Cm Ah Ch T Ti Cm' Ah' Ch' T' Ti':fmat R) (Mx Phi Phii Vv W Vv' W':fmat (C R)) (lam d d':nat -> C R) :
  similar_pair R K l n A Cm Ah Ch T Ti -> similar_pair R K l' n A Cm' Ah' Ch' T' Ti' ->
  feq l' n (cemb Cm') (fm l Mx (cemb Cm)) ->
  modal_basis n A Phi Phii lam -> eig_run n Ah Vv W d -> eig_run n Ah' Vv' W' d' ->
  Permutation (tab n d') (tab n d) /\
  forall k, (k < n)%nat ->
    exists k', (k' < n)%nat /\ d' k' = d k /\ (forall k'', (k'' < n)%nat -> d' k'' = d k -> k'' = k') /\
      exists s, s <> c0 K /\ forall i, (i < l')%nat ->
        fm n (cemb Ch') Vv' i k' = cmul K s (fm l Mx (fm n (cemb Ch) Vv) i k).
Proof.
  intros Hs Hs' HM (HPhi & HPr & HPl & Hdist) (HV & HW) (HV' & HW').
  destruct (pole_multiplicity R K Rth Hint H10 Rdec Hreal l n A Cm Ah Ch T Ti Phi Phii Vv W lam d Hs HPhi HPr HPl Hdist HV HW)
    as (HP & _ & (sg & c & Hb & Hinj & Hsur & Hd & Hc) & _).
  destruct (pole_multiplicity R K Rth Hint H10 Rdec Hreal l' n A Cm' Ah' Ch' T' Ti' Phi Phii Vv' W' lam d' Hs' HPhi HPr HPl Hdist HV' HW')
    as (HP' & _ & (sg' & c' & Hb' & Hinj' & Hsur' & Hd' & Hc') & _).
  split; [exact (Permutation_trans HP' (Permutation_sym HP))|].
  assert (HB: feq l' n (fm n (cemb Cm') Phi) (fm l Mx (fm n (cemb Cm) Phi))).
  { rewrite HM. apply (fmul_assoc (C R) KC CRt l' l n n Mx (cemb Cm) Phi). }
  intros k Hk.
  apply (modes_match (C R) KC CRt l l' n (fm n (cemb Cm) Phi) (fm n (cemb Cm') Phi) Mx (fm n (cemb Ch) Vv) (fm n (cemb Ch') Vv')
           lam d d' sg sg' c c' HB Hdist Hb Hd); try assumption.
  intros k0 Hk0. destruct (Hc k0 Hk0) as [Hnz Hcol]. split; [apply cplx_inv_wit; exact Hnz|exact Hcol].
Qed.
End PM.

(* ---------- unity-normalised shapes and the composed statements ---------- *)
Section PF.
Variable R:Type. Variable K:Ops R.
Hypothesis Fth : field_theory (o0 K) (o1 K) (oadd K) (omul K) (osub K) (oopp K) (odiv K) (oinv K) (@eq R).
Hypothesis Hreal : forall a b:R, oadd K (omul K a a) (omul K b b) = o0 K -> a = o0 K.
Variable ltb : R -> R -> bool.
Hypothesis lt_irrefl : forall a, ltb a a = false.
Hypothesis lt_trans : forall a b c, ltb a b = true -> ltb b c = true -> ltb a c = true.
Hypothesis lt_tricho : forall a b, ltb a b = false -> ltb b a = false -> a = b.
Hypothesis lt_mul_pos : forall c a b, ltb (o0 K) c = true -> ltb (omul K c a) (omul K c b) = ltb a b.
Hypothesis sq_nonneg : forall a b, ltb (oadd K (omul K a a) (omul K b b)) (o0 K) = false.
Let Rth := F_R Fth.
Add Field FfPF : Fth.
Notation KC := (COps K).
Let CRt := CRth R K Rth.
Add Ring RrPFc : CRt.
Notation fm := (fmul KC). Notation fI := (fid KC).
Notation cemb := (cemb R K).
Notation unorm := (cv_unity_norm K ltb).
Notation n2 := (cnorm2 K).
Local Open Scope K_scope.
Notation "0" := (o0 K) : K_scope. Notation "1" := (o1 K) : K_scope.
Infix "+" := (oadd K) : K_scope. Infix "*" := (omul K) : K_scope. Infix "/" := (odiv K) : K_scope.

(* equality of the carrier is decided by the order *)
Definition Rdec_ltb (x y:R) : {x = y} + {x <> y}.
Proof.
  destruct (ltb x y) eqn:E1; [right; intros ->; rewrite lt_irrefl in E1; discriminate|].
  destruct (ltb y x) eqn:E2; [right; intros ->; rewrite lt_irrefl in E2; discriminate|].
  left. apply lt_tricho; assumption.
Defined.

(* reported mode shape number k: column k of C_n V, as a list of l complex components *)
Definition shape_of (l n:nat) (Ch:fmat R) (Vv:fmat (C R)) (k:nat) : list (C R) := tab l (fun i => fm n (cemb Ch) Vv i k).

Lemma tab_map {X Y:Type} (f:X -> Y) l (g:nat -> X) : map f (tab l g) = tab l (fun i => f (g i)).
Proof. unfold tab. apply map_map. Qed.
Lemma tab_ext {X:Type} l (f g:nat -> X) : (forall i, (i < l)%nat -> f i = g i) -> tab l f = tab l g.
Proof. intros H. unfold tab. apply map_ext_in. intros i Hi. apply in_seq in Hi. apply H. lia. Qed.
Lemma nth_tab_c l (f:nat -> C R) i : (i < l)%nat -> nth i (tab l f) (c0 K) = f i.
Proof. intros Hi. exact (lget_tab (C R) KC l f i Hi). Qed.
Lemma vperm_tab pi l (f:nat -> C R) : (forall i, (i < l)%nat -> (pi i < l)%nat) ->
  cv_vperm K pi l (tab l f) = tab l (fun i => f (pi i)).
Proof. intros Hpi. unfold cv_vperm. apply (tab_ext l (fun i => nth (pi i) (tab l f) (c0 K))). intros i Hi. apply nth_tab_c. apply Hpi. exact Hi. Qed.

Lemma cemb_scal (g:R) (M:fmat R) a b : feq a b (cemb (fscal K g M)) (fscal KC (cofR K g) (cemb M)).
Proof. intros i j _ _. unfold P_realise.cemb, FMat.fscal. apply c_eq; cbn; ring. Qed.
Lemma cemb_pmat pi a b : feq a b (cemb (pmat K pi)) (pmat KC pi).
Proof. intros i j _ _. unfold P_realise.cemb, pmat. destruct (Nat.eqb j (pi i)); reflexivity. Qed.
Lemma cofR_nz (g gi:R) : g * gi = 1 -> cofR K g <> c0 K.
Proof.
  intros Hg E. apply (F_1_neq_0 Fth). rewrite <- Hg. injection E as E. rewrite E. ring.
Qed.

(* the continuous-time poles: declaring the samples kk times faster multiplies every pole by kk, whatever complex
   logarithm clog the code uses *)
Lemma poles_time_unit n (d d':nat -> C R) (clog:C R -> C R) (dt kk:R) : dt <> 0 -> kk <> 0 ->
  Permutation (tab n d') (tab n d) ->
  Permutation (tab n (fun j => lamc K (clog (d' j)) (dt / kk))) (tab n (fun j => cscal K kk (lamc K (clog (d j)) dt))).
Proof.
  intros Hdt Hkk HP.
  rewrite <- (tab_map (fun z => lamc K (clog z) (dt / kk)) n d').
  rewrite <- (tab_map (fun z => cscal K kk (lamc K (clog z) dt)) n d).
  rewrite (Permutation_map (fun z => lamc K (clog z) (dt / kk)) HP).
  rewrite (map_ext (fun z => lamc K (clog z) (dt / kk)) (fun z => cscal K kk (lamc K (clog z) dt))); [reflexivity|].
  intros z. apply (lamc_dt_scale R K Fth); assumption.
Qed.

(* the rotated, not yet normalised shape of run 1: Q (C_n psi_k) *)
Definition shape_mix (l n:nat) (Q Ch:fmat R) (Vv:fmat (C R)) (k:nat) : list (C R) :=
  tab l (fun i => fm l (cemb Q) (fm n (cemb Ch) Vv) i k).

(* how mode k of run 1 and mode k' of run 2 are related *)
(* gain: proportional by a non-zero complex factor, hence IDENTICAL after unity normalisation *)
Definition rel_gain (l n:nat) (Ch:fmat R) (Vv:fmat (C R)) (Ch':fmat R) (Vv':fmat (C R)) (k k':nat) : Prop :=
  (exists s, s <> c0 K /\ shape_of l n Ch' Vv' k' = map (cmul K s) (shape_of l n Ch Vv k)) /\
  unorm (shape_of l n Ch' Vv' k') = unorm (shape_of l n Ch Vv k).
(* mixing: proportional to the rotated shape Q phi_k, hence normalised like the rotated shape *)
Definition rel_mix (l n:nat) (Q Ch:fmat R) (Vv:fmat (C R)) (Ch':fmat R) (Vv':fmat (C R)) (k k':nat) : Prop :=
  (exists s, s <> c0 K /\ shape_of l n Ch' Vv' k' = map (cmul K s) (shape_mix l n Q Ch Vv k)) /\
  unorm (shape_of l n Ch' Vv' k') = unorm (shape_mix l n Q Ch Vv k).
(* permutation: proportional to the permuted shape; when the largest modulus of phi_k is attained once (at m), the
   normalised shape of run 2 is the permuted normalised shape of run 1 *)
Definition rel_perm (l n:nat) (pi:nat -> nat) (Ch:fmat R) (Vv:fmat (C R)) (Ch':fmat R) (Vv':fmat (C R)) (k k':nat) : Prop :=
  (exists s, s <> c0 K /\ shape_of l n Ch' Vv' k' = map (cmul K s) (cv_vperm K pi l (shape_of l n Ch Vv k))) /\
  (forall m, (m < l)%nat ->
     (forall j, (j < l)%nat -> j <> m ->
        ltb (n2 (nth j (shape_of l n Ch Vv k) (c0 K))) (n2 (nth m (shape_of l n Ch Vv k) (c0 K))) = true) ->
     unorm (shape_of l n Ch' Vv' k') = option_map (cv_vperm K pi l) (unorm (shape_of l n Ch Vv k))).

(* the two pole lists are permutations of each other (also as continuous-time poles under a change of time unit), and
   every mode of run 1 has exactly one partner in run 2 with the same pole and the related shape *)
Definition poles_shapes_agree (l n:nat) (d d':nat -> C R) (rel:nat -> nat -> Prop) : Prop :=
  Permutation (tab n d') (tab n d) /\
  (forall (clog:C R -> C R) (dt kk:R), dt <> 0 -> kk <> 0 ->
     Permutation (tab n (fun j => lamc K (clog (d' j)) (dt / kk))) (tab n (fun j => cscal K kk (lamc K (clog (d j)) dt)))) /\
  forall k, (k < n)%nat ->
    exists k', (k' < n)%nat /\ d' k' = d k /\ (forall k'', (k'' < n)%nat -> d' k'' = d k -> k'' = k') /\ rel k k'.

(* two complete runs of the identification: run 1 on H, run 2 on H'.  Each uses ANY contract-meeting SVD triple, ANY
   square roots, ANY left inverse for the shift solve and ANY full eigen-decomposition of its own A_n. *)
Definition two_runs (rows cols l n k1 k2:nat) (A H H':fmat R)
    (U V L:fmat R) (S sq sqi:nat -> R) (U' V' L':fmat R) (S' sq' sqi':nat -> R)
    (Phi Phii Vv W Vv' W':fmat (C R)) (lam d d':nat -> C R) : Prop :=
  svd_run R K rows cols k1 n H U S V sq sqi /\
  feq n n (fmul K (rows - l) L (cv_obs K U sq)) (fid K) /\
  svd_run R K rows cols k2 n H' U' S' V' sq' sqi' /\
  feq n n (fmul K (rows - l) L' (cv_obs K U' sq')) (fid K) /\
  modal_basis R K n A Phi Phii lam /\
  eig_run R K n (ident_A R K rows l L U sq) Vv W d /\
  eig_run R K n (ident_A R K rows l L' U' sq') Vv' W' d'.

Lemma psa_mono l n d d' (rel rel':nat -> nat -> Prop) :
  (forall k k', (k < n)%nat -> (k' < n)%nat -> rel k k' -> rel' k k') ->
  poles_shapes_agree l n d d' rel -> poles_shapes_agree l n d d' rel'.
Proof.
  intros Hm (P1 & P2 & P3). split; [exact P1|split; [exact P2|]].
  intros k Hk. destruct (P3 k Hk) as (k' & Hk' & E & Hu & Hr). exists k'. repeat split; try assumption. apply (Hm k k' Hk Hk' Hr).
Qed.

(* generic form: the transformed matrix H' is the exact Hankel matrix of (A, C') with  C' Phi = Mx (C Phi) *)
Lemma runs_generic rows cols l n k1 k2 (H Ob Gam OL GR A Cm H' Ob' Gam' OL' GR' Cm':fmat R) (Mx:fmat (C R))
    U V L S sq sqi U' V' L' S' sq' sqi' Phi Phii Vv W Vv' W' lam d d' :
  exact_sys R K rows cols l n H Ob Gam OL GR A Cm ->
  exact_sys R K rows cols l n H' Ob' Gam' OL' GR' A Cm' ->
  feq l n (cemb Cm') (fm l Mx (cemb Cm)) ->
  two_runs rows cols l n k1 k2 A H H' U V L S sq sqi U' V' L' S' sq' sqi' Phi Phii Vv W Vv' W' lam d d' ->
  poles_shapes_agree l n d d' (fun k k' => exists s, s <> c0 K /\
    shape_of l n (ident_C R K U' sq') Vv' k' = map (cmul K s) (tab l (fun i => fm l Mx (fm n (cemb (ident_C R K U sq)) Vv) i k))).
Proof.
  intros Hsys Hsys' HM (Hrun & HL & Hrun' & HL' & Hmod & Heig & Heig').
  destruct (ident_similar R K Rth rows cols l k1 n H Ob Gam OL GR A Cm U V L S sq sqi Hsys Hrun HL) as (T & Ti & Hs).
  destruct (ident_similar R K Rth rows cols l k2 n H' Ob' Gam' OL' GR' A Cm' U' V' L' S' sq' sqi' Hsys' Hrun' HL') as (T' & Ti' & Hs').
  destruct (two_runs_match R K Fth Rdec_ltb Hreal l l n A Cm _ _ T Ti Cm' _ _ T' Ti' Mx Phi Phii Vv W Vv' W' lam d d' Hs Hs' HM Hmod Heig Heig')
    as [HP Hk].
  split; [exact HP|]. split; [intros clog dt kk Hdt Hkk; apply poles_time_unit; assumption|].
  intros k Hklt. destruct (Hk k Hklt) as (k' & Hk' & Ed & Hu & s & Hs0 & Hsh).
  exists k'. split; [exact Hk'|]. split; [exact Ed|]. split; [exact Hu|].
  exists s. split; [exact Hs0|]. unfold shape_of. rewrite tab_map. apply tab_ext. exact Hsh.
Qed.

Lemma cmul_assoc_c (s t x:C R) : cmul K s (cmul K t x) = cmul K (cmul K s t) x.
Proof. apply c_eq; cbn; ring. Qed.

(* ===== (i) common gain ===== *)
Theorem pipeline_gain rows cols l n k1 k2 (H Ob Gam OL GR A Cm:fmat R) (g gi:R)
    U V L S sq sqi U' V' L' S' sq' sqi' Phi Phii Vv W Vv' W' lam d d' :
  g * gi = 1 ->
  exact_sys R K rows cols l n H Ob Gam OL GR A Cm ->
  two_runs rows cols l n k1 k2 A H (fscal K (g*g) H) U V L S sq sqi U' V' L' S' sq' sqi' Phi Phii Vv W Vv' W' lam d d' ->
  poles_shapes_agree l n d d' (rel_gain l n (ident_C R K U sq) Vv (ident_C R K U' sq') Vv').
Proof.
  intros Hg Hsys Hruns.
  pose proof (exact_sys_gain R K Rth rows cols l n H Ob Gam OL GR A Cm g gi Hg Hsys) as Hsys'.
  assert (HM: feq l n (cemb (fscal K g Cm)) (fm l (fscal KC (cofR K g) fI) (cemb Cm))).
  { rewrite (cemb_scal g Cm l n). rewrite (fmul_scal_l (C R) KC CRt l l n (cofR K g) fI (cemb Cm)).
    rewrite (fmul_id_l (C R) KC CRt l n (cemb Cm)). reflexivity. }
  apply (psa_mono l n d d' _ _) with (2 := runs_generic rows cols l n k1 k2 H Ob Gam OL GR A Cm _ _ _ _ _ _ _
            U V L S sq sqi U' V' L' S' sq' sqi' Phi Phii Vv W Vv' W' lam d d' Hsys Hsys' HM Hruns).
  intros k k' Hk Hk' (s & Hs0 & E). unfold rel_gain.
  assert (E2: shape_of l n (ident_C R K U' sq') Vv' k' = map (cmul K (cmul K s (cofR K g))) (shape_of l n (ident_C R K U sq) Vv k)).
  { rewrite E. unfold shape_of. rewrite !tab_map. apply tab_ext. intros i Hi.
    rewrite (fmul_scal_l (C R) KC CRt l l n (cofR K g) fI _ i k Hi Hk). unfold FMat.fscal.
    rewrite (fmul_id_l (C R) KC CRt l n _ i k Hi Hk). apply cmul_assoc_c. }
  assert (Hsg: cmul K s (cofR K g) <> c0 K).
  { apply (cmul_nz R K Fth Rdec_ltb Hreal); [exact Hs0|apply (cofR_nz g gi Hg)]. }
  split; [exists (cmul K s (cofR K g)); split; [exact Hsg|exact E2]|].
  rewrite E2. apply (unity_norm_scale R K Fth ltb lt_irrefl lt_tricho lt_mul_pos sq_nonneg).
  apply (cplx_nz R K Fth Hreal). exact Hsg.
Qed.

Lemma two_runs_ext rows cols l n k1 k2 (A H H' H2:fmat R) U V L S sq sqi U' V' L' S' sq' sqi' Phi Phii Vv W Vv' W' lam d d' :
  feq rows cols H' H2 ->
  two_runs rows cols l n k1 k2 A H H' U V L S sq sqi U' V' L' S' sq' sqi' Phi Phii Vv W Vv' W' lam d d' ->
  two_runs rows cols l n k1 k2 A H H2 U V L S sq sqi U' V' L' S' sq' sqi' Phi Phii Vv W Vv' W' lam d d'.
Proof.
  intros E (H1 & H2' & H3 & H4). split; [exact H1|]. split; [exact H2'|]. split; [|exact H4].
  apply (svd_run_ext R K rows cols k2 n H' H2 U' S' V' sq' sqi' E H3).
Qed.

(* ===== (ii) orthogonal channel mixing Q (data) / Qr (references) ===== *)
Theorem pipeline_mix l r br n k1 k2 (H Ob Gam OL GR A Cm Q Qr:fmat R)
    U V L S sq sqi U' V' L' S' sq' sqi' Phi Phii Vv W Vv' W' lam d d' :
  (0 < l)%nat -> (0 < r)%nat ->
  feq l l (fmul K l (ftr Q) Q) (fid K) -> feq r r (fmul K r (ftr Qr) Qr) (fid K) ->
  exact_sys R K (hank_rows l br) (hank_cols r br) l n H Ob Gam OL GR A Cm ->
  two_runs (hank_rows l br) (hank_cols r br) l n k1 k2 A H (hank_mix_rhs K l r Q Qr H)
           U V L S sq sqi U' V' L' S' sq' sqi' Phi Phii Vv W Vv' W' lam d d' ->
  poles_shapes_agree l n d d' (rel_mix l n Q (ident_C R K U sq) Vv (ident_C R K U' sq') Vv').
Proof.
  intros Hl Hr HQ HQr Hsys Hruns.
  pose proof (exact_sys_mix R K Rth l r br n H Ob Gam OL GR A Cm Q Qr Hl Hr HQ HQr Hsys) as Hsys'.
  pose proof (two_runs_ext _ _ l n k1 k2 A H _ _ U V L S sq sqi U' V' L' S' sq' sqi' Phi Phii Vv W Vv' W' lam d d'
               (hank_mix_kron R K Rth l r br Q Qr H Hl Hr) Hruns) as Hruns'.
  assert (HM: feq l n (cemb (fmul K l Q Cm)) (fm l (cemb Q) (cemb Cm))).
  { symmetry. apply (cemb_fmul R K Rth l l n Q Cm). }
  apply (psa_mono l n d d' _ _) with (2 := runs_generic _ _ l n k1 k2 H Ob Gam OL GR A Cm _ _ _ _ _ _ _
            U V L S sq sqi U' V' L' S' sq' sqi' Phi Phii Vv W Vv' W' lam d d' Hsys Hsys' HM Hruns').
  intros k k' Hk Hk' (s & Hs0 & E). fold (shape_mix l n Q (ident_C R K U sq) Vv k) in E. unfold rel_mix.
  split; [exists s; split; [exact Hs0|exact E]|].
  rewrite E. apply (unity_norm_scale R K Fth ltb lt_irrefl lt_tricho lt_mul_pos sq_nonneg).
  apply (cplx_nz R K Fth Hreal). exact Hs0.
Qed.

(* ===== (ii') channel permutation pi (data) / rho (references) ===== *)
Lemma shape_mix_pmat l n pi (Ch:fmat R) (Vv:fmat (C R)) k : (k < n)%nat ->
  (forall i, (i < l)%nat -> (pi i < l)%nat) ->
  shape_mix l n (pmat K pi) Ch Vv k = cv_vperm K pi l (shape_of l n Ch Vv k).
Proof.
  intros Hk Hpi. unfold shape_mix, shape_of. rewrite (vperm_tab pi l _ Hpi). apply tab_ext. intros i Hi.
  rewrite (fmul_ext (C R) KC l l n _ (pmat KC pi) _ (fm n (cemb Ch) Vv) (cemb_pmat pi l l) (feq_refl (C R) l n _) i k Hi Hk).
  apply (pmat_mul (C R) KC CRt l pi _ i k (Hpi i Hi)).
Qed.

Theorem pipeline_perm l r br n k1 k2 (H Ob Gam OL GR A Cm:fmat R) (pi pinv rho rhoinv:nat -> nat)
    U V L S sq sqi U' V' L' S' sq' sqi' Phi Phii Vv W Vv' W' lam d d' :
  (forall a, (a < l)%nat -> (pi a < l)%nat /\ pinv (pi a) = a) ->
  (forall c, (c < l)%nat -> (pinv c < l)%nat /\ pi (pinv c) = c) ->
  (forall a, (a < r)%nat -> (rho a < r)%nat /\ rhoinv (rho a) = a) ->
  (forall c, (c < r)%nat -> (rhoinv c < r)%nat /\ rho (rhoinv c) = c) ->
  (0 < l)%nat -> (0 < r)%nat ->
  exact_sys R K (hank_rows l br) (hank_cols r br) l n H Ob Gam OL GR A Cm ->
  two_runs (hank_rows l br) (hank_cols r br) l n k1 k2 A H (hank_perm_rhs l r pi rho H)
           U V L S sq sqi U' V' L' S' sq' sqi' Phi Phii Vv W Vv' W' lam d d' ->
  poles_shapes_agree l n d d' (rel_perm l n pi (ident_C R K U sq) Vv (ident_C R K U' sq') Vv').
Proof.
  intros Hp1 Hp2 Hr1 Hr2 Hl Hr Hsys Hruns.
  assert (Hpi: forall a, (a < l)%nat -> (pi a < l)%nat) by (intros a Ha; apply (Hp1 a Ha)).
  assert (Hrho: forall a, (a < r)%nat -> (rho a < r)%nat) by (intros a Ha; apply (Hr1 a Ha)).
  pose proof (pmat_orth R K Rth l pi pinv Hp1 Hp2) as HQ.
  pose proof (pmat_orth R K Rth r rho rhoinv Hr1 Hr2) as HQr.
  pose proof (two_runs_ext _ _ l n k1 k2 A H _ _ U V L S sq sqi U' V' L' S' sq' sqi' Phi Phii Vv W Vv' W' lam d d'
               (hank_perm_is_mix R K Rth l r br pi rho H Hpi Hrho) Hruns) as Hruns'.
  apply (psa_mono l n d d' _ _) with (2 := pipeline_mix l r br n k1 k2 H Ob Gam OL GR A Cm (pmat K pi) (pmat K rho)
            U V L S sq sqi U' V' L' S' sq' sqi' Phi Phii Vv W Vv' W' lam d d' Hl Hr HQ HQr Hsys Hruns').
  intros k k' Hk Hk' ((s & Hs0 & E) & _). unfold rel_perm.
  rewrite (shape_mix_pmat l n pi _ Vv k Hk Hpi) in E.
  split; [exists s; split; [exact Hs0|exact E]|].
  intros m Hm Hmax. rewrite E.
  rewrite (unity_norm_scale R K Fth ltb lt_irrefl lt_tricho lt_mul_pos sq_nonneg s _ (cplx_nz R K Fth Hreal s Hs0)).
  set (v := shape_of l n (ident_C R K U sq) Vv k) in *.
  assert (Hlen: length v = l) by (unfold v, shape_of; apply tab_length).
  pose proof (unity_norm_perm R K Fth ltb lt_irrefl lt_trans pi v m) as HU. rewrite Hlen in HU.
  apply HU; [exact Hpi| |exact Hm|exact Hmax].
  intros c Hc. exists (pinv c). apply (Hp2 c Hc).
Qed.
(* ===== (0) no transformation at all: the result does not depend on WHICH decomposition the SVD kernel returns ===== *)
Theorem pipeline_svd_choice rows cols l n k1 k2 (H Ob Gam OL GR A Cm:fmat R)
    U V L S sq sqi U' V' L' S' sq' sqi' Phi Phii Vv W Vv' W' lam d d' :
  exact_sys R K rows cols l n H Ob Gam OL GR A Cm ->
  two_runs rows cols l n k1 k2 A H H U V L S sq sqi U' V' L' S' sq' sqi' Phi Phii Vv W Vv' W' lam d d' ->
  poles_shapes_agree l n d d' (rel_gain l n (ident_C R K U sq) Vv (ident_C R K U' sq') Vv').
Proof.
  intros Hsys Hruns.
  assert (E: feq rows cols H (fscal K (1*1) H)) by (intros i j _ _; unfold FMat.fscal; ring).
  assert (H11: 1 * 1 = 1) by ring.
  apply (pipeline_gain rows cols l n k1 k2 H Ob Gam OL GR A Cm 1 1 U V L S sq sqi U' V' L' S' sq' sqi' Phi Phii Vv W Vv' W' lam d d' H11 Hsys).
  apply (two_runs_ext rows cols l n k1 k2 A H H _ U V L S sq sqi U' V' L' S' sq' sqi' Phi Phii Vv W Vv' W' lam d d' E Hruns).
Qed.

(* ===== the same three statements on the DATA: H = Hankel(Y, Yref), H' = Hankel(transformed Y, transformed Yref), for
   any Hankel builder of the parametric form of C12 (hank_mm and hank_R are, by hank_mm_is_gen / hank_R_is_gen) ===== *)
Section Data.
Variables (win:nat->nat->list nat) (wt:nat->nat->R) (dl rl:nat->nat->nat) (l r br:nat).
Variable Hb : sig R -> sig R -> fmat R.
Hypothesis HbGen : forall Y Yref, feq (hank_rows l br) (hank_cols r br) (Hb Y Yref) (hank_gen K win wt dl rl l r Y Yref).

Theorem pipeline_gain_data n k1 k2 (Y Yref:sig R) (Ob Gam OL GR A Cm:fmat R) (g gi:R)
    U V L S sq sqi U' V' L' S' sq' sqi' Phi Phii Vv W Vv' W' lam d d' :
  g * gi = 1 ->
  exact_sys R K (hank_rows l br) (hank_cols r br) l n (Hb Y Yref) Ob Gam OL GR A Cm ->
  two_runs (hank_rows l br) (hank_cols r br) l n k1 k2 A (Hb Y Yref) (Hb (sgain K g Y) (sgain K g Yref))
           U V L S sq sqi U' V' L' S' sq' sqi' Phi Phii Vv W Vv' W' lam d d' ->
  poles_shapes_agree l n d d' (rel_gain l n (ident_C R K U sq) Vv (ident_C R K U' sq') Vv').
Proof.
  intros Hg Hsys Hruns.
  apply (pipeline_gain _ _ l n k1 k2 (Hb Y Yref) Ob Gam OL GR A Cm g gi U V L S sq sqi U' V' L' S' sq' sqi' Phi Phii Vv W Vv' W' lam d d' Hg Hsys).
  apply (two_runs_ext _ _ l n k1 k2 A (Hb Y Yref) _ _ U V L S sq sqi U' V' L' S' sq' sqi' Phi Phii Vv W Vv' W' lam d d'
           (hb_gain R K Rth win wt dl rl l r br Hb HbGen g Y Yref) Hruns).
Qed.

Theorem pipeline_mix_data n k1 k2 (Y Yref:sig R) (Ob Gam OL GR A Cm Q Qr:fmat R)
    U V L S sq sqi U' V' L' S' sq' sqi' Phi Phii Vv W Vv' W' lam d d' :
  (0 < l)%nat -> (0 < r)%nat ->
  feq l l (fmul K l (ftr Q) Q) (fid K) -> feq r r (fmul K r (ftr Qr) Qr) (fid K) ->
  exact_sys R K (hank_rows l br) (hank_cols r br) l n (Hb Y Yref) Ob Gam OL GR A Cm ->
  two_runs (hank_rows l br) (hank_cols r br) l n k1 k2 A (Hb Y Yref) (Hb (smix K l Q Y) (smix K r Qr Yref))
           U V L S sq sqi U' V' L' S' sq' sqi' Phi Phii Vv W Vv' W' lam d d' ->
  poles_shapes_agree l n d d' (rel_mix l n Q (ident_C R K U sq) Vv (ident_C R K U' sq') Vv').
Proof.
  intros Hl Hr HQ HQr Hsys Hruns.
  apply (pipeline_mix l r br n k1 k2 (Hb Y Yref) Ob Gam OL GR A Cm Q Qr U V L S sq sqi U' V' L' S' sq' sqi' Phi Phii Vv W Vv' W' lam d d' Hl Hr HQ HQr Hsys).
  apply (two_runs_ext _ _ l n k1 k2 A (Hb Y Yref) _ _ U V L S sq sqi U' V' L' S' sq' sqi' Phi Phii Vv W Vv' W' lam d d'
           (hb_mix R K Rth win wt dl rl l r br Hb HbGen Q Qr Y Yref) Hruns).
Qed.

Theorem pipeline_perm_data n k1 k2 (Y Yref:sig R) (Ob Gam OL GR A Cm:fmat R) (pi pinv rho rhoinv:nat -> nat)
    U V L S sq sqi U' V' L' S' sq' sqi' Phi Phii Vv W Vv' W' lam d d' :
  (forall a, (a < l)%nat -> (pi a < l)%nat /\ pinv (pi a) = a) ->
  (forall c, (c < l)%nat -> (pinv c < l)%nat /\ pi (pinv c) = c) ->
  (forall a, (a < r)%nat -> (rho a < r)%nat /\ rhoinv (rho a) = a) ->
  (forall c, (c < r)%nat -> (rhoinv c < r)%nat /\ rho (rhoinv c) = c) ->
  (0 < l)%nat -> (0 < r)%nat ->
  exact_sys R K (hank_rows l br) (hank_cols r br) l n (Hb Y Yref) Ob Gam OL GR A Cm ->
  two_runs (hank_rows l br) (hank_cols r br) l n k1 k2 A (Hb Y Yref) (Hb (sperm pi Y) (sperm rho Yref))
           U V L S sq sqi U' V' L' S' sq' sqi' Phi Phii Vv W Vv' W' lam d d' ->
  poles_shapes_agree l n d d' (rel_perm l n pi (ident_C R K U sq) Vv (ident_C R K U' sq') Vv').
Proof.
  intros Hp1 Hp2 Hr1 Hr2 Hl Hr Hsys Hruns.
  apply (pipeline_perm l r br n k1 k2 (Hb Y Yref) Ob Gam OL GR A Cm pi pinv rho rhoinv U V L S sq sqi U' V' L' S' sq' sqi' Phi Phii Vv W Vv' W' lam d d'
           Hp1 Hp2 Hr1 Hr2 Hl Hr Hsys).
  apply (two_runs_ext _ _ l n k1 k2 A (Hb Y Yref) _ _ U V L S sq sqi U' V' L' S' sq' sqi' Phi Phii Vv W Vv' W' lam d d'
           (hb_perm R K win wt dl rl l r br Hb HbGen pi rho Y Yref (fun a Ha => proj1 (Hp1 a Ha)) (fun a Ha => proj1 (Hr1 a Ha))) Hruns).
Qed.
End Data.
End PF.

(* ================= a Gaussian-rational instance meeting every hypothesis =================
   l = 2 channels, r = 2 references, br = 1 (H is 4 x 4), n = 2, three singular triplets returned (the third is zero).
   True system A = [[1/4,1/3],[-1/3,1/4]] (poles 1/4 +- i/3), C = I; O = [C; CA] has O^T O = (13/12)^2 I, so the singular
   vectors are rational; the two non-zero singular values are EQUAL (4, 4), i.e. the decomposition is far from unique.
   Run 1: the plain triple.  Run 2 (gain 3): singular vectors reflected inside the 2-dimensional singular subspace,
   another third vector, and a NEGATIVE square root for the second singular value.  Run 3 (both channel pairs swapped):
   the permuted reflected vectors with a sign flip.  The eigen-solver outputs list the poles in different orders with
   differently scaled eigenvectors. *)
From Coq Require Import ZArith QArith Qcanon.
From PyOMA.Base Require Import Show.
Definition plx_v (l:list Qc) : nat -> Qc := fun i => lget QcOps l i.
Definition plx_swap (a:nat) : nat := match a with 0 => 1 | 1 => 0 | n => n end%nat.
Definition plx_A := ec1_m [[q 1 4; q 1 3];[q (-1) 3; q 1 4]].
Definition plx_Cm := ec1_m [[q 1 1; q 0 1];[q 0 1; q 1 1]].
Definition plx_H := ec1_m [[q 24 13; q 24 13; q 24 13; q 24 13];[q 24 13; q 24 13; q (-24) 13; q (-24) 13];[q 14 13; q 14 13; q (-2) 13; q (-2) 13];[q (-2) 13; q (-2) 13; q (-14) 13; q (-14) 13]].
Definition plx_Ob := ec1_m [[q 1 1; q 0 1];[q 0 1; q 1 1];[q 1 4; q 1 3];[q (-1) 3; q 1 4]].
Definition plx_Gam := ec1_m [[q 24 13; q 24 13; q 24 13; q 24 13];[q 24 13; q 24 13; q (-24) 13; q (-24) 13]].
Definition plx_OL := ec1_m [[q 1 1; q 0 1; q 0 1; q 0 1];[q 0 1; q 1 1; q 0 1; q 0 1]].
Definition plx_GR := ec1_m [[q 13 96; q 13 96];[q 13 96; q 13 96];[q 13 96; q (-13) 96];[q 13 96; q (-13) 96]].
Definition plx_U := ec1_m [[q 12 13; q 0 1; q (-3) 13];[q 0 1; q 12 13; q (-4) 13];[q 3 13; q 4 13; q 12 13];[q (-4) 13; q 3 13; q 0 1]].
Definition plx_V := ec1_m [[q 1 2; q 1 2; q 1 2];[q 1 2; q 1 2; q (-1) 2];[q 1 2; q (-1) 2; q 1 2];[q 1 2; q (-1) 2; q (-1) 2]].
Definition plx_L := ec1_m [[q 13 24; q 0 1];[q 0 1; q 13 24]].
Definition plx_Ug := ec1_m [[q 36 65; q 48 65; q 4 13];[q 48 65; q (-36) 65; q (-3) 13];[q 5 13; q 0 1; q 0 1];[q 0 1; q (-5) 13; q 12 13]].
Definition plx_Vg := ec1_m [[q 7 10; q 1 10; q 1 2];[q 7 10; q 1 10; q (-1) 2];[q (-1) 10; q 7 10; q (-1) 2];[q (-1) 10; q 7 10; q 1 2]].
Definition plx_Lg := ec1_m [[q 13 120; q 13 90];[q (-13) 90; q 13 120]].
Definition plx_Up := ec1_m [[q (-48) 65; q (-36) 65; q (-3) 13];[q (-36) 65; q 48 65; q 4 13];[q 0 1; q (-5) 13; q 12 13];[q (-5) 13; q 0 1; q 0 1]].
Definition plx_Vp := ec1_m [[q (-7) 10; q 1 10; q 1 2];[q (-7) 10; q 1 10; q (-1) 2];[q 1 10; q 7 10; q (-1) 2];[q 1 10; q 7 10; q 1 2]].
Definition plx_Lp := ec1_m [[q 13 30; q 13 40];[q (-13) 40; q 13 30]].
Definition plx_S := plx_v [q 4 1; q 4 1; q 0 1].
Definition plx_sq := plx_v [q 2 1; q 2 1; q 0 1].
Definition plx_sqi := plx_v [q 1 2; q 1 2; q 0 1].
Definition plx_Sg := plx_v [q 36 1; q 36 1; q 0 1].
Definition plx_sqg := plx_v [q 6 1; q (-6) 1; q 0 1].
Definition plx_sqig := plx_v [q 1 6; q (-1) 6; q 0 1].
Definition plx_Sp := plx_v [q 4 1; q 4 1; q 0 1].
Definition plx_sqp := plx_v [q (-2) 1; q 2 1; q 0 1].
Definition plx_sqip := plx_v [q (-1) 2; q 1 2; q 0 1].
Definition plx_Phi := ec1_cm [[(q 1 1, q 0 1); (q 1 1, q 0 1)];[(q 0 1, q 1 1); (q 0 1, q (-1) 1)]].
Definition plx_Phii := ec1_cm [[(q 1 2, q 0 1); (q 0 1, q (-1) 2)];[(q 1 2, q 0 1); (q 0 1, q 1 2)]].
Definition plx_Vv := ec1_cm [[(q 2 3, q 0 1); (q 0 1, q 1 3)];[(q 0 1, q (-2) 3); (q (-1) 3, q 0 1)]].
Definition plx_W := ec1_cm [[(q 3 4, q 0 1); (q 0 1, q 3 4)];[(q 0 1, q (-3) 2); (q (-3) 2, q 0 1)]].
Definition plx_Vvg := ec1_cm [[(q 1 3, q 1 3); (q 1 1, q 0 1)];[(q (-1) 3, q 1 3); (q 0 1, q (-1) 1)]].
Definition plx_Wg := ec1_cm [[(q 3 4, q (-3) 4); (q (-3) 4, q (-3) 4)];[(q 1 2, q 0 1); (q 0 1, q 1 2)]].
Definition plx_Vvp := ec1_cm [[(q (-1) 3, q 2 3); (q 0 1, q (-5) 3)];[(q (-2) 3, q (-1) 3); (q (-5) 3, q 0 1)]].
Definition plx_Wp := ec1_cm [[(q (-3) 10, q (-3) 5); (q (-3) 5, q 3 10)];[(q 0 1, q 3 10); (q (-3) 10, q 0 1)]].
Definition plx_lam := ec1_v [(q 1 4, q 1 3); (q 1 4, q (-1) 3)].
Definition plx_d := ec1_v [(q 1 4, q (-1) 3); (q 1 4, q 1 3)].
Definition plx_dg := ec1_v [(q 1 4, q 1 3); (q 1 4, q (-1) 3)].
Definition plx_dp := ec1_v [(q 1 4, q (-1) 3); (q 1 4, q 1 3)].

Ltac plx_feq := apply ec_feqb_sound; vm_compute; reflexivity.
Ltac plx_cfeq := apply ec_cfeqb_sound; vm_compute; reflexivity.
Ltac plx_qc := apply Qc_is_canon; vm_compute; reflexivity.

Lemma plx_sys : exact_sys Qc QcOps 4 4 2 2 plx_H plx_Ob plx_Gam plx_OL plx_GR plx_A plx_Cm.
Proof. unfold exact_sys. split; [lia|]. repeat split; plx_feq. Qed.

Lemma plx_svd_run (H U V:fmat Qc) (S sq sqi:list Qc) :
  ec_feqb 4 4 H (fmul QcOps 3 (fmul QcOps 3 U (cv_diag QcOps (plx_v S))) (ftr V)) = true ->
  ec_feqb 3 3 (fmul QcOps 4 (ftr U) U) (fid QcOps) = true -> ec_feqb 3 3 (fmul QcOps 4 (ftr V) V) (fid QcOps) = true ->
  Qc_eq_bool (plx_v S 2%nat) (Q2Qc 0) = true ->
  forallb (fun j => Qc_eq_bool (plx_v sq j * plx_v sq j)%Qc (plx_v S j) && Qc_eq_bool (plx_v sq j * plx_v sqi j)%Qc (Q2Qc 1)) [0%nat; 1%nat] = true ->
  svd_run Qc QcOps 4 4 3 2 H U (plx_v S) V (plx_v sq) (plx_v sqi).
Proof.
  intros H1 H2 H3 H4 H5. split; [lia|]. split; [|split].
  - split; [|split]; apply ec_feqb_sound; assumption.
  - intros j Hj. assert (j = 2%nat) by lia. subst j. apply Qc_eq_bool_correct. exact H4.
  - intros j Hj. cbn [forallb] in H5. rewrite !andb_true_iff in H5. destruct H5 as ((A1 & A2) & (B1 & B2) & _).
    destruct j as [|[|j]]; [| |lia]; split; apply Qc_eq_bool_correct; assumption.
Qed.

Lemma plx_run1 : svd_run Qc QcOps 4 4 3 2 plx_H plx_U plx_S plx_V plx_sq plx_sqi.
Proof. apply plx_svd_run; vm_compute; reflexivity. Qed.
Lemma plx_run_gain : svd_run Qc QcOps 4 4 3 2 (fscal QcOps (q 3 1 * q 3 1)%Qc plx_H) plx_Ug plx_Sg plx_Vg plx_sqg plx_sqig.
Proof. apply plx_svd_run; vm_compute; reflexivity. Qed.
Lemma plx_run_perm : svd_run Qc QcOps 4 4 3 2 (hank_perm_rhs 2 2 plx_swap plx_swap plx_H) plx_Up plx_Sp plx_Vp plx_sqp plx_sqip.
Proof. apply plx_svd_run; vm_compute; reflexivity. Qed.

Lemma plx_modal : modal_basis Qc QcOps 2 plx_A plx_Phi plx_Phii plx_lam.
Proof.
  unfold modal_basis. split; [plx_cfeq|]. split; [plx_cfeq|]. split; [plx_cfeq|].
  intros i j Hi Hj Hne E.
  assert (Hc: ((i = 0 /\ j = 1) \/ (i = 1 /\ j = 0))%nat) by lia.
  destruct Hc as [[-> ->]|[-> ->]]; vm_compute in E; discriminate E.
Qed.

Lemma plx_gain_hyps :
  (q 3 1 * q 1 3)%Qc = 1%Qc /\
  exact_sys Qc QcOps 4 4 2 2 plx_H plx_Ob plx_Gam plx_OL plx_GR plx_A plx_Cm /\
  two_runs Qc QcOps 4 4 2 2 3 3 plx_A plx_H (fscal QcOps (q 3 1 * q 3 1)%Qc plx_H)
    plx_U plx_V plx_L plx_S plx_sq plx_sqi plx_Ug plx_Vg plx_Lg plx_Sg plx_sqg plx_sqig
    plx_Phi plx_Phii plx_Vv plx_W plx_Vvg plx_Wg plx_lam plx_d plx_dg.
Proof.
  split; [plx_qc|]. split; [exact plx_sys|]. unfold two_runs.
  split; [exact plx_run1|]. split; [plx_feq|]. split; [exact plx_run_gain|]. split; [plx_feq|].
  split; [exact plx_modal|]. split; (split; plx_cfeq).
Qed.

Lemma plx_perm_hyps :
  (forall a, (a < 2)%nat -> (plx_swap a < 2)%nat /\ plx_swap (plx_swap a) = a) /\
  exact_sys Qc QcOps (hank_rows 2 1) (hank_cols 2 1) 2 2 plx_H plx_Ob plx_Gam plx_OL plx_GR plx_A plx_Cm /\
  two_runs Qc QcOps (hank_rows 2 1) (hank_cols 2 1) 2 2 3 3 plx_A plx_H (hank_perm_rhs 2 2 plx_swap plx_swap plx_H)
    plx_U plx_V plx_L plx_S plx_sq plx_sqi plx_Up plx_Vp plx_Lp plx_Sp plx_sqp plx_sqip
    plx_Phi plx_Phii plx_Vv plx_W plx_Vvp plx_Wp plx_lam plx_d plx_dp.
Proof.
  split; [intros a Ha; destruct a as [|[|a]]; [split; [cbn; lia|reflexivity]..|lia]|].
  split; [exact plx_sys|]. unfold two_runs. change (hank_rows 2 1) with 4%nat. change (hank_cols 2 1) with 4%nat.
  split; [exact plx_run1|]. split; [plx_feq|]. split; [exact plx_run_perm|]. split; [plx_feq|].
  split; [exact plx_modal|]. split; (split; plx_cfeq).
Qed.

(* the carrier hypotheses hold at the canonical rationals, so the theorems fire on the instance *)
Definition pipeline_gain_Qc :=
  pipeline_gain Qc QcOps QcFth qc_formally_real Qc_ltb Qc_lt_irrefl Qc_lt_tricho Qc_lt_mul_pos Qc_sq_nonneg.
Definition pipeline_perm_Qc :=
  pipeline_perm Qc QcOps QcFth qc_formally_real Qc_ltb Qc_lt_irrefl Qc_lt_trans Qc_lt_tricho Qc_lt_mul_pos Qc_sq_nonneg.

Lemma plx_gain_fires :
  poles_shapes_agree Qc QcOps 2 2 plx_d plx_dg
    (rel_gain Qc QcOps Qc_ltb 2 2 (ident_C Qc QcOps plx_U plx_sq) plx_Vv (ident_C Qc QcOps plx_Ug plx_sqg) plx_Vvg).
Proof.
  destruct plx_gain_hyps as (Hg & Hsys & Hruns).
  exact (pipeline_gain_Qc 4 4 2 2 3 3 plx_H plx_Ob plx_Gam plx_OL plx_GR plx_A plx_Cm (q 3 1) (q 1 3)
           plx_U plx_V plx_L plx_S plx_sq plx_sqi plx_Ug plx_Vg plx_Lg plx_Sg plx_sqg plx_sqig
           plx_Phi plx_Phii plx_Vv plx_W plx_Vvg plx_Wg plx_lam plx_d plx_dg Hg Hsys Hruns).
Qed.
Lemma plx_perm_fires :
  poles_shapes_agree Qc QcOps 2 2 plx_d plx_dp
    (rel_perm Qc QcOps Qc_ltb 2 2 plx_swap (ident_C Qc QcOps plx_U plx_sq) plx_Vv (ident_C Qc QcOps plx_Up plx_sqp) plx_Vvp).
Proof.
  destruct plx_perm_hyps as (Hp & Hsys & Hruns).
  apply (pipeline_perm_Qc 2 2 1 2 3 3 plx_H plx_Ob plx_Gam plx_OL plx_GR plx_A plx_Cm plx_swap plx_swap plx_swap plx_swap
           plx_U plx_V plx_L plx_S plx_sq plx_sqi plx_Up plx_Vp plx_Lp plx_Sp plx_sqp plx_sqip
           plx_Phi plx_Phii plx_Vv plx_W plx_Vvp plx_Wp plx_lam plx_d plx_dp); try assumption; lia.
Qed.

(* ... and what they assert is visible by evaluation: mode 1 of run 1 and mode 0 of the gained run carry the same pole and the
   same unity-normalised shape (1, i); mode 1 of the swapped run is proportional to the swapped shape *)
Definition plx_sh := option_map (map (fun z : Qc*Qc => (this (fst z), this (snd z)))).
Lemma plx_evaluated :
  plx_d 1%nat = plx_dg 0%nat /\ plx_d 1%nat = plx_dp 1%nat /\
  plx_sh (unity_norm_Qc (shape_of Qc QcOps 2 2 (ident_C Qc QcOps plx_Ug plx_sqg) plx_Vvg 0))
    = plx_sh (unity_norm_Qc (shape_of Qc QcOps 2 2 (ident_C Qc QcOps plx_U plx_sq) plx_Vv 1)) /\
  plx_sh (unity_norm_Qc (shape_of Qc QcOps 2 2 (ident_C Qc QcOps plx_U plx_sq) plx_Vv 1)) = Some [(1, 0); (0, 1)]%Q /\
  plx_sh (unity_norm_Qc (shape_of Qc QcOps 2 2 (ident_C Qc QcOps plx_Up plx_sqp) plx_Vvp 1))
    = plx_sh (unity_norm_Qc (cv_vperm QcOps plx_swap 2 (shape_of Qc QcOps 2 2 (ident_C Qc QcOps plx_U plx_sq) plx_Vv 1))) /\
  plx_sh (unity_norm_Qc (shape_of Qc QcOps 2 2 (ident_C Qc QcOps plx_Up plx_sqp) plx_Vvp 1)) = Some [(1, 0); (0, -1)]%Q.
Proof. vm_compute. repeat split; reflexivity. Qed.
