(* C01 - proofs about Model/M_modal.v: unity normalisation (largest component becomes exactly 1, result is a non-zero
   multiple of the input, MAC with the input is 1, invariance under non-zero scaling), pole-table layout.
   Generic field; the order enters only through the boolean [leb] with the three laws stated where they are used. *)
From Coq Require Import List Arith Lia Ring Field Bool.
From PyOMA.Base Require Import Carrier Cplx.
From PyOMA.Model Require Import M_modal.
Import ListNotations.

(* ---------- argmax over a list, any carrier ---------- *)
Section Amax.
Variable R:Type.
Variable leb : R -> R -> bool.

Lemma argmax_from_lt best bv i (t:list R) : (best < i)%nat -> (argmax_from R leb best bv i t < i + length t)%nat.
Proof.
  revert best bv i. induction t as [|x t IH]; intros best bv i Hb; cbn [argmax_from length]; [lia|].
  destruct (leb x bv).
  - specialize (IH best bv (S i)). lia.
  - specialize (IH i x (S i)). lia.
Qed.
Lemma argmax_lt (l:list R) : l <> [] -> (argmax leb l < length l)%nat.
Proof.
  destruct l as [|x t]; [congruence|]. intros _. unfold argmax. cbn [length].
  pose proof (argmax_from_lt 0 x 1 t). lia.
Qed.

Hypothesis leb_trans : forall a b c, leb a b = true -> leb b c = true -> leb a c = true.
Hypothesis leb_total : forall a b, leb a b = false -> leb b a = true.
Lemma leb_refl a : leb a a = true.
Proof. destruct (leb a a) eqn:E; [reflexivity|]. rewrite (leb_total a a E) in E. discriminate. Qed.

Lemma argmax_from_spec d (t pre:list R) best bv i :
  length pre = i -> (best < i)%nat -> nth best (pre ++ t) d = bv ->
  (forall j, (j < i)%nat -> leb (nth j (pre ++ t) d) bv = true) ->
  forall j, (j < length (pre ++ t))%nat ->
    leb (nth j (pre ++ t) d) (nth (argmax_from R leb best bv i t) (pre ++ t) d) = true.
Proof.
  revert pre best bv i. induction t as [|x t IH]; intros pre best bv i Hlen Hb Hbv Hall j Hj.
  - cbn [argmax_from]. rewrite Hbv. apply Hall. rewrite app_nil_r in Hj. lia.
  - cbn [argmax_from].
    assert (Hx: nth i (pre ++ x :: t) d = x) by (rewrite app_nth2 by lia; rewrite Hlen, Nat.sub_diag; reflexivity).
    assert (E: pre ++ x :: t = (pre ++ [x]) ++ t) by (rewrite <- app_assoc; reflexivity).
    destruct (leb x bv) eqn:Ex.
    + rewrite E. apply IH; try (rewrite <- E).
      * rewrite app_length. cbn. lia.
      * lia.
      * exact Hbv.
      * intros j' Hj'. destruct (Nat.eq_dec j' i) as [->|]; [rewrite Hx; exact Ex| apply Hall; lia].
      * exact Hj.
    + rewrite E. apply IH; try (rewrite <- E).
      * rewrite app_length. cbn. lia.
      * lia.
      * exact Hx.
      * intros j' Hj'. destruct (Nat.eq_dec j' i) as [->|]; [rewrite Hx; apply leb_refl|].
        apply (leb_trans _ bv); [apply Hall; lia| apply leb_total; exact Ex].
      * exact Hj.
Qed.

(* the selected index holds a largest element *)
Theorem argmax_spec d (l:list R) j : (j < length l)%nat -> leb (nth j l d) (nth (argmax leb l) l d) = true.
Proof.
  destruct l as [|x t]; cbn [length]; [lia|]. intros Hj. unfold argmax.
  apply (argmax_from_spec d t [x] 0 x 1); try reflexivity; try lia; try exact Hj.
  intros j' Hj'. replace j' with 0%nat by lia. apply leb_refl.
Qed.

(* scaling all entries by a factor the order is invariant under does not move the argmax *)
Lemma argmax_from_scale (f:R->R) (Hf: forall a b, leb (f a) (f b) = leb a b) best bv i t :
  argmax_from R leb best (f bv) i (map f t) = argmax_from R leb best bv i t.
Proof.
  revert best bv i. induction t as [|x t IH]; intros best bv i; [reflexivity|].
  cbn [map argmax_from]. rewrite Hf. destruct (leb x bv); apply IH.
Qed.
Lemma argmax_scale (f:R->R) (Hf: forall a b, leb (f a) (f b) = leb a b) l : argmax leb (map f l) = argmax leb l.
Proof. destruct l as [|x t]; [reflexivity|]. unfold argmax. cbn [map]. apply argmax_from_scale. exact Hf. Qed.
End Amax.

Section P.
Variable R:Type. Variable K:Ops R.
Hypothesis Fth : field_theory (o0 K) (o1 K) (oadd K) (omul K) (osub K) (oopp K) (odiv K) (oinv K) (@eq R).
Let Rth := F_R Fth.
Add Field FfMo : Fth.
Local Open Scope K_scope.
Notation "0" := (o0 K) : K_scope. Notation "1" := (o1 K) : K_scope.
Infix "+" := (oadd K) : K_scope. Infix "*" := (omul K) : K_scope. Infix "-" := (osub K) : K_scope.
Notation "- x" := (oopp K x) : K_scope. Infix "/" := (odiv K) : K_scope.
Variable leb : R -> R -> bool.

(* ---------- complex field facts ---------- *)
Lemma mul_nz a b : a <> 0 -> b <> 0 -> a * b <> 0.
Proof.
  intros Ha Hb E. apply Hb. assert (Eb: b = (a * b) / a) by (field; exact Ha). rewrite E in Eb. rewrite Eb. field. exact Ha.
Qed.
Lemma cdiv_self (d:C R) : cnorm2 K d <> 0 -> cdiv K d d = c1 K.
Proof.
  destruct d as [a b]. unfold cdiv, cmul, cinv, c1, cnorm2, cre, cim; cbn [fst snd]. intros H. f_equal; field; exact H.
Qed.
Lemma cdiv_is_mul (z d:C R) : cdiv K z d = cmul K (cinv K d) z.
Proof. unfold cdiv. apply c_eq; cbn; ring. Qed.
Lemma cnorm2_cinv (d:C R) : cnorm2 K d <> 0 -> cnorm2 K (cinv K d) * cnorm2 K d = 1.
Proof.
  destruct d as [a b]. unfold cinv, cnorm2, cre, cim; cbn [fst snd]. intros H. field. exact H.
Qed.
Lemma cinv_nz (d:C R) : cnorm2 K d <> 0 -> cnorm2 K (cinv K d) <> 0.
Proof.
  intros H E. pose proof (cnorm2_cinv d H) as E1. rewrite E in E1.
  apply (F_1_neq_0 Fth). rewrite <- E1. ring.
Qed.
Lemma cdiv_scale (c z d:C R) : cnorm2 K c <> 0 -> cnorm2 K d <> 0 -> cdiv K (cmul K c z) (cmul K c d) = cdiv K z d.
Proof.
  destruct c as [cr ci], z as [zr zi], d as [dr di]. unfold cdiv, cmul, cinv, cnorm2, cre, cim; cbn [fst snd]. intros Hc Hd.
  assert (Hcd: (cr * dr - ci * di) * (cr * dr - ci * di) + (cr * di + ci * dr) * (cr * di + ci * dr) <> 0).
  { replace ((cr * dr - ci * di) * (cr * dr - ci * di) + (cr * di + ci * dr) * (cr * di + ci * dr))
      with ((cr * cr + ci * ci) * (dr * dr + di * di)) by ring. apply mul_nz; assumption. }
  f_equal; field; split; assumption.
Qed.

(* ---------- unity normalisation ---------- *)
Lemma nth_map_c0 (f:C R -> C R) (l:list (C R)) k : (k < length l)%nat -> nth k (map f l) (c0 K) = f (nth k l (c0 K)).
Proof. intros Hk. rewrite (nth_indep _ (c0 K) (f (c0 K))) by (rewrite map_length; exact Hk). apply map_nth. Qed.

Lemma amax_idx_lt (phi:list (C R)) : phi <> [] -> (amax_idx K leb phi < length phi)%nat.
Proof.
  intros Hne. unfold amax_idx. rewrite <- (map_length (cnorm2 K) phi). apply argmax_lt.
  destruct phi; [congruence|discriminate].
Qed.

(* (1) the selected component becomes exactly 1 *)
Theorem unity_norm_one (phi:list (C R)) : phi <> [] ->
  cnorm2 K (nth (amax_idx K leb phi) phi (c0 K)) <> 0 ->
  nth (amax_idx K leb phi) (unity_norm K leb phi) (c0 K) = c1 K.
Proof.
  intros Hne Hd. unfold unity_norm. rewrite nth_map_c0 by (apply amax_idx_lt; exact Hne). apply cdiv_self. exact Hd.
Qed.

(* (1') the selected component is one of largest modulus *)
Theorem unity_norm_selects_max
  (leb_trans : forall a b c, leb a b = true -> leb b c = true -> leb a c = true)
  (leb_total : forall a b, leb a b = false -> leb b a = true)
  (phi:list (C R)) j : (j < length phi)%nat ->
  leb (cnorm2 K (nth j phi (c0 K))) (cnorm2 K (nth (amax_idx K leb phi) phi (c0 K))) = true.
Proof.
  intros Hj. unfold amax_idx.
  assert (Hk: (argmax leb (map (cnorm2 K) phi) < length phi)%nat).
  { rewrite <- (map_length (cnorm2 K) phi). apply argmax_lt. destruct phi; [cbn in Hj; lia|discriminate]. }
  pose proof (argmax_spec R leb leb_trans leb_total (cnorm2 K (c0 K)) (map (cnorm2 K) phi) j) as S.
  rewrite !map_nth in S. apply S. rewrite map_length. exact Hj.
Qed.

(* (2) the result is the input times the non-zero factor 1/phi[k] *)
Theorem unity_norm_multiple (phi:list (C R)) :
  cnorm2 K (nth (amax_idx K leb phi) phi (c0 K)) <> 0 ->
  let c := cinv K (nth (amax_idx K leb phi) phi (c0 K)) in
  cnorm2 K c <> 0 /\ unity_norm K leb phi = map (cmul K c) phi.
Proof.
  intros Hd c. split; [apply cinv_nz; exact Hd|].
  unfold unity_norm. apply map_ext. intros z. apply cdiv_is_mul.
Qed.

(* (3) invariance under scaling by a non-zero complex factor (the order must be invariant under the factor |c|^2) *)
Theorem unity_norm_scale (c:C R) (phi:list (C R)) :
  (forall a b, leb (cnorm2 K c * a) (cnorm2 K c * b) = leb a b) ->
  cnorm2 K c <> 0 -> cnorm2 K (nth (amax_idx K leb phi) phi (c0 K)) <> 0 ->
  unity_norm K leb (map (cmul K c) phi) = unity_norm K leb phi.
Proof.
  intros Hsc Hc Hd.
  assert (Hidx: amax_idx K leb (map (cmul K c) phi) = amax_idx K leb phi).
  { unfold amax_idx. rewrite map_map.
    rewrite (map_ext (fun x => cnorm2 K (cmul K c x)) (fun x => cnorm2 K c * cnorm2 K x)) by (intros; apply (cnorm2_mul R K Rth)).
    rewrite <- (map_map (cnorm2 K) (fun a => cnorm2 K c * a)). apply argmax_scale. exact Hsc. }
  unfold unity_norm. rewrite Hidx. rewrite map_map.
  assert (E0: cmul K c (c0 K) = c0 K) by (apply c_eq; cbn; ring).
  assert (En: nth (amax_idx K leb phi) (map (cmul K c) phi) (c0 K) = cmul K c (nth (amax_idx K leb phi) phi (c0 K))).
  { transitivity (nth (amax_idx K leb phi) (map (cmul K c) phi) (cmul K c (c0 K))); [rewrite E0; reflexivity|apply map_nth]. }
  rewrite En. apply map_ext. intros z. apply cdiv_scale; assumption.
Qed.

(* ---------- MAC of a shape with a non-zero multiple of itself is 1 (numerator = denominator) ---------- *)
Lemma cdotH_cons x u y v : cdotH K (x::u) (y::v) = cadd K (cmul K (cconj K x) y) (cdotH K u v).
Proof. reflexivity. Qed.
Lemma cdotH_nil_r u : cdotH K u [] = c0 K.
Proof. destruct u; reflexivity. Qed.
Lemma cdotH_scale_r (c:C R) (u v:list (C R)) : cdotH K u (map (cmul K c) v) = cmul K c (cdotH K u v).
Proof.
  revert v; induction u as [|x u IH]; intros v; [apply c_eq; cbn; ring|].
  destruct v as [|y v]; [cbn [map]; rewrite cdotH_nil_r; apply c_eq; cbn; ring|].
  cbn [map]. rewrite !cdotH_cons, IH. apply c_eq; cbn; ring.
Qed.
Lemma cdotH_scale_l (c:C R) (u v:list (C R)) : cdotH K (map (cmul K c) u) v = cmul K (cconj K c) (cdotH K u v).
Proof.
  revert v; induction u as [|x u IH]; intros v; [apply c_eq; cbn; ring|].
  destruct v as [|y v]; [rewrite !cdotH_nil_r; apply c_eq; cbn; ring|].
  cbn [map]. rewrite !cdotH_cons, IH. apply c_eq; cbn; ring.
Qed.
Lemma cdotH_self_real (u:list (C R)) : cim (cdotH K u u) = 0.
Proof.
  induction u as [|x u IH]; [reflexivity|].
  rewrite cdotH_cons. unfold cadd, cim at 1. cbn [snd]. rewrite IH. cbn. ring.
Qed.
Theorem mac_multiple_is_one (c:C R) (u:list (C R)) : mac_num K u (map (cmul K c) u) = mac_den K u (map (cmul K c) u).
Proof.
  unfold mac_num, mac_den. rewrite cdotH_scale_r. rewrite cdotH_scale_l, cdotH_scale_r.
  pose proof (cdotH_self_real u) as Hi. destruct (cdotH K u u) as [s t]. cbn in Hi. subst t.
  destruct c as [a b]. unfold cnorm2; cbn. ring.
Qed.

(* ---------- pole table layout ---------- *)
Lemma nth_error_map_seq {Y:Type} (f:nat->Y) n k : (k < n)%nat -> nth_error (map f (seq 0 n)) k = Some (f k).
Proof.
  intros Hk. rewrite (nth_error_nth' _ (f 0%nat)) by (rewrite map_length, seq_length; exact Hk).
  rewrite map_nth, seq_nth by exact Hk. reflexivity.
Qed.
Theorem pole_table_cell {X:Type} ordmax (per:nat -> list X) row col : (row < ordmax)%nat -> (col <= ordmax)%nat ->
  table_cell (pole_table ordmax per) row col = if Nat.eqb col 0 then None else nth_error (per col) row.
Proof.
  intros Hr Hc. unfold table_cell, pole_table.
  rewrite nth_error_map_seq by exact Hr. rewrite nth_error_map_seq by lia. reflexivity.
Qed.
(* with ii values at order ii: the cell is filled exactly for 1 <= col and row < col; column 0 and rows >= order are NaN *)
Corollary pole_table_filled {X:Type} ordmax (per:nat -> list X) row col :
  (forall ii, length (per ii) = ii) -> (row < ordmax)%nat -> (col <= ordmax)%nat ->
  (table_cell (pole_table ordmax per) row col = None <-> (col <= row)%nat).
Proof.
  intros Hlen Hr Hc. rewrite pole_table_cell by assumption. destruct (Nat.eqb_spec col 0) as [->|Hne].
  - split; [lia|reflexivity].
  - rewrite nth_error_None, Hlen. reflexivity.
Qed.
End P.

(* ---------- the identified shape of a simple pole is the true shape (after unity normalisation) ---------- *)
From Coq Require Import Setoid Morphisms.
From PyOMA.Base Require Import FMat.
From PyOMA.Model Require Import M_realise.
From PyOMA.Proofs Require Import P_realise.
Section Shape.
Variable R:Type. Variable K:Ops R.
Hypothesis Fth : field_theory (o0 K) (o1 K) (oadd K) (omul K) (osub K) (oopp K) (odiv K) (oinv K) (@eq R).
Let Rth := F_R Fth.
Let CRt := CRth R K Rth.
Variable leb : R -> R -> bool.

Definition col_list (l:nat) (v:fmat (C R)) : list (C R) := map (fun i => v i 0%nat) (seq 0 l).

Lemma col_list_scal l c (u v:fmat (C R)) : feq l 1 u (fscal (COps K) c v) -> col_list l u = map (cmul K c) (col_list l v).
Proof.
  intros H. unfold col_list. rewrite map_map. apply map_ext_in. intros i Hi. apply in_seq in Hi.
  rewrite (H i 0%nat) by lia. reflexivity.
Qed.

Theorem shape_recovery l n (A Cm Ah Ch T Ti:fmat R) (lam:C R) (phi psi:fmat (C R)) :
  similar_pair R K l n A Cm Ah Ch T Ti ->
  (forall v, eigpair (C R) (COps K) n (cemb R K A) lam v -> exists c, cnorm2 K c <> o0 K /\ feq n 1 v (fscal (COps K) c phi)) ->
  (forall c, cnorm2 K c <> o0 K -> forall a b, leb (omul K (cnorm2 K c) a) (omul K (cnorm2 K c) b) = leb a b) ->
  eigpair (C R) (COps K) n (cemb R K Ah) lam psi ->
  let s := col_list l (fmul (COps K) n (cemb R K Cm) phi) in
  cnorm2 K (nth (amax_idx K leb s) s (c0 K)) <> o0 K ->
  unity_norm K leb (col_list l (fmul (COps K) n (cemb R K Ch) psi)) = unity_norm K leb s.
Proof.
  intros Hs Hsimple Hleb Hpsi s Hnz.
  destruct (eigpair_transport R K Rth l n A Cm Ah Ch T Ti lam Hs) as [_ [Hb _]].
  destruct (Hb psi Hpsi) as [HeA HC].
  destruct (Hsimple _ HeA) as [c [Hc HTpsi]].
  assert (E: feq l 1 (fmul (COps K) n (cemb R K Ch) psi) (fscal (COps K) c (fmul (COps K) n (cemb R K Cm) phi))).
  { intros i j Hi Hj. rewrite <- (HC i j Hi Hj).
    rewrite (fmul_ext (C R) (COps K) l n 1 _ _ _ _ (feq_refl (C R) l n _) HTpsi i j Hi Hj).
    apply (fmul_scal_r (C R) (COps K) CRt l n 1 c _ _ i j Hi Hj). }
  rewrite (col_list_scal l c _ _ E). apply (unity_norm_scale R K Fth leb c s (Hleb c Hc) Hc Hnz).
Qed.
End Shape.
