(* C03 - proofs about the multi-setup assembly (Model/M_multi_ssi.v): index sets, layout of the interleaved matrix,
   re-basing on the first setup, Obs_all = O_global T_0, C_hat = C_global T_0, A_hat = T_0^-1 A T_0, eigen-pair transport. *)
From Coq Require Import List Arith Lia ZifyBool Bool Ring Setoid Morphisms.
From PyOMA.Base Require Import Carrier FMat.
From PyOMA.Model Require Import M_multi_ssi.
Import ListNotations.

(* ---------- arithmetic of block indices ---------- *)
Lemma blk_div_mod b w j : (j < w)%nat -> ((b*w+j) / w = b /\ (b*w+j) mod w = j)%nat.
Proof.
  intros Hj. split.
  - rewrite Nat.add_comm, Nat.div_add by lia. rewrite Nat.div_small by lia. lia.
  - rewrite Nat.add_comm, Nat.mod_add by lia. apply Nat.mod_small; lia.
Qed.
Lemma blk_decomp i w : (0 < w)%nat -> (i = (i / w) * w + i mod w /\ i mod w < w)%nat.
Proof. intros Hw. split; [rewrite Nat.mul_comm; apply Nat.div_mod; lia|apply Nat.mod_upper_bound; lia]. Qed.
Lemma blk_div_lt i w br : (0 < w)%nat -> (i < br * w)%nat -> (i / w < br)%nat.
Proof. intros Hw Hi. apply Nat.div_lt_upper_bound; lia. Qed.

(* ---------- flat lists made of blocks of constant width ---------- *)
Lemma nth_flat_const {A} (g:nat -> list A) (w:nat) (d:A) : (forall b, length (g b) = w) ->
  forall br s b j, (b < br)%nat -> (j < w)%nat -> nth (b*w+j) (flat_map g (seq s br)) d = nth j (g (s+b)%nat) d.
Proof.
  intros Hg. induction br as [|br IH]; intros s b j Hb Hj; [lia|]. cbn [seq flat_map].
  destruct b as [|b].
  - rewrite app_nth1 by (rewrite Hg; lia). rewrite Nat.add_0_r. reflexivity.
  - rewrite app_nth2 by (rewrite Hg; nia). rewrite Hg.
    replace (S b * w + j - w)%nat with (b*w+j)%nat by nia. rewrite IH by lia. f_equal. f_equal. lia.
Qed.
Lemma length_flat_const {A} (g:nat -> list A) (w:nat) : (forall b, length (g b) = w) ->
  forall br s, length (flat_map g (seq s br)) = (br * w)%nat.
Proof. intros Hg. induction br as [|br IH]; intros s; [reflexivity|]. cbn [seq flat_map]. rewrite app_length, Hg, IH. lia. Qed.

Lemma flat_map_ext_in' {A B} (f g:A -> list B) l : (forall a, In a l -> f a = g a) -> flat_map f l = flat_map g l.
Proof. induction l as [|a t IH]; intros H; [reflexivity|]. cbn [flat_map]. rewrite H by (left; reflexivity). rewrite IH; [reflexivity|].
  intros x Hx. apply H. right; exact Hx. Qed.

(* the code's construction (table of arange(br)*r + j, Fortran flatten) is the block-major list *)
Lemma fflatten_table br r lo w :
  fflatten br (id_table br r lo (lo + w)) = flat_map (fun b => map (fun j => b * r + j)%nat (seq lo w)) (seq 0 br).
Proof.
  unfold fflatten, id_table. replace (lo + w - lo)%nat with w by lia.
  apply flat_map_ext_in'. intros b Hb. apply in_seq in Hb. rewrite map_map. apply map_ext. intros j.
  rewrite nth_indep with (d':= (fun b0 => b0 * r + j)%nat 0%nat) by (rewrite map_length, seq_length; lia).
  rewrite (map_nth (fun b0 => (b0 * r + j)%nat)). rewrite seq_nth by lia. reflexivity.
Qed.

Lemma ref_id_blocks br r n_ref :
  ref_id br r n_ref = flat_map (fun b => map (fun j => b * r + j)%nat (seq 0 n_ref)) (seq 0 br).
Proof. unfold ref_id. apply (fflatten_table br r 0 n_ref). Qed.
Lemma mov_id_blocks br r n_ref : (n_ref <= r)%nat ->
  mov_id br r n_ref = flat_map (fun b => map (fun j => b * r + j)%nat (seq n_ref (r - n_ref))) (seq 0 br).
Proof. intros H. unfold mov_id. replace r with (n_ref + (r - n_ref))%nat at 2 by lia. apply fflatten_table. Qed.

Lemma nth_blocks br r lo w b j : (b < br)%nat -> (j < w)%nat ->
  nth (b*w+j) (flat_map (fun b => map (fun j => b * r + j)%nat (seq lo w)) (seq 0 br)) 0%nat = (b * r + (lo + j))%nat.
Proof.
  intros Hb Hj. rewrite (nth_flat_const _ w) by (try (intros; rewrite map_length, seq_length; reflexivity); assumption).
  cbn [Nat.add]. rewrite nth_indep with (d':= (fun j0 => b * r + j0)%nat 0%nat) by (rewrite map_length, seq_length; lia).
  rewrite (map_nth (fun j0 => (b * r + j0)%nat)). rewrite seq_nth by lia. reflexivity.
Qed.
Lemma in_blocks br r lo w i : (lo + w <= r)%nat ->
  In i (flat_map (fun b => map (fun j => b * r + j)%nat (seq lo w)) (seq 0 br)) <->
  (i < br * r /\ lo <= i mod r < lo + w)%nat.
Proof.
  intros Hr. rewrite in_flat_map. split.
  - intros [b [Hb Hi]]. apply in_seq in Hb. apply in_map_iff in Hi. destruct Hi as [j [<- Hj]]. apply in_seq in Hj.
    destruct (blk_div_mod b r j) as [_ Hm]; [lia|]. rewrite Hm. split; [nia|lia].
  - intros [Hi Hm]. assert (Hr0: (0 < r)%nat) by lia. destruct (blk_decomp i r Hr0) as [E _].
    exists (i / r)%nat. split; [apply in_seq; split; [lia|]; cbn; apply blk_div_lt; assumption|].
    apply in_map_iff. exists (i mod r)%nat. split; [lia|apply in_seq; lia].
Qed.

(* ref_mov_index_sets: the reference index list is [b r + j | b < br, j < n_ref] (block-major), the roving one is
   [b r + n_ref + m | b < br, m < r - n_ref]; they are disjoint and together cover exactly the first br block rows *)
Theorem ref_mov_index_sets br r n_ref : (n_ref <= r)%nat ->
  length (ref_id br r n_ref) = (br * n_ref)%nat /\
  length (mov_id br r n_ref) = (br * (r - n_ref))%nat /\
  (forall b j, (b < br)%nat -> (j < n_ref)%nat -> nth (b * n_ref + j) (ref_id br r n_ref) 0%nat = (b * r + j)%nat) /\
  (forall b m, (b < br)%nat -> (m < r - n_ref)%nat -> nth (b * (r - n_ref) + m) (mov_id br r n_ref) 0%nat = (b * r + n_ref + m)%nat) /\
  (forall i, In i (ref_id br r n_ref) <-> (i < br * r /\ i mod r < n_ref)%nat) /\
  (forall i, In i (mov_id br r n_ref) <-> (i < br * r /\ n_ref <= i mod r)%nat) /\
  (forall i, ~ (In i (ref_id br r n_ref) /\ In i (mov_id br r n_ref))) /\
  (forall i, (i < br * r)%nat -> In i (ref_id br r n_ref) \/ In i (mov_id br r n_ref)).
Proof.
  intros Hr. rewrite ref_id_blocks, (mov_id_blocks br r n_ref Hr).
  assert (Iref: forall i, In i (flat_map (fun b => map (fun j => b * r + j)%nat (seq 0 n_ref)) (seq 0 br)) <-> (i < br * r /\ i mod r < n_ref)%nat).
  { intros i. rewrite (in_blocks br r 0 n_ref i) by lia. lia. }
  assert (Imov: forall i, In i (flat_map (fun b => map (fun j => b * r + j)%nat (seq n_ref (r - n_ref))) (seq 0 br)) <-> (i < br * r /\ n_ref <= i mod r)%nat).
  { intros i. rewrite (in_blocks br r n_ref (r - n_ref) i) by lia. split; [lia|]. intros [H1 H2]. split; [exact H1|].
    assert (i mod r < r)%nat by (apply Nat.mod_upper_bound; lia). lia. }
  repeat split.
  - apply length_flat_const. intros; rewrite map_length, seq_length; reflexivity.
  - apply length_flat_const. intros; rewrite map_length, seq_length; reflexivity.
  - intros b j Hb Hj. rewrite nth_blocks by assumption. lia.
  - intros b m Hb Hm. rewrite nth_blocks by assumption. lia.
  - apply Iref. assumption.
  - apply Iref. assumption.
  - intros [H1 H2]. apply Iref. split; assumption.
  - apply Imov. assumption.
  - apply Imov. assumption.
  - intros [H1 H2]. apply Imov. split; assumption.
  - intros i [H1 H2]. apply Iref in H1. apply Imov in H2. lia.
  - intros i Hi. destruct (Nat.lt_ge_cases (i mod r) n_ref) as [Hl|Hg]; [left; apply Iref|right; apply Imov]; split; assumption.
Qed.

(* ---------- the running offsets of the assembly loop ---------- *)
Lemma offset_0 nm : offset nm 0 = 0%nat. Proof. reflexivity. Qed.
Lemma offset_cons a t k : offset (a::t) (S k) = (a + offset t k)%nat. Proof. reflexivity. Qed.
Lemma list_sum_cons a t : list_sum (a::t) = (a + list_sum t)%nat. Proof. reflexivity. Qed.
Lemma offset_S nm : forall k, (k < length nm)%nat -> offset nm (S k) = (offset nm k + nth k nm 0)%nat.
Proof.
  induction nm as [|a t IH]; intros k Hk; [cbn in Hk; lia|]. destruct k as [|k].
  - rewrite offset_cons, !offset_0. cbn [nth]. lia.
  - cbn [length] in Hk. rewrite !offset_cons. rewrite IH by lia. cbn [nth]. lia.
Qed.
Lemma offset_le nm : forall k, (offset nm k <= list_sum nm)%nat.
Proof.
  induction nm as [|a t IH]; intros k; destruct k; try (rewrite offset_0; lia).
  - cbn. lia.
  - rewrite offset_cons, list_sum_cons. specialize (IH k). lia.
Qed.
Lemma offset_lt nm k m : (k < length nm)%nat -> (m < nth k nm 0)%nat -> (offset nm k + m < list_sum nm)%nat.
Proof. intros Hk Hm. assert (H := offset_le nm (S k)). rewrite offset_S in H by exact Hk. lia. Qed.

Lemma locate_offset nm : forall k m, (k < length nm)%nat -> (m < nth k nm 0)%nat -> locate nm (offset nm k + m) = Some (k, m).
Proof.
  induction nm as [|a t IH]; intros k m Hk Hm; [cbn in Hk; lia|]. destruct k as [|k].
  - rewrite offset_0. cbn [Nat.add locate nth] in *. destruct (Nat.ltb_spec m a); [reflexivity|lia].
  - rewrite offset_cons. cbn [locate nth length] in *.
    destruct (Nat.ltb_spec (a + offset t k + m) a) as [Hl|Hg]; [lia|].
    replace (a + offset t k + m - a)%nat with (offset t k + m)%nat by lia.
    rewrite IH by (try lia; exact Hm). reflexivity.
Qed.
Lemma locate_total nm : forall p, (p < list_sum nm)%nat ->
  exists k m, locate nm p = Some (k, m) /\ (k < length nm)%nat /\ (m < nth k nm 0)%nat /\ p = (offset nm k + m)%nat.
Proof.
  induction nm as [|a t IH]; intros p Hp; [cbn in Hp; lia|]. rewrite list_sum_cons in Hp. cbn [locate].
  destruct (Nat.ltb_spec p a) as [Hl|Hg].
  - exists 0%nat, p. rewrite offset_0. cbn [nth length]. repeat split; try lia.
  - destruct (IH (p - a)%nat) as [k [m [H1 [H2 [H3 H4]]]]]; [lia|]. rewrite H1. exists (S k), m.
    rewrite offset_cons. cbn [nth length]. repeat split; try lia.
Qed.

(* ====================================================================================================== *)
Section P.
Variable R:Type. Variable K:Ops R.
Hypothesis Rth : ring_theory (o0 K) (o1 K) (oadd K) (omul K) (osub K) (oopp K) (@eq R).
Add Ring RrMS : Rth.
Local Open Scope K_scope.
Notation "0" := (o0 K) : K_scope.
Infix "+" := (oadd K) : K_scope. Infix "*" := (omul K) : K_scope.
Notation fmul := (fmul K). Notation fid := (fid K).
Let assoc := fmul_assoc R K Rth.
Let idl := fmul_id_l R K Rth.
Let idr := fmul_id_r R K Rth.

(* ---------- layout of the assembled matrix ---------- *)
Section Layout.
Variables (n_ref:nat) (nmov:list nat).
Notation nD := (nDOF n_ref nmov).

(* interleave_entry: row b n_DOF + j is row b n_ref + j of the reference block; row
   b n_DOF + n_ref + (n_mov_0 + ... + n_mov_{k-1}) + m is row b n_mov_k + m of the block of setup k *)
Theorem interleave_entry_ref (fr:fmat R) (fm:nat -> fmat R) b j c : (j < n_ref)%nat ->
  interleave K n_ref nmov fr fm (b * nD + j)%nat c = fr (b * n_ref + j)%nat c.
Proof.
  intros Hj. unfold interleave. assert (H: (j < nD)%nat) by (unfold nDOF; lia).
  destruct (blk_div_mod b nD j H) as [-> ->]. destruct (Nat.ltb_spec j n_ref); [reflexivity|lia].
Qed.
Theorem interleave_entry_mov (fr:fmat R) (fm:nat -> fmat R) b k m c : (k < length nmov)%nat -> (m < nth k nmov 0)%nat ->
  interleave K n_ref nmov fr fm (b * nD + (n_ref + offset nmov k + m))%nat c = fm k (b * nth k nmov 0 + m)%nat c.
Proof.
  intros Hk Hm. unfold interleave, nmov_of. assert (Ho := offset_lt nmov k m Hk Hm).
  assert (H: (n_ref + offset nmov k + m < nD)%nat) by (unfold nDOF; lia).
  destruct (blk_div_mod b nD _ H) as [-> ->]. destruct (Nat.ltb_spec (n_ref + offset nmov k + m) n_ref); [lia|].
  replace (n_ref + offset nmov k + m - n_ref)%nat with (offset nmov k + m)%nat by lia.
  rewrite locate_offset by assumption. reflexivity.
Qed.

(* every row of the assembled matrix is one of the two kinds *)
Lemma interleave_cases i br : (i < br * nD)%nat ->
  let b := (i / nD)%nat in let p := (i mod nD)%nat in
  (b < br)%nat /\ i = (b * nD + p)%nat /\
  ((p < n_ref)%nat \/
   exists k m, (k < length nmov)%nat /\ (m < nth k nmov 0)%nat /\ p = (n_ref + offset nmov k + m)%nat /\
               locate nmov (p - n_ref) = Some (k, m)).
Proof.
  intros Hi b p. subst b p. assert (HD: (0 < nD)%nat) by (destruct nD; lia).
  assert (ED: nD = (n_ref + list_sum nmov)%nat) by reflexivity.
  destruct (blk_decomp i nD HD) as [E Hp]. split; [apply blk_div_lt; assumption|]. split; [exact E|].
  destruct (Nat.lt_ge_cases (i mod nD) n_ref) as [Hl|Hg]; [left; exact Hl|right].
  destruct (locate_total nmov (i mod nD - n_ref)%nat) as [k [m [H1 [H2 [H3 H4]]]]]; [lia|].
  exists k, m. repeat split; try assumption. lia.
Qed.

Lemma interleave_ext br n (fr fr':fmat R) (fm fm':nat -> fmat R) :
  feq (br * n_ref) n fr fr' ->
  (forall k, (k < length nmov)%nat -> feq (br * nth k nmov 0%nat) n (fm k) (fm' k)) ->
  feq (br * nD) n (interleave K n_ref nmov fr fm) (interleave K n_ref nmov fr' fm').
Proof.
  intros Hr Hm i c Hi Hc. destruct (interleave_cases i br Hi) as [Hb [E [Hp|[k [m [Hk [Hmk [Ep Hloc]]]]]]]].
  - unfold interleave. destruct (Nat.ltb_spec (i mod nD) n_ref); [|lia]. apply Hr; [nia|exact Hc].
  - unfold interleave. destruct (Nat.ltb_spec (i mod nD) n_ref); [lia|]. rewrite Hloc. unfold nmov_of.
    apply (Hm k Hk); [nia|exact Hc].
Qed.

Lemma interleave_fmul rows n (fr:fmat R) (fm:nat -> fmat R) (X:fmat R) :
  feq rows n (interleave K n_ref nmov (fmul n fr X) (fun k => fmul n (fm k) X))
             (fmul n (interleave K n_ref nmov fr fm) X).
Proof.
  intros i c _ _. unfold interleave, FMat.fmul.
  destruct (Nat.ltb (i mod nD) n_ref); [reflexivity|].
  destruct (locate nmov (i mod nD - n_ref)) as [[k m]|]; [reflexivity|].
  rewrite (sumn_ext R K n _ (fun _ => 0)) by (intros; ring). symmetry. apply (sumn_zero R K Rth).
Qed.
End Layout.

(* ---------- re-basing ---------- *)
Section Rebase.
Variables (br n_ref : nat) (nmov : list nat) (n : nat).
Variable obs : nat -> fmat R.
Variable L : nat -> fmat R.
Variable Og_ref : fmat R.
Variable Og_mov : nat -> fmat R.
Variables T Ti : nat -> fmat R.
Notation nD := (nDOF n_ref nmov).
Notation Oref := (O_ref br n_ref nmov obs).
Notation Omov := (O_mov br n_ref nmov obs).
Hypothesis Href : forall k, (k < length nmov)%nat -> feq (br * n_ref) n (Oref k) (fmul n Og_ref (T k)).
Hypothesis Hmov : forall k, (k < length nmov)%nat -> feq (br * nth k nmov 0%nat) n (Omov k) (fmul n (Og_mov k) (T k)).
Hypothesis HT : forall k, (k < length nmov)%nat -> feq n n (fmul n (T k) (Ti k)) fid.
Hypothesis HL : forall k, (k < length nmov)%nat -> feq n n (fmul (br * n_ref) (L k) (Oref k)) fid.

Lemma TLO_id k : (k < length nmov)%nat -> feq n n (fmul n (T k) (fmul (br * n_ref) (L k) Og_ref)) fid.
Proof.
  intros Hk.
  assert (HX: feq n n (fmul n (fmul n (T k) (fmul (br * n_ref) (L k) Og_ref)) (T k)) (T k)).
  { rewrite (assoc n n n n (T k)). rewrite (assoc n (br * n_ref)%nat n n (L k) Og_ref (T k)).
    rewrite <- (Href k Hk). rewrite (HL k Hk). apply idr. }
  rewrite <- (idr n n (fmul n (T k) (fmul (br * n_ref) (L k) Og_ref))).
  rewrite <- (HT k Hk) at 1.
  rewrite <- (assoc n n n n (fmul n (T k) (fmul (br * n_ref) (L k) Og_ref)) (T k) (Ti k)).
  rewrite HX. apply (HT k Hk).
Qed.

(* the transmissibility O_mov pinv(O_ref) of a setup carries ANY basis of the global reference rows to the same basis
   of that setup's roving rows: it does not depend on T_k (gain, initial condition, SVD basis of the setup) *)
Lemma transm_transfer k (X:fmat R) : (k < length nmov)%nat ->
  feq (br * nth k nmov 0%nat) n
      (fmul (br * n_ref) (transm K br n_ref nmov n obs L k) (fmul n Og_ref X))
      (fmul n (Og_mov k) X).
Proof.
  intros Hk. unfold transm. rewrite (Hmov k Hk).
  rewrite (assoc (br * nth k nmov 0)%nat n (br * n_ref)%nat n (fmul n (Og_mov k) (T k)) (L k) (fmul n Og_ref X)).
  rewrite (assoc (br * nth k nmov 0)%nat n n n (Og_mov k) (T k)).
  rewrite <- (assoc n (br * n_ref)%nat n n (L k) Og_ref X).
  rewrite <- (assoc n n n n (T k) (fmul (br * n_ref) (L k) Og_ref) X).
  rewrite (TLO_id k Hk). rewrite (idl n n X). reflexivity.
Qed.

(* rebasing_basis_free *)
Theorem rebasing_basis_free k : (k < length nmov)%nat ->
  feq (br * nth k nmov 0%nat) n (rebased K br n_ref nmov n obs L k) (fmul n (Og_mov k) (T 0%nat)).
Proof.
  intros Hk. assert (H0: (0 < length nmov)%nat) by lia. unfold rebased.
  rewrite (Href 0%nat H0). apply transm_transfer. exact Hk.
Qed.

(* the assembled matrix is the global matrix, rows ordered references, roving of setup 0, of setup 1, ...,
   in the basis of the FIRST setup *)
Theorem obs_all_global : (0 < length nmov)%nat ->
  feq (br * nD) n (obs_all K br n_ref nmov n obs L) (fmul n (interleave K n_ref nmov Og_ref Og_mov) (T 0%nat)).
Proof.
  intros H0. unfold obs_all.
  transitivity (interleave K n_ref nmov (fmul n Og_ref (T 0%nat)) (fun k => fmul n (Og_mov k) (T 0%nat))).
  - apply interleave_ext; [apply (Href 0%nat H0)|]. intros k Hk. apply rebasing_basis_free. exact Hk.
  - apply interleave_fmul.
Qed.
End Rebase.

(* ---------- re-basing with SCALED left inverses (L k O_ref k = d k I): what the integer evaluation of the model uses.
   d k = 1 is the pinv contract of Section Rebase. ---------- *)
Section RebaseScaled.
Variables (br n_ref : nat) (nmov : list nat) (n : nat).
Variable obs : nat -> fmat R.
Variable L : nat -> fmat R.
Variable Og_ref : fmat R.
Variable Og_mov : nat -> fmat R.
Variables T Ti : nat -> fmat R.
Variable d : nat -> R.
Notation nD := (nDOF n_ref nmov).
Notation Oref := (O_ref br n_ref nmov obs).
Notation Omov := (O_mov br n_ref nmov obs).
Hypothesis Href : forall k, (k < length nmov)%nat -> feq (br * n_ref) n (Oref k) (fmul n Og_ref (T k)).
Hypothesis Hmov : forall k, (k < length nmov)%nat -> feq (br * nth k nmov 0%nat) n (Omov k) (fmul n (Og_mov k) (T k)).
Hypothesis HT : forall k, (k < length nmov)%nat -> feq n n (fmul n (T k) (Ti k)) fid.
Hypothesis HLs : forall k, (k < length nmov)%nat -> feq n n (fmul (br * n_ref) (L k) (Oref k)) (fscal K (d k) fid).

Lemma TLO_scaled k : (k < length nmov)%nat ->
  feq n n (fmul n (T k) (fmul (br * n_ref) (L k) Og_ref)) (fscal K (d k) fid).
Proof.
  intros Hk.
  assert (HX: feq n n (fmul n (fmul n (T k) (fmul (br * n_ref) (L k) Og_ref)) (T k)) (fscal K (d k) (T k))).
  { rewrite (assoc n n n n (T k)). rewrite (assoc n (br * n_ref)%nat n n (L k) Og_ref (T k)).
    rewrite <- (Href k Hk). rewrite (HLs k Hk). rewrite (fmul_scal_r R K Rth n n n (d k) (T k) fid).
    rewrite (idr n n (T k)). reflexivity. }
  rewrite <- (idr n n (fmul n (T k) (fmul (br * n_ref) (L k) Og_ref))).
  rewrite <- (HT k Hk) at 1.
  rewrite <- (assoc n n n n (fmul n (T k) (fmul (br * n_ref) (L k) Og_ref)) (T k) (Ti k)).
  rewrite HX. rewrite (fmul_scal_l R K Rth n n n (d k) (T k) (Ti k)). rewrite (HT k Hk). reflexivity.
Qed.

Lemma transm_transfer_scaled k (X:fmat R) : (k < length nmov)%nat ->
  feq (br * nth k nmov 0%nat) n
      (fmul (br * n_ref) (transm K br n_ref nmov n obs L k) (fmul n Og_ref X))
      (fscal K (d k) (fmul n (Og_mov k) X)).
Proof.
  intros Hk. unfold transm. rewrite (Hmov k Hk).
  rewrite (assoc (br * nth k nmov 0%nat)%nat n (br * n_ref)%nat n (fmul n (Og_mov k) (T k)) (L k) (fmul n Og_ref X)).
  rewrite (assoc (br * nth k nmov 0%nat)%nat n n n (Og_mov k) (T k)).
  rewrite <- (assoc n (br * n_ref)%nat n n (L k) Og_ref X).
  rewrite <- (assoc n n n n (T k) (fmul (br * n_ref) (L k) Og_ref) X).
  rewrite (TLO_scaled k Hk). rewrite (fmul_scal_l R K Rth n n n (d k) fid X). rewrite (idl n n X).
  apply (fmul_scal_r R K Rth).
Qed.

Theorem rebasing_scaled k : (k < length nmov)%nat ->
  feq (br * nth k nmov 0%nat) n (rebased K br n_ref nmov n obs L k) (fscal K (d k) (fmul n (Og_mov k) (T 0%nat))).
Proof.
  intros Hk. assert (H0: (0 < length nmov)%nat) by lia. unfold rebased.
  rewrite (Href 0%nat H0). apply transm_transfer_scaled. exact Hk.
Qed.

(* the executed table: reference rows in the basis of setup 0, roving rows of setup k the same times d k *)
Theorem obs_all_scaled : (0 < length nmov)%nat ->
  feq (br * nD) n (obs_all K br n_ref nmov n obs L)
      (interleave K n_ref nmov (fmul n Og_ref (T 0%nat)) (fun k => fscal K (d k) (fmul n (Og_mov k) (T 0%nat)))).
Proof.
  intros H0. unfold obs_all.
  apply interleave_ext; [apply (Href 0%nat H0)|]. intros k Hk. apply rebasing_scaled. exact Hk.
Qed.
End RebaseScaled.

(* ---------- the global system and its observability matrices ---------- *)
Section Truth.
Variable n : nat.
Lemma obsv_entry l (C A:fmat R) b j c : (j < l)%nat -> obsv K n l C A (b * l + j)%nat c = fmul n C (fpow K n A b) j c.
Proof. intros Hj. unfold obsv. destruct (blk_div_mod b l j Hj) as [-> ->]. reflexivity. Qed.

(* shift structure: dropping the first block row = multiplying by A on the right *)
Lemma obsv_shift rows l (C A:fmat R) : (0 < l)%nat ->
  feq rows n (fun i c => obsv K n l C A (i + l)%nat c) (fmul n (obsv K n l C A) A).
Proof.
  intros Hl i c Hi Hc. unfold obsv at 1.
  replace (i + l)%nat with (i + 1 * l)%nat by lia. rewrite Nat.div_add, Nat.mod_add by lia.
  replace (i / l + 1)%nat with (S (i / l)) by lia. cbn [fpow].
  assert (Hj: (i mod l < l)%nat) by (apply Nat.mod_upper_bound; lia).
  rewrite <- (assoc l n n n C (fpow K n A (i / l)) A (i mod l)%nat c Hj Hc). reflexivity.
Qed.

(* the interleaved per-block observability matrices are the observability matrix of all sensors in the order
   references, roving of setup 0, roving of setup 1, ... *)
Lemma interleave_obsv br n_ref nmov (Cr:fmat R) (Cm:nat -> fmat R) (A:fmat R) :
  feq (br * nDOF n_ref nmov) n
      (interleave K n_ref nmov (obsv K n n_ref Cr A) (fun k => obsv K n (nth k nmov 0%nat) (Cm k) A))
      (obsv K n (nDOF n_ref nmov) (C_global K n_ref nmov Cr Cm) A).
Proof.
  intros i c Hi Hc. destruct (interleave_cases n_ref nmov i br Hi) as [Hb [E [Hp|[k [m [Hk [Hmk [Ep Hloc]]]]]]]].
  - unfold interleave. destruct (Nat.ltb_spec (i mod nDOF n_ref nmov) n_ref) as [_|?]; [|lia].
    rewrite obsv_entry by exact Hp. unfold obsv, FMat.fmul, C_global.
    destruct (Nat.ltb_spec (i mod nDOF n_ref nmov) n_ref) as [_|?]; [reflexivity|lia].
  - unfold interleave. destruct (Nat.ltb_spec (i mod nDOF n_ref nmov) n_ref) as [?|_]; [lia|]. rewrite Hloc. unfold nmov_of.
    rewrite obsv_entry by exact Hmk. unfold obsv, FMat.fmul, C_global.
    destruct (Nat.ltb_spec (i mod nDOF n_ref nmov) n_ref) as [?|_]; [lia|]. rewrite Hloc. reflexivity.
Qed.

(* one setup measures the references and its own roving sensors: the selected rows of its observability matrix are the
   observability matrices of the two sensor groups *)
Lemma sel_ref_stack br n_ref nm (Cr Cm A X:fmat R) :
  feq (br * n_ref) n
      (sel (ref_id br (n_ref + nm) n_ref) (fmul n (obsv K n (n_ref + nm) (stack n_ref Cr Cm) A) X))
      (fmul n (obsv K n n_ref Cr A) X).
Proof.
  intros i c Hi Hc. assert (H0: (0 < n_ref)%nat) by (destruct n_ref; lia).
  destruct (blk_decomp i n_ref H0) as [E Hj]. assert (Hb := blk_div_lt i n_ref br H0 Hi).
  destruct (ref_mov_index_sets br (n_ref + nm) n_ref ltac:(lia)) as [_ [_ [Hnth _]]].
  unfold sel. rewrite E at 1. rewrite (Hnth _ _ Hb Hj). unfold FMat.fmul at 1 2. apply sumn_ext. intros x Hx. f_equal.
  rewrite obsv_entry by lia.
  replace (obsv K n n_ref Cr A i x) with (obsv K n n_ref Cr A (i / n_ref * n_ref + i mod n_ref)%nat x) by (rewrite <- E; reflexivity).
  rewrite obsv_entry by exact Hj.
  unfold FMat.fmul, stack. destruct (Nat.ltb_spec (i mod n_ref) n_ref) as [_|?]; [reflexivity|lia].
Qed.
Lemma sel_mov_stack br n_ref nm (Cr Cm A X:fmat R) :
  feq (br * nm) n
      (sel (mov_id br (n_ref + nm) n_ref) (fmul n (obsv K n (n_ref + nm) (stack n_ref Cr Cm) A) X))
      (fmul n (obsv K n nm Cm A) X).
Proof.
  intros i c Hi Hc. assert (H0: (0 < nm)%nat) by (destruct nm; lia).
  destruct (blk_decomp i nm H0) as [E Hj]. assert (Hb := blk_div_lt i nm br H0 Hi).
  destruct (ref_mov_index_sets br (n_ref + nm) n_ref ltac:(lia)) as [_ [_ [_ [Hnth _]]]].
  replace (n_ref + nm - n_ref)%nat with nm in Hnth by lia.
  unfold sel. rewrite E at 1. rewrite (Hnth _ _ Hb Hj). unfold FMat.fmul at 1 2. apply sumn_ext. intros x Hx. f_equal.
  replace ((i / nm) * (n_ref + nm) + n_ref + i mod nm)%nat with ((i / nm) * (n_ref + nm) + (n_ref + i mod nm))%nat by lia.
  rewrite obsv_entry by lia.
  replace (obsv K n nm Cm A i x) with (obsv K n nm Cm A (i / nm * nm + i mod nm)%nat x) by (rewrite <- E; reflexivity).
  rewrite obsv_entry by exact Hj.
  unfold FMat.fmul, stack. destruct (Nat.ltb_spec (n_ref + i mod nm) n_ref) as [?|_]; [lia|].
  replace (n_ref + i mod nm - n_ref)%nat with (i mod nm)%nat by lia. reflexivity.
Qed.
End Truth.

(* QR contract -> left inverse (full order) *)
Lemma qr_left_inverse m n (Op Q Rq Ri:fmat R) :
  feq m n Op (fmul n Q Rq) -> feq n n (fmul m (ftr Q) Q) fid -> feq n n (fmul n Ri Rq) fid ->
  feq n n (fmul m (fmul n Ri (ftr Q)) Op) fid.
Proof.
  intros HQR HQ HR. rewrite HQR. rewrite (assoc n n m n Ri (ftr Q)).
  rewrite <- (assoc n m n n (ftr Q) Q Rq). rewrite HQ. rewrite (idl n n Rq). exact HR.
Qed.

(* ---------- the whole routine on noise-free data of one global system ---------- *)
Section Main.
Variables (br n_ref : nat) (nmov : list nat) (n : nat).
Variable obs : nat -> fmat R.
Variable L : nat -> fmat R.
Variables (Cr A : fmat R) (Cm : nat -> fmat R).
Variables T Ti : nat -> fmat R.
Notation nD := (nDOF n_ref nmov).
Notation Cg := (C_global K n_ref nmov Cr Cm).
(* setup k sees the global system (A; references Cr, its own roving sensors Cm k) through an arbitrary right-invertible
   T k (amplitude, initial condition and SVD basis of that setup): the conclusion of the single-setup realisation step *)
Hypothesis Hobs : forall k, (k < length nmov)%nat ->
  feq (S br * (n_ref + nth k nmov 0%nat)) n (obs k)
      (fmul n (obsv K n (n_ref + nth k nmov 0%nat) (stack n_ref Cr (Cm k)) A) (T k)).
Hypothesis HT : forall k, (k < length nmov)%nat -> feq n n (fmul n (T k) (Ti k)) fid.
(* pinv contract at full column rank (all modes visible at the references) *)
Hypothesis HL : forall k, (k < length nmov)%nat ->
  feq n n (fmul (br * n_ref) (L k) (O_ref br n_ref nmov obs k)) fid.
Hypothesis Hset : (0 < length nmov)%nat.

Lemma main_Href k : (k < length nmov)%nat ->
  feq (br * n_ref) n (O_ref br n_ref nmov obs k) (fmul n (obsv K n n_ref Cr A) (T k)).
Proof.
  intros Hk. unfold O_ref, rk, nmov_of.
  transitivity (sel (ref_id br (n_ref + nth k nmov 0%nat) n_ref)
                    (fmul n (obsv K n (n_ref + nth k nmov 0%nat) (stack n_ref Cr (Cm k)) A) (T k))).
  - intros i c Hi Hc. unfold sel. apply (Hobs k Hk); [|exact Hc].
    assert (H0: (0 < n_ref)%nat) by (destruct n_ref; lia).
    destruct (ref_mov_index_sets br (n_ref + nth k nmov 0%nat) n_ref ltac:(lia)) as [_ [_ [Hnth _]]].
    destruct (blk_decomp i n_ref H0) as [E Hj]. assert (Hb := blk_div_lt i n_ref br H0 Hi).
    rewrite E. rewrite (Hnth _ _ Hb Hj). nia.
  - apply sel_ref_stack.
Qed.
Lemma main_Hmov k : (k < length nmov)%nat ->
  feq (br * nth k nmov 0%nat) n (O_mov br n_ref nmov obs k) (fmul n (obsv K n (nth k nmov 0%nat) (Cm k) A) (T k)).
Proof.
  intros Hk. unfold O_mov, rk, nmov_of.
  transitivity (sel (mov_id br (n_ref + nth k nmov 0%nat) n_ref)
                    (fmul n (obsv K n (n_ref + nth k nmov 0%nat) (stack n_ref Cr (Cm k)) A) (T k))).
  - intros i c Hi Hc. unfold sel. apply (Hobs k Hk); [|exact Hc].
    assert (H0: (0 < nth k nmov 0%nat)%nat) by (destruct (nth k nmov 0%nat); lia).
    destruct (ref_mov_index_sets br (n_ref + nth k nmov 0%nat) n_ref ltac:(lia)) as [_ [_ [_ [Hnth _]]]].
    replace (n_ref + nth k nmov 0%nat - n_ref)%nat with (nth k nmov 0%nat) in Hnth by lia.
    destruct (blk_decomp i _ H0) as [E Hj]. assert (Hb := blk_div_lt i _ br H0 Hi).
    rewrite E. rewrite (Hnth _ _ Hb Hj). nia.
  - apply sel_mov_stack.
Qed.

(* Obs_all = O_global T_0 : global observability matrix, sensors ordered references, roving_0, roving_1, ... *)
Theorem ms_obs_all_global :
  feq (br * nD) n (obs_all K br n_ref nmov n obs L) (fmul n (obsv K n nD Cg A) (T 0%nat)).
Proof.
  rewrite (obs_all_global br n_ref nmov n obs L (obsv K n n_ref Cr A) (fun k => obsv K n (nth k nmov 0%nat) (Cm k) A) T Ti
             main_Href main_Hmov HT HL Hset).
  rewrite (interleave_obsv n br n_ref nmov Cr Cm A). reflexivity.
Qed.

(* the same with scaled left inverses (the integer evaluation of the correspondence check): reference rows
   O_ref_global T_0, roving rows of setup k = d k * O_mov_k_global T_0 *)
Theorem ms_obs_all_scaled (L':nat -> fmat R) (d:nat -> R) :
  (forall k, (k < length nmov)%nat ->
     feq n n (fmul (br * n_ref) (L' k) (O_ref br n_ref nmov obs k)) (fscal K (d k) fid)) ->
  feq (br * nD) n (obs_all K br n_ref nmov n obs L')
      (interleave K n_ref nmov (fmul n (obsv K n n_ref Cr A) (T 0%nat))
                  (fun k => fscal K (d k) (fmul n (obsv K n (nth k nmov 0%nat) (Cm k) A) (T 0%nat)))).
Proof.
  intros HLs.
  exact (obs_all_scaled br n_ref nmov n obs L' (obsv K n n_ref Cr A) (fun k => obsv K n (nth k nmov 0%nat) (Cm k) A) T Ti d
           main_Href main_Hmov HT HLs Hset).
Qed.

(* C_hat = C_global T_0 *)
Hypothesis Hbr : (1 <= br)%nat.
Theorem ms_C_global : feq nD n (C_hat K br n_ref nmov n obs L) (fmul n Cg (T 0%nat)).
Proof.
  intros i c Hi Hc. unfold C_hat. rewrite (ms_obs_all_global i c ltac:(nia) Hc).
  unfold FMat.fmul at 1 2. apply sumn_ext. intros x Hx. f_equal.
  unfold obsv. rewrite Nat.div_small, Nat.mod_small by lia. cbn [fpow]. apply (idr nD n Cg i x Hi Hx).
Qed.

(* A_hat = T_0^-1 A T_0 (full order), through the QR contract *)
Variables Q Rq Ri : fmat R.
Hypothesis Href_pos : (0 < n_ref)%nat.
Hypothesis HQR : feq ((br - 1) * nD) n (obs_all K br n_ref nmov n obs L) (fmul n Q Rq).
Hypothesis HQ : feq n n (fmul ((br - 1) * nD) (ftr Q) Q) fid.
Hypothesis HR : feq n n (fmul n Ri Rq) fid.

Theorem ms_A_similar :
  feq n n (A_hat K br n_ref nmov n obs L Q Ri) (fmul n (Ti 0%nat) (fmul n A (T 0%nat))).
Proof.
  assert (HD: (0 < nD)%nat) by (unfold nDOF; lia).
  set (m := ((br - 1) * nD)%nat) in *.
  set (Og := obsv K n nD Cg A).
  set (O2 := fun i c => Og (i + nD)%nat c).
  assert (Hup: feq m n (fmul n Og (T 0%nat)) (fmul n Q Rq)).
  { intros i c Hi Hc. rewrite <- (HQR i c Hi Hc). symmetry. apply ms_obs_all_global; [unfold m in Hi; nia|exact Hc]. }
  assert (Hdown: feq m n (O_down K br n_ref nmov n obs L) (fmul n O2 (T 0%nat))).
  { intros i c Hi Hc. unfold O_down. rewrite (ms_obs_all_global (i + nD)%nat c ltac:(unfold m in Hi; nia) Hc). reflexivity. }
  assert (Hshift: feq m n O2 (fmul n Og A)) by (apply obsv_shift; exact HD).
  assert (HLp: feq n n (fmul m (fmul n Ri (ftr Q)) (fmul n Og (T 0%nat))) fid)
    by (apply (qr_left_inverse m n _ Q Rq Ri Hup HQ HR)).
  unfold A_hat. fold m. rewrite <- (assoc n n m n Ri (ftr Q)). rewrite Hdown.
  apply (shift_invariance_similarity R K Rth m n Og O2 A (T 0%nat) (Ti 0%nat) (fmul n Ri (ftr Q)) Hshift (HT 0%nat Hset) HLp).
Qed.

(* the same for any left inverse of O_p (what the executable instance uses) *)
Theorem ms_A_similar_linv (Lp:fmat R) :
  feq n n (fmul ((br - 1) * nD) Lp (obs_all K br n_ref nmov n obs L)) fid ->
  feq n n (A_of_linv K br n_ref nmov n obs L Lp) (fmul n (Ti 0%nat) (fmul n A (T 0%nat))).
Proof.
  intros HLp0.
  assert (HD: (0 < nD)%nat) by (unfold nDOF; lia).
  set (m := ((br - 1) * nD)%nat) in *.
  set (Og := obsv K n nD Cg A).
  set (O2 := fun i c => Og (i + nD)%nat c).
  assert (Hup: feq m n (obs_all K br n_ref nmov n obs L) (fmul n Og (T 0%nat))).
  { intros i c Hi Hc. apply ms_obs_all_global; [unfold m in Hi; nia|exact Hc]. }
  assert (Hdown: feq m n (O_down K br n_ref nmov n obs L) (fmul n O2 (T 0%nat))).
  { intros i c Hi Hc. unfold O_down. rewrite (ms_obs_all_global (i + nD)%nat c ltac:(unfold m in Hi; nia) Hc). reflexivity. }
  assert (Hshift: feq m n O2 (fmul n Og A)) by (apply obsv_shift; exact HD).
  assert (HLp: feq n n (fmul m Lp (fmul n Og (T 0%nat))) fid) by (rewrite <- Hup; exact HLp0).
  unfold A_of_linv. fold m. rewrite Hdown.
  apply (shift_invariance_similarity R K Rth m n Og O2 A (T 0%nat) (Ti 0%nat) Lp Hshift (HT 0%nat Hset) HLp).
Qed.
End Main.

(* ---------- list-level bridge: the executed tables hold exactly the function-level matrices ---------- *)
Lemma nth_map_seq {X} (f:nat -> X) (d:X) nn k : (k < nn)%nat -> nth k (map f (seq 0 nn)) d = f k.
Proof. intros Hk. rewrite nth_indep with (d':= f 0%nat) by (rewrite map_length, seq_length; exact Hk).
  rewrite map_nth, seq_nth by exact Hk. reflexivity. Qed.

Theorem ms_transm_l_entry br n_ref nmov n (ObsL Ll:list (list (list R))) k i j :
  (k < length nmov)%nat -> (i < br * nth k nmov 0%nat)%nat -> (j < br * n_ref)%nat ->
  ent K (nth k (ms_transm_l K br n_ref nmov n ObsL Ll) []) i j
  = transm K br n_ref nmov n (fun k => fm_of K (nth k ObsL [])) (fun k => fm_of K (nth k Ll [])) k i j.
Proof.
  intros Hk Hi Hj. unfold ms_transm_l. rewrite (nth_map_seq _ [] (length nmov) k Hk). unfold nmov_of.
  apply ent_tab2; assumption.
Qed.

Theorem ms_obs_all_l_entry br n_ref nmov n (ObsL Ll:list (list (list R))) i c :
  (i < br * nDOF n_ref nmov)%nat -> (c < n)%nat ->
  ent K (ms_obs_all_l K br n_ref nmov n ObsL Ll) i c
  = obs_all K br n_ref nmov n (fun k => fm_of K (nth k ObsL [])) (fun k => fm_of K (nth k Ll [])) i c.
Proof.
  intros Hi Hc. unfold ms_obs_all_l. rewrite ent_tab2 by assumption. unfold obs_all.
  apply (interleave_ext n_ref nmov br n); try assumption; [reflexivity|].
  intros k Hk i' c' Hi' Hc'. rewrite (nth_map_seq _ [] (length nmov) k Hk). unfold fm_of at 1. unfold nmov_of.
  rewrite ent_tab2 by assumption. unfold rebased.
  apply (fmul_ext R K (br * nth k nmov 0%nat) (br * n_ref) n); try assumption; [|reflexivity].
  intros a b Ha Hb. unfold fm_of at 1. apply ms_transm_l_entry; assumption.
Qed.

(* ---------- eigen-pairs travel through the similarity (any commutative ring: instantiate at the complexified carrier) ---------- *)
Section Eig.
Variables (n l : nat) (A Ah C Ch T Ti phi : fmat R) (lam : R).
Hypothesis HA : feq n n Ah (fmul n Ti (fmul n A T)).
Hypothesis HC : feq l n Ch (fmul n C T).
Hypothesis HT : feq n n (fmul n T Ti) fid.

Lemma T_Ti_vec (v:fmat R) : feq n 1 (fmul n T (fmul n Ti v)) v.
Proof. rewrite <- (assoc n n n 1%nat T Ti v). rewrite HT. apply idl. Qed.

(* an eigen-pair (lam, phi) of the global A gives the eigen-pair (lam, Ti phi) of A_hat, whose observed shape
   C_hat (Ti phi) is the global shape C phi; Ti phi is not zero because T (Ti phi) = phi *)
Theorem eigpair_transport :
  feq n 1 (fmul n A phi) (fscal K lam phi) ->
  feq n 1 (fmul n Ah (fmul n Ti phi)) (fscal K lam (fmul n Ti phi)) /\
  feq l 1 (fmul n Ch (fmul n Ti phi)) (fmul n C phi) /\
  feq n 1 (fmul n T (fmul n Ti phi)) phi.
Proof.
  intros Hphi. split; [|split].
  - rewrite HA. rewrite (assoc n n n 1%nat Ti (fmul n A T)). rewrite (assoc n n n 1%nat A T).
    rewrite (T_Ti_vec phi). rewrite Hphi. apply (fmul_scal_r R K Rth).
  - rewrite HC. rewrite (assoc l n n 1%nat C T). rewrite (T_Ti_vec phi). reflexivity.
  - apply T_Ti_vec.
Qed.

(* conversely an eigen-pair (lam, psi) of A_hat gives the eigen-pair (lam, T psi) of the global A with the same observed shape *)
Theorem eigpair_transport_back (psi:fmat R) :
  feq n 1 (fmul n Ah psi) (fscal K lam psi) ->
  feq n 1 (fmul n A (fmul n T psi)) (fscal K lam (fmul n T psi)) /\
  feq l 1 (fmul n C (fmul n T psi)) (fmul n Ch psi).
Proof.
  intros Hpsi. split.
  - rewrite <- (fmul_scal_r R K Rth n n 1%nat lam T psi). rewrite <- Hpsi. rewrite HA.
    rewrite (assoc n n n 1%nat Ti (fmul n A T) psi). rewrite <- (assoc n n n 1%nat T Ti).
    rewrite HT. rewrite (idl n 1%nat). rewrite (assoc n n n 1%nat A T psi). reflexivity.
  - rewrite HC. rewrite (assoc l n n 1%nat C T psi). reflexivity.
Qed.
End Eig.
End P.

(* ---------- decidable pointwise equality over Qc, for the concrete instance of Properties/C03.v ---------- *)
From Coq Require Import QArith Qcanon.
Definition c03_feqb (m n:nat) (A B:fmat Qc) : bool :=
  forallb (fun i => forallb (fun j => Qc_eq_bool (A i j) (B i j)) (seq 0 n)) (seq 0 m).
Lemma c03_feqb_sound m n A B : c03_feqb m n A B = true -> feq m n A B.
Proof.
  unfold c03_feqb. intros H i j Hi Hj. rewrite forallb_forall in H.
  assert (H1 := H i ltac:(apply in_seq; lia)). rewrite forallb_forall in H1.
  assert (H2 := H1 j ltac:(apply in_seq; lia)). apply Qc_eq_bool_correct. exact H2.
Qed.
