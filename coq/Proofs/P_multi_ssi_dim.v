(* C03 - the modal level of the multi-setup identification with the dimension theory of Base/Dim.v.

   P_eigcount_c03.v proves the pole / mode-shape matching under a GIVEN modal witness of the global system
   (A Phi = Phi diag(lamg), Phi two-sided invertible) and under Ti 0 . T 0 = I.  Here, over a field with decidable equality:
   - Ti 0 . T 0 = I follows from T 0 . Ti 0 = I (square matrices, Dim.right_inv_is_left_inv): C03_full_statement + Rdec;
   - the modal witness is DISCHARGED: it is enough that the n pairwise different numbers lamg k each have SOME eigenvector
     v k of A (Dim.modal_basis_exists); the identified shapes are then non-zero multiples of C_global (v (sigma j));
   - A_hat has no other eigenvalue at all (any eigen-pair of A_hat carries one of the lamg);
   - an eigen-solver output with non-zero columns and pairwise different eigenvalues is two-sided invertible (so the
     left-inverse contract on Psi can be replaced by two checkable facts about the output);
   - the same at the complexified carrier COps K of a formally real field K: REAL data (obs, L, Cr, Cm, A, T, Q, R) embedded
     by ms_cemb, COMPLEX poles / eigenvectors / solver output. *)
From Coq Require Import List Arith Lia Ring Field Setoid Morphisms Permutation Bool.
From PyOMA.Base Require Import Carrier FMat Cplx EigCount Dim.
From PyOMA.Model Require Import M_multi_ssi.
From PyOMA.Proofs Require Import P_multi_ssi P_eigcount_c03.
Import ListNotations.

Section FieldLevel.
Variable R:Type. Variable K:Ops R.
Hypothesis Fth : field_theory (o0 K) (o1 K) (oadd K) (omul K) (osub K) (oopp K) (odiv K) (oinv K) (@eq R).
Hypothesis Rdec : forall x y:R, {x = y} + {x <> y}.
Notation fm := (fmul K). Notation fI := (fid K).
Let Rth : ring_theory (o0 K) (o1 K) (oadd K) (omul K) (osub K) (oopp K) (@eq R) := F_R Fth.
Let Hint : forall a b:R, omul K a b = o0 K -> a = o0 K \/ b = o0 K := field_integral R K Fth Rdec.
Let H10 : o1 K <> o0 K := field_one_neq_zero R K Fth.
Add Ring RrC03d : Rth.

Definition distinct_on (n:nat) (lam:nat -> R) : Prop :=
  forall i j, (i < n)%nat -> (j < n)%nat -> i <> j -> lam i <> lam j.

(* similarity + eigenvectors of the global system (no modal matrix, no inverse of it, one-sided inverse of T only) *)
Lemma modal_match_of_eigvecs l n (A Cg Ah Chat T Ti Psi Psii:fmat R) (v:nat -> fmat R) (lamg lam:nat -> R) :
  feq n n (fm n T Ti) fI ->
  feq n n Ah (fm n Ti (fm n A T)) -> feq l n Chat (fm n Cg T) ->
  (forall k, (k < n)%nat -> eigpair_col K n A (lamg k) (v k)) ->
  distinct_on n lamg ->
  feq n n (fm n Ah Psi) (fm n Psi (ediag K lam)) -> feq n n (fm n Psii Psi) fI ->
  modal_match R K l n Chat Cg (modal_mat v) Psi lamg lam.
Proof.
  intros HT HA HC Hv Hd HV HW.
  destruct (modal_basis_exists R K Fth Rdec n A lamg v Hv Hd) as [_ [HPhi [Phii [HPr HPl]]]].
  pose proof (right_inv_is_left_inv R K Fth Rdec n T Ti HT) as HT'.
  exact (modal_match_of_similar R K Rth Hint H10 Rdec l n A Cg Ah Chat T Ti (modal_mat v) Phii Psi Psii lamg lam
           HT HT' HA HC HPhi HPr HPl Hd HV HW).
Qed.

(* no other eigenvalue through a similarity of which only T Ti = I is known *)
Lemma no_spurious_of_eigvecs n (A Ah T Ti:fmat R) (v:nat -> fmat R) (lamg:nat -> R) :
  feq n n (fm n T Ti) fI -> feq n n Ah (fm n Ti (fm n A T)) ->
  (forall k, (k < n)%nat -> eigpair_col K n A (lamg k) (v k)) ->
  distinct_on n lamg ->
  forall (mu:R) (w:fmat R), eigpair_col K n Ah mu w -> exists i, (i < n)%nat /\ mu = lamg i.
Proof.
  intros HT HA Hv Hd mu w [He Hnz].
  destruct (modal_basis_exists R K Fth Rdec n A lamg v Hv Hd) as [_ [HPhi [Phii [HPr HPl]]]].
  pose proof (right_inv_is_left_inv R K Fth Rdec n T Ti HT) as HT'.
  assert (E: feq n n (fm n T Ah) (fm n A T)).
  { rewrite HA. rewrite <- (fmul_assoc R K Rth n n n n T Ti (fm n A T)). rewrite HT. apply (fmul_id_l R K Rth). }
  apply (eig_in_spectrum R K Rth Hint Rdec n A (modal_mat v) Phii lamg HPhi HPr HPl mu (fm n T w)).
  - rewrite <- (fmul_assoc R K Rth n n n 1%nat A T w). rewrite <- E. rewrite (fmul_assoc R K Rth n n n 1%nat T Ah w). rewrite He.
    apply (fmul_scal_r R K Rth n n 1%nat).
  - intros Hz. apply Hnz. rewrite <- (fmul_id_l R K Rth n 1%nat w). rewrite <- HT'.
    rewrite (fmul_assoc R K Rth n n n 1%nat Ti T w). rewrite Hz. apply (fmul_zero_r R K Rth n n 1%nat).
Qed.

(* an eigen-solver output with non-zero columns and pairwise different eigenvalues is two-sided invertible *)
Lemma eig_output_invertible n (Ah Psi:fmat R) (lam:nat -> R) :
  feq n n (fm n Ah Psi) (fm n Psi (ediag K lam)) ->
  (forall k, (k < n)%nat -> ~ (forall i, (i < n)%nat -> Psi i k = o0 K)) ->
  distinct_on n lam ->
  exists Psii:fmat R, feq n n (fm n Psi Psii) fI /\ feq n n (fm n Psii Psi) fI.
Proof.
  intros HV Hnz Hd. apply (indep_two_sided R K Fth Rdec).
  apply (eig_indep R K Fth Rdec n n Ah Psi lam).
  - apply (eig_cols_matrix R K Fth). exact HV.
  - exact Hnz.
  - exact Hd.
Qed.

Section Main.
Variables (br n_ref:nat) (nmov:list nat) (n:nat) (obs L:nat -> fmat R) (Cr A:fmat R) (Cm T Ti:nat -> fmat R).
Hypothesis Hobs : forall k, (k < length nmov)%nat ->
  feq (S br * (n_ref + nth k nmov 0%nat)) n (obs k)
      (fm n (obsv K n (n_ref + nth k nmov 0%nat) (stack n_ref Cr (Cm k)) A) (T k)).
Hypothesis HT : forall k, (k < length nmov)%nat -> feq n n (fm n (T k) (Ti k)) fI.
Hypothesis HL : forall k, (k < length nmov)%nat -> feq n n (fm (br * n_ref) (L k) (O_ref br n_ref nmov obs k)) fI.
Hypothesis Hset : (0 < length nmov)%nat.
Hypothesis Hbr : (1 <= br)%nat.
Hypothesis Href_pos : (0 < n_ref)%nat.

Lemma ms_T0_left : feq n n (fm n (Ti 0%nat) (T 0%nat)) fI.
Proof. exact (right_inv_is_left_inv R K Fth Rdec n (T 0%nat) (Ti 0%nat) (HT 0%nat Hset)). Qed.

(* ---- C03_full_statement + decidable equality: the modal witness (Phi, Phii) given, no hypothesis on Ti 0 . T 0 ---- *)
Theorem ms_modal_qr_dec (Phi Phii Psi Psii:fmat R) (lamg lam:nat -> R) (Q Rq Ri:fmat R) :
  feq n n (fm n A Phi) (fm n Phi (ediag K lamg)) -> feq n n (fm n Phi Phii) fI -> feq n n (fm n Phii Phi) fI ->
  distinct_on n lamg -> feq n n (fm n Psii Psi) fI ->
  feq ((br - 1) * nDOF n_ref nmov) n (obs_all K br n_ref nmov n obs L) (fm n Q Rq) ->
  feq n n (fm ((br - 1) * nDOF n_ref nmov) (ftr Q) Q) fI ->
  feq n n (fm n Ri Rq) fI ->
  feq n n (fm n (A_hat K br n_ref nmov n obs L Q Ri) Psi) (fm n Psi (ediag K lam)) ->
  modal_match R K (nDOF n_ref nmov) n (C_hat K br n_ref nmov n obs L) (C_global K n_ref nmov Cr Cm) Phi Psi lamg lam.
Proof.
  intros HPhi HPr HPl Hd HW HQR HQ HR HV.
  exact (ms_modal_qr R K Rth Hint H10 Rdec br n_ref nmov n obs L Cr A Cm T Ti Hobs HT ms_T0_left HL Hset Hbr Href_pos
           Phi Phii Psi Psii lamg lam HPhi HPr HPl Hd HW Q Rq Ri HQR HQ HR HV).
Qed.

Section Eigvecs.
Variables (v:nat -> fmat R) (lamg:nat -> R).
Hypothesis Hv : forall k, (k < n)%nat -> eigpair_col K n A (lamg k) (v k).
Hypothesis Hd : distinct_on n lamg.

(* the library's route (QR contract) *)
Section QR.
Variables Q Rq Ri : fmat R.
Hypothesis HQR : feq ((br - 1) * nDOF n_ref nmov) n (obs_all K br n_ref nmov n obs L) (fm n Q Rq).
Hypothesis HQ : feq n n (fm ((br - 1) * nDOF n_ref nmov) (ftr Q) Q) fI.
Hypothesis HR : feq n n (fm n Ri Rq) fI.

Theorem ms_modal_eigvecs_qr (Psi Psii:fmat R) (lam:nat -> R) :
  feq n n (fm n (A_hat K br n_ref nmov n obs L Q Ri) Psi) (fm n Psi (ediag K lam)) ->
  feq n n (fm n Psii Psi) fI ->
  modal_match R K (nDOF n_ref nmov) n (C_hat K br n_ref nmov n obs L) (C_global K n_ref nmov Cr Cm) (modal_mat v) Psi lamg lam.
Proof.
  intros HV HW.
  pose proof (ms_A_similar R K Rth br n_ref nmov n obs L Cr A Cm T Ti Hobs HT HL Hset Hbr Q Rq Ri Href_pos HQR HQ HR) as HA.
  pose proof (ms_C_global R K Rth br n_ref nmov n obs L Cr A Cm T Ti Hobs HT HL Hset Hbr) as HC.
  exact (modal_match_of_eigvecs (nDOF n_ref nmov) n A (C_global K n_ref nmov Cr Cm) _ _ (T 0%nat) (Ti 0%nat) Psi Psii v lamg lam
           (HT 0%nat Hset) HA HC Hv Hd HV HW).
Qed.

Theorem ms_no_spurious_qr (mu:R) (w:fmat R) :
  eigpair_col K n (A_hat K br n_ref nmov n obs L Q Ri) mu w -> exists i, (i < n)%nat /\ mu = lamg i.
Proof.
  pose proof (ms_A_similar R K Rth br n_ref nmov n obs L Cr A Cm T Ti Hobs HT HL Hset Hbr Q Rq Ri Href_pos HQR HQ HR) as HA.
  exact (no_spurious_of_eigvecs n A _ (T 0%nat) (Ti 0%nat) v lamg (HT 0%nat Hset) HA Hv Hd mu w).
Qed.
End QR.

(* any left inverse of O_p (the routine the correspondence check executes) *)
Section Linv.
Variable Lp : fmat R.
Hypothesis HLp : feq n n (fm ((br - 1) * nDOF n_ref nmov) Lp (obs_all K br n_ref nmov n obs L)) fI.

Theorem ms_modal_eigvecs_linv (Psi Psii:fmat R) (lam:nat -> R) :
  feq n n (fm n (A_of_linv K br n_ref nmov n obs L Lp) Psi) (fm n Psi (ediag K lam)) ->
  feq n n (fm n Psii Psi) fI ->
  modal_match R K (nDOF n_ref nmov) n (C_hat K br n_ref nmov n obs L) (C_global K n_ref nmov Cr Cm) (modal_mat v) Psi lamg lam.
Proof.
  intros HV HW.
  pose proof (ms_A_similar_linv R K Rth br n_ref nmov n obs L Cr A Cm T Ti Hobs HT HL Hset Hbr Href_pos Lp HLp) as HA.
  pose proof (ms_C_global R K Rth br n_ref nmov n obs L Cr A Cm T Ti Hobs HT HL Hset Hbr) as HC.
  exact (modal_match_of_eigvecs (nDOF n_ref nmov) n A (C_global K n_ref nmov Cr Cm) _ _ (T 0%nat) (Ti 0%nat) Psi Psii v lamg lam
           (HT 0%nat Hset) HA HC Hv Hd HV HW).
Qed.

Theorem ms_no_spurious_linv (mu:R) (w:fmat R) :
  eigpair_col K n (A_of_linv K br n_ref nmov n obs L Lp) mu w -> exists i, (i < n)%nat /\ mu = lamg i.
Proof.
  pose proof (ms_A_similar_linv R K Rth br n_ref nmov n obs L Cr A Cm T Ti Hobs HT HL Hset Hbr Href_pos Lp HLp) as HA.
  exact (no_spurious_of_eigvecs n A _ (T 0%nat) (Ti 0%nat) v lamg (HT 0%nat Hset) HA Hv Hd mu w).
Qed.
End Linv.
End Eigvecs.
End Main.
End FieldLevel.
Arguments distinct_on {R} n lam.

(* C03_full_statement with ONE more hypothesis, decidable equality of the carrier - word for word otherwise
   (Psi Psii = I is kept although only Psii Psi = I is used) *)
Lemma ms_full_dec : forall (R:Type) (K:Ops R),
  field_theory (o0 K) (o1 K) (oadd K) (omul K) (osub K) (oopp K) (odiv K) (oinv K) (@eq R) ->
  (forall x y:R, {x = y} + {x <> y}) ->
  forall br n_ref nmov n (obs L:nat -> fmat R) (Cr A:fmat R) (Cm T Ti:nat -> fmat R) (Q Rq Ri:fmat R),
  (forall k, (k < length nmov)%nat ->
     feq (S br * (n_ref + nth k nmov 0%nat)) n (obs k)
         (fmul K n (obsv K n (n_ref + nth k nmov 0%nat) (stack n_ref Cr (Cm k)) A) (T k))) ->
  (forall k, (k < length nmov)%nat -> feq n n (fmul K n (T k) (Ti k)) (fid K)) ->
  (forall k, (k < length nmov)%nat -> feq n n (fmul K (br * n_ref) (L k) (O_ref br n_ref nmov obs k)) (fid K)) ->
  (0 < length nmov)%nat -> (1 <= br)%nat -> (0 < n_ref)%nat ->
  feq ((br - 1) * nDOF n_ref nmov) n (obs_all K br n_ref nmov n obs L) (fmul K n Q Rq) ->
  feq n n (fmul K ((br - 1) * nDOF n_ref nmov) (ftr Q) Q) (fid K) ->
  feq n n (fmul K n Ri Rq) (fid K) ->
  forall (Phi Phii Psi Psii:fmat R) (lamg lam:nat -> R),
  feq n n (fmul K n A Phi) (fmul K n Phi (ediag K lamg)) ->
  feq n n (fmul K n Phi Phii) (fid K) -> feq n n (fmul K n Phii Phi) (fid K) ->
  (forall i j, (i < n)%nat -> (j < n)%nat -> i <> j -> lamg i <> lamg j) ->
  feq n n (fmul K n (A_hat K br n_ref nmov n obs L Q Ri) Psi) (fmul K n Psi (ediag K lam)) ->
  feq n n (fmul K n Psi Psii) (fid K) -> feq n n (fmul K n Psii Psi) (fid K) ->
  exists sigma : nat -> nat,
    (forall j, (j < n)%nat -> (sigma j < n)%nat) /\
    (forall i j, (i < n)%nat -> (j < n)%nat -> sigma i = sigma j -> i = j) /\
    (forall j, (j < n)%nat -> lam j = lamg (sigma j)) /\
    (forall j, (j < n)%nat -> exists c:R, c <> o0 K /\
       forall i, (i < nDOF n_ref nmov)%nat ->
         fmul K n (C_hat K br n_ref nmov n obs L) Psi i j
         = omul K c (fmul K n (C_global K n_ref nmov Cr Cm) Phi i (sigma j))).
Proof.
  intros R K Fth Rdec br n_ref nmov n obs L Cr A Cm T Ti Q Rq Ri Hobs HT HL Hset Hbr Hr HQR HQ HR
         Phi Phii Psi Psii lamg lam HPhi HPr HPl Hd HV _ HW.
  destruct (ms_modal_qr_dec R K Fth Rdec br n_ref nmov n obs L Cr A Cm T Ti Hobs HT HL Hset Hbr Hr
              Phi Phii Psi Psii lamg lam Q Rq Ri HPhi HPr HPl Hd HW HQR HQ HR HV) as [[sg [H1 [H2 [_ [H4 H5]]]]] _].
  exists sg. split; [exact H1|split; [exact H2|split; [exact H4|exact H5]]].
Qed.

(* ================= complex poles of a real system: the complexified carrier of a formally real field ================= *)
Section CplxLevel.
Variable R:Type. Variable K:Ops R.
Hypothesis Fth : field_theory (o0 K) (o1 K) (oadd K) (omul K) (osub K) (oopp K) (odiv K) (oinv K) (@eq R).
Hypothesis Rdec : forall x y:R, {x = y} + {x <> y}.
Hypothesis Hreal : forall a b:R, oadd K (omul K a a) (omul K b b) = o0 K -> a = o0 K.
Notation KC := (COps K).
Let Rth : ring_theory (o0 K) (o1 K) (oadd K) (omul K) (osub K) (oopp K) (@eq R) := F_R Fth.
Let CFth := cplx_field_theory R K Fth Hreal.
Let Cdec := cplx_dec R Rdec.
Add Ring RrC03x : Rth.

(* a real matrix read as a complex one (the same map as P_realise.cemb of C01) *)
Definition ms_cemb (M:fmat R) : fmat (C R) := fun i j => cofR K (M i j).

Lemma ms_cemb_sum n (f g:nat -> R) :
  sumn KC n (fun c => cmul K (cofR K (f c)) (cofR K (g c))) = cofR K (sumn K n (fun c => omul K (f c) (g c))).
Proof. induction n as [|n IH]; [reflexivity|]. cbn [sumn]. rewrite IH. apply c_eq; cbn; ring. Qed.
Lemma ms_cemb_fmul m n p (M N:fmat R) : feq m p (fmul KC n (ms_cemb M) (ms_cemb N)) (ms_cemb (fmul K n M N)).
Proof. intros i j _ _. unfold fmul, ms_cemb. apply ms_cemb_sum. Qed.
Lemma ms_cemb_fid n : feq n n (ms_cemb (fid K)) (fid KC).
Proof. intros i j _ _. unfold ms_cemb, fid. destruct (Nat.eqb i j); reflexivity. Qed.
Lemma ms_cemb_feq m n (M N:fmat R) : feq m n M N -> feq m n (ms_cemb M) (ms_cemb N).
Proof. intros H i j Hi Hj. unfold ms_cemb. rewrite (H i j Hi Hj). reflexivity. Qed.

Lemma ms_cemb_similar n (A Ah T Ti:fmat R) :
  feq n n Ah (fmul K n Ti (fmul K n A T)) ->
  feq n n (ms_cemb Ah) (fmul KC n (ms_cemb Ti) (fmul KC n (ms_cemb A) (ms_cemb T))).
Proof.
  intros H. rewrite (ms_cemb_fmul n n n A T). rewrite (ms_cemb_fmul n n n Ti). apply ms_cemb_feq. exact H.
Qed.
Lemma ms_cemb_out l n (Cg Chat T:fmat R) :
  feq l n Chat (fmul K n Cg T) -> feq l n (ms_cemb Chat) (fmul KC n (ms_cemb Cg) (ms_cemb T)).
Proof. intros H. rewrite (ms_cemb_fmul l n n). apply ms_cemb_feq. exact H. Qed.
Lemma ms_cemb_inv n (T Ti:fmat R) :
  feq n n (fmul K n T Ti) (fid K) -> feq n n (fmul KC n (ms_cemb T) (ms_cemb Ti)) (fid KC).
Proof. intros H. rewrite (ms_cemb_fmul n n n). rewrite <- (ms_cemb_fid n). apply ms_cemb_feq. exact H. Qed.

(* the checkable form of the solver contract at the complex carrier *)
Lemma eig_output_invertible_cplx n (Ah Psi:fmat (C R)) (lam:nat -> C R) :
  feq n n (fmul KC n Ah Psi) (fmul KC n Psi (ediag KC lam)) ->
  (forall k, (k < n)%nat -> ~ (forall i, (i < n)%nat -> Psi i k = c0 K)) ->
  distinct_on n lam ->
  exists Psii:fmat (C R), feq n n (fmul KC n Psi Psii) (fid KC) /\ feq n n (fmul KC n Psii Psi) (fid KC).
Proof. exact (eig_output_invertible (C R) KC CFth Cdec n Ah Psi lam). Qed.

Section CMain.
Variables (br n_ref:nat) (nmov:list nat) (n:nat) (obs L:nat -> fmat R) (Cr A:fmat R) (Cm T Ti:nat -> fmat R).
Hypothesis Hobs : forall k, (k < length nmov)%nat ->
  feq (S br * (n_ref + nth k nmov 0%nat)) n (obs k)
      (fmul K n (obsv K n (n_ref + nth k nmov 0%nat) (stack n_ref Cr (Cm k)) A) (T k)).
Hypothesis HT : forall k, (k < length nmov)%nat -> feq n n (fmul K n (T k) (Ti k)) (fid K).
Hypothesis HL : forall k, (k < length nmov)%nat -> feq n n (fmul K (br * n_ref) (L k) (O_ref br n_ref nmov obs k)) (fid K).
Hypothesis Hset : (0 < length nmov)%nat.
Hypothesis Hbr : (1 <= br)%nat.
Hypothesis Href_pos : (0 < n_ref)%nat.
(* complex poles and eigenvectors of the REAL global state matrix *)
Variables (v:nat -> fmat (C R)) (lamg:nat -> C R).
Hypothesis Hv : forall k, (k < n)%nat -> eigpair_col KC n (ms_cemb A) (lamg k) (v k).
Hypothesis Hd : distinct_on n lamg.

Section CQR.
Variables Q Rq Ri : fmat R.
Hypothesis HQR : feq ((br - 1) * nDOF n_ref nmov) n (obs_all K br n_ref nmov n obs L) (fmul K n Q Rq).
Hypothesis HQ : feq n n (fmul K ((br - 1) * nDOF n_ref nmov) (ftr Q) Q) (fid K).
Hypothesis HR : feq n n (fmul K n Ri Rq) (fid K).

Theorem ms_modal_cplx_qr (Psi Psii:fmat (C R)) (lam:nat -> C R) :
  feq n n (fmul KC n (ms_cemb (A_hat K br n_ref nmov n obs L Q Ri)) Psi) (fmul KC n Psi (ediag KC lam)) ->
  feq n n (fmul KC n Psii Psi) (fid KC) ->
  modal_match (C R) KC (nDOF n_ref nmov) n (ms_cemb (C_hat K br n_ref nmov n obs L)) (ms_cemb (C_global K n_ref nmov Cr Cm))
              (modal_mat v) Psi lamg lam.
Proof.
  intros HV HW.
  pose proof (ms_A_similar R K Rth br n_ref nmov n obs L Cr A Cm T Ti Hobs HT HL Hset Hbr Q Rq Ri Href_pos HQR HQ HR) as HA.
  pose proof (ms_C_global R K Rth br n_ref nmov n obs L Cr A Cm T Ti Hobs HT HL Hset Hbr) as HC.
  exact (modal_match_of_eigvecs (C R) KC CFth Cdec (nDOF n_ref nmov) n (ms_cemb A) (ms_cemb (C_global K n_ref nmov Cr Cm)) _ _
           (ms_cemb (T 0%nat)) (ms_cemb (Ti 0%nat)) Psi Psii v lamg lam
           (ms_cemb_inv n _ _ (HT 0%nat Hset)) (ms_cemb_similar n _ _ _ _ HA) (ms_cemb_out _ n _ _ _ HC) Hv Hd HV HW).
Qed.

Theorem ms_no_spurious_cplx_qr (mu:C R) (w:fmat (C R)) :
  eigpair_col KC n (ms_cemb (A_hat K br n_ref nmov n obs L Q Ri)) mu w -> exists i, (i < n)%nat /\ mu = lamg i.
Proof.
  pose proof (ms_A_similar R K Rth br n_ref nmov n obs L Cr A Cm T Ti Hobs HT HL Hset Hbr Q Rq Ri Href_pos HQR HQ HR) as HA.
  exact (no_spurious_of_eigvecs (C R) KC CFth Cdec n (ms_cemb A) _ (ms_cemb (T 0%nat)) (ms_cemb (Ti 0%nat)) v lamg
           (ms_cemb_inv n _ _ (HT 0%nat Hset)) (ms_cemb_similar n _ _ _ _ HA) Hv Hd mu w).
Qed.
End CQR.

Section CLinv.
Variable Lp : fmat R.
Hypothesis HLp : feq n n (fmul K ((br - 1) * nDOF n_ref nmov) Lp (obs_all K br n_ref nmov n obs L)) (fid K).

Theorem ms_modal_cplx_linv (Psi Psii:fmat (C R)) (lam:nat -> C R) :
  feq n n (fmul KC n (ms_cemb (A_of_linv K br n_ref nmov n obs L Lp)) Psi) (fmul KC n Psi (ediag KC lam)) ->
  feq n n (fmul KC n Psii Psi) (fid KC) ->
  modal_match (C R) KC (nDOF n_ref nmov) n (ms_cemb (C_hat K br n_ref nmov n obs L)) (ms_cemb (C_global K n_ref nmov Cr Cm))
              (modal_mat v) Psi lamg lam.
Proof.
  intros HV HW.
  pose proof (ms_A_similar_linv R K Rth br n_ref nmov n obs L Cr A Cm T Ti Hobs HT HL Hset Hbr Href_pos Lp HLp) as HA.
  pose proof (ms_C_global R K Rth br n_ref nmov n obs L Cr A Cm T Ti Hobs HT HL Hset Hbr) as HC.
  exact (modal_match_of_eigvecs (C R) KC CFth Cdec (nDOF n_ref nmov) n (ms_cemb A) (ms_cemb (C_global K n_ref nmov Cr Cm)) _ _
           (ms_cemb (T 0%nat)) (ms_cemb (Ti 0%nat)) Psi Psii v lamg lam
           (ms_cemb_inv n _ _ (HT 0%nat Hset)) (ms_cemb_similar n _ _ _ _ HA) (ms_cemb_out _ n _ _ _ HC) Hv Hd HV HW).
Qed.

Theorem ms_no_spurious_cplx_linv (mu:C R) (w:fmat (C R)) :
  eigpair_col KC n (ms_cemb (A_of_linv K br n_ref nmov n obs L Lp)) mu w -> exists i, (i < n)%nat /\ mu = lamg i.
Proof.
  pose proof (ms_A_similar_linv R K Rth br n_ref nmov n obs L Cr A Cm T Ti Hobs HT HL Hset Hbr Href_pos Lp HLp) as HA.
  exact (no_spurious_of_eigvecs (C R) KC CFth Cdec n (ms_cemb A) _ (ms_cemb (T 0%nat)) (ms_cemb (Ti 0%nat)) v lamg
           (ms_cemb_inv n _ _ (HT 0%nat Hset)) (ms_cemb_similar n _ _ _ _ HA) Hv Hd mu w).
Qed.
End CLinv.
End CMain.
End CplxLevel.
Arguments ms_cemb {R} K M.

(* ================= concrete instances ================= *)
From Coq Require Import QArith Qcanon.
From PyOMA.Base Require Import Show.

(* (a) Qc: the data of P_eigcount_c03 (global A = [[0,1],[-1/8,3/4]], poles 1/2 and 1/4, two setups); instead of the modal
   matrix and its inverse only the two eigenvectors (1, 1/2), (1, 1/4) are supplied, and Ti 0 . T 0 = I is not *)
Definition ec3d_v (k:nat) : fmat Qc := fun i _ => ec3_Phi i k.

Lemma ec3d_eigvecs : forall k, (k < 2)%nat -> eigpair_col QcOps 2 ec3_A (ec3_lamg k) (ec3d_v k).
Proof.
  intros k Hk. destruct k as [|[|k]]; [| |lia]; (split; [apply ec_feqb_sound; vm_compute; reflexivity|]);
    intros E; specialize (E 0%nat 0%nat ltac:(lia) ltac:(lia)); vm_compute in E; discriminate E.
Qed.

Lemma ec3d_hyps :
  (forall k, (k < 2)%nat -> feq (4 * 2) 2 (ec3_obs k) (fmul QcOps 2 (obsv QcOps 2 2 (stack 1 ec3_Cr (ec3_Cm k)) ec3_A) (ec3_T k))) /\
  (forall k, (k < 2)%nat -> feq 2 2 (fmul QcOps 2 (ec3_T k) (ec3_Ti k)) (fid QcOps)) /\
  (forall k, (k < 2)%nat -> feq 2 2 (fmul QcOps (3 * 1) (ec3_L k) (O_ref 3 1 [1;1]%nat ec3_obs k)) (fid QcOps)) /\
  (forall k, (k < 2)%nat -> feq 2 1 (fmul QcOps 2 ec3_A (ec3d_v k)) (fscal QcOps (ec3_lamg k) (ec3d_v k)) /\
                            ~ feq 2 1 (ec3d_v k) (fzero QcOps)) /\
  (forall i j, (i < 2)%nat -> (j < 2)%nat -> i <> j -> ec3_lamg i <> ec3_lamg j) /\
  feq 2 2 (fmul QcOps ((3 - 1) * 3) ec3_Lp (obs_all QcOps 3 1 [1;1]%nat 2 ec3_obs ec3_L)) (fid QcOps) /\
  feq 2 2 (fmul QcOps 2 (A_of_linv QcOps 3 1 [1;1]%nat 2 ec3_obs ec3_L ec3_Lp) ec3_Psi) (fmul QcOps 2 ec3_Psi (ediag QcOps ec3_lam)) /\
  feq 2 2 (fmul QcOps 2 ec3_Psii ec3_Psi) (fid QcOps) /\
  (* the output also meets the checkable form of the solver contract *)
  (forall k, (k < 2)%nat -> ~ (forall i, (i < 2)%nat -> ec3_Psi i k = o0 QcOps)) /\
  (forall i j, (i < 2)%nat -> (j < 2)%nat -> i <> j -> ec3_lam i <> ec3_lam j).
Proof.
  destruct ec3_hyps as [H1 [H2 [_ [H4 [_ [_ [_ [H8 [H9 [H10 [H11 _]]]]]]]]]]].
  split; [exact H1|]. split; [exact H2|]. split; [exact H4|]. split; [exact ec3d_eigvecs|]. split; [exact H8|].
  split; [exact H10|]. split; [exact H11|]. split; [exact H9|]. split.
  - intros k Hk Hz. destruct k as [|[|k]]; [| |lia]; specialize (Hz 0%nat ltac:(lia)); vm_compute in Hz; discriminate Hz.
  - intros i j Hi Hj Hne E.
    assert (Hc: ((i = 0 /\ j = 1) \/ (i = 1 /\ j = 0))%nat) by lia.
    destruct Hc as [[-> ->]|[-> ->]]; vm_compute in E; discriminate E.
Qed.

(* the theorems applied to the instance: the poles are matched, and 1/3 is not an eigenvalue of the identified matrix *)
Lemma ec3d_concl :
  Permutation (tab 2 ec3_lam) (tab 2 ec3_lamg) /\
  forall w, ~ eigpair_col QcOps 2 (A_of_linv QcOps 3 1 [1;1]%nat 2 ec3_obs ec3_L ec3_Lp) (q 1 3) w.
Proof.
  destruct ec3d_hyps as [H1 [H2 [H3 [H4 [H5 [H6 [H7 [H8 _]]]]]]]].
  assert (H1': forall k, (k < length [1;1]%nat)%nat ->
            feq (4 * (1 + nth k [1;1]%nat 0%nat)) 2 (ec3_obs k)
                (fmul QcOps 2 (obsv QcOps 2 (1 + nth k [1;1]%nat 0%nat) (stack 1 ec3_Cr (ec3_Cm k)) ec3_A) (ec3_T k))).
  { intros k Hk. cbn [length] in Hk. destruct k as [|[|k]]; [exact (H1 0%nat ltac:(lia))|exact (H1 1%nat ltac:(lia))|lia]. }
  split.
  - refine (proj2 (ms_modal_eigvecs_linv Qc QcOps QcFth Qc_eq_dec 3 1 [1;1]%nat 2 ec3_obs ec3_L ec3_Cr ec3_A ec3_Cm ec3_T ec3_Ti
             H1' H2 H3 ltac:(cbn; lia) ltac:(lia) ltac:(lia) ec3d_v ec3_lamg H4 H5 ec3_Lp H6 ec3_Psi ec3_Psii ec3_lam H7 H8)).
  - intros w Hw.
    destruct (ms_no_spurious_linv Qc QcOps QcFth Qc_eq_dec 3 1 [1;1]%nat 2 ec3_obs ec3_L ec3_Cr ec3_A ec3_Cm ec3_T ec3_Ti
                H1' H2 H3 ltac:(cbn; lia) ltac:(lia) ltac:(lia) ec3d_v ec3_lamg H4 H5 ec3_Lp H6 (q 1 3) w Hw) as [i [Hi E]].
    destruct i as [|[|i]]; [| |lia]; vm_compute in E; discriminate E.
Qed.

(* (b) Gaussian rationals: the REAL system A = [[0,1],[-1/2,1]] has the COMPLEX pole pair (1 +- i)/2, modes (1, lam); same
   sensors, setups and bases as above; the solver output lists the poles in the other order, eigenvectors scaled by 2i and 3 *)
Definition ecx_A : fmat Qc := fm_of QcOps [[q 0 1; q 1 1]; [q (-1) 2; q 1 1]].
Definition ecx_obs (k:nat) : fmat Qc := fmul QcOps 2 (obsv QcOps 2 2 (stack 1 ec3_Cr (ec3_Cm k)) ecx_A) (ec3_T k).
Definition ecx_L (k:nat) : fmat Qc :=
  match left_inv_l QcOps Qc_isz0 3 2 (O_ref 3 1 [1;1]%nat ecx_obs k) with Some l => fm_of QcOps l | None => fzero QcOps end.
Definition ecx_Lp : fmat Qc :=
  match left_inv_l QcOps Qc_isz0 6 2 (obs_all QcOps 3 1 [1;1]%nat 2 ecx_obs ecx_L) with Some l => fm_of QcOps l | None => fzero QcOps end.
Definition ecx_lamg (i:nat) : C Qc := match i with O => (q 1 2, q 1 2) | _ => (q 1 2, q (-1) 2) end.
Definition ecx_lam (i:nat) : C Qc := match i with O => (q 1 2, q (-1) 2) | _ => (q 1 2, q 1 2) end.
Definition ecx_Phi : fmat (C Qc) := fm_of QcC [[(q 1 1, q 0 1); (q 1 1, q 0 1)]; [(q 1 2, q 1 2); (q 1 2, q (-1) 2)]].
Definition ecx_Phii : fmat (C Qc) := fm_of QcC [[(q 1 2, q 1 2); (q 0 1, q (-1) 1)]; [(q 1 2, q (-1) 2); (q 0 1, q 1 1)]].
Definition ecx_v (k:nat) : fmat (C Qc) := fun i _ => ecx_Phi i k.
Definition ecx_Pm : fmat (C Qc) := fm_of QcC [[(q 0 1, q 0 1); (q 3 1, q 0 1)]; [(q 0 1, q 2 1); (q 0 1, q 0 1)]].
Definition ecx_Pmi : fmat (C Qc) := fm_of QcC [[(q 0 1, q 0 1); (q 0 1, q (-1) 2)]; [(q 1 3, q 0 1); (q 0 1, q 0 1)]].
Definition ecx_Psi : fmat (C Qc) := fmul QcC 2 (ms_cemb QcOps (ec3_Ti 0%nat)) (fmul QcC 2 ecx_Phi ecx_Pm).
Definition ecx_Psii : fmat (C Qc) := fmul QcC 2 ecx_Pmi (fmul QcC 2 ecx_Phii (ms_cemb QcOps (ec3_T 0%nat))).

Lemma ecx_hyps :
  (forall k, (k < 2)%nat -> feq (4 * 2) 2 (ecx_obs k) (fmul QcOps 2 (obsv QcOps 2 2 (stack 1 ec3_Cr (ec3_Cm k)) ecx_A) (ec3_T k))) /\
  (forall k, (k < 2)%nat -> feq 2 2 (fmul QcOps 2 (ec3_T k) (ec3_Ti k)) (fid QcOps)) /\
  (forall k, (k < 2)%nat -> feq 2 2 (fmul QcOps (3 * 1) (ecx_L k) (O_ref 3 1 [1;1]%nat ecx_obs k)) (fid QcOps)) /\
  (forall k, (k < 2)%nat -> feq 2 1 (fmul QcC 2 (ms_cemb QcOps ecx_A) (ecx_v k)) (fscal QcC (ecx_lamg k) (ecx_v k)) /\
                            ~ feq 2 1 (ecx_v k) (fzero QcC)) /\
  (forall i j, (i < 2)%nat -> (j < 2)%nat -> i <> j -> ecx_lamg i <> ecx_lamg j) /\
  feq 2 2 (fmul QcOps ((3 - 1) * 3) ecx_Lp (obs_all QcOps 3 1 [1;1]%nat 2 ecx_obs ecx_L)) (fid QcOps) /\
  feq 2 2 (fmul QcC 2 (ms_cemb QcOps (A_of_linv QcOps 3 1 [1;1]%nat 2 ecx_obs ecx_L ecx_Lp)) ecx_Psi)
          (fmul QcC 2 ecx_Psi (ediag QcC ecx_lam)) /\
  feq 2 2 (fmul QcC 2 ecx_Psii ecx_Psi) (fid QcC) /\
  tab 2 ecx_lam = [ecx_lamg 1%nat; ecx_lamg 0%nat].
Proof.
  split; [intros k _; apply feq_refl|].
  split; [intros k Hk; destruct k as [|[|k]]; [| |lia]; apply ec_feqb_sound; vm_compute; reflexivity|].
  split; [intros k Hk; destruct k as [|[|k]]; [| |lia]; apply ec_feqb_sound; vm_compute; reflexivity|].
  split.
  { intros k Hk. destruct k as [|[|k]]; [| |lia]; (split; [apply ec_cfeqb_sound; vm_compute; reflexivity|]);
      intros E; specialize (E 0%nat 0%nat ltac:(lia) ltac:(lia)); vm_compute in E; discriminate E. }
  split.
  { intros i j Hi Hj Hne E.
    assert (Hc: ((i = 0 /\ j = 1) \/ (i = 1 /\ j = 0))%nat) by lia.
    destruct Hc as [[-> ->]|[-> ->]]; vm_compute in E; discriminate E. }
  split; [apply ec_feqb_sound; vm_compute; reflexivity|].
  split; [apply ec_cfeqb_sound; vm_compute; reflexivity|].
  split; [apply ec_cfeqb_sound; vm_compute; reflexivity|].
  reflexivity.
Qed.

(* the complex theorems applied: poles matched (a conjugate pair), and the real number 1/2 is not an eigenvalue *)
Lemma ecx_concl :
  Permutation (tab 2 ecx_lam) (tab 2 ecx_lamg) /\
  forall w, ~ eigpair_col QcC 2 (ms_cemb QcOps (A_of_linv QcOps 3 1 [1;1]%nat 2 ecx_obs ecx_L ecx_Lp)) (q 1 2, q 0 1) w.
Proof.
  destruct ecx_hyps as [H1 [H2 [H3 [H4 [H5 [H6 [H7 [H8 _]]]]]]]].
  assert (H1': forall k, (k < length [1;1]%nat)%nat ->
            feq (4 * (1 + nth k [1;1]%nat 0%nat)) 2 (ecx_obs k)
                (fmul QcOps 2 (obsv QcOps 2 (1 + nth k [1;1]%nat 0%nat) (stack 1 ec3_Cr (ec3_Cm k)) ecx_A) (ec3_T k))).
  { intros k Hk. cbn [length] in Hk. destruct k as [|[|k]]; [exact (H1 0%nat ltac:(lia))|exact (H1 1%nat ltac:(lia))|lia]. }
  split.
  - refine (proj2 (ms_modal_cplx_linv Qc QcOps QcFth Qc_eq_dec qc_formally_real 3 1 [1;1]%nat 2 ecx_obs ecx_L ec3_Cr ecx_A ec3_Cm ec3_T ec3_Ti
             H1' H2 H3 ltac:(cbn; lia) ltac:(lia) ltac:(lia) ecx_v ecx_lamg H4 H5 ecx_Lp H6 ecx_Psi ecx_Psii ecx_lam H7 H8)).
  - intros w Hw.
    destruct (ms_no_spurious_cplx_linv Qc QcOps QcFth Qc_eq_dec qc_formally_real 3 1 [1;1]%nat 2 ecx_obs ecx_L ec3_Cr ecx_A ec3_Cm ec3_T ec3_Ti
                H1' H2 H3 ltac:(cbn; lia) ltac:(lia) ltac:(lia) ecx_v ecx_lamg H4 H5 ecx_Lp H6 (q 1 2, q 0 1) w Hw) as [i [Hi E]].
    destruct i as [|[|i]]; [| |lia]; vm_compute in E; discriminate E.
Qed.
