(* C08 - covariance lemmas: Hankel stage (gain / permutation / orthogonal mixing), transport of the SVD contract and of
   the realisation step, unity normalisation, the dt map and the frequency grids. *)
From Coq Require Import List Arith Lia Ring Field Setoid Morphisms Bool.
From PyOMA.Base Require Import Carrier FMat Cplx.
From PyOMA.Model Require Import M_hankel M_covar.
From PyOMA.Proofs Require Import P_hankel.
Import ListNotations.

Section PR.
Variable R:Type. Variable K:Ops R.
Hypothesis Rth : ring_theory (o0 K) (o1 K) (oadd K) (omul K) (osub K) (oopp K) (@eq R).
Add Ring RrCV : Rth.
Local Open Scope K_scope.
Notation "0" := (o0 K) : K_scope. Notation "1" := (o1 K) : K_scope.
Infix "+" := (oadd K) : K_scope. Infix "*" := (omul K) : K_scope.
Notation fmul := (fmul K). Notation fid := (fid K). Notation fscal := (fscal K).
Let assoc := fmul_assoc R K Rth.
Let idl := fmul_id_l R K Rth.
Let idr := fmul_id_r R K Rth.

(* ================= Hankel stage ================= *)
Theorem hank_gain_gen win wt dl rl l r g (Y Yref:sig R) I J :
  hank_gen K win wt dl rl l r (sgain K g Y) (sgain K g Yref) I J = g * g * hank_gen K win wt dl rl l r Y Yref I J.
Proof. exact (hank_gen_scal R K Rth win wt dl rl l r g g Y Yref I J). Qed.
Theorem hank_gain_mm invN l r br Ndat g (Y Yref:sig R) :
  feq (hank_rows l br) (hank_cols r br)
    (hank_mm K invN l r br Ndat (sgain K g Y) (sgain K g Yref)) (fscal (g*g) (hank_mm K invN l r br Ndat Y Yref)).
Proof. exact (hank_mm_gain R K Rth invN l r br Ndat g Y Yref). Qed.
Theorem hank_gain_R invn l r br Ndat g (Y Yref:sig R) :
  feq (hank_rows l br) (hank_cols r br)
    (hank_R K invn l r br Ndat (sgain K g Y) (sgain K g Yref)) (fscal (g*g) (hank_R K invn l r br Ndat Y Yref)).
Proof. exact (hank_R_gain R K Rth invn l r br Ndat g Y Yref). Qed.

Theorem hank_perm_gen win wt dl rl l r pi rho (Y Yref:sig R) i a j b :
  (a < l)%nat -> (b < r)%nat -> (pi a < l)%nat -> (rho b < r)%nat ->
  hank_gen K win wt dl rl l r (sperm pi Y) (sperm rho Yref) (i*l+a)%nat (j*r+b)%nat
  = hank_gen K win wt dl rl l r Y Yref (i*l+pi a)%nat (j*r+rho b)%nat.
Proof.
  intros Ha Hb Hpa Hrb. rewrite (hank_gen_entry R K win wt dl rl l r _ _ i a j b Ha Hb).
  rewrite (hank_gen_entry R K win wt dl rl l r Y Yref i (pi a) j (rho b) Hpa Hrb). reflexivity.
Qed.

Lemma bperm_lt l br pi I : (forall a, (a < l)%nat -> (pi a < l)%nat) -> (I < hank_rows l br)%nat ->
  (bperm l pi I < hank_rows l br)%nat /\ (bperm l pi I / l = I / l)%nat /\ (bperm l pi I mod l = pi (I mod l))%nat.
Proof.
  intros Hpi HI. assert (Hl: (0 < l)%nat) by (unfold hank_rows in HI; destruct l; lia).
  destruct (idx_lt_blk I l br Hl HI) as [Hi Ha]. specialize (Hpi _ Ha).
  unfold bperm. destruct (blk_idx (I / l) l (pi (I mod l)%nat) Hpi) as [E1 E2]. repeat split; try assumption.
  unfold hank_rows. nia.
Qed.

Lemma hank_gen_perm_idx win wt dl rl l r br pi rho (Y Yref:sig R) I J :
  (forall a, (a < l)%nat -> (pi a < l)%nat) -> (forall b, (b < r)%nat -> (rho b < r)%nat) ->
  (I < hank_rows l br)%nat -> (J < hank_cols r br)%nat ->
  hank_gen K win wt dl rl l r (sperm pi Y) (sperm rho Yref) I J
  = hank_gen K win wt dl rl l r Y Yref (bperm l pi I) (bperm r rho J).
Proof.
  intros Hpi Hrho HI HJ.
  destruct (bperm_lt l br pi I Hpi HI) as (_ & E1 & E2).
  destruct (bperm_lt r br rho J Hrho HJ) as (_ & F1 & F2).
  unfold hank_gen. rewrite E1, E2, F1, F2. reflexivity.
Qed.

Theorem hank_perm_mm invN l r br Ndat pi rho (Y Yref:sig R) :
  (forall a, (a < l)%nat -> (pi a < l)%nat) -> (forall b, (b < r)%nat -> (rho b < r)%nat) ->
  feq (hank_rows l br) (hank_cols r br)
    (hank_mm K invN l r br Ndat (sperm pi Y) (sperm rho Yref))
    (hank_perm_rhs l r pi rho (hank_mm K invN l r br Ndat Y Yref)).
Proof.
  intros Hpi Hrho I J HI HJ. unfold hank_perm_rhs.
  rewrite (hank_mm_is_gen R K Rth invN l r br Ndat _ _ I J HI HJ).
  destruct (bperm_lt l br pi I Hpi HI) as (HI' & _). destruct (bperm_lt r br rho J Hrho HJ) as (HJ' & _).
  rewrite (hank_mm_is_gen R K Rth invN l r br Ndat Y Yref _ _ HI' HJ').
  apply (hank_gen_perm_idx _ _ _ _ l r br); assumption.
Qed.
Theorem hank_perm_R invn l r br Ndat pi rho (Y Yref:sig R) :
  (forall a, (a < l)%nat -> (pi a < l)%nat) -> (forall b, (b < r)%nat -> (rho b < r)%nat) ->
  feq (hank_rows l br) (hank_cols r br)
    (hank_R K invn l r br Ndat (sperm pi Y) (sperm rho Yref))
    (hank_perm_rhs l r pi rho (hank_R K invn l r br Ndat Y Yref)).
Proof.
  intros Hpi Hrho I J HI HJ. unfold hank_perm_rhs.
  rewrite (hank_R_is_gen R K Rth invn l r br Ndat _ _ I J HI HJ).
  destruct (bperm_lt l br pi I Hpi HI) as (HI' & _). destruct (bperm_lt r br rho J Hrho HJ) as (HJ' & _).
  rewrite (hank_R_is_gen R K Rth invn l r br Ndat Y Yref _ _ HI' HJ').
  apply (hank_gen_perm_idx _ _ _ _ l r br); assumption.
Qed.

(* ---- mixing: (Q Y, Qr Yref) ---- *)
Lemma suml_zero {A} (xs:list A) : suml K (map (fun _ => 0) xs) = 0.
Proof. induction xs; cbn [map suml]; [reflexivity|]. rewrite IHxs. ring. Qed.
Lemma suml_sumn {A} n (f:nat->A->R) xs :
  suml K (map (fun t => sumn K n (fun c => f c t)) xs) = sumn K n (fun c => suml K (map (f c) xs)).
Proof.
  induction n; cbn [sumn]; [apply suml_zero|].
  rewrite (suml_add R K Rth (fun t => sumn K n (fun c => f c t)) (f n)). rewrite IHn. reflexivity.
Qed.
Lemma sumn_mul_sumn m n (u v:nat->R) :
  sumn K m u * sumn K n v = sumn K m (fun c => sumn K n (fun d => u c * v d)).
Proof.
  rewrite <- (sumn_scal_r R K Rth). apply sumn_ext; intros c _. rewrite <- (sumn_scal R K Rth). reflexivity.
Qed.

Theorem hank_mix_gen win wt dl rl l r Q Qr (Y Yref:sig R) I J :
  (0 < l)%nat -> (0 < r)%nat ->
  hank_gen K win wt dl rl l r (smix K l Q Y) (smix K r Qr Yref) I J
  = hank_mix_rhs K l r Q Qr (hank_gen K win wt dl rl l r Y Yref) I J.
Proof.
  intros Hl Hr. unfold hank_mix_rhs.
  transitivity (sumn K l (fun c => sumn K r (fun d =>
     wt (I/l)%nat (J/r)%nat * suml K (map (fun t => Q (I mod l)%nat c * Qr (J mod r)%nat d *
        (Y c (t + dl (I/l)%nat (J/r)%nat)%nat * Yref d (t + rl (I/l)%nat (J/r)%nat)%nat)) (win (I/l)%nat (J/r)%nat))))).
  - unfold hank_gen, smix.
    rewrite (suml_ext R K _ (fun t => sumn K l (fun c => sumn K r (fun d => Q (I mod l)%nat c * Qr (J mod r)%nat d *
        (Y c (t + dl (I/l)%nat (J/r)%nat)%nat * Yref d (t + rl (I/l)%nat (J/r)%nat)%nat))))).
    + rewrite suml_sumn. rewrite <- (sumn_scal R K Rth). apply sumn_ext; intros c _.
      rewrite suml_sumn. rewrite <- (sumn_scal R K Rth). reflexivity.
    + intros t. rewrite sumn_mul_sumn. apply sumn_ext; intros c _. apply sumn_ext; intros d _. ring.
  - apply sumn_ext; intros c Hc. apply sumn_ext; intros d Hd.
    unfold hank_gen.
    destruct (blk_idx (I / l) l c Hc) as [-> ->]. destruct (blk_idx (J / r) r d Hd) as [-> ->].
    rewrite (suml_scal R K Rth). ring.
Qed.

(* ---- Kronecker form: I (x) P acting on block vectors ---- *)
Lemma kronI_mul_l nb l P (M:fmat R) I J : (0 < l)%nat -> (I < nb * l)%nat ->
  fmul (nb * l) (kronI K l P) M I J = sumn K l (fun c => P (I mod l)%nat c * M ((I / l) * l + c)%nat J).
Proof.
  intros Hl HI. unfold FMat.fmul. rewrite (sumn_blocks R K Rth l nb).
  assert (Hi: (I / l < nb)%nat) by (apply Nat.div_lt_upper_bound; lia).
  rewrite (sumn_ext R K nb _ (fun j => (if Nat.eqb j (I / l) then 1 else 0) *
      sumn K l (fun c => P (I mod l)%nat c * M (j * l + c)%nat J))).
  - rewrite (sumn_delta R K Rth nb (I / l) (fun j => sumn K l (fun c => P (I mod l)%nat c * M (j * l + c)%nat J)) Hi).
    reflexivity.
  - intros j Hj. rewrite <- (sumn_scal R K Rth). apply sumn_ext; intros c Hc.
    unfold kronI. destruct (blk_idx j l c Hc) as [-> ->]. rewrite (Nat.eqb_sym j).
    destruct (Nat.eqb (I / l) j); ring.
Qed.
Lemma ftr_kronI nb l P : feq (nb*l) (nb*l) (ftr (kronI K l P)) (kronI K l (ftr P)).
Proof. intros I J _ _. unfold ftr, kronI. rewrite Nat.eqb_sym. reflexivity. Qed.
Lemma kronI_mul_r nb r P (M:fmat R) I J : (0 < r)%nat -> (J < nb * r)%nat ->
  fmul (nb * r) M (ftr (kronI K r P)) I J = sumn K r (fun d => M I ((J / r) * r + d)%nat * P (J mod r)%nat d).
Proof.
  intros Hr HJ. transitivity (fmul (nb * r) (kronI K r P) (ftr M) J I).
  - unfold FMat.fmul, ftr. apply sumn_ext; intros k _. ring.
  - rewrite kronI_mul_l by assumption. apply sumn_ext; intros d _. unfold ftr. ring.
Qed.

Theorem hank_mix_kron l r br Q Qr (H:fmat R) : (0 < l)%nat -> (0 < r)%nat ->
  feq (hank_rows l br) (hank_cols r br) (hank_mix_rhs K l r Q Qr H)
      (fmul (hank_cols r br) (fmul (hank_rows l br) (kronI K l Q) H) (ftr (kronI K r Qr))).
Proof.
  intros Hl Hr I J HI HJ. unfold hank_rows, hank_cols in *.
  rewrite (kronI_mul_r (S br) r Qr _ I J Hr HJ).
  unfold hank_mix_rhs. rewrite (sumn_swap R K Rth). apply sumn_ext; intros d _.
  rewrite (kronI_mul_l (S br) l Q H I _ Hl HI). rewrite <- (sumn_scal_r R K Rth).
  apply sumn_ext; intros c _. ring.
Qed.

Theorem kronI_orth nb l Q : (0 < l)%nat ->
  feq l l (fmul l (ftr Q) Q) fid -> feq (nb*l) (nb*l) (fmul (nb*l) (ftr (kronI K l Q)) (kronI K l Q)) fid.
Proof.
  intros Hl HQ I J HI HJ.
  rewrite (fmul_ext R K (nb*l) (nb*l) (nb*l) _ (kronI K l (ftr Q)) _ (kronI K l Q) (ftr_kronI nb l Q) (feq_refl R _ _ _) I J HI HJ).
  rewrite (kronI_mul_l nb l (ftr Q) _ I J Hl HI).
  assert (Ha: (I mod l < l)%nat) by (apply Nat.mod_upper_bound; lia).
  assert (Hb: (J mod l < l)%nat) by (apply Nat.mod_upper_bound; lia).
  rewrite (sumn_ext R K l _ (fun c => (if Nat.eqb (I / l) (J / l) then 1 else 0) * (ftr Q (I mod l)%nat c * Q c (J mod l)%nat))).
  - rewrite (sumn_scal R K Rth). specialize (HQ _ _ Ha Hb). unfold FMat.fmul in HQ. rewrite HQ.
    unfold FMat.fid. destruct (Nat.eqb_spec (I / l) (J / l)) as [E|E].
    + destruct (Nat.eqb_spec (I mod l) (J mod l)) as [E2|E2].
      * assert (I = J) by (rewrite (Nat.div_mod I l), (Nat.div_mod J l) by lia; rewrite E, E2; reflexivity).
        subst. rewrite Nat.eqb_refl. ring.
      * destruct (Nat.eqb_spec I J) as [E3|E3]; [subst; lia|]. ring.
    + destruct (Nat.eqb_spec I J) as [E3|E3]; [subst; lia|]. ring.
  - intros c Hc. unfold kronI. destruct (blk_idx (I / l) l c Hc) as [-> ->].
    destruct (Nat.eqb (I / l) (J / l)); ring.
Qed.

Lemma pmat_mul n pi (M:fmat R) a j : (pi a < n)%nat -> fmul n (pmat K pi) M a j = M (pi a) j.
Proof.
  intros Hp. unfold FMat.fmul, pmat.
  exact (sumn_delta R K Rth n (pi a) (fun k => M k j) Hp).
Qed.
(* a bijection of [0,n) gives an orthogonal permutation matrix *)
Theorem pmat_orth n pi pinv :
  (forall a, (a < n)%nat -> (pi a < n)%nat /\ pinv (pi a) = a) ->
  (forall c, (c < n)%nat -> (pinv c < n)%nat /\ pi (pinv c) = c) ->
  feq n n (fmul n (ftr (pmat K pi)) (pmat K pi)) fid.
Proof.
  intros H1 H2 i j Hi Hj. unfold FMat.fmul, ftr, pmat, FMat.fid.
  destruct (H2 i Hi) as [Hpi Ei].
  rewrite (sumn_ext R K n _ (fun k => (if Nat.eqb k (pinv i) then 1 else 0) * (if Nat.eqb j (pi k) then 1 else 0))).
  - rewrite (sumn_delta R K Rth n (pinv i) (fun k => if Nat.eqb j (pi k) then 1 else 0) Hpi). rewrite Ei.
    rewrite (Nat.eqb_sym j i). reflexivity.
  - intros k Hk. destruct (H1 k Hk) as [_ Ek].
    destruct (Nat.eqb_spec i (pi k)) as [E|E]; destruct (Nat.eqb_spec k (pinv i)) as [F|F]; try reflexivity.
    + exfalso. apply F. rewrite E. symmetry. exact Ek.
    + exfalso. apply E. rewrite F. symmetry. exact Ei.
Qed.
(* mixing with the permutation matrix is the permutation *)
Lemma smix_pmat l pi (Y:sig R) a t : (pi a < l)%nat -> smix K l (pmat K pi) Y a t = sperm pi Y a t.
Proof. intros Hp. unfold smix, sperm, pmat. exact (sumn_delta R K Rth l (pi a) (fun c => Y c t) Hp). Qed.

(* ================= transport of the SVD contract ================= *)
Lemma cv_diag_scal k c S : feq k k (cv_diag K (fun i => c * S i)) (fscal c (cv_diag K S)).
Proof. intros i j _ _. unfold cv_diag, FMat.fscal. destruct (Nat.eqb i j); ring. Qed.

Theorem svd_gain m n k c (H U:fmat R) S (V:fmat R) :
  svd_contract K m n k H U S V -> svd_contract K m n k (fscal c H) U (fun i => c * S i) V.
Proof.
  intros (H1 & H2 & H3). repeat split; try assumption.
  rewrite H1. rewrite (cv_diag_scal k c S).
  rewrite (fmul_scal_r R K Rth m k k c U (cv_diag K S)).
  rewrite (fmul_scal_l R K Rth m k n c). reflexivity.
Qed.

Theorem svd_orth m n k (P Pr H U:fmat R) S (V:fmat R) :
  svd_contract K m n k H U S V ->
  feq m m (fmul m (ftr P) P) fid -> feq n n (fmul n (ftr Pr) Pr) fid ->
  svd_contract K m n k (fmul n (fmul m P H) (ftr Pr)) (fmul m P U) S (fmul n Pr V).
Proof.
  intros (H1 & H2 & H3) HP HPr. repeat split.
  - rewrite H1. rewrite (ftr_fmul R K Rth n n k Pr V).
    rewrite <- (assoc m k n n (fmul k (fmul m P U) (cv_diag K S)) (ftr V) (ftr Pr)).
    rewrite (assoc m m k k P U (cv_diag K S)).
    rewrite (assoc m m k n P (fmul k U (cv_diag K S)) (ftr V)). reflexivity.
  - rewrite (ftr_fmul R K Rth m m k P U).
    rewrite (assoc k m m k (ftr U) (ftr P) (fmul m P U)).
    rewrite <- (assoc m m m k (ftr P) P U). rewrite HP. rewrite (idl m k). exact H2.
  - rewrite (ftr_fmul R K Rth n n k Pr V).
    rewrite (assoc k n n k (ftr V) (ftr Pr) (fmul n Pr V)).
    rewrite <- (assoc n n n k (ftr Pr) Pr V). rewrite HPr. rewrite (idl n k). exact H3.
Qed.

(* exact-rank case: two contract-meeting triples of the same matrix with invertible singular values span the same
   column space, U2 = U T with T = D V^T V2 D2^-1 (this is where the choice LAPACK makes drops out; for noisy data the
   analogous statement needs a gap in the singular values and is NOT proved here) *)
Theorem svd_span_exact_rank m n k (H U:fmat R) S (V U2:fmat R) S2 S2i (V2:fmat R) :
  svd_contract K m n k H U S V -> svd_contract K m n k H U2 S2 V2 ->
  (forall i, (i < k)%nat -> S2 i * S2i i = 1) ->
  feq m k U2 (fmul k U (fmul k (fmul n (fmul k (cv_diag K S) (ftr V)) V2) (cv_diag K S2i))).
Proof.
  intros (H1 & _ & _) (G1 & _ & G3) Hinv.
  assert (HD: feq k k (fmul k (cv_diag K S2) (cv_diag K S2i)) fid).
  { intros i j Hi Hj. unfold FMat.fmul, cv_diag, FMat.fid.
    rewrite (sumn_ext R K k _ (fun c => (if Nat.eqb c i then 1 else 0) * (S2 i * (if Nat.eqb c j then S2i c else 0)))).
    - rewrite (sumn_delta R K Rth k i (fun c => S2 i * (if Nat.eqb c j then S2i c else 0)) Hi).
      destruct (Nat.eqb i j); [rewrite (Hinv i Hi)|]; ring.
    - intros c _. rewrite (Nat.eqb_sym i c). destruct (Nat.eqb c i); ring. }
  transitivity (fmul n H (fmul k V2 (cv_diag K S2i))).
  - rewrite G1. rewrite (assoc m k n k (fmul k U2 (cv_diag K S2)) (ftr V2)).
    rewrite <- (assoc k n k k (ftr V2) V2 (cv_diag K S2i)). rewrite G3. rewrite (idl k k).
    rewrite (assoc m k k k U2 (cv_diag K S2)). rewrite HD. rewrite (idr m k). reflexivity.
  - rewrite H1. rewrite (assoc m k k n U (cv_diag K S) (ftr V)).
    rewrite (assoc m k n k U (fmul k (cv_diag K S) (ftr V))).
    rewrite <- (assoc k n k k (fmul k (cv_diag K S) (ftr V)) V2 (cv_diag K S2i)). reflexivity.
Qed.

(* ================= transport of the realisation step ================= *)
Lemma cv_obs_gain m k c U sq : feq m k (cv_obs K U (fun i => c * sq i)) (fscal c (cv_obs K U sq)).
Proof. intros i j _ _. unfold cv_obs, FMat.fscal. ring. Qed.
Lemma sqrt_gain c (S sq:nat->R) i : sq i * sq i = S i -> (c * sq i) * (c * sq i) = (c*c) * S i.
Proof. intros <-. ring. Qed.
Lemma cv_obs_orth m k P U sq : feq m k (cv_obs K (fmul m P U) sq) (fmul m P (cv_obs K U sq)).
Proof. intros i j _ _. unfold cv_obs, FMat.fmul. rewrite <- (sumn_scal_r R K Rth). apply sumn_ext; intros; ring. Qed.

Lemma obs_gain_both m k c U sq (S:nat->R) :
  (forall i, sq i * sq i = S i -> (c * sq i) * (c * sq i) = (c*c) * S i) /\
  feq m k (cv_obs K U (fun i => c * sq i)) (fscal c (cv_obs K U sq)).
Proof. exact (conj (sqrt_gain c S sq) (cv_obs_gain m k c U sq)). Qed.

(* A = L O_m with L a left inverse of O_p (pinv / inv(R) Q^T in the code) *)
Theorem realise_gain pr n c ci (L Op Om:fmat R) :
  c * ci = 1 -> feq n n (fmul pr L Op) fid ->
  feq n n (fmul pr (fscal ci L) (fscal c Op)) fid /\
  feq n n (fmul pr (fscal ci L) (fscal c Om)) (fmul pr L Om).
Proof.
  intros Hc HL. split.
  - rewrite (fmul_scal_l R K Rth n pr n ci L), (fmul_scal_r R K Rth n pr n c L Op). rewrite HL.
    intros i j _ _. unfold FMat.fscal. transitivity ((c * ci) * fid i j); [ring|]. rewrite Hc. ring.
  - rewrite (fmul_scal_l R K Rth n pr n ci L), (fmul_scal_r R K Rth n pr n c L Om).
    intros i j _ _. unfold FMat.fscal. transitivity ((c * ci) * fmul pr L Om i j); [ring|]. rewrite Hc. ring.
Qed.
Theorem realise_orth pr n (Pp L Op Om:fmat R) :
  feq pr pr (fmul pr (ftr Pp) Pp) fid -> feq n n (fmul pr L Op) fid ->
  feq n n (fmul pr (fmul pr L (ftr Pp)) (fmul pr Pp Op)) fid /\
  feq n n (fmul pr (fmul pr L (ftr Pp)) (fmul pr Pp Om)) (fmul pr L Om).
Proof.
  intros HP HL. split.
  - rewrite (assoc n pr pr n L (ftr Pp)). rewrite <- (assoc pr pr pr n (ftr Pp) Pp Op). rewrite HP, (idl pr n). exact HL.
  - rewrite (assoc n pr pr n L (ftr Pp)). rewrite <- (assoc pr pr pr n (ftr Pp) Pp Om). rewrite HP, (idl pr n). reflexivity.
Qed.

(* slicing the block-transformed observability matrix: first block, first p blocks, blocks 1..p *)
Lemma kron_first_block p l k Q (Ob:fmat R) : (0 < l)%nat ->
  feq l k (fmul (S p * l) (kronI K l Q) Ob) (fmul l Q Ob).
Proof.
  intros Hl I j HI _. rewrite (kronI_mul_l (S p) l Q Ob I j Hl) by nia.
  unfold FMat.fmul. rewrite Nat.div_small, Nat.mod_small by lia. apply sumn_ext; intros c _. reflexivity.
Qed.
Lemma kron_top_blocks p l k Q (Ob:fmat R) : (0 < l)%nat ->
  feq (p * l) k (fmul (S p * l) (kronI K l Q) Ob) (fmul (p * l) (kronI K l Q) Ob).
Proof.
  intros Hl I j HI _. rewrite (kronI_mul_l (S p) l Q Ob I j Hl) by nia.
  rewrite (kronI_mul_l p l Q Ob I j Hl HI). reflexivity.
Qed.
Lemma kron_shift_blocks p l k Q (Ob:fmat R) : (0 < l)%nat ->
  feq (p * l) k (rows_from l (fmul (S p * l) (kronI K l Q) Ob)) (fmul (p * l) (kronI K l Q) (rows_from l Ob)).
Proof.
  intros Hl I j HI _. unfold rows_from at 1. rewrite (kronI_mul_l (S p) l Q Ob (l + I) j Hl) by nia.
  rewrite (kronI_mul_l p l Q _ I j Hl HI).
  assert (E1: ((l + I) mod l = I mod l)%nat).
  { replace (l + I)%nat with (I + 1 * l)%nat by lia. apply Nat.mod_add; lia. }
  assert (E2: ((l + I) / l = S (I / l))%nat).
  { replace (l + I)%nat with (I + 1 * l)%nat by lia. rewrite Nat.div_add by lia. lia. }
  rewrite E1, E2. apply sumn_ext; intros c _. unfold rows_from. f_equal. f_equal. lia.
Qed.

(* the whole step for an orthogonal channel mixing Q (a permutation is the special case pmat):
   C' = Q C, and the transported left inverse reproduces the same state matrix *)
Theorem realise_transport_mix p l n Q (Ob L:fmat R) : (0 < l)%nat ->
  feq l l (fmul l (ftr Q) Q) fid ->
  feq n n (fmul (p*l) L Ob) fid ->
  let Ob' := fmul (S p * l) (kronI K l Q) Ob in
  let L' := fmul (p*l) L (ftr (kronI K l Q)) in
  feq l n Ob' (fmul l Q Ob) /\
  feq n n (fmul (p*l) L' Ob') fid /\
  feq n n (fmul (p*l) L' (rows_from l Ob')) (fmul (p*l) L (rows_from l Ob)).
Proof.
  intros Hl HQ HL Ob' L'. pose proof (kronI_orth p l Q Hl HQ) as HP.
  destruct (realise_orth (p*l) n (kronI K l Q) L Ob (rows_from l Ob) HP HL) as [R1 R2].
  split; [apply kron_first_block; assumption|]. split.
  - unfold Ob', L'. rewrite (kron_top_blocks p l n Q Ob Hl). exact R1.
  - unfold Ob', L'. rewrite (kron_shift_blocks p l n Q Ob Hl). exact R2.
Qed.

(* a linear solve X = solve(A, B) keeps its solution when both sides carry the same factor (pLSCF normal equations,
   homogeneous of degree 2 in the spectra) *)
Theorem solve_gain_free a b c (A X B:fmat R) :
  feq a b (fmul a A X) B -> feq a b (fmul a (fscal c A) X) (fscal c B).
Proof. intros H. rewrite (fmul_scal_l R K Rth a a b c A X). rewrite H. reflexivity. Qed.

(* ================= general bilinear estimators (spectral lines, correlations) ================= *)
Theorem bil_gain N w g (Y Yref:sig R) a b :
  bil_gen K N w (sgain K g Y) (sgain K g Yref) a b = g * g * bil_gen K N w Y Yref a b.
Proof.
  unfold bil_gen, sgain. rewrite <- (sumn_scal R K Rth). apply sumn_ext; intros t _.
  rewrite <- (sumn_scal R K Rth). apply sumn_ext; intros s _. ring.
Qed.
Theorem bil_perm N w pi rho (Y Yref:sig R) a b :
  bil_gen K N w (sperm pi Y) (sperm rho Yref) a b = bil_gen K N w Y Yref (pi a) (rho b).
Proof. reflexivity. Qed.
Theorem bil_mix N w l r Q Qr (Y Yref:sig R) :
  feq l r (bil_gen K N w (smix K l Q Y) (smix K r Qr Yref))
          (fmul r (fmul l Q (bil_gen K N w Y Yref)) (ftr Qr)).
Proof.
  intros a b _ _. unfold bil_gen, smix, FMat.fmul, ftr.
  transitivity (sumn K N (fun t => sumn K N (fun s => sumn K r (fun d => sumn K l (fun c =>
      Q a c * (w t s * (Y c t * Yref d s)) * Qr b d))))).
  - apply sumn_ext; intros t _. apply sumn_ext; intros s _.
    rewrite (sumn_swap R K Rth r l).
    transitivity (w t s * sumn K l (fun c => sumn K r (fun d => Q a c * Y c t * (Qr b d * Yref d s)))).
    + rewrite sumn_mul_sumn. reflexivity.
    + rewrite <- (sumn_scal R K Rth). apply sumn_ext; intros c _. rewrite <- (sumn_scal R K Rth).
      apply sumn_ext; intros d _. ring.
  - transitivity (sumn K N (fun t => sumn K r (fun d => sumn K N (fun s => sumn K l (fun c =>
      Q a c * (w t s * (Y c t * Yref d s)) * Qr b d))))).
    { apply sumn_ext; intros t _. apply (sumn_swap R K Rth N r). }
    rewrite (sumn_swap R K Rth N r). apply sumn_ext; intros d _.
    rewrite <- (sumn_scal_r R K Rth).
    transitivity (sumn K N (fun t => sumn K l (fun c => sumn K N (fun s =>
      Q a c * (w t s * (Y c t * Yref d s)) * Qr b d)))).
    { apply sumn_ext; intros t _. apply (sumn_swap R K Rth N l). }
    rewrite (sumn_swap R K Rth N l). apply sumn_ext; intros c _.
    rewrite <- (sumn_scal R K Rth). rewrite <- (sumn_scal_r R K Rth). apply sumn_ext; intros t _.
    rewrite <- (sumn_scal R K Rth). rewrite <- (sumn_scal_r R K Rth). apply sumn_ext; intros s _. ring.
Qed.
End PR.

(* ================= unity normalisation (field with a decidable strict order on squared moduli) ================= *)
Section PU.
Variable R:Type. Variable K:Ops R.
Hypothesis Fth : field_theory (o0 K) (o1 K) (oadd K) (omul K) (osub K) (oopp K) (odiv K) (oinv K) (@eq R).
Add Field FfCV : Fth.
Local Open Scope K_scope.
Notation "0" := (o0 K) : K_scope. Notation "1" := (o1 K) : K_scope.
Infix "+" := (oadd K) : K_scope. Infix "*" := (omul K) : K_scope. Infix "-" := (osub K) : K_scope.
Notation "- x" := (oopp K x) : K_scope. Infix "/" := (odiv K) : K_scope.
Let Rth := F_R Fth.
Variable ltb : R -> R -> bool.
Hypothesis lt_irrefl : forall a, ltb a a = false.
Hypothesis lt_trans : forall a b c, ltb a b = true -> ltb b c = true -> ltb a c = true.
Hypothesis lt_tricho : forall a b, ltb a b = false -> ltb b a = false -> a = b.
Hypothesis lt_mul_pos : forall c a b, ltb 0 c = true -> ltb (c*a) (c*b) = ltb a b.
Hypothesis sq_nonneg : forall a b, ltb (a*a + b*b) 0 = false.
Notation n2 := (cnorm2 K).
Notation unorm := (cv_unity_norm K ltb).

Lemma mul_nz a b : a <> 0 -> b <> 0 -> a * b <> 0.
Proof. intros Ha Hb E. apply Hb. transitivity (oinv K a * (a*b)); [field; exact Ha|]. rewrite E. ring. Qed.
Lemma lt_0_1 : ltb 0 1 = true.
Proof.
  destruct (ltb 0 1) eqn:E; [reflexivity|]. exfalso. apply (F_1_neq_0 Fth). symmetry. apply lt_tricho; [exact E|].
  pose proof (sq_nonneg 1 0) as H. replace (1*1+0*0) with 1 in H by ring. exact H.
Qed.
Lemma pos_nz a : ltb 0 a = true -> a <> 0.
Proof. intros H E. rewrite E in H. rewrite lt_irrefl in H. discriminate. Qed.
Lemma n2_pos z : n2 z <> 0 -> ltb 0 (n2 z) = true.
Proof.
  intros H. destruct (ltb 0 (n2 z)) eqn:E; [reflexivity|]. exfalso. apply H. symmetry. apply lt_tricho; [exact E|].
  unfold cnorm2. apply sq_nonneg.
Qed.
Lemma lt_mul_pos0 c a : ltb 0 c = true -> ltb 0 (c*a) = ltb 0 a.
Proof. intros H. rewrite <- (lt_mul_pos c 0 a H). f_equal. ring. Qed.
Lemma le_lt_trans a b c : ltb b a = false -> ltb b c = true -> ltb a c = true.
Proof.
  intros H1 H2. destruct (ltb a b) eqn:E; [apply (lt_trans a b c); assumption|].
  rewrite (lt_tricho a b E H1). exact H2.
Qed.

Lemma amf_scale c xs : ltb 0 c = true -> forall i bi bv,
  cv_argmax_from ltb (map (fun x => c*x) xs) i bi (c*bv) = cv_argmax_from ltb xs i bi bv.
Proof.
  intros Hc. induction xs as [|x r IH]; intros i bi bv; cbn [map cv_argmax_from]; [reflexivity|].
  rewrite (lt_mul_pos c bv x Hc). destruct (ltb bv x); apply IH.
Qed.
Lemma argmax_scale c xs : ltb 0 c = true -> cv_argmax ltb (map (fun x => c*x) xs) = cv_argmax ltb xs.
Proof. intros Hc. destruct xs; [reflexivity|]. cbn [map cv_argmax]. apply amf_scale; exact Hc. Qed.

Lemma amf_spec xs : forall pre bi bv, (bi < length pre)%nat -> nth bi pre 0 = bv ->
  (forall j, (j < length pre)%nat -> ltb bv (nth j pre 0) = false) ->
  (cv_argmax_from ltb xs (length pre) bi bv < length (pre ++ xs))%nat /\
  forall j, (j < length (pre++xs))%nat ->
    ltb (nth (cv_argmax_from ltb xs (length pre) bi bv) (pre++xs) 0) (nth j (pre++xs) 0) = false.
Proof.
  induction xs as [|x r IH]; intros pre bi bv Hbi Hbv Hmax.
  - cbn [cv_argmax_from]. rewrite app_nil_r. rewrite Hbv. split; assumption.
  - cbn [cv_argmax_from].
    assert (Hlen: length (pre ++ [x]) = S (length pre)) by (rewrite app_length; cbn; lia).
    replace (pre ++ x :: r) with ((pre ++ [x]) ++ r) by (rewrite <- app_assoc; reflexivity).
    destruct (ltb bv x) eqn:E.
    + pose proof (IH (pre ++ [x]) (length pre) x) as IH'. rewrite Hlen in IH'. apply IH'.
      * lia.
      * rewrite app_nth2 by lia. rewrite Nat.sub_diag. reflexivity.
      * intros j Hj. destruct (Nat.lt_ge_cases j (length pre)) as [Hjl|Hjl].
        -- rewrite app_nth1 by lia. destruct (ltb x (nth j pre 0)) eqn:F; [|reflexivity].
           pose proof (lt_trans bv x _ E F) as G. rewrite (Hmax j Hjl) in G. discriminate.
        -- rewrite app_nth2 by lia. replace (j - length pre)%nat with 0%nat by lia. apply lt_irrefl.
    + pose proof (IH (pre ++ [x]) bi bv) as IH'. rewrite Hlen in IH'. apply IH'.
      * lia.
      * rewrite app_nth1 by lia. exact Hbv.
      * intros j Hj. destruct (Nat.lt_ge_cases j (length pre)) as [Hjl|Hjl].
        -- rewrite app_nth1 by lia. apply Hmax; assumption.
        -- rewrite app_nth2 by lia. replace (j - length pre)%nat with 0%nat by lia. exact E.
Qed.
Lemma argmax_spec xs : xs <> [] ->
  (cv_argmax ltb xs < length xs)%nat /\
  forall j, (j < length xs)%nat -> ltb (nth (cv_argmax ltb xs) xs 0) (nth j xs 0) = false.
Proof.
  destruct xs as [|x r]; [congruence|]. intros _. cbn [cv_argmax].
  apply (amf_spec r [x] 0%nat x); cbn; [lia|reflexivity|].
  intros j Hj. replace j with 0%nat by lia. apply lt_irrefl.
Qed.

Lemma cdiv_cancel s z p : n2 s <> 0 -> n2 p <> 0 -> cdiv K (cmul K s z) (cmul K s p) = cdiv K z p.
Proof.
  intros Hs Hp. destruct s as [sr si], z as [zr zi], p as [pr pim].
  unfold cdiv, cmul, cinv, cnorm2, cre, cim in *; cbn [fst snd] in *.
  assert (Hsp: (sr*pr - si*pim)*(sr*pr - si*pim) + (sr*pim+si*pr)*(sr*pim+si*pr) <> 0).
  { replace ((sr*pr - si*pim)*(sr*pr - si*pim) + (sr*pim+si*pr)*(sr*pim+si*pr)) with ((sr*sr+si*si)*(pr*pr+pim*pim)) by ring.
    apply mul_nz; assumption. }
  f_equal; field; split; assumption.
Qed.
Lemma n2_cdiv z p : n2 p <> 0 -> n2 (cdiv K z p) = oinv K (n2 p) * n2 z.
Proof.
  intros Hp. destruct z as [zr zi], p as [pr pim].
  unfold cdiv, cmul, cinv, cnorm2, cre, cim in *; cbn [fst snd] in *. field. exact Hp.
Qed.
Lemma cdiv_self p : n2 p <> 0 -> cdiv K p p = c1 K.
Proof.
  intros Hp. destruct p as [pr pim].
  unfold cdiv, cmul, cinv, cnorm2, c1, cre, cim in *; cbn [fst snd] in *. f_equal; field; exact Hp.
Qed.
Lemma cdiv_zero p : cdiv K (c0 K) p = c0 K.
Proof. destruct p as [pr pim]. unfold cdiv, cmul, cinv, c0, cre, cim; cbn [fst snd]. f_equal; ring. Qed.
Lemma cmul_zero s : cmul K s (c0 K) = c0 K.
Proof. destruct s as [sr si]. unfold cmul, c0, cre, cim; cbn [fst snd]. f_equal; ring. Qed.
Lemma n2_zero : n2 (c0 K) = 0.
Proof. unfold cnorm2, c0, cre, cim; cbn [fst snd]. ring. Qed.
Lemma nth_map_n2 v k : (k < length v)%nat -> nth k (map n2 v) 0 = n2 (nth k v (c0 K)).
Proof. intros Hk. rewrite (nth_indep _ 0 (n2 (c0 K))) by (rewrite map_length; lia). apply map_nth. Qed.

Lemma pivot_scale s v : ltb 0 (n2 s) = true -> cv_pivot K ltb (map (cmul K s) v) = cmul K s (cv_pivot K ltb v).
Proof.
  intros Hs. unfold cv_pivot. rewrite map_map.
  rewrite (map_ext _ (fun z => n2 s * n2 z)) by (intros; apply (cnorm2_mul R K Rth)).
  rewrite <- (map_map n2 (fun x => n2 s * x)). rewrite (argmax_scale _ _ Hs).
  rewrite <- (cmul_zero s) at 1. apply map_nth.
Qed.

(* invariance under multiplication by any non-zero complex scalar *)
Theorem unity_norm_scale s v : n2 s <> 0 -> unorm (map (cmul K s) v) = unorm v.
Proof.
  intros Hs0. pose proof (n2_pos s Hs0) as Hs. unfold cv_unity_norm. rewrite (pivot_scale s v Hs).
  rewrite (cnorm2_mul R K Rth). rewrite (lt_mul_pos0 _ _ Hs).
  destruct (ltb 0 (n2 (cv_pivot K ltb v))) eqn:E; [|reflexivity].
  f_equal. rewrite map_map. apply map_ext. intros z. apply cdiv_cancel; [exact Hs0|apply pos_nz; exact E].
Qed.

(* the largest-magnitude component of the result is exactly 1 and no component has modulus above 1 *)
Theorem unity_norm_unit_max v w : unorm v = Some w ->
  length w = length v /\ cv_pivot K ltb w = c1 K /\ forall z, In z w -> ltb 1 (n2 z) = false.
Proof.
  unfold cv_unity_norm. set (p := cv_pivot K ltb v). destruct (ltb 0 (n2 p)) eqn:E; [|discriminate].
  intros H; injection H as <-. pose proof (pos_nz _ E) as Hp.
  assert (Hinv: ltb 0 (oinv K (n2 p)) = true).
  { rewrite <- (lt_mul_pos0 (n2 p) _ E). replace (n2 p * oinv K (n2 p)) with 1 by (field; exact Hp). apply lt_0_1. }
  assert (Hv: v <> []).
  { intros ->. unfold p, cv_pivot in E. cbn in E. rewrite n2_zero in E. rewrite lt_irrefl in E. discriminate. }
  split; [apply map_length|]. split.
  - unfold cv_pivot. rewrite map_map.
    rewrite (map_ext _ (fun z => oinv K (n2 p) * n2 z)) by (intros; apply n2_cdiv; exact Hp).
    rewrite <- (map_map n2 (fun x => oinv K (n2 p) * x)). rewrite (argmax_scale _ _ Hinv).
    rewrite <- (cdiv_zero p) at 1. rewrite (map_nth (fun z => cdiv K z p)). apply cdiv_self; exact Hp.
  - intros z Hz. apply in_map_iff in Hz. destruct Hz as (y & <- & Hy). rewrite (n2_cdiv y p Hp).
    rewrite <- (lt_mul_pos (n2 p) _ _ E).
    replace (n2 p * 1) with (n2 p) by ring.
    replace (n2 p * (oinv K (n2 p) * n2 y)) with (n2 y) by (field; exact Hp).
    destruct (In_nth _ _ (c0 K) Hy) as (j & Hj & <-).
    assert (Hne: map n2 v <> []) by (destruct v; [congruence|discriminate]).
    destruct (argmax_spec (map n2 v) Hne) as [Hk Hmax]. rewrite map_length in Hk, Hmax.
    specialize (Hmax j Hj). rewrite (nth_map_n2 v _ Hk), (nth_map_n2 v j Hj) in Hmax. exact Hmax.
Qed.

Lemma nth_vperm pi n v j : (j < n)%nat -> nth j (cv_vperm K pi n v) (c0 K) = nth (pi j) v (c0 K).
Proof.
  intros Hj. unfold cv_vperm.
  rewrite (nth_indep _ (c0 K) ((fun i => nth (pi i) v (c0 K)) 0%nat)) by (rewrite map_length, seq_length; lia).
  rewrite (map_nth (fun i => nth (pi i) v (c0 K))). rewrite seq_nth by lia. reflexivity.
Qed.
Lemma vperm_length pi n v : length (cv_vperm K pi n v) = n.
Proof. unfold cv_vperm. rewrite map_length, seq_length. reflexivity. Qed.

(* commutes with channel permutations when the largest modulus is attained once *)
Theorem unity_norm_perm pi v k :
  (forall i, (i < length v)%nat -> (pi i < length v)%nat) ->
  (forall c, (c < length v)%nat -> exists i, (i < length v)%nat /\ pi i = c) ->
  (k < length v)%nat ->
  (forall j, (j < length v)%nat -> j <> k -> ltb (n2 (nth j v (c0 K))) (n2 (nth k v (c0 K))) = true) ->
  unorm (cv_vperm K pi (length v) v) = option_map (cv_vperm K pi (length v)) (unorm v).
Proof.
  intros Hpi Hsurj Hk Huniq. set (n := length v) in *.
  assert (Hne: map n2 v <> []) by (destruct v; [cbn in Hk; lia|discriminate]).
  assert (P1: cv_pivot K ltb v = nth k v (c0 K)).
  { unfold cv_pivot. destruct (argmax_spec (map n2 v) Hne) as [Hk0 Hmax]. rewrite map_length in Hk0, Hmax.
    destruct (Nat.eq_dec (cv_argmax ltb (map n2 v)) k) as [->|Hd]; [reflexivity|].
    specialize (Hmax k Hk). rewrite (nth_map_n2 v _ Hk0), (nth_map_n2 v k Hk) in Hmax.
    rewrite (Huniq _ Hk0 Hd) in Hmax. discriminate. }
  assert (P2: cv_pivot K ltb (cv_vperm K pi n v) = nth k v (c0 K)).
  { unfold cv_pivot. set (v' := cv_vperm K pi n v).
    assert (Hl': length v' = n) by apply vperm_length.
    assert (Hne': map n2 v' <> []) by (destruct v'; [cbn in Hl'; lia|discriminate]).
    destruct (argmax_spec (map n2 v') Hne') as [Hk0 Hmax]. rewrite map_length, Hl' in Hk0, Hmax.
    set (k0 := cv_argmax ltb (map n2 v')) in *.
    unfold v'. rewrite (nth_vperm pi n v k0 Hk0).
    destruct (Nat.eq_dec (pi k0) k) as [->|Hd]; [reflexivity|]. exfalso.
    destruct (Hsurj k Hk) as (i & Hi & Ei). specialize (Hmax i Hi).
    rewrite (nth_map_n2 v' k0), (nth_map_n2 v' i) in Hmax by (rewrite Hl'; assumption).
    unfold v' in Hmax. rewrite (nth_vperm pi n v k0 Hk0), (nth_vperm pi n v i Hi), Ei in Hmax.
    rewrite (Huniq _ (Hpi k0 Hk0) Hd) in Hmax. discriminate. }
  unfold cv_unity_norm. rewrite P1, P2.
  destruct (ltb 0 (n2 (nth k v (c0 K)))) eqn:E; [|reflexivity]. cbn [option_map]. f_equal.
  unfold cv_vperm. rewrite map_map. apply map_ext_in. intros i Hi. apply in_seq in Hi.
  symmetry. rewrite <- (cdiv_zero (nth k v (c0 K))) at 1.
  apply (map_nth (fun z => cdiv K z (nth k v (c0 K)))).
Qed.
End PU.

(* ================= time unit and frequency grids (any field) ================= *)
Section PT.
Variable R:Type. Variable K:Ops R.
Hypothesis Fth : field_theory (o0 K) (o1 K) (oadd K) (omul K) (osub K) (oopp K) (odiv K) (oinv K) (@eq R).
Add Field FfCVt : Fth.
Local Open Scope K_scope.
Notation "0" := (o0 K) : K_scope. Notation "1" := (o1 K) : K_scope.
Infix "+" := (oadd K) : K_scope. Infix "*" := (omul K) : K_scope. Infix "-" := (osub K) : K_scope.
Notation "- x" := (oopp K x) : K_scope. Infix "/" := (odiv K) : K_scope.

(* lam_c = log(lam_d) * (1/dt): replacing dt by dt/k multiplies it by k, whatever the value of the logarithm *)
Theorem lamc_dt_scale logl dt k : dt <> 0 -> k <> 0 -> lamc K logl (dt / k) = cscal K k (lamc K logl dt).
Proof.
  intros Hdt Hk. destruct logl as [a b]. unfold lamc, cscal, cre, cim; cbn [fst snd]. f_equal; field; split; assumption.
Qed.
Theorem mp_w2_scale lam k : mp_w2 K (cscal K k lam) = (k*k) * mp_w2 K lam.
Proof. destruct lam as [a b]. unfold mp_w2, cnorm2, cscal, cre, cim; cbn [fst snd]. ring. Qed.
Theorem mp_xi2_scale lam k : k <> 0 -> cnorm2 K lam <> 0 -> mp_xi2 K (cscal K k lam) = mp_xi2 K lam.
Proof.
  intros Hk Hn. destruct lam as [a b]. unfold mp_xi2, cnorm2, cscal, cre, cim in *; cbn [fst snd] in *.
  assert (Hn': k * a * (k * a) + k * b * (k * b) <> 0).
  { replace (k * a * (k * a) + k * b * (k * b)) with ((k*k) * (a*a+b*b)) by ring.
    intros E. apply Hn. transitivity (oinv K (k*k) * ((k*k) * (a*a+b*b))); [field; exact Hk|]. rewrite E. ring. }
  field. split; assumption.
Qed.
Theorem re_scale lam k : cre (cscal K k lam) = k * cre lam.
Proof. reflexivity. Qed.

Theorem grid_cor_scale fs nx j k : fs <> 0 -> k <> 0 -> nx <> 0 -> grid_cor K (k*fs) nx j = k * grid_cor K fs nx j.
Proof. intros. unfold grid_cor. field. repeat split; try assumption; apply (F_1_neq_0 Fth). Qed.
Theorem grid_per_scale fs nx j k : fs <> 0 -> k <> 0 -> nx <> 0 -> grid_per K (k*fs) nx j = k * grid_per K fs nx j.
Proof. intros. unfold grid_per. field. repeat split; try assumption; apply (F_1_neq_0 Fth). Qed.
Theorem grid_bell_scale fs nx j k : fs <> 0 -> k <> 0 -> nx <> 0 -> 1+1 <> 0 -> grid_bell K (k*fs) nx j = k * grid_bell K fs nx j.
Proof. intros. unfold grid_bell. field. repeat split; try assumption; apply (F_1_neq_0 Fth). Qed.
Theorem grid_lin_scale fs nfm1 j k : fs <> 0 -> k <> 0 -> nfm1 <> 0 -> 1+1 <> 0 -> grid_lin K (k*fs) nfm1 j = k * grid_lin K fs nfm1 j.
Proof. intros. unfold grid_lin. field. repeat split; try assumption; apply (F_1_neq_0 Fth). Qed.
Theorem mp_scale_all lam k :
  mp_w2 K (cscal K k lam) = (k*k) * mp_w2 K lam /\ cre (cscal K k lam) = k * cre lam /\
  (k <> 0 -> cnorm2 K lam <> 0 -> mp_xi2 K (cscal K k lam) = mp_xi2 K lam).
Proof. exact (conj (mp_w2_scale lam k) (conj (re_scale lam k) (mp_xi2_scale lam k))). Qed.
Theorem grid_scale_all fs n j k : fs <> 0 -> k <> 0 -> n <> 0 -> 1+1 <> 0 ->
  grid_cor K (k*fs) n j = k * grid_cor K fs n j /\ grid_per K (k*fs) n j = k * grid_per K fs n j /\
  grid_bell K (k*fs) n j = k * grid_bell K fs n j /\ grid_lin K (k*fs) n j = k * grid_lin K fs n j.
Proof. intros H1 H2 H3 H4.
  exact (conj (grid_cor_scale fs n j k H1 H2 H3) (conj (grid_per_scale fs n j k H1 H2 H3)
        (conj (grid_bell_scale fs n j k H1 H2 H3 H4) (grid_lin_scale fs n j k H1 H2 H3 H4)))). Qed.
(* the argument omega_j * dt of the pLSCF basis functions does not depend on the sampling frequency *)
Theorem basis_arg_fs_free twopi fs nfm1 j k : fs <> 0 -> k <> 0 -> nfm1 <> 0 -> 1+1 <> 0 ->
  basis_arg K twopi (k*fs) nfm1 j = basis_arg K twopi fs nfm1 j.
Proof. intros. unfold basis_arg, grid_lin. field. repeat split; try assumption; apply (F_1_neq_0 Fth). Qed.
End PT.

(* ================= closed instance at Qc (what the correspondence check executes) ================= *)
From Coq Require Import ZArith QArith Qcanon Psatz.
From PyOMA.Base Require Import Argmin.

Lemma Qc_ltb_iff a b : Qc_ltb a b = true <-> (a < b)%Qc.
Proof. unfold Qc_ltb, Qclt. apply (Qlt_bool_iff (this a) (this b)). Qed.
Lemma Qc_ltb_false_iff a b : Qc_ltb a b = false <-> (b <= a)%Qc.
Proof. unfold Qc_ltb, Qcle. apply (Qlt_bool_false_iff (this a) (this b)). Qed.
Lemma Qc_lt_irrefl a : Qc_ltb a a = false.
Proof. apply Qc_ltb_false_iff. apply Qcle_refl. Qed.
Lemma Qc_lt_trans a b c : Qc_ltb a b = true -> Qc_ltb b c = true -> Qc_ltb a c = true.
Proof. rewrite !Qc_ltb_iff. apply Qclt_trans. Qed.
Lemma Qc_lt_tricho a b : Qc_ltb a b = false -> Qc_ltb b a = false -> a = b.
Proof. rewrite !Qc_ltb_false_iff. intros H1 H2. apply Qcle_antisym; assumption. Qed.
Lemma Qc_lt_mul_pos c a b : Qc_ltb (o0 QcOps) c = true -> Qc_ltb (omul QcOps c a) (omul QcOps c b) = Qc_ltb a b.
Proof.
  cbn [o0 omul QcOps]. intros Hc. apply Qc_ltb_iff in Hc.
  destruct (Qc_ltb a b) eqn:E.
  - apply Qc_ltb_iff in E. apply Qc_ltb_iff. rewrite (Qcmult_comm c a), (Qcmult_comm c b).
    apply Qcmult_lt_compat_r; assumption.
  - apply Qc_ltb_false_iff in E. apply Qc_ltb_false_iff. rewrite (Qcmult_comm c a), (Qcmult_comm c b).
    apply Qcmult_le_compat_r; [assumption|]. apply Qclt_le_weak. exact Hc.
Qed.
Lemma Qc_sq_nonneg a b : Qc_ltb (oadd QcOps (omul QcOps a a) (omul QcOps b b)) (o0 QcOps) = false.
Proof.
  cbn [o0 omul oadd QcOps]. apply Qc_ltb_false_iff. unfold Qcle. cbn [this Qcplus Qcmult Q2Qc].
  rewrite !Qred_correct. destruct a as [x Hx], b as [y Hy]. cbn [this]. nra.
Qed.

Ltac qc_ord := first [exact Qc_lt_irrefl|exact Qc_lt_trans|exact Qc_lt_tricho|exact Qc_lt_mul_pos|exact Qc_sq_nonneg|eassumption].
Theorem unity_norm_scale_Qc s v : cnorm2 QcOps s <> 0%Qc -> unity_norm_Qc (map (cmul QcOps s) v) = unity_norm_Qc v.
Proof. intros H. apply (unity_norm_scale Qc QcOps QcFth Qc_ltb); qc_ord. Qed.
Theorem unity_norm_unit_max_Qc v w : unity_norm_Qc v = Some w ->
  length w = length v /\ cv_pivot QcOps Qc_ltb w = c1 QcOps /\ forall z, In z w -> Qc_ltb 1%Qc (cnorm2 QcOps z) = false.
Proof. intros H. apply (unity_norm_unit_max Qc QcOps QcFth Qc_ltb); qc_ord. Qed.
Theorem unity_norm_perm_Qc pi v k :
  (forall i, (i < length v)%nat -> (pi i < length v)%nat) ->
  (forall c, (c < length v)%nat -> exists i, (i < length v)%nat /\ pi i = c) ->
  (k < length v)%nat ->
  (forall j, (j < length v)%nat -> j <> k -> Qc_ltb (cnorm2 QcOps (nth j v (c0 QcOps))) (cnorm2 QcOps (nth k v (c0 QcOps))) = true) ->
  unity_norm_Qc (cv_vperm QcOps pi (length v) v) = option_map (cv_vperm QcOps pi (length v)) (unity_norm_Qc v).
Proof. intros H1 H2 H3 H4. apply (unity_norm_perm Qc QcOps QcFth Qc_ltb) with (k:=k); qc_ord. Qed.

(* ================= the dt map at the reals: fn = |lam_c| / (2 pi), xi = - Re lam_c / |lam_c| ================= *)
From Coq Require Import Reals Lra.
Definition cvROps : Ops R := {| o0:=0%R; o1:=1%R; oadd:=Rplus; omul:=Rmult; osub:=Rminus; oopp:=Ropp; odiv:=Rdiv; oinv:=Rinv |}.
Definition fn_R (lam:Cplx.C R) : R := (sqrt (cnorm2 cvROps lam) / (2 * PI))%R.
Definition xi_R (lam:Cplx.C R) : R := (- cre lam / sqrt (cnorm2 cvROps lam))%R.

Lemma sqrt_n2_scale (k:R) (lam:Cplx.C R) : (0 < k)%R -> sqrt (cnorm2 cvROps (cscal cvROps k lam)) = (k * sqrt (cnorm2 cvROps lam))%R.
Proof.
  intros Hk. destruct lam as [a b]. unfold cnorm2, cscal, cre, cim; cbn [fst snd cvROps omul oadd].
  replace (k * a * (k * a) + k * b * (k * b))%R with ((k*k) * (a*a+b*b))%R by ring.
  rewrite sqrt_mult; [|nra|nra]. rewrite sqrt_square by lra. reflexivity.
Qed.

(* with lam_c = log(lam_d)/dt and the logarithm left uninterpreted: declaring the samples k times faster (dt/k)
   multiplies the continuous pole and the frequency by k and leaves the damping ratio unchanged *)
Theorem ac2mp_dt_scale (logl:Cplx.C R) (dt k:R) : (0 < dt)%R -> (0 < k)%R -> cnorm2 cvROps logl <> 0%R ->
  lamc cvROps logl (dt / k)%R = cscal cvROps k (lamc cvROps logl dt) /\
  fn_R (lamc cvROps logl (dt / k)%R) = (k * fn_R (lamc cvROps logl dt))%R /\
  xi_R (lamc cvROps logl (dt / k)%R) = xi_R (lamc cvROps logl dt).
Proof.
  intros Hdt Hk Hn.
  assert (E: lamc cvROps logl (dt / k)%R = cscal cvROps k (lamc cvROps logl dt)).
  { destruct logl as [a b]. unfold lamc, cscal, cre, cim; cbn [fst snd cvROps omul odiv o1]. f_equal; field; lra. }
  split; [exact E|]. rewrite E. unfold fn_R, xi_R. rewrite (sqrt_n2_scale k _ Hk).
  assert (Hpos: (0 < sqrt (cnorm2 cvROps (lamc cvROps logl dt)))%R).
  { apply sqrt_lt_R0. destruct logl as [a b]. unfold lamc, cnorm2, cscal, cre, cim in *; cbn [fst snd cvROps omul oadd odiv o1] in *.
    assert (H1: (0 < 1/dt)%R) by (apply Rdiv_lt_0_compat; lra).
    replace (1 / dt * a * (1 / dt * a) + 1 / dt * b * (1 / dt * b))%R with ((1/dt)*(1/dt) * (a*a+b*b))%R by ring.
    assert (H0: (0 <= a*a+b*b)%R) by nra.
    assert (H2: (0 < a*a+b*b)%R) by (destruct H0 as [H0|H0]; [exact H0|exfalso; apply Hn; symmetry; exact H0]).
    apply Rmult_lt_0_compat; [apply Rmult_lt_0_compat; exact H1|exact H2]. }
  split.
  - field. pose proof PI_RGT_0. lra.
  - destruct (lamc cvROps logl dt) as [x y]. unfold cscal, cre, cim; cbn [fst snd cvROps omul]. field. lra.
Qed.
