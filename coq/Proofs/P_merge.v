From Coq Require Import List Arith ZArith Lia Bool Ring Field String Permutation.
From PyOMA.Base Require Import Carrier Cplx.
From PyOMA.Model Require Import M_merge.
Import ListNotations.

Lemma drop_at_map {A B} (f:A->B) l idx pos : drop_at (map f l) idx pos = map f (drop_at l idx pos).
Proof. revert pos; induction l as [|x t IH]; intros pos; cbn; [reflexivity|].
  destruct (existsb (Nat.eqb pos) idx); cbn; rewrite IH; reflexivity. Qed.

Lemma pick_map_in {A B} (f:A->B) (d:B) (d':A) l idx :
  (forall i, In i idx -> (i < List.length l)%nat) -> pick d (map f l) idx = map f (pick d' l idx).
Proof.
  intros Hr. unfold pick. rewrite map_map. apply map_ext_in. intros i Hi.
  rewrite nth_indep with (d':= f d') by (rewrite map_length; auto). apply map_nth.
Qed.

Lemma drop_at_length_le {A} (l:list A) idx pos : (List.length (drop_at l idx pos) <= List.length l)%nat.
Proof. revert pos; induction l as [|x t IH]; intros pos; cbn; [lia|].
  destruct (existsb (Nat.eqb pos) idx); cbn; specialize (IH (S pos)); lia. Qed.

Section P.
Variable R:Type. Variable K:Ops R.
Hypothesis Fth : field_theory (o0 K) (o1 K) (oadd K) (omul K) (osub K) (oopp K) (odiv K) (oinv K) (@eq R).
Add Field FfM : Fth.
Local Open Scope K_scope.
Notation "0" := (o0 K) : K_scope. Notation "1" := (o1 K) : K_scope.
Infix "+" := (oadd K) : K_scope. Infix "*" := (omul K) : K_scope. Infix "-" := (osub K) : K_scope.
Infix "/" := (odiv K) : K_scope.
Notation C := (C R).

Lemma cdotl_rscale a b (u v:list C) : cdotl K (rscale K a u) (rscale K b v) = cscal K (a*b) (cdotl K u v).
Proof.
  unfold rscale. revert v; induction u as [|x u IH]; intros [|y v]; cbn [map cdotl];
    try (apply c_eq; cbn; ring).
  rewrite IH. destruct x as [xr xi], y as [yr yi]. destruct (cdotl K u v) as [dr di].
  apply c_eq; cbn; ring.
Qed.

Lemma mul_neq0 x y : x <> 0 -> y <> 0 -> x * y <> 0.
Proof.
  intros Hx Hy E. apply Hy.
  transitivity ((oinv K x * x) * y); [|transitivity (oinv K x * (x * y)); [ring| rewrite E; ring]].
  destruct Fth as [_ _ _ Finv]. rewrite (Finv x Hx). ring.
Qed.

Lemma cre_div_scaled a b (D:C) : b <> 0 -> cnorm2 K D <> 0 -> cre (cdiv K (cscal K a D) (cscal K b D)) = a / b.
Proof.
  intros Hb Hn. destruct D as [u v]. unfold cnorm2 in Hn. cbn [cre cim fst snd] in Hn.
  unfold cdiv, cinv, cmul, cscal, cnorm2, cre, cim; cbn [fst snd].
  field. split; [exact Hb|].
  replace (b * u * (b * u) + b * v * (b * v)) with ((b*b) * (u*u+v*v)) by ring.
  apply mul_neq0; [apply mul_neq0; exact Hb | exact Hn].
Qed.

(* the real factor taking c_i g to c_0 g is c_0/c_i, whenever g^T g (complex, un-conjugated) is non-zero *)
Lemma msf_scaled ci c0' (g:list C) :
  ci <> 0 -> cnorm2 K (cdotl K g g) <> 0 ->
  msf K (rscale K ci g) (rscale K c0' g) = c0' / ci.
Proof.
  intros Hc Hn. unfold msf. rewrite !cdotl_rscale.
  rewrite cre_div_scaled; [field; exact Hc | apply mul_neq0; exact Hc | exact Hn].
Qed.

(* global shape g : sensor id -> C ; a setup observes the sensors [sens] scaled by a real factor c *)
Variable g : nat -> C.
Definition obs (c:R) (sens:list nat) : list C := map (fun s => cscal K c (g s)) sens.

Lemma obs_rscale c sens : obs c sens = rscale K c (map g sens).
Proof. unfold obs, rscale. rewrite map_map. reflexivity. Qed.

Lemma cscal_cscal a b (z:C) : cscal K a (cscal K b z) = cscal K (a*b) z.
Proof. apply c_eq; cbn; ring. Qed.

Theorem merge_recovers_global (c0':R) (s0:list nat) (rf0:list nat) (rest:list (R * list nat * list nat)) :
  let refS := pick 0%nat s0 rf0 in
  (forall c s rf, In (c,s,rf) rest -> c <> 0 /\ pick 0%nat s rf = refS) ->
  c0' <> 0 ->
  cnorm2 K (cdotl K (map g refS) (map g refS)) <> 0 ->
  (forall i, In i rf0 -> (i < List.length s0)%nat) ->
  (forall c s rf, In (c,s,rf) rest -> forall i, In i rf -> (i < List.length s)%nat) ->
  merge_col K (obs c0' s0) rf0 (map (fun t => (obs (fst (fst t)) (snd (fst t)), snd t)) rest)
  = obs c0' (refS ++ drop_at s0 rf0 0%nat ++ List.concat (map (fun t => drop_at (snd (fst t)) (snd t) 0%nat) rest)).
Proof.
  intros refS Hrest Hc0 Hgg Hin0 Hin.
  unfold merge_col, obs.
  rewrite (pick_map_in (fun s1 => cscal K c0' (g s1)) (c0 K) 0%nat s0 rf0 Hin0). fold refS.
  rewrite !map_app. f_equal. rewrite drop_at_map. f_equal.
  rewrite concat_map, !map_map. f_equal. apply map_ext_in. intros [[c s] rf] Ht. cbn [fst snd].
  destruct (Hrest c s rf Ht) as [Hc Href].
  rewrite (pick_map_in (fun s1 => cscal K c (g s1)) (c0 K) 0%nat s rf (Hin c s rf Ht)). rewrite Href.
  rewrite drop_at_map. unfold rscale at 1. rewrite map_map. apply map_ext. intros v.
  replace (map (fun s1 => cscal K c0' (g s1)) refS) with (rscale K c0' (map g refS)) by (unfold rscale; rewrite map_map; reflexivity).
  replace (map (fun s1 => cscal K c (g s1)) refS) with (rscale K c (map g refS)) by (unfold rscale; rewrite map_map; reflexivity).
  rewrite msf_scaled by assumption. rewrite cscal_cscal. f_equal. field. exact Hc.
Qed.

End P.

Section P2.
Variable R:Type. Variable K:Ops R.
Hypothesis Fth : field_theory (o0 K) (o1 K) (oadd K) (omul K) (osub K) (oopp K) (odiv K) (oinv K) (@eq R).
Notation C := (C R).

(* every mode k has its own global shape g_k, its own factor c_0k for the first setup and c_ik for the others *)
Definition mode_spec := ((nat -> C) * R * list R)%type.
Definition mode_cols (s0:list nat) (others:list (list nat * list nat)) (m:mode_spec) : list C * list (list C) :=
  let '(gk, c0k, cs) := m in
  (obs R K gk c0k s0, map (fun cs_sr => obs R K gk (fst cs_sr) (fst (snd cs_sr))) (combine cs others)).
Definition merged_order (s0 rf0:list nat) (others:list (list nat * list nat)) : list nat :=
  pick 0%nat s0 rf0 ++ drop_at s0 rf0 0%nat ++ List.concat (map (fun sr => drop_at (fst sr) (snd sr) 0%nat) others).

Lemma combine_map_snd {A B D} (f:A*(B*D)->list C) (cs:list A) (others:list (B*D)) :
  List.length cs = List.length others ->
  combine (map f (combine cs others)) (map snd others)
  = map (fun t => (f t, snd (snd t))) (combine cs others).
Proof.
  revert others; induction cs as [|c cs IH]; intros [|o others] Hl; cbn in *; try reflexivity; try discriminate.
  rewrite IH by lia. reflexivity.
Qed.

Theorem merge_modes_recover (s0 rf0:list nat) (others:list (list nat * list nat)) (modes:list mode_spec) :
  let refS := pick 0%nat s0 rf0 in
  (forall i, In i rf0 -> (i < List.length s0)%nat) ->
  (forall s rf, In (s,rf) others -> pick 0%nat s rf = refS /\ forall i, In i rf -> (i < List.length s)%nat) ->
  (forall gk c0k cs, In (gk,c0k,cs) modes ->
       c0k <> o0 K /\ List.length cs = List.length others /\ (forall c, In c cs -> c <> o0 K) /\
       cnorm2 K (cdotl K (map gk refS) (map gk refS)) <> o0 K) ->
  merge_modes K rf0 (map snd others) (map (mode_cols s0 others) modes)
  = map (fun m => obs R K (fst (fst m)) (snd (fst m)) (merged_order s0 rf0 others)) modes.
Proof.
  intros refS Hin0 Hoth Hmodes. unfold merge_modes. rewrite map_map. apply map_ext_in.
  intros [[gk c0k] cs] Hm. destruct (Hmodes gk c0k cs Hm) as (Hc0 & Hlen & Hcs & Hgg).
  unfold mode_cols. cbn [fst snd].
  rewrite (combine_map_snd (fun cs_sr => obs R K gk (fst cs_sr) (fst (snd cs_sr))) cs others Hlen).
  set (rest := map (fun t : R * (list nat * list nat) => (fst t, fst (snd t), snd (snd t))) (combine cs others)).
  replace (map (fun t : R * (list nat * list nat) => (obs R K gk (fst t) (fst (snd t)), snd (snd t))) (combine cs others))
    with (map (fun t : R * list nat * list nat => (obs R K gk (fst (fst t)) (snd (fst t)), snd t)) rest)
    by (unfold rest; rewrite map_map; reflexivity).
  rewrite (merge_recovers_global R K Fth gk c0k s0 rf0 rest).
  - unfold merged_order. fold refS. do 3 f_equal. unfold rest. rewrite map_map.
    clear - Hlen. revert others Hlen. induction cs as [|c cs IH]; intros [|o others] Hl; cbn in *; try reflexivity; try discriminate.
    rewrite IH by lia. reflexivity.
  - intros c s rf Hi. unfold rest in Hi. apply in_map_iff in Hi. destruct Hi as ([c' [s' rf']] & E & Hi). cbn in E. inversion E; subst.
    split; [apply Hcs; eapply in_combine_l; exact Hi | apply (Hoth s rf); eapply in_combine_r; exact Hi].
  - exact Hc0.
  - exact Hgg.
  - exact Hin0.
  - intros c s rf Hi. unfold rest in Hi. apply in_map_iff in Hi. destruct Hi as ([c' [s' rf']] & E & Hi). cbn in E. inversion E; subst.
    apply (Hoth s rf); eapply in_combine_r; exact Hi.
Qed.

(* sensor names are flattened in the same order *)
Theorem flatten_matches_merge (nm:nat -> string) (s0 rf0:list nat) (others:list (list nat * list nat)) :
  flatten_multi (map (fun sr => map nm (fst sr)) ((s0,rf0)::others)) (Some (map snd ((s0,rf0)::others)))
  = FlatOk (ref_names (List.length rf0) ++ map nm (drop_at s0 rf0 0%nat ++ List.concat (map (fun sr => drop_at (fst sr) (snd sr) 0%nat) others))).
Proof.
  unfold flatten_multi. cbn [map hd fst snd combine List.concat]. f_equal. f_equal.
  rewrite map_app, drop_at_map. f_equal.
  induction others as [|[s rf] others IH]; cbn [map combine List.concat fst snd]; [reflexivity|].
  rewrite map_app, drop_at_map, IH. reflexivity.
Qed.
Lemma merged_order_length s0 rf0 others :
  List.length (merged_order s0 rf0 others)
  = (List.length rf0 + List.length (drop_at s0 rf0 0%nat ++ List.concat (map (fun sr => drop_at (fst sr) (snd sr) 0%nat) others)))%nat.
Proof. unfold merged_order, pick. rewrite app_length, map_length. reflexivity. Qed.

(* statistics: results that agree in every setup have that mean and zero dispersion *)
Add Field FfM2 : Fth.
Local Open Scope K_scope.
Infix "+" := (oadd K) : K_scope. Infix "*" := (omul K) : K_scope. Infix "-" := (osub K) : K_scope. Infix "/" := (odiv K) : K_scope.
Lemma rsum_const x (l:list R) : (forall y, In y l -> y = x) -> rsum K l = x * rsum K (map (fun _ => o1 K) l).
Proof. induction l as [|a l IH]; cbn [rsum map]; intros H; [ring|]. rewrite IH by (intros; apply H; right; assumption).
  rewrite (H a) by (left; reflexivity). ring. Qed.
Lemma rsum_zero (f:R->R) (l:list R) : (forall y, In y l -> f y = o0 K) -> rsum K (map f l) = o0 K.
Proof. induction l as [|a l IH]; cbn [rsum map]; intros H; [reflexivity|]. rewrite IH by (intros; apply H; right; assumption).
  rewrite (H a) by (left; reflexivity). ring. Qed.
Theorem mean_var_const (x n:R) (l:list R) :
  n <> o0 K -> rsum K (map (fun _ => o1 K) l) = n -> (forall y, In y l -> y = x) ->
  mean K n l = x /\ pvar K n l = o0 K.
Proof.
  intros Hn Hcount Hall.
  assert (Hm: mean K n l = x) by (unfold mean; rewrite (rsum_const x l Hall), Hcount; field; exact Hn).
  split; [exact Hm|]. unfold pvar. rewrite Hm.
  rewrite rsum_zero; [field; exact Hn|]. intros y Hy. rewrite (Hall y Hy). ring.
Qed.
End P2.

(* ---------- counting: np.delete removes exactly len(idx) rows when idx has no repeats and is in range ---------- *)
Lemma drop_at_filter {A} (l:list A) idx pos :
  List.length (drop_at l idx pos) = List.length (filter (fun p => negb (existsb (Nat.eqb p) idx)) (seq pos (List.length l))).
Proof. revert pos; induction l as [|x t IH]; intros pos; cbn [drop_at List.length seq filter]; [reflexivity|].
  destruct (existsb (Nat.eqb pos) idx); cbn [negb List.length]; rewrite IH; reflexivity. Qed.

Lemma filter_split_length {A} (f:A->bool) l :
  (List.length (filter f l) + List.length (filter (fun x => negb (f x)) l) = List.length l)%nat.
Proof. induction l as [|a l IH]; cbn [filter List.length]; [reflexivity|]. destruct (f a); cbn [negb List.length]; lia. Qed.

Lemma existsb_eqb_In p idx : existsb (Nat.eqb p) idx = true <-> In p idx.
Proof. rewrite existsb_exists. split.
  - intros (x & Hx & E). apply Nat.eqb_eq in E. subst; exact Hx.
  - intros H. exists p. split; [exact H| apply Nat.eqb_refl]. Qed.

Lemma drop_at_count {A} (l:list A) idx :
  NoDup idx -> (forall i, In i idx -> (i < List.length l)%nat) ->
  (List.length (drop_at l idx 0) + List.length idx = List.length l)%nat.
Proof.
  intros Hnd Hr. rewrite drop_at_filter.
  pose proof (filter_split_length (fun p => existsb (Nat.eqb p) idx) (seq 0 (List.length l))) as Hs.
  rewrite seq_length in Hs.
  assert (Hp: List.length (filter (fun p => existsb (Nat.eqb p) idx) (seq 0 (List.length l))) = List.length idx).
  { apply Permutation_length. apply NoDup_Permutation.
    - apply NoDup_filter. apply seq_NoDup.
    - exact Hnd.
    - intros x. rewrite filter_In, in_seq, existsb_eqb_In. split; [tauto|].
      intros H. split; [specialize (Hr x H); lia|exact H]. }
  lia.
Qed.

Lemma combine_map_map {A B D} (f:A->B) (h:A->D) (l:list A) : combine (map f l) (map h l) = map (fun x => (f x, h x)) l.
Proof. induction l as [|a l IH]; cbn [map combine]; [reflexivity|]. rewrite IH. reflexivity. Qed.

Lemma concat_len {A} (l:list (list A)) : List.length (List.concat l) = list_sum (map (@List.length A) l).
Proof. induction l as [|a l IH]; cbn [List.concat map list_sum]; [reflexivity|]. rewrite app_length, IH. reflexivity. Qed.

Lemma list_sum_cons a l : list_sum (a::l) = (a + list_sum l)%nat.
Proof. reflexivity. Qed.

Lemma pick_length {A} (d:A) l idx : List.length (pick d l idx) = List.length idx.
Proof. unfold pick. apply map_length. Qed.

Lemma tab2_ext {A} m n (f h:nat->nat->A) :
  (forall i j, (i<m)%nat -> (j<n)%nat -> f i j = h i j) -> tab2 m n f = tab2 m n h.
Proof. intros H. unfold tab2, tab. apply map_ext_in. intros i Hi. apply in_seq in Hi.
  apply map_ext_in. intros j Hj. apply in_seq in Hj. apply H; lia. Qed.

Lemma nth_map_seq {A} (f:nat->A) n k d : (k<n)%nat -> nth k (map f (seq 0 n)) d = f k.
Proof. intros Hk. rewrite nth_indep with (d':= f 0%nat) by (rewrite map_length, seq_length; exact Hk).
  rewrite map_nth, seq_nth by exact Hk. reflexivity. Qed.

Lemma nth_map_in {A B} (f:A->B) l k d d' : (k < List.length l)%nat -> nth k (map f l) d = f (nth k l d').
Proof. intros Hk. rewrite nth_indep with (d':= f d') by (rewrite map_length; exact Hk). apply map_nth. Qed.

(* ---------- the function as called: tables in, table out ---------- *)
Section P3.
Variable R:Type. Variable K:Ops R.
Hypothesis Fth : field_theory (o0 K) (o1 K) (oadd K) (omul K) (osub K) (oopp K) (odiv K) (oinv K) (@eq R).
Notation C := (C R).

(* a setup observing the sensors [sens] of the global table G (sensor, mode), mode k scaled by the real factor cf k *)
Definition obs_mat (G:nat->nat->C) (cf:nat->R) (nm:nat) (sens:list nat) : list (list C) :=
  map (fun s => map (fun k => cscal K (cf k) (G s k)) (seq 0 nm)) sens.
Definition setup_spec := ((nat -> R) * list nat * list nat)%type.   (* factors per mode, sensors, reference positions *)
Definition order_of (s0 rf0:list nat) (others:list setup_spec) : list nat :=
  pick 0%nat s0 rf0 ++ drop_at s0 rf0 0%nat ++ List.concat (map (fun t => drop_at (snd (fst t)) (snd t) 0%nat) others).

Lemma obs_mat_length G cf nm sens : List.length (obs_mat G cf nm sens) = List.length sens.
Proof. unfold obs_mat. apply map_length. Qed.

Lemma colk_obs_mat G cf nm sens k : (k < nm)%nat -> colk K k (obs_mat G cf nm sens) = obs R K (fun s => G s k) (cf k) sens.
Proof. intros Hk. unfold colk, obs_mat, obs. rewrite map_map. apply map_ext. intros s.
  apply (nth_map_seq (fun k0 => cscal K (cf k0) (G s k0)) nm k (c0 K) Hk). Qed.

Lemma nmodes_obs_mat G cf nm sens : sens <> [] -> nmodes (obs_mat G cf nm sens) = nm.
Proof. destruct sens as [|a t]; [congruence|]. intros _. unfold nmodes, obs_mat. cbn [map hd].
  rewrite map_length, seq_length. reflexivity. Qed.

Lemma drop_obs_mat_length G cf nm sens rf : List.length (drop_at (obs_mat G cf nm sens) rf 0) = List.length (drop_at sens rf 0).
Proof. unfold obs_mat. rewrite drop_at_map, map_length. reflexivity. Qed.

Section Spec.
Variable G : nat -> nat -> C.
Variable nm : nat.
Variable cf0 : nat -> R.
Variables s0 rf0 : list nat.
Variable others : list setup_spec.
Let refS := pick 0%nat s0 rf0.
Let order := order_of s0 rf0 others.
Let Ms := map (fun t:setup_spec => obs_mat G (fst (fst t)) nm (snd (fst t))) others.
Let rfs := map (fun t:setup_spec => snd t) others.
Hypothesis Hne : rf0 <> [].
Hypothesis Hnd0 : NoDup rf0.
Hypothesis Hin0 : forall i, In i rf0 -> (i < List.length s0)%nat.
Hypothesis Hoth : forall cf s rf, In (cf,s,rf) others ->
  pick 0%nat s rf = refS /\ NoDup rf /\ forall i, In i rf -> (i < List.length s)%nat.
Hypothesis Hmodes : forall k, (k < nm)%nat ->
  cf0 k <> o0 K /\ (forall cf s rf, In (cf,s,rf) others -> cf k <> o0 K) /\
  cnorm2 K (cdotl K (map (fun s => G s k) refS) (map (fun s => G s k) refS)) <> o0 K.

Lemma s0_nonempty : s0 <> [].
Proof. destruct rf0 as [|i r]; [congruence|]. intros E. specialize (Hin0 i (or_introl eq_refl)). rewrite E in Hin0. cbn in Hin0. lia. Qed.

Lemma other_facts t : In t others ->
  List.length (snd t) = List.length rf0 /\ snd (fst t) <> [] /\ NoDup (snd t) /\ (forall i, In i (snd t) -> (i < List.length (snd (fst t)))%nat).
Proof.
  destruct t as [[cf s] rf]. intros Ht. cbn [fst snd]. destruct (Hoth cf s rf Ht) as (Hp & Hnd & Hr).
  assert (Hl: List.length rf = List.length rf0).
  { rewrite <- (pick_length 0%nat s rf), Hp. unfold refS. apply pick_length. }
  repeat split; try assumption.
  destruct rf as [|i r]; [destruct rf0; [congruence|discriminate]|].
  intros E. specialize (Hr i (or_introl eq_refl)). rewrite E in Hr. cbn in Hr. lia.
Qed.

Lemma same_modes_ok : same_modes nm Ms = true.
Proof. unfold same_modes, Ms. apply forallb_forall. intros M HM. apply in_map_iff in HM. destruct HM as (t & <- & Ht).
  rewrite nmodes_obs_mat by (apply (other_facts t Ht)). apply Nat.eqb_refl. Qed.

Lemma refs_in_range_ok : refs_in_range (obs_mat G cf0 nm s0 :: Ms) (rf0 :: rfs) = true.
Proof.
  unfold refs_in_range. cbn [combine forallb fst snd]. apply andb_true_intro. split.
  - apply forallb_forall. intros i Hi. apply Nat.ltb_lt. rewrite obs_mat_length. apply Hin0; exact Hi.
  - unfold Ms, rfs. rewrite combine_map_map. apply forallb_forall. intros Mr HM. apply in_map_iff in HM.
    destruct HM as (t & <- & Ht). cbn [fst snd]. apply forallb_forall. intros i Hi. apply Nat.ltb_lt.
    rewrite obs_mat_length. apply (other_facts t Ht); exact Hi.
Qed.

Lemma merge_cols_ok :
  merge_cols K (obs_mat G cf0 nm s0) Ms rf0 rfs nm = map (fun k => obs R K (fun s => G s k) (cf0 k) order) (seq 0 nm).
Proof.
  unfold merge_cols, merge_modes. rewrite map_map. apply map_ext_in. intros k Hk. apply in_seq in Hk. cbn [fst snd].
  assert (Hk' : (k < nm)%nat) by lia. destruct (Hmodes k Hk') as (Hc0 & Hcs & Hgg).
  rewrite (colk_obs_mat G cf0 nm s0 k Hk').
  unfold Ms, rfs. rewrite map_map, combine_map_map.
  set (rest := map (fun t:setup_spec => (fst (fst t) k, snd (fst t), snd t)) others).
  replace (map (fun x : setup_spec => (colk K k (obs_mat G (fst (fst x)) nm (snd (fst x))), snd x)) others)
    with (map (fun t : R * list nat * list nat => (obs R K (fun s => G s k) (fst (fst t)) (snd (fst t)), snd t)) rest).
  2:{ unfold rest. rewrite map_map. apply map_ext. intros t. cbn [fst snd]. rewrite (colk_obs_mat _ _ _ _ k Hk'). reflexivity. }
  rewrite (merge_recovers_global R K Fth (fun s => G s k) (cf0 k) s0 rf0 rest).
  - unfold order, order_of. do 3 f_equal. unfold rest. rewrite map_map. reflexivity.
  - intros c s rf Hi. unfold rest in Hi. apply in_map_iff in Hi. destruct Hi as ([[cf s'] rf'] & E & Hi). cbn [fst snd] in E.
    inversion E; subst. split; [apply (Hcs cf s rf Hi) | apply (Hoth cf s rf Hi)].
  - exact Hc0.
  - exact Hgg.
  - exact Hin0.
  - intros c s rf Hi. unfold rest in Hi. apply in_map_iff in Hi. destruct Hi as ([[cf s'] rf'] & E & Hi). cbn [fst snd] in E.
    inversion E; subst. apply (Hoth cf s rf Hi).
Qed.

Lemma rows_act_ok : (List.length rf0 + rows_act (obs_mat G cf0 nm s0 :: Ms) (rf0 :: rfs))%nat = List.length order.
Proof.
  unfold rows_act, order, order_of. cbn [combine map fst snd]. rewrite list_sum_cons.
  rewrite !app_length, pick_length, concat_len, drop_obs_mat_length. do 2 f_equal.
  unfold Ms, rfs. rewrite combine_map_map, !map_map. f_equal. apply map_ext. intros t. cbn [fst snd].
  apply drop_obs_mat_length.
Qed.

Lemma rows_code_ok : rows_code (List.length rf0) (obs_mat G cf0 nm s0 :: Ms) = Z.of_nat (List.length order).
Proof.
  rewrite <- rows_act_ok. unfold rows_code, rows_act, zsum. cbn [combine map fold_right fst snd]. rewrite list_sum_cons.
  rewrite obs_mat_length, drop_obs_mat_length.
  pose proof (drop_at_count s0 rf0 Hnd0 Hin0) as H0.
  assert (Hrest : fold_right Z.add 0%Z (map (fun M : list (list C) => (Z.of_nat (List.length M) - Z.of_nat (List.length rf0))%Z) Ms)
                  = Z.of_nat (list_sum (map (fun Mr : list (list C) * list nat => List.length (drop_at (fst Mr) (snd Mr) 0)) (combine Ms rfs)))).
  { unfold Ms, rfs. rewrite combine_map_map, !map_map. cbn [fst snd].
    pose proof other_facts as Hf. clear - Hf. induction others as [|t l IH]; cbn [map fold_right]; [reflexivity|].
    rewrite list_sum_cons, IH by (intros t' Ht'; apply Hf; right; exact Ht').
    destruct (Hf t (or_introl eq_refl)) as (Hl & _ & Hnd & Hr).
    rewrite obs_mat_length, drop_obs_mat_length.
    pose proof (drop_at_count (snd (fst t)) (snd t) Hnd Hr) as Hc. lia. }
  rewrite Hrest. lia.
Qed.

Theorem merge_mode_shapes_spec :
  merge_mode_shapes K (obs_mat G cf0 nm s0 :: Ms) (rf0 :: rfs)
  = MergeOk (tab2 (List.length order) nm (fun r k => cscal K (cf0 k) (G (nth r order 0%nat) k))).
Proof.
  unfold merge_mode_shapes. rewrite (nmodes_obs_mat G cf0 nm s0 s0_nonempty).
  rewrite same_modes_ok. cbn [negb].
  replace (Nat.leb (List.length Ms) (List.length rfs)) with true
    by (unfold Ms, rfs; rewrite !map_length; symmetry; apply Nat.leb_refl).
  cbn [negb]. rewrite refs_in_range_ok. cbn [negb]. cbv zeta.
  rewrite rows_act_ok, rows_code_ok, Z.eqb_refl, merge_cols_ok. f_equal.
  apply tab2_ext. intros r k Hr Hk.
  rewrite (nth_map_seq (fun k0 => obs R K (fun s => G s k0) (cf0 k0) order) nm k [] Hk).
  unfold obs. rewrite (nth_map_in (fun s => cscal K (cf0 k) (G s k)) order r (c0 K) 0%nat Hr). reflexivity.
Qed.
End Spec.
End P3.

(* ---------- merged frequencies / damping: arithmetic mean, population variance, dispersion = std/mean ---------- *)
Section P4.
Variable R:Type. Variable K:Ops R.
Hypothesis Fth : field_theory (o0 K) (o1 K) (oadd K) (omul K) (osub K) (oopp K) (odiv K) (oinv K) (@eq R).
Add Field FfM4 : Fth.
Local Open Scope K_scope.
Notation "0" := (o0 K) : K_scope. Notation "1" := (o1 K) : K_scope.
Infix "+" := (oadd K) : K_scope. Infix "*" := (omul K) : K_scope. Infix "-" := (osub K) : K_scope. Infix "/" := (odiv K) : K_scope.

Definition sqdev (m:R) (l:list R) : list R := map (fun x => (x - m) * (x - m)) l.
(* what np.std(..., ddof=1)**2 would be: the same sum of squares over n - 1 *)
Definition svar (n:R) (l:list R) : R := rsum K (sqdev (mean K n l) l) / (n - 1).

Lemma mean_spec n l : n <> 0 -> n * mean K n l = rsum K l.
Proof. intros Hn. unfold mean. field. exact Hn. Qed.

Lemma pvar_spec n l : n <> 0 -> n * pvar K n l = rsum K (sqdev (mean K n l) l).
Proof. intros Hn. unfold pvar, sqdev. cbv zeta. field. exact Hn. Qed.

Lemma cov2_spec n l : mean K n l <> 0 -> cov2 K n l * (mean K n l * mean K n l) = pvar K n l.
Proof. intros Hm. unfold cov2. field. exact Hm. Qed.

Lemma sqdev_expand m l :
  rsum K (sqdev m l) = rsum K (map (fun x => x * x) l) - (1+1) * m * rsum K l + m * m * ofnat K (List.length l).
Proof. unfold sqdev, ofnat. induction l as [|a l IH]; cbn [map rsum List.length repeat]; [ring|]. rewrite IH. ring. Qed.

(* Koenig-Huygens form: mean of squares minus square of mean *)
Lemma pvar_alt l : let n := ofnat K (List.length l) in
  n <> 0 -> pvar K n l = rsum K (map (fun x => x * x) l) / n - mean K n l * mean K n l.
Proof.
  intros n Hn. unfold pvar. cbv zeta. change (map (fun x => (x - mean K n l) * (x - mean K n l)) l) with (sqdev (mean K n l) l).
  rewrite sqdev_expand. fold n. unfold mean. field. exact Hn.
Qed.

(* the population variance is NOT the ddof=1 estimate, unless the values do not vary at all *)
Lemma pvar_not_sample n l : n <> 0 -> n - 1 <> 0 -> pvar K n l <> 0 -> svar n l <> pvar K n l.
Proof.
  intros Hn Hn1 Hp E. apply Hp. unfold svar in E. unfold pvar in *. cbv zeta in *.
  change (map (fun x => (x - mean K n l) * (x - mean K n l)) l) with (sqdev (mean K n l) l) in *.
  set (S := rsum K (sqdev (mean K n l) l)) in *.
  assert (H1: S = (n - 1) * (S / (n - 1))) by (field; exact Hn1).
  assert (H2: S = n * (S / n)) by (field; exact Hn).
  rewrite E in H1.
  transitivity (n * (S / n) - (n - 1) * (S / n)); [ring|]. rewrite <- H1, <- H2. ring.
Qed.

Theorem poser_stats_spec (rows:list (list R)) (k:nat) :
  let n := ofnat K (List.length rows) in
  let col := map (fun r => nth k r 0) rows in
  let mc := nth k (poser_stats K rows) (0, 0) in
  (k < List.length (hd [] rows))%nat -> n <> 0 ->
  n * fst mc = rsum K col /\
  n * pvar K n col = rsum K (sqdev (fst mc) col) /\
  pvar K n col = rsum K (map (fun x => x * x) col) / n - fst mc * fst mc /\
  (fst mc <> 0 -> snd mc * (fst mc * fst mc) = pvar K n col) /\
  (n - 1 <> 0 -> pvar K n col <> 0 -> svar n col <> pvar K n col).
Proof.
  intros n col mc Hk Hn.
  assert (Emc : mc = (mean K n col, cov2 K n col)).
  { unfold mc, poser_stats. cbv zeta.
    rewrite (nth_map_seq (fun k0 => (mean K (ofnat K (List.length rows)) (map (fun r => nth k0 r 0) rows),
                                     cov2 K (ofnat K (List.length rows)) (map (fun r => nth k0 r 0) rows)))
                         (List.length (hd [] rows)) k (0,0) Hk). reflexivity. }
  rewrite Emc. cbn [fst snd].
  assert (Hlen : n = ofnat K (List.length col)) by (unfold n, col; rewrite map_length; reflexivity).
  repeat split.
  - apply mean_spec; exact Hn.
  - apply pvar_spec; exact Hn.
  - rewrite Hlen. apply pvar_alt. rewrite <- Hlen. exact Hn.
  - apply cov2_spec.
  - apply pvar_not_sample; exact Hn.
Qed.
End P4.

(* ---------- names follow the merged rows ---------- *)
Lemma ref_names_length k : List.length (ref_names k) = k.
Proof. unfold ref_names. rewrite map_length, seq_length. reflexivity. Qed.

Lemma order_of_merged_order R s0 rf0 (others:list (setup_spec R)) :
  order_of R s0 rf0 others = merged_order s0 rf0 (map (fun t : setup_spec R => (snd (fst t), snd t)) others).
Proof. unfold order_of, merged_order. rewrite map_map. reflexivity. Qed.

Theorem names_follow_rows (nm:nat -> string) (s0 rf0:list nat) (others:list (list nat * list nat)) (row:nat) :
  let order := merged_order s0 rf0 others in
  let names := (ref_names (List.length rf0) ++
                map nm (drop_at s0 rf0 0%nat ++ List.concat (map (fun sr => drop_at (fst sr) (snd sr) 0%nat) others)))%list in
  flatten_multi (map (fun sr => map nm (fst sr)) ((s0,rf0)::others)) (Some (map snd ((s0,rf0)::others))) = FlatOk names /\
  List.length names = List.length order /\
  ((row < List.length rf0)%nat -> nth row names EmptyString = ("REF" ++ nat_str (S row))%string) /\
  ((List.length rf0 <= row < List.length order)%nat -> nth row names EmptyString = nm (nth row order 0%nat)).
Proof.
  intros order names. split; [apply flatten_matches_merge|].
  assert (Hlen : List.length names = List.length order).
  { unfold names, order, merged_order. rewrite !app_length, ref_names_length, pick_length, map_length, app_length. reflexivity. }
  split; [exact Hlen|]. split.
  - intros Hr. unfold names. rewrite app_nth1 by (rewrite ref_names_length; exact Hr).
    unfold ref_names. apply (nth_map_seq (fun i => ("REF" ++ nat_str (S i))%string) (List.length rf0) row EmptyString Hr).
  - intros [Hlo Hhi]. unfold names, order, merged_order in *.
    rewrite app_nth2 by (rewrite ref_names_length; exact Hlo). rewrite ref_names_length.
    rewrite (app_nth2 (pick 0%nat s0 rf0)) by (rewrite pick_length; exact Hlo). rewrite pick_length.
    apply nth_map_in. rewrite app_length, pick_length in Hhi. lia.
Qed.
