From Coq Require Import List Arith Lia Bool Ring Field String.
From PyOMA.Base Require Import Carrier Cplx.
From PyOMA.Model Require Import M_merge.
Import ListNotations.

Lemma drop_at_map {A B} (f:A->B) l idx pos : drop_at (map f l) idx pos = map f (drop_at l idx pos).
Proof. revert pos; induction l as [|x t IH]; intros pos; cbn; [reflexivity|].
  destruct (existsb (Nat.eqb pos) idx); cbn; rewrite IH; reflexivity. Qed.

Lemma pick_map_in {A B} (f:A->B) (d:B) (d':A) l idx :
  (forall i, In i idx -> (i < List.length l)%nat) -> pick d (map f l) idx = map f (pick d' l idx).
Proof.
  intros Hr. unfold pick. rewrite map_map. apply map_ext_in. intros i Hi.
  rewrite nth_indep with (d':= f d') by (rewrite map_length; auto). apply map_nth.
Qed.

Lemma drop_at_length_le {A} (l:list A) idx pos : (List.length (drop_at l idx pos) <= List.length l)%nat.
Proof. revert pos; induction l as [|x t IH]; intros pos; cbn; [lia|].
  destruct (existsb (Nat.eqb pos) idx); cbn; specialize (IH (S pos)); lia. Qed.

Section P.
Variable R:Type. Variable K:Ops R.
Hypothesis Fth : field_theory (o0 K) (o1 K) (oadd K) (omul K) (osub K) (oopp K) (odiv K) (oinv K) (@eq R).
Add Field FfM : Fth.
Local Open Scope K_scope.
Notation "0" := (o0 K) : K_scope. Notation "1" := (o1 K) : K_scope.
Infix "+" := (oadd K) : K_scope. Infix "*" := (omul K) : K_scope. Infix "-" := (osub K) : K_scope.
Infix "/" := (odiv K) : K_scope.
Notation C := (C R).

Lemma cdotl_rscale a b (u v:list C) : cdotl K (rscale K a u) (rscale K b v) = cscal K (a*b) (cdotl K u v).
Proof.
  unfold rscale. revert v; induction u as [|x u IH]; intros [|y v]; cbn [map cdotl];
    try (apply c_eq; cbn; ring).
  rewrite IH. destruct x as [xr xi], y as [yr yi]. destruct (cdotl K u v) as [dr di].
  apply c_eq; cbn; ring.
Qed.

Lemma mul_neq0 x y : x <> 0 -> y <> 0 -> x * y <> 0.
Proof.
  intros Hx Hy E. apply Hy.
  transitivity ((oinv K x * x) * y); [|transitivity (oinv K x * (x * y)); [ring| rewrite E; ring]].
  destruct Fth as [_ _ _ Finv]. rewrite (Finv x Hx). ring.
Qed.

Lemma cre_div_scaled a b (D:C) : b <> 0 -> cnorm2 K D <> 0 -> cre (cdiv K (cscal K a D) (cscal K b D)) = a / b.
Proof.
  intros Hb Hn. destruct D as [u v]. unfold cnorm2 in Hn. cbn [cre cim fst snd] in Hn.
  unfold cdiv, cinv, cmul, cscal, cnorm2, cre, cim; cbn [fst snd].
  field. split; [exact Hb|].
  replace (b * u * (b * u) + b * v * (b * v)) with ((b*b) * (u*u+v*v)) by ring.
  apply mul_neq0; [apply mul_neq0; exact Hb | exact Hn].
Qed.

(* the real factor taking c_i g to c_0 g is c_0/c_i, whenever g^T g (complex, un-conjugated) is non-zero *)
Lemma msf_scaled ci c0' (g:list C) :
  ci <> 0 -> cnorm2 K (cdotl K g g) <> 0 ->
  msf K (rscale K ci g) (rscale K c0' g) = c0' / ci.
Proof.
  intros Hc Hn. unfold msf. rewrite !cdotl_rscale.
  rewrite cre_div_scaled; [field; exact Hc | apply mul_neq0; exact Hc | exact Hn].
Qed.

(* global shape g : sensor id -> C ; a setup observes the sensors [sens] scaled by a real factor c *)
Variable g : nat -> C.
Definition obs (c:R) (sens:list nat) : list C := map (fun s => cscal K c (g s)) sens.

Lemma obs_rscale c sens : obs c sens = rscale K c (map g sens).
Proof. unfold obs, rscale. rewrite map_map. reflexivity. Qed.

Lemma cscal_cscal a b (z:C) : cscal K a (cscal K b z) = cscal K (a*b) z.
Proof. apply c_eq; cbn; ring. Qed.

Theorem merge_recovers_global (c0':R) (s0:list nat) (rf0:list nat) (rest:list (R * list nat * list nat)) :
  let refS := pick 0%nat s0 rf0 in
  (forall c s rf, In (c,s,rf) rest -> c <> 0 /\ pick 0%nat s rf = refS) ->
  c0' <> 0 ->
  cnorm2 K (cdotl K (map g refS) (map g refS)) <> 0 ->
  (forall i, In i rf0 -> (i < List.length s0)%nat) ->
  (forall c s rf, In (c,s,rf) rest -> forall i, In i rf -> (i < List.length s)%nat) ->
  merge_col K (obs c0' s0) rf0 (map (fun t => (obs (fst (fst t)) (snd (fst t)), snd t)) rest)
  = obs c0' (refS ++ drop_at s0 rf0 0%nat ++ List.concat (map (fun t => drop_at (snd (fst t)) (snd t) 0%nat) rest)).
Proof.
  intros refS Hrest Hc0 Hgg Hin0 Hin.
  unfold merge_col, obs.
  rewrite (pick_map_in (fun s1 => cscal K c0' (g s1)) (c0 K) 0%nat s0 rf0 Hin0). fold refS.
  rewrite !map_app. f_equal. rewrite drop_at_map. f_equal.
  rewrite concat_map, !map_map. f_equal. apply map_ext_in. intros [[c s] rf] Ht. cbn [fst snd].
  destruct (Hrest c s rf Ht) as [Hc Href].
  rewrite (pick_map_in (fun s1 => cscal K c (g s1)) (c0 K) 0%nat s rf (Hin c s rf Ht)). rewrite Href.
  rewrite drop_at_map. unfold rscale at 1. rewrite map_map. apply map_ext. intros v.
  replace (map (fun s1 => cscal K c0' (g s1)) refS) with (rscale K c0' (map g refS)) by (unfold rscale; rewrite map_map; reflexivity).
  replace (map (fun s1 => cscal K c (g s1)) refS) with (rscale K c (map g refS)) by (unfold rscale; rewrite map_map; reflexivity).
  rewrite msf_scaled by assumption. rewrite cscal_cscal. f_equal. field. exact Hc.
Qed.

End P.

Section P2.
Variable R:Type. Variable K:Ops R.
Hypothesis Fth : field_theory (o0 K) (o1 K) (oadd K) (omul K) (osub K) (oopp K) (odiv K) (oinv K) (@eq R).
Notation C := (C R).

(* every mode k has its own global shape g_k, its own factor c_0k for the first setup and c_ik for the others *)
Definition mode_spec := ((nat -> C) * R * list R)%type.
Definition mode_cols (s0:list nat) (others:list (list nat * list nat)) (m:mode_spec) : list C * list (list C) :=
  let '(gk, c0k, cs) := m in
  (obs R K gk c0k s0, map (fun cs_sr => obs R K gk (fst cs_sr) (fst (snd cs_sr))) (combine cs others)).
Definition merged_order (s0 rf0:list nat) (others:list (list nat * list nat)) : list nat :=
  pick 0%nat s0 rf0 ++ drop_at s0 rf0 0%nat ++ List.concat (map (fun sr => drop_at (fst sr) (snd sr) 0%nat) others).

Lemma combine_map_snd {A B D} (f:A*(B*D)->list C) (cs:list A) (others:list (B*D)) :
  List.length cs = List.length others ->
  combine (map f (combine cs others)) (map snd others)
  = map (fun t => (f t, snd (snd t))) (combine cs others).
Proof.
  revert others; induction cs as [|c cs IH]; intros [|o others] Hl; cbn in *; try reflexivity; try discriminate.
  rewrite IH by lia. reflexivity.
Qed.

Theorem merge_modes_recover (s0 rf0:list nat) (others:list (list nat * list nat)) (modes:list mode_spec) :
  let refS := pick 0%nat s0 rf0 in
  (forall i, In i rf0 -> (i < List.length s0)%nat) ->
  (forall s rf, In (s,rf) others -> pick 0%nat s rf = refS /\ forall i, In i rf -> (i < List.length s)%nat) ->
  (forall gk c0k cs, In (gk,c0k,cs) modes ->
       c0k <> o0 K /\ List.length cs = List.length others /\ (forall c, In c cs -> c <> o0 K) /\
       cnorm2 K (cdotl K (map gk refS) (map gk refS)) <> o0 K) ->
  merge_modes K rf0 (map snd others) (map (mode_cols s0 others) modes)
  = map (fun m => obs R K (fst (fst m)) (snd (fst m)) (merged_order s0 rf0 others)) modes.
Proof.
  intros refS Hin0 Hoth Hmodes. unfold merge_modes. rewrite map_map. apply map_ext_in.
  intros [[gk c0k] cs] Hm. destruct (Hmodes gk c0k cs Hm) as (Hc0 & Hlen & Hcs & Hgg).
  unfold mode_cols. cbn [fst snd].
  rewrite (combine_map_snd (fun cs_sr => obs R K gk (fst cs_sr) (fst (snd cs_sr))) cs others Hlen).
  set (rest := map (fun t : R * (list nat * list nat) => (fst t, fst (snd t), snd (snd t))) (combine cs others)).
  replace (map (fun t : R * (list nat * list nat) => (obs R K gk (fst t) (fst (snd t)), snd (snd t))) (combine cs others))
    with (map (fun t : R * list nat * list nat => (obs R K gk (fst (fst t)) (snd (fst t)), snd t)) rest)
    by (unfold rest; rewrite map_map; reflexivity).
  rewrite (merge_recovers_global R K Fth gk c0k s0 rf0 rest).
  - unfold merged_order. fold refS. do 3 f_equal. unfold rest. rewrite map_map.
    clear - Hlen. revert others Hlen. induction cs as [|c cs IH]; intros [|o others] Hl; cbn in *; try reflexivity; try discriminate.
    rewrite IH by lia. reflexivity.
  - intros c s rf Hi. unfold rest in Hi. apply in_map_iff in Hi. destruct Hi as ([c' [s' rf']] & E & Hi). cbn in E. inversion E; subst.
    split; [apply Hcs; eapply in_combine_l; exact Hi | apply (Hoth s rf); eapply in_combine_r; exact Hi].
  - exact Hc0.
  - exact Hgg.
  - exact Hin0.
  - intros c s rf Hi. unfold rest in Hi. apply in_map_iff in Hi. destruct Hi as ([c' [s' rf']] & E & Hi). cbn in E. inversion E; subst.
    apply (Hoth s rf); eapply in_combine_r; exact Hi.
Qed.

(* sensor names are flattened in the same order *)
Theorem flatten_matches_merge (nm:nat -> string) (s0 rf0:list nat) (others:list (list nat * list nat)) :
  flatten_multi (map (fun sr => map nm (fst sr)) ((s0,rf0)::others)) (Some (map snd ((s0,rf0)::others)))
  = FlatOk (ref_names (List.length rf0) ++ map nm (drop_at s0 rf0 0%nat ++ List.concat (map (fun sr => drop_at (fst sr) (snd sr) 0%nat) others))).
Proof.
  unfold flatten_multi. cbn [map hd fst snd combine List.concat]. f_equal. f_equal.
  rewrite map_app, drop_at_map. f_equal.
  induction others as [|[s rf] others IH]; cbn [map combine List.concat fst snd]; [reflexivity|].
  rewrite map_app, drop_at_map, IH. reflexivity.
Qed.
Lemma merged_order_length s0 rf0 others :
  List.length (merged_order s0 rf0 others)
  = (List.length rf0 + List.length (drop_at s0 rf0 0%nat ++ List.concat (map (fun sr => drop_at (fst sr) (snd sr) 0%nat) others)))%nat.
Proof. unfold merged_order, pick. rewrite app_length, map_length. reflexivity. Qed.

(* statistics: results that agree in every setup have that mean and zero dispersion *)
Add Field FfM2 : Fth.
Local Open Scope K_scope.
Infix "+" := (oadd K) : K_scope. Infix "*" := (omul K) : K_scope. Infix "-" := (osub K) : K_scope. Infix "/" := (odiv K) : K_scope.
Lemma rsum_const x (l:list R) : (forall y, In y l -> y = x) -> rsum K l = x * rsum K (map (fun _ => o1 K) l).
Proof. induction l as [|a l IH]; cbn [rsum map]; intros H; [ring|]. rewrite IH by (intros; apply H; right; assumption).
  rewrite (H a) by (left; reflexivity). ring. Qed.
Lemma rsum_zero (f:R->R) (l:list R) : (forall y, In y l -> f y = o0 K) -> rsum K (map f l) = o0 K.
Proof. induction l as [|a l IH]; cbn [rsum map]; intros H; [reflexivity|]. rewrite IH by (intros; apply H; right; assumption).
  rewrite (H a) by (left; reflexivity). ring. Qed.
Theorem mean_var_const (x n:R) (l:list R) :
  n <> o0 K -> rsum K (map (fun _ => o1 K) l) = n -> (forall y, In y l -> y = x) ->
  mean K n l = x /\ pvar K n l = o0 K.
Proof.
  intros Hn Hcount Hall.
  assert (Hm: mean K n l = x) by (unfold mean; rewrite (rsum_const x l Hall), Hcount; field; exact Hn).
  split; [exact Hm|]. unfold pvar. rewrite Hm.
  rewrite rsum_zero; [field; exact Hn|]. intros y Hy. rewrite (Hall y Hy). ring.
Qed.
End P2.
