(* C16 - histories of the picking dialog: events that neither pick nor deselect nor change the modifier can be dropped
   from, or inserted into, any history without changing the selection (for the specification, up to the order of the
   pairs; for the present code's resolution, literally); and the tie rule of deselect-nearest in the present code. *)
From Coq Require Import List Arith ZArith QArith Qabs Bool Lia Permutation Lqa.
From PyOMA.Base Require Import Argmin.
From PyOMA.Model Require Import M_pick M_pick_hist.
From PyOMA.Proofs Require Import P_pick.
Import ListNotations.
Open Scope Q_scope.

(* ------------------------------------------------------------------ same_selection is an equivalence ---------- *)
Lemma same_selection_refl s : same_selection s s.
Proof. split; reflexivity. Qed.
Lemma same_selection_sym s t : same_selection s t -> same_selection t s.
Proof. intros (H1 & H2). split; symmetry; assumption. Qed.
Lemma same_selection_trans s t u : same_selection s t -> same_selection t u -> same_selection s u.
Proof. intros (H1 & H2) (H3 & H4). split; [congruence|eapply perm_trans; eassumption]. Qed.

Lemma msame_refl l : msame l l = true.
Proof. apply msame_perm. reflexivity. Qed.

(* ------------------------------------------------------------------ single events ----------------------------- *)
Lemma nonacting_shift sh a : acting sh a = false -> shift_step sh a = sh.
Proof. destruct a; cbn [acting shift_step]; intros H; try discriminate; reflexivity. Qed.

(* the modifier after any allowed step is what the keys say *)
Lemma allowed_shift pick st a st' : allowed pick st a st' = true -> shift st' = shift_step (shift st) a.
Proof.
  intros H. apply allowed_iff in H.
  destruct a as [ | | |b x y|b]; cbn [allowedP] in H; cbn [shift_step]; destruct H as (H & _); exact H.
Qed.

(* a non-acting event may always be answered by doing nothing ... *)
Lemma nonacting_identity pick st a : acting (shift st) a = false -> allowed pick st a st = true.
Proof.
  destruct a as [ | | |b x y|b]; cbn [acting allowed]; intros H; try discriminate.
  - rewrite eqb_reflx, msame_refl. reflexivity.
  - rewrite eqb_reflx. cbn [andb]. destruct b; try (rewrite H; apply msame_refl). destruct (shift st); apply msame_refl.
  - rewrite eqb_reflx, msame_refl. reflexivity.
Qed.

(* ... and no allowed answer to it changes the modifier or the multiset of pairs *)
Lemma nonacting_same pick st a st' : acting (shift st) a = false -> allowed pick st a st' = true -> same_selection st st'.
Proof.
  intros Ha H. apply allowed_iff in H.
  destruct a as [ | | |b x y|b]; cbn [acting] in Ha; cbn [allowedP] in H; try discriminate.
  - destruct H as (H1 & H2). split; [symmetry; exact H1|exact H2].
  - destruct H as (H1 & H2). split; [symmetry; exact H1|].
    destruct b; try (rewrite Ha in H2; exact H2). destruct (shift st); exact H2.
  - destruct H as (H1 & [H2|(Hs & Hb & _)]); [split; [symmetry; exact H1|exact H2]|].
    subst b. rewrite Hs in Ha. discriminate.
Qed.

(* the specification looks at the state before an event only through its modifier and its multiset of pairs *)
Lemma allowedP_src pick s1 s2 a t : same_selection s1 s2 -> allowedP pick s1 a t -> allowedP pick s2 a t.
Proof.
  intros (Hs & Hp) H.
  assert (Hp' : Permutation (sel s2) (sel s1)) by (symmetry; exact Hp).
  destruct a as [ | | |b x y|b]; cbn [allowedP] in *.
  - destruct H as (H1 & H2). split; [exact H1|eapply perm_trans; eassumption].
  - destruct H as (H1 & H2). split; [exact H1|eapply perm_trans; eassumption].
  - destruct H as (H1 & H2). split; [congruence|eapply perm_trans; eassumption].
  - destruct H as (H1 & H2). split; [congruence|]. rewrite <- Hs. destruct (shift s1).
    + destruct b.
      * eapply perm_trans; [apply Permutation_app_head; exact Hp'|exact H2].
      * destruct H2 as [(E1 & E2)|(e & Hin & Hmin & Hpe)].
        -- left. split; [|exact E2]. rewrite E1 in Hp. apply Permutation_nil in Hp. exact Hp.
        -- right. exists e. split; [eapply Permutation_in; [exact Hp|exact Hin]|]. split.
           ++ intros e2 Hin2. apply Hmin. eapply Permutation_in; [exact Hp'|exact Hin2].
           ++ eapply perm_trans; eassumption.
      * destruct H2 as [(E1 & E2)|(e & Hin & Hpe)].
        -- left. split; [|exact E2]. rewrite E1 in Hp. apply Permutation_nil in Hp. exact Hp.
        -- right. exists e. split; [eapply Permutation_in; [exact Hp|exact Hin]|]. eapply perm_trans; eassumption.
      * eapply perm_trans; eassumption.
    + eapply perm_trans; eassumption.
  - destruct H as (H1 & H2). split; [congruence|]. destruct H2 as [H2|(Hsh & Hb & e & Hin & Hpe)].
    + left. eapply perm_trans; eassumption.
    + right. split; [congruence|]. split; [exact Hb|]. exists e.
      split; [eapply Permutation_in; [exact Hp|exact Hin]|]. eapply perm_trans; eassumption.
Qed.

Lemma steps_src pick s1 s2 l t : same_selection s1 s2 -> steps pick s1 l t ->
  exists t', steps pick s2 l t' /\ same_selection t' t.
Proof.
  intros Hss H. inversion H as [st|st a st1 l' st2 Hal Hst]; subst.
  - exists s2. split; [constructor|apply same_selection_sym; exact Hss].
  - exists t. split; [|apply same_selection_refl].
    econstructor; [|exact Hst]. apply allowed_iff. apply (allowedP_src pick s1 s2); [exact Hss|]. apply allowed_iff. exact Hal.
Qed.

(* ------------------------------------------------------------------ dropping / inserting non-acting events ---- *)
(* every history of allowed steps has a counterpart on the stripped history that ends with the same modifier and the
   same multiset of pairs *)
Theorem steps_strip pick st l st' : steps pick st l st' ->
  exists t, steps pick st (strip (shift st) l) t /\ same_selection t st'.
Proof.
  induction 1 as [st|st a st1 l st2 Hal Hst IH].
  - exists st. split; [constructor|apply same_selection_refl].
  - destruct IH as (t & Ht & Hsame). cbn [strip].
    pose proof (allowed_shift _ _ _ _ Hal) as Hsh. rewrite <- Hsh.
    destruct (acting (shift st) a) eqn:Ea.
    + exists t. split; [econstructor; eassumption|exact Hsame].
    + pose proof (nonacting_same _ _ _ _ Ea Hal) as Hs1.
      destruct (steps_src pick st1 st _ t (same_selection_sym _ _ Hs1) Ht) as (t' & Ht' & Hs2).
      exists t'. split; [exact Ht'|eapply same_selection_trans; eassumption].
Qed.

(* and every history of allowed steps on the stripped history is one on the full history (the dropped events answered
   by doing nothing) *)
Theorem steps_unstrip pick l : forall st st', steps pick st (strip (shift st) l) st' -> steps pick st l st'.
Proof.
  induction l as [|a l IH]; intros st st' H; cbn [strip] in H; [exact H|].
  destruct (acting (shift st) a) eqn:Ea.
  - inversion H as [|s a' s1 l' s2 Hal Hst]; subst. econstructor; [exact Hal|]. apply IH.
    rewrite (allowed_shift _ _ _ _ Hal). exact Hst.
  - econstructor; [apply nonacting_identity; exact Ea|]. apply IH.
    rewrite (nonacting_shift _ _ Ea) in H. exact H.
Qed.

(* the present code's resolution: literally the same state *)
Lemma impl_step_shift pick st a : shift (impl_step pick st a) = shift_step (shift st) a.
Proof. exact (allowed_shift pick st a _ (impl_choice_allowed pick st a)). Qed.

Lemma impl_step_nonacting pick st a : acting (shift st) a = false -> impl_step pick st a = st.
Proof.
  destruct a as [ | | |b x y|b]; cbn [acting impl_step]; intros H; try discriminate; try reflexivity.
  - destruct b; try (rewrite H; reflexivity); destruct (shift st); reflexivity.
  - destruct b; try (rewrite H; reflexivity); destruct (shift st); reflexivity.
Qed.

Theorem run_strip_from pick l : forall st,
  fold_left (impl_step pick) (strip (shift st) l) st = fold_left (impl_step pick) l st.
Proof.
  induction l as [|a l IH]; intros st; cbn [strip fold_left]; [reflexivity|].
  destruct (acting (shift st) a) eqn:Ea; cbn [fold_left].
  - rewrite <- (impl_step_shift pick st a). apply IH.
  - rewrite (impl_step_nonacting pick st a Ea). rewrite (nonacting_shift _ _ Ea). apply IH.
Qed.

(* stripping is a normal form *)
Theorem strip_idem l : forall sh, strip sh (strip sh l) = strip sh l.
Proof.
  induction l as [|a l IH]; intros sh; cbn [strip]; [reflexivity|].
  destruct (acting sh a) eqn:Ea; [|rewrite (nonacting_shift _ _ Ea); apply IH]. cbn [strip]. rewrite Ea. f_equal. apply IH.
Qed.

(* the three statements together, from the freshly opened dialog *)
Theorem inert_events_irrelevant pick acts :
  run_impl pick (strip false acts) = run_impl pick acts /\
  (forall st, steps pick init_state acts st ->
     exists t, steps pick init_state (strip false acts) t /\ same_selection t st) /\
  (forall st, steps pick init_state (strip false acts) st -> steps pick init_state acts st).
Proof.
  split; [exact (run_strip_from pick acts init_state)|]. split.
  - intros st H. exact (steps_strip pick init_state acts st H).
  - intros st H. exact (steps_unstrip pick acts init_state st H).
Qed.

(* two histories with the same acting events, whatever else is interleaved *)
Theorem same_acting_same_selection pick acts acts' : strip false acts = strip false acts' ->
  run_impl pick acts = run_impl pick acts' /\
  result (run_impl pick acts) = result (run_impl pick acts') /\
  (forall st, steps pick init_state acts st -> exists t, steps pick init_state acts' t /\ same_selection t st).
Proof.
  intros E.
  assert (Hrun : run_impl pick acts = run_impl pick acts').
  { unfold run_impl. rewrite <- (run_strip_from pick acts init_state), <- (run_strip_from pick acts' init_state).
    cbn [init_state shift]. rewrite E. reflexivity. }
  split; [exact Hrun|]. split; [rewrite Hrun; reflexivity|].
  intros st H. destruct (steps_strip pick init_state acts st H) as (t & Ht & Hs). exists t. split; [|exact Hs].
  apply steps_unstrip. cbn [init_state shift] in *. rewrite <- E. exact Ht.
Qed.

(* ------------------------------------------------------------------ deselect-nearest in the present code -------- *)
Lemma drop_at_split : forall i (l:list entry) e, nth_error l i = Some e ->
  l = firstn i l ++ e :: skipn (S i) l /\ drop_at i l = firstn i l ++ skipn (S i) l.
Proof.
  induction i as [|i IH]; intros [|a r] e H; cbn [nth_error] in H; try discriminate.
  - inversion H. subst. split; reflexivity.
  - destruct (IH r e H) as (H1 & H2). cbn [firstn skipn drop_at app]. split; f_equal; assumption.
Qed.

Lemma sorted_f_nth : forall l i j e e2, sorted_f l -> (i <= j)%nat ->
  nth_error l i = Some e -> nth_error l j = Some e2 -> fst e <= fst e2.
Proof.
  induction l as [|a r IH]; intros i j e e2 Hs Hij Hi Hj; [destruct i; discriminate|].
  cbn [sorted_f] in Hs. destruct Hs as (Ha & Hr). destruct i as [|i]; cbn [nth_error] in Hi.
  - inversion Hi. subst a. destruct j as [|j]; cbn [nth_error] in Hj.
    + inversion Hj. subst. apply Qle_refl.
    + apply Ha. eapply nth_error_In. exact Hj.
  - destruct j as [|j]; [lia|]. cbn [nth_error] in Hj. apply (IH i j e e2 Hr); [lia|exact Hi|exact Hj].
Qed.

(* np.argmin over the selection: the entry removed is at the FIRST position whose distance to the click is minimal;
   every other entry stays where it is *)
Theorem impl_deselect_nearest pick st x y : shift st = true -> sel st <> [] ->
  exists i e, nth_error (sel st) i = Some e /\
    impl_step pick st (Click BMiddle x y) = mkst true (firstn i (sel st) ++ skipn (S i) (sel st)) /\
    sel st = firstn i (sel st) ++ e :: skipn (S i) (sel st) /\
    (forall e2, In e2 (sel st) -> absdist x (fst e) <= absdist x (fst e2)) /\
    (forall j e2, (j < i)%nat -> nth_error (sel st) j = Some e2 -> absdist x (fst e) < absdist x (fst e2)).
Proof.
  intros Hs Hne. cbn [impl_step]. rewrite Hs. unfold nearest_sel.
  pose proof (nanargmin_spec (map (fun e => Some (absdist x (fst e))) (sel st))) as HS.
  destruct (nanargmin (map (fun e => Some (absdist x (fst e))) (sel st))) as [[i d]|].
  - destruct HS as (Hk & Hmin & Hfst). destruct (sel_dists_nth _ _ _ _ Hk) as (e & Ei & Hd). subst d.
    destruct (drop_at_split i (sel st) e Ei) as (Hsplit & Hdrop).
    exists i, e. split; [exact Ei|]. split; [f_equal; exact Hdrop|]. split; [exact Hsplit|]. split.
    + intros e2 Hin. apply In_nth_error in Hin. destruct Hin as [j Hj]. apply (Hmin j).
      apply (map_nth_error (fun e:entry => Some (absdist x (fst e))) j (sel st) Hj).
    + intros j e2 Hj Hn. apply (Hfst j); [exact Hj|].
      apply (map_nth_error (fun e:entry => Some (absdist x (fst e))) j (sel st) Hn).
  - exfalso. destruct (sel st) as [|e0 r]; [congruence|].
    assert (H0 : (0 < length (map (fun e => Some (absdist x (fst e))) (e0 :: r)))%nat) by (cbn; lia).
    specialize (HS 0%nat H0). cbn in HS. discriminate.
Qed.

(* the tie rule, for every state the present code can be in (its selection is sorted by frequency): among the
   entries at minimal distance the one of LOWEST frequency goes (on equal frequencies the first in the list) *)
Theorem impl_deselect_nearest_tie pick acts x y :
  let st := run_impl pick acts in
  shift st = true -> sel st <> [] ->
  exists i e, nth_error (sel st) i = Some e /\
    sel (impl_step pick st (Click BMiddle x y)) = firstn i (sel st) ++ skipn (S i) (sel st) /\
    sel st = firstn i (sel st) ++ e :: skipn (S i) (sel st) /\
    (forall e2, In e2 (sel st) -> absdist x (fst e) <= absdist x (fst e2)) /\
    (forall e2, In e2 (sel st) -> absdist x (fst e2) == absdist x (fst e) -> fst e <= fst e2) /\
    (forall j e2, (j < i)%nat -> nth_error (sel st) j = Some e2 -> absdist x (fst e) < absdist x (fst e2)).
Proof.
  intros st Hs Hne.
  destruct (impl_deselect_nearest pick st x y Hs Hne) as (i & e & Ei & Hstep & Hsplit & Hmin & Hfst).
  exists i, e. split; [exact Ei|]. split; [rewrite Hstep; reflexivity|]. split; [exact Hsplit|].
  split; [exact Hmin|]. split; [|exact Hfst].
  intros e2 Hin Heq. apply In_nth_error in Hin. destruct Hin as [j Hj].
  destruct (Nat.lt_ge_cases j i) as [Hlt|Hge].
  - exfalso. specialize (Hfst j e2 Hlt Hj). rewrite Heq in Hfst. exact (Qlt_irrefl _ Hfst).
  - apply (sorted_f_nth (sel st) i j e e2); [apply impl_keeps_sorted|exact Hge|exact Ei|exact Hj].
Qed.
