(* C01 - multiplicity of the identified poles (uses Base/EigCount.v).
   The identified pair (A_hat, C_hat) is similar to the true (A, C) (P_realise.v).  If the true system has a complete
   modal basis over the complex numbers - A Phi = Phi diag(lam), Phi two-sided invertible, lam_0 .. lam_{n-1} pairwise
   different - then whatever full eigen-decomposition (V, d), W V = I, the eigen-solver returns for A_hat:
     * [d_0 .. d_{n-1}] is a Permutation of [lam_0 .. lam_{n-1}]: every true pole exactly once and nothing else;
     * so when the true poles are m conjugate pairs, the pole list at order n = 2m is exactly those m pairs;
     * column k of C_hat V is a non-zero multiple of the true observed shape C Phi[:, sigma k];
     * A_hat has no other eigenvalue at all (any eigen-pair, not only those of the returned decomposition).
   Carrier: a commutative ring without zero divisors, 1 <> 0, decidable equality, formally real (a^2 + b^2 = 0 -> a = 0),
   complexified by Base/Cplx.v: Qc, the classical reals. *)
From Coq Require Import List Arith Lia Ring Setoid Morphisms Permutation.
From PyOMA.Base Require Import Carrier FMat Cplx EigCount.
From PyOMA.Model Require Import M_realise.
From PyOMA.Proofs Require Import P_realise.
Import ListNotations.

Lemma flat_map_pair_length {X:Type} (f g:X -> X) (l:list X) : length (flat_map (fun z => [f z; g z]) l) = (2 * length l)%nat.
Proof. induction l as [|a l IH]; [reflexivity|]. cbn [flat_map length app]. rewrite IH. lia. Qed.

Section C01count.
Variable R:Type. Variable K:Ops R.
Hypothesis Rth : ring_theory (o0 K) (o1 K) (oadd K) (omul K) (osub K) (oopp K) (@eq R).
Hypothesis Hint : forall a b:R, omul K a b = o0 K -> a = o0 K \/ b = o0 K.
Hypothesis H10 : o1 K <> o0 K.
Hypothesis Rdec : forall x y:R, {x = y} + {x <> y}.
Hypothesis Hreal : forall a b:R, oadd K (omul K a a) (omul K b b) = o0 K -> a = o0 K.
Notation KC := (COps K).
Let CRt := CRth R K Rth.
Let CI := cplx_integral R K Rth Hint Hreal.
Let C10 := cplx_one_neq_zero R K H10.
Let Cdec := cplx_dec R Rdec.
Add Ring RrC01c : CRt.
Notation fm := (fmul KC). Notation fI := (fid KC).
Notation cemb := (cemb R K).
Let assoc := fmul_assoc (C R) KC CRt.
Let idl := fmul_id_l (C R) KC CRt.

Section Body.
Variables (l n:nat) (A Cm Ah Ch T Ti:fmat R) (Phi Phii V W:fmat (C R)) (lam d:nat -> C R).
Hypothesis Hsim : similar_pair R K l n A Cm Ah Ch T Ti.
Hypothesis HPhi : feq n n (fm n (cemb A) Phi) (fm n Phi (fdiag KC lam)).
Hypothesis HPr : feq n n (fm n Phi Phii) fI.
Hypothesis HPl : feq n n (fm n Phii Phi) fI.
Hypothesis Hdist : forall i j, (i < n)%nat -> (j < n)%nat -> i <> j -> lam i <> lam j.

(* no spurious pole: every eigenvalue of A_hat is a true pole *)
Theorem no_spurious_pole (mu:C R) (w:fmat (C R)) :
  eigpair (C R) KC n (cemb Ah) mu w -> exists i, (i < n)%nat /\ mu = lam i.
Proof.
  intros Hw. destruct (eigpair_transport R K Rth l n A Cm Ah Ch T Ti mu Hsim) as [_ [Hb _]].
  destruct (Hb w Hw) as [[He Hnz] _].
  apply (eig_in_spectrum (C R) KC CRt CI Cdec n (cemb A) Phi Phii lam HPhi HPr HPl mu (fm n (cemb T) w) He Hnz).
Qed.

Hypothesis HV : feq n n (fm n (cemb Ah) V) (fm n V (fdiag KC d)).
Hypothesis HWl : feq n n (fm n W V) fI.

Theorem pole_multiplicity :
  Permutation (tab n d) (tab n lam) /\ NoDup (tab n d) /\
  (exists (sg:nat -> nat) (c:nat -> C R),
     (forall k, (k < n)%nat -> (sg k < n)%nat) /\
     (forall k k', (k < n)%nat -> (k' < n)%nat -> sg k = sg k' -> k = k') /\
     (forall i, (i < n)%nat -> exists k, (k < n)%nat /\ sg k = i) /\
     (forall k, (k < n)%nat -> d k = lam (sg k)) /\
     (forall k, (k < n)%nat -> c k <> c0 K /\
        forall i, (i < l)%nat -> fm n (cemb Ch) V i k = cmul K (fm n (cemb Cm) Phi i (sg k)) (c k))) /\
  (forall mus:list (C R), Permutation (tab n lam) (flat_map (fun z => [z; cconj K z]) mus) ->
     n = (2 * length mus)%nat /\ Permutation (tab n d) (flat_map (fun z => [z; cconj K z]) mus)).
Proof.
  destruct (similar_pair_cx R K Rth l n A Cm Ah Ch T Ti Hsim) as [H1 [H2 [H3 H4]]].
  destruct (eig_count_similar (C R) KC CRt CI C10 Cdec l n (cemb A) (cemb Cm) (cemb Ah) (cemb Ch) (cemb T) (cemb Ti)
              Phi Phii V W lam d H1 H2 H3 H4 HPhi HPr HPl Hdist HV HWl)
    as [sg [c [Hb [Hinj [Hsur [Hd [Hc HP]]]]]]].
  assert (Hnd: NoDup (tab n d)).
  { apply (Permutation_NoDup (Permutation_sym HP)). unfold tab. apply NoDup_map_inj; [|apply seq_NoDup].
    intros x y Hx Hy Exy. apply in_seq in Hx. apply in_seq in Hy.
    destruct (Nat.eq_dec x y) as [|Hne]; [assumption|exfalso]. apply (Hdist x y); try lia. exact Exy. }
  split; [exact HP|split; [exact Hnd|split]].
  - exists sg, c. split; [exact Hb|split; [exact Hinj|split; [exact Hsur|split; [exact Hd|]]]].
    exact Hc.
  - intros mus Hm. split.
    + pose proof (Permutation_length Hm) as EL. rewrite tab_length in EL.
      rewrite (flat_map_pair_length (fun z => z) (cconj K) mus) in EL. exact EL.
    + exact (Permutation_trans HP Hm).
Qed.
End Body.
End C01count.

(* ---------- a concrete instance: the hypotheses are satisfiable (Gaussian rationals) ---------- *)
From Coq Require Import QArith Qcanon.
From PyOMA.Base Require Import Show.
Definition ec1_m (M:list (list Qc)) : fmat Qc := fun i j => ent QcOps M i j.
Definition ec1_cm (M:list (list (Qc * Qc))) : fmat (C Qc) := fun i j => ent (COps QcOps) M i j.
Definition ec1_v (l:list (Qc * Qc)) : nat -> C Qc := fun i => lget (COps QcOps) l i.
(* true system: A = [[1/2,1/4],[-1/4,1/2]] (poles 1/2 +- i/4, modes (1, +-i)), C = [1 2] ; identified in the basis T = [[1,1],[0,1]] *)
Definition ec1_A := ec1_m [[q 1 2; q 1 4];[q (-1) 4; q 1 2]].
Definition ec1_C := ec1_m [[q 1 1; q 2 1]].
Definition ec1_T := ec1_m [[q 1 1; q 1 1];[q 0 1; q 1 1]].
Definition ec1_Ti := ec1_m [[q 1 1; q (-1) 1];[q 0 1; q 1 1]].
Definition ec1_Ah : fmat Qc := fmul QcOps 2 ec1_Ti (fmul QcOps 2 ec1_A ec1_T).
Definition ec1_Ch : fmat Qc := fmul QcOps 2 ec1_C ec1_T.
Definition ec1_Phi := ec1_cm [[(q 1 1, q 0 1); (q 1 1, q 0 1)];[(q 0 1, q 1 1); (q 0 1, q (-1) 1)]].
Definition ec1_Phii := ec1_cm [[(q 1 2, q 0 1); (q 0 1, q (-1) 2)];[(q 1 2, q 0 1); (q 0 1, q 1 2)]].
Definition ec1_lam := ec1_v [(q 1 2, q 1 4); (q 1 2, q (-1) 4)].
(* what a solver may return for A_hat: the conjugate pole first, columns scaled by 2 and by i *)
Definition ec1_d := ec1_v [(q 1 2, q (-1) 4); (q 1 2, q 1 4)].
Definition ec1_V := ec1_cm [[(q 2 1, q 2 1); (q 1 1, q 1 1)];[(q 0 1, q (-2) 1); (q (-1) 1, q 0 1)]].
Definition ec1_W := ec1_cm [[(q 1 4, q 0 1); (q 1 4, q 1 4)];[(q 0 1, q (-1) 2); (q (-1) 2, q (-1) 2)]].

Lemma ec1_similar : similar_pair Qc QcOps 1 2 ec1_A ec1_C ec1_Ah ec1_Ch ec1_T ec1_Ti.
Proof.
  unfold similar_pair. repeat split; try (apply ec_feqb_sound; vm_compute; reflexivity).
Qed.

Lemma ec1_hyps :
  similar_pair Qc QcOps 1 2 ec1_A ec1_C ec1_Ah ec1_Ch ec1_T ec1_Ti /\
  feq 2 2 (fmul (COps QcOps) 2 (cemb Qc QcOps ec1_A) ec1_Phi) (fmul (COps QcOps) 2 ec1_Phi (fdiag (COps QcOps) ec1_lam)) /\
  feq 2 2 (fmul (COps QcOps) 2 ec1_Phi ec1_Phii) (fid (COps QcOps)) /\
  feq 2 2 (fmul (COps QcOps) 2 ec1_Phii ec1_Phi) (fid (COps QcOps)) /\
  (forall i j, (i < 2)%nat -> (j < 2)%nat -> i <> j -> ec1_lam i <> ec1_lam j) /\
  feq 2 2 (fmul (COps QcOps) 2 (cemb Qc QcOps ec1_Ah) ec1_V) (fmul (COps QcOps) 2 ec1_V (fdiag (COps QcOps) ec1_d)) /\
  feq 2 2 (fmul (COps QcOps) 2 ec1_W ec1_V) (fid (COps QcOps)) /\
  tab 2 ec1_d = [ec1_lam 1%nat; ec1_lam 0%nat].
Proof.
  split; [exact ec1_similar|].
  repeat split; try (apply ec_cfeqb_sound; vm_compute; reflexivity).
  intros i j Hi Hj Hne E.
  assert (Hc: ((i = 0 /\ j = 1) \/ (i = 1 /\ j = 0))%nat) by lia.
  destruct Hc as [[-> ->]|[-> ->]]; vm_compute in E; discriminate E.
Qed.

(* ---------- the real numbers meet the carrier hypotheses (classical: depends on the stdlib real-number axioms only) ---------- *)
From Coq Require Import Reals.
From PyOMA.Proofs Require Import P_modal_R.
Lemma R_formally_real_c01 (a b:R) : oadd ROps_c01 (omul ROps_c01 a a) (omul ROps_c01 b b) = o0 ROps_c01 -> a = o0 ROps_c01.
Proof. cbn [ROps_c01 oadd omul o0]. intros E. apply (Rplus_sqr_eq_0_l a b). exact E. Qed.
Definition pole_multiplicity_R :=
  pole_multiplicity R ROps_c01 ROps_ring Rmult_integral R1_neq_R0 Req_EM_T R_formally_real_c01.
Definition no_spurious_pole_R :=
  no_spurious_pole R ROps_c01 ROps_ring Rmult_integral Req_EM_T R_formally_real_c01.
