(* C16 - proofs about the picking specification of Model/M_pick.v. *)
From Coq Require Import List Arith ZArith QArith Qabs Bool Lia Permutation Lqa.
From PyOMA.Base Require Import Argmin.
From PyOMA.Model Require Import M_pick.
Import ListNotations.
Open Scope Q_scope.

(* ------------------------------------------------------------------ structural equality tests ---------------- *)
Lemma Qeqb_l_eq a b : Qeqb_l a b = true <-> a = b.
Proof.
  unfold Qeqb_l. destruct a as [an ad], b as [bn bd]; cbn [Qnum Qden].
  rewrite andb_true_iff, Z.eqb_eq, Pos.eqb_eq. split.
  - intros [H1 H2]. subst. reflexivity.
  - intros H. inversion H. auto.
Qed.

Lemma entry_eqb_eq a b : entry_eqb a b = true <-> a = b.
Proof.
  destruct a as [f o], b as [g p]. unfold entry_eqb. cbn [fst snd].
  rewrite andb_true_iff, Qeqb_l_eq, Nat.eqb_eq. split.
  - intros [H1 H2]. subst. reflexivity.
  - intros H. inversion H. auto.
Qed.

Lemma entry_eqb_refl a : entry_eqb a a = true.
Proof. apply entry_eqb_eq. reflexivity. Qed.

(* ------------------------------------------------------------------ multisets: remove1, msame ----------------- *)
Lemma remove1_some e l : forall r, remove1 e l = Some r -> Permutation l (e :: r).
Proof.
  induction l as [|a l IH]; intros r H; cbn [remove1] in H.
  - discriminate.
  - destruct (entry_eqb e a) eqn:E.
    + apply entry_eqb_eq in E. subst. inversion H. subst. reflexivity.
    + destruct (remove1 e l) as [r0|] eqn:E2; cbn [option_map] in H; [|discriminate].
      inversion H. subst. eapply perm_trans; [apply perm_skip, (IH r0 eq_refl)|apply perm_swap].
Qed.

Lemma remove1_in e l : In e l -> exists r, remove1 e l = Some r.
Proof.
  induction l as [|a l IH]; intros H; [destruct H|].
  cbn [remove1]. destruct (entry_eqb e a) eqn:E; [eauto|].
  destruct H as [H|H].
  - subst. rewrite entry_eqb_refl in E. discriminate.
  - destruct (IH H) as [r Hr]. rewrite Hr. cbn [option_map]. eauto.
Qed.

Lemma msame_perm : forall l l', msame l l' = true <-> Permutation l l'.
Proof.
  induction l as [|a r IH]; intros l'; cbn [msame].
  - split.
    + destruct l'; [constructor|discriminate].
    + intros H. apply Permutation_nil in H. subst. reflexivity.
  - split.
    + destruct (remove1 a l') as [r'|] eqn:E; [|discriminate]. intros H.
      apply IH in H. apply remove1_some in E. symmetry. eapply perm_trans; [exact E|]. apply perm_skip. symmetry. exact H.
    + intros H. assert (Hin : In a l') by (eapply Permutation_in; [exact H|apply in_eq]).
      destruct (remove1_in a l' Hin) as [r' Hr]. rewrite Hr. apply IH.
      apply remove1_some in Hr. apply (Permutation_cons_inv (a:=a)). eapply perm_trans; [exact H|exact Hr].
Qed.

Lemma msame_nil_l l' : msame [] l' = true <-> l' = [].
Proof. cbn [msame]. destruct l'; split; intros H; try reflexivity; discriminate. Qed.

Lemma is_min_at_iff x l e :
  is_min_at x l e = true <-> (forall e2, In e2 l -> absdist x (fst e) <= absdist x (fst e2)).
Proof.
  unfold is_min_at. rewrite forallb_forall. split; intros H e2 Hin.
  - apply Qle_bool_iff. apply H. exact Hin.
  - apply Qle_bool_iff. apply H. exact Hin.
Qed.

(* ------------------------------------------------------------------ the checker decides the relation ---------- *)
Lemma designated_eq pick x y :
  designated pick (x, y) = match pick x y with Picked e => [e] | PickRaises => [] end.
Proof. reflexivity. Qed.

Theorem allowed_iff pick st a st' : allowed pick st a st' = true <-> allowedP pick st a st'.
Proof.
  destruct a as [ | | |b x y|b]; cbn [allowed allowedP].
  - rewrite andb_true_iff, eqb_true_iff, msame_perm. tauto.
  - rewrite andb_true_iff, eqb_true_iff, msame_perm. tauto.
  - rewrite andb_true_iff, eqb_true_iff, msame_perm. tauto.
  - rewrite andb_true_iff, eqb_true_iff.
    destruct (shift st) eqn:Hs.
    + destruct b.
      * rewrite designated_eq. destruct (pick x y) as [e|]; cbn [app]; rewrite msame_perm; tauto.
      * destruct (sel st) as [|e0 r] eqn:Hsel.
        -- rewrite msame_nil_l. split.
           ++ intros [H1 H2]. split; [exact H1|]. left. split; [reflexivity|exact H2].
           ++ intros [H1 [[_ H2]|[e [Hin _]]]]; [split; assumption|destruct Hin].
        -- rewrite existsb_exists. split.
           ++ intros [H1 [e [Hin Hm]]]. apply andb_true_iff in Hm. destruct Hm as [Hmin Hm].
              split; [exact H1|]. right. exists e. split; [exact Hin|]. split.
              ** apply is_min_at_iff. exact Hmin.
              ** apply msame_perm. exact Hm.
           ++ intros [H1 [[H2 _]|[e [Hin [Hmin Hp]]]]]; [discriminate|]. split; [exact H1|].
              exists e. split; [exact Hin|]. apply andb_true_iff. split.
              ** apply is_min_at_iff. exact Hmin.
              ** apply msame_perm. exact Hp.
      * destruct (sel st) as [|e0 r] eqn:Hsel.
        -- rewrite msame_nil_l. split.
           ++ intros [H1 H2]. split; [exact H1|]. left. split; [reflexivity|exact H2].
           ++ intros [H1 [[_ H2]|[e [Hin _]]]]; [split; assumption|destruct Hin].
        -- rewrite existsb_exists. split.
           ++ intros [H1 [e [Hin Hm]]]. split; [exact H1|]. right. exists e. split; [exact Hin|].
              apply msame_perm. exact Hm.
           ++ intros [H1 [[H2 _]|[e [Hin Hp]]]]; [discriminate|]. split; [exact H1|].
              exists e. split; [exact Hin|]. apply msame_perm. exact Hp.
      * rewrite msame_perm. tauto.
    + rewrite msame_perm. tauto.
  - rewrite andb_true_iff, eqb_true_iff, orb_true_iff, andb_true_iff, msame_perm.
    split.
    + intros [H1 [H2|[Hs H2]]]; (split; [exact H1|]); [left; exact H2|].
      destruct b; try discriminate. apply existsb_exists in H2. destruct H2 as [e [Hin Hm]].
      right. split; [exact Hs|]. split; [reflexivity|]. exists e. split; [exact Hin|]. apply msame_perm. exact Hm.
    + intros [H1 [H2|[Hs [Hb [e [Hin Hp]]]]]]; (split; [exact H1|]); [left; exact H2|].
      right. split; [exact Hs|]. subst b. apply existsb_exists. exists e. split; [exact Hin|]. apply msame_perm. exact Hp.
Qed.

(* ------------------------------------------------------------------ what a click designates ------------------- *)
Lemma col_dists_length n y : length (col_dists n y) = n.
Proof. unfold col_dists. rewrite map_length, seq_length. reflexivity. Qed.

Lemma first_argmin_lt l k d : is_first_argmin l k d -> (k < length l)%nat.
Proof. intros (Hk & _). apply nth_error_Some. rewrite Hk. discriminate. Qed.

Lemma col_dists_nth n y j : (j < n)%nat -> nth_error (col_dists n y) j = Some (Some (absdist y (inject_Z (Z.of_nat j)))).
Proof.
  intros Hj. unfold col_dists. rewrite nth_error_map.
  assert (H : nth_error (seq 0 n) j = Some j).
  { rewrite (nth_error_nth' (seq 0 n) 0%nat) by (rewrite seq_length; exact Hj). rewrite seq_nth by exact Hj. reflexivity. }
  rewrite H. reflexivity.
Qed.

(* nearest order: in range, minimal |o - y|, first among ties *)
Theorem nearest_col_spec n y o : nearest_col n y = Some o ->
  (o < n)%nat /\
  (forall j, (j < n)%nat -> absdist y (inject_Z (Z.of_nat o)) <= absdist y (inject_Z (Z.of_nat j))) /\
  (forall j, (j < o)%nat -> absdist y (inject_Z (Z.of_nat o)) < absdist y (inject_Z (Z.of_nat j))).
Proof.
  unfold nearest_col. intros H.
  pose proof (nanargmin_spec (col_dists n y)) as HS.
  destruct (nanargmin (col_dists n y)) as [[o' d]|]; cbn [option_map fst] in H; [|discriminate].
  inversion H. subst o'. clear H.
  assert (Hlt : (o < n)%nat) by (rewrite <- (col_dists_length n y); eapply first_argmin_lt; exact HS).
  destruct HS as (Hk & Hmin & Hfst).
  rewrite (col_dists_nth n y o Hlt) in Hk. inversion Hk. subst d. clear Hk.
  split; [exact Hlt|]. split.
  - intros j Hj. apply (Hmin j). apply col_dists_nth. exact Hj.
  - intros j Hj. apply (Hfst j); [exact Hj|]. apply col_dists_nth. lia.
Qed.

Lemma nearest_col_none n y : nearest_col n y = None -> n = 0%nat.
Proof.
  unfold nearest_col. intros H.
  pose proof (nanargmin_spec (col_dists n y)) as HS.
  destruct (nanargmin (col_dists n y)) as [[o' d]|]; cbn [option_map] in H; [discriminate|].
  destruct n as [|n]; [reflexivity|]. exfalso.
  assert (H0 : (0 < length (col_dists (S n) y))%nat) by (rewrite col_dists_length; lia).
  specialize (HS 0%nat H0). rewrite col_dists_nth in HS by lia. discriminate.
Qed.

Lemma row_dists_nth x col r d : nth_error (row_dists x col) r = Some (Some d) ->
  exists f, nth_error col r = Some (Some f) /\ d = absdist x f.
Proof.
  unfold row_dists. rewrite nth_error_map. destruct (nth_error col r) as [[f|]|]; cbn [option_map]; intros H; try discriminate.
  inversion H. eauto.
Qed.

Theorem pick_ssi_spec tbl x y f o : pick_ssi tbl x y = Picked (f, o) -> designates_ssi tbl x y f o.
Proof.
  unfold pick_ssi, nearest_col. intros H.
  pose proof (nanargmin_spec (col_dists (length tbl) y)) as HS1.
  destruct (nanargmin (col_dists (length tbl) y)) as [[o' d']|]; cbn [option_map fst] in H; [|discriminate].
  destruct (nth_error tbl o') as [col|] eqn:Ecol; [|discriminate].
  pose proof (nanargmin_spec (row_dists x col)) as HS2.
  destruct (nanargmin (row_dists x col)) as [[r d]|]; [|discriminate].
  destruct (nth_error col r) as [[g|]|] eqn:Er; try discriminate.
  inversion H. subst g o'. exists col, r, d, d'. repeat split; try assumption; apply HS1 || apply HS2.
Qed.

Theorem pick_ssi_retained tbl x y f o : pick_ssi tbl x y = Picked (f, o) -> retained_cell tbl f o.
Proof. intros H. destruct (pick_ssi_spec _ _ _ _ _ H) as (col & r & d & d' & _ & Hc & _ & Hr). exists col, r. split; assumption. Qed.

(* the handler raises exactly when there is no column or the nearest column has no retained pole *)
Theorem pick_ssi_raises_iff tbl x y : pick_ssi tbl x y = PickRaises <->
  (tbl = [] \/ exists o col, nearest_col (length tbl) y = Some o /\ nth_error tbl o = Some col /\
                             forall j, (j < length col)%nat -> nth_error col j = Some None).
Proof.
  unfold pick_ssi. split.
  - intros H. destruct (nearest_col (length tbl) y) as [o|] eqn:En.
    + right. destruct (nearest_col_spec _ _ _ En) as (Hlt & _).
      destruct (nth_error tbl o) as [col|] eqn:Ecol.
      * exists o, col. split; [reflexivity|]. split; [exact Ecol|].
        pose proof (nanargmin_spec (row_dists x col)) as HS2.
        destruct (nanargmin (row_dists x col)) as [[r d]|].
        -- exfalso. destruct HS2 as (Hk & _). destruct (row_dists_nth _ _ _ _ Hk) as (g & Hg & _). rewrite Hg in H. discriminate.
        -- intros j Hj. unfold row_dists in HS2. rewrite map_length in HS2. specialize (HS2 j Hj).
           rewrite nth_error_map in HS2. destruct (nth_error col j) as [[g|]|]; cbn [option_map] in HS2; try discriminate. reflexivity.
      * exfalso. apply nth_error_None in Ecol. lia.
    + left. apply nearest_col_none in En. destruct tbl; [reflexivity|discriminate].
  - intros [H|(o & col & En & Ecol & Hall)].
    + subst. reflexivity.
    + rewrite En, Ecol.
      pose proof (nanargmin_spec (row_dists x col)) as HS2.
      destruct (nanargmin (row_dists x col)) as [[r d]|]; [|reflexivity].
      exfalso. destruct HS2 as (Hk & _). destruct (row_dists_nth _ _ _ _ Hk) as (g & Hg & _).
      assert (Hr : (r < length col)%nat) by (apply nth_error_Some; rewrite Hg; discriminate).
      rewrite (Hall r Hr) in Hg. discriminate.
Qed.

Theorem pick_fdd_spec freq x y f k : pick_fdd freq x y = Picked (f, k) -> designates_fdd freq x f k.
Proof.
  unfold pick_fdd. intros H.
  pose proof (nanargmin_spec (map (fun g => Some (absdist x g)) freq)) as HS.
  destruct (nanargmin (map (fun g => Some (absdist x g)) freq)) as [[k' d]|]; [|discriminate].
  destruct (nth_error freq k') as [g|] eqn:E; [|discriminate].
  inversion H. subst g k'. exists d. split; assumption.
Qed.

(* ------------------------------------------------------------------ traces: accounting of picks and removals --- *)
Lemma perm_move {A} (e:A) l1 l2 : Permutation (l1 ++ e :: l2) (e :: l1 ++ l2).
Proof. symmetry. apply Permutation_middle. Qed.

Lemma steps_account pick st l st2 : steps pick st l st2 ->
  shift st2 = shift_after (shift st) l /\
  exists removed, Permutation (sel st2 ++ removed) (sel st ++ flat_map (designated pick) (eff_clicks (shift st) l)) /\
                  (length removed <= ndesel (shift st) l)%nat.
Proof.
  induction 1 as [st|st a st1 l st2 Hal Hst IH].
  - cbn [shift_after eff_clicks flat_map ndesel]. split; [reflexivity|]. exists []. split; [reflexivity|cbn; lia].
  - destruct IH as (Hsh & removed & Hperm & Hlen).
    apply allowed_iff in Hal.
    destruct a as [ | | |b x y|b]; cbn [allowedP] in Hal; cbn [shift_after eff_clicks ndesel].
    + destruct Hal as (H1 & H2). rewrite H1 in *. split; [exact Hsh|]. exists removed. split; [|exact Hlen].
      eapply perm_trans; [exact Hperm|]. apply Permutation_app_tail. symmetry. exact H2.
    + destruct Hal as (H1 & H2). rewrite H1 in *. split; [exact Hsh|]. exists removed. split; [|exact Hlen].
      eapply perm_trans; [exact Hperm|]. apply Permutation_app_tail. symmetry. exact H2.
    + destruct Hal as (H1 & H2). rewrite H1 in *. split; [exact Hsh|]. exists removed. split; [|exact Hlen].
      eapply perm_trans; [exact Hperm|]. apply Permutation_app_tail. symmetry. exact H2.
    + destruct Hal as (H1 & H2). rewrite H1 in *.
      destruct (shift st) eqn:Hs.
      * destruct b.
        -- split; [exact Hsh|]. exists removed. split; [|exact Hlen].
           cbn [flat_map]. eapply perm_trans; [exact Hperm|].
           rewrite app_assoc. apply Permutation_app_tail. symmetry. eapply perm_trans; [apply Permutation_app_comm|exact H2].
        -- split; [exact Hsh|]. destruct H2 as [(E1 & E2)|(e & Hin & Hmin & Hp)].
           ++ exists removed. split; [|lia]. rewrite E1. rewrite E2 in Hperm. exact Hperm.
           ++ exists (e :: removed). split; [|cbn [length]; lia].
              eapply perm_trans; [apply perm_move|].
              eapply perm_trans; [apply perm_skip, Hperm|].
              change (Permutation ((e :: sel st1) ++ flat_map (designated pick) (eff_clicks true l))
                                  (sel st ++ flat_map (designated pick) (eff_clicks true l))).
              apply Permutation_app_tail. symmetry. exact Hp.
        -- split; [exact Hsh|]. destruct H2 as [(E1 & E2)|(e & Hin & Hp)].
           ++ exists removed. split; [|lia]. rewrite E1. rewrite E2 in Hperm. exact Hperm.
           ++ exists (e :: removed). split; [|cbn [length]; lia].
              eapply perm_trans; [apply perm_move|].
              eapply perm_trans; [apply perm_skip, Hperm|].
              change (Permutation ((e :: sel st1) ++ flat_map (designated pick) (eff_clicks true l))
                                  (sel st ++ flat_map (designated pick) (eff_clicks true l))).
              apply Permutation_app_tail. symmetry. exact Hp.
        -- split; [exact Hsh|]. exists removed. split; [|exact Hlen].
           eapply perm_trans; [exact Hperm|]. apply Permutation_app_tail. symmetry. exact H2.
      * assert (Hgoal : shift st2 = shift_after false l /\
                 exists removed0, Permutation (sel st2 ++ removed0) (sel st ++ flat_map (designated pick) (eff_clicks false l)) /\
                                  (length removed0 <= ndesel false l)%nat).
        { split; [exact Hsh|]. exists removed. split; [|exact Hlen].
          eapply perm_trans; [exact Hperm|]. apply Permutation_app_tail. symmetry. exact H2. }
        destruct b; exact Hgoal.
    + destruct Hal as (H1 & H2). rewrite H1 in *.
      destruct H2 as [H2|(Hs & Hb & e & Hin & Hp)].
      * assert (Hgoal : forall n, (ndesel (shift st) l <= n)%nat -> shift st2 = shift_after (shift st) l /\
                 exists removed0, Permutation (sel st2 ++ removed0) (sel st ++ flat_map (designated pick) (eff_clicks (shift st) l)) /\
                                  (length removed0 <= n)%nat).
        { intros n Hn. split; [exact Hsh|]. exists removed. split; [|lia].
          eapply perm_trans; [exact Hperm|]. apply Permutation_app_tail. symmetry. exact H2. }
        destruct b; try (apply Hgoal; lia). destruct (shift st); apply Hgoal; lia.
      * subst b. rewrite Hs in *. split; [exact Hsh|]. exists (e :: removed). split; [|cbn [length]; lia].
        eapply perm_trans; [apply perm_move|].
        eapply perm_trans; [apply perm_skip, Hperm|].
        change (Permutation ((e :: sel st1) ++ flat_map (designated pick) (eff_clicks true l))
                            (sel st ++ flat_map (designated pick) (eff_clicks true l))).
        apply Permutation_app_tail. symmetry. exact Hp.
Qed.

(* pick_inv, generic in the dialog variant: [cell] is any property every designated pair has *)
Theorem pick_inv_gen pick (cell : entry -> Prop) :
  (forall x y e, pick x y = Picked e -> cell e) ->
  forall acts st, steps pick init_state acts st ->
    shift st = shift_after false acts /\
    (forall e, In e (sel st) -> cell e /\ exists x y, In (x, y) (eff_clicks false acts) /\ pick x y = Picked e) /\
    (exists removed, Permutation (sel st ++ removed) (picks_made pick acts) /\ (length removed <= ndesel false acts)%nat).
Proof.
  intros Hcell acts st Hst.
  destruct (steps_account _ _ _ _ Hst) as (Hsh & removed & Hperm & Hlen).
  cbn [init_state shift sel app] in Hsh, Hperm, Hlen.
  split; [exact Hsh|]. split.
  - intros e Hin.
    assert (Hin2 : In e (picks_made pick acts)).
    { eapply Permutation_in; [exact Hperm|]. apply in_or_app. left. exact Hin. }
    unfold picks_made in Hin2. apply in_flat_map in Hin2. destruct Hin2 as ([x y] & Hc & Hd).
    unfold designated in Hd. cbn [fst snd] in Hd. destruct (pick x y) as [e'|] eqn:Ep; [|destruct Hd].
    destruct Hd as [Hd|[]]. subst e'. split; [eapply Hcell; exact Ep|]. exists x, y. split; assumption.
  - exists removed. split; assumption.
Qed.

Theorem pick_inv_ssi tbl acts st : steps (pick_ssi tbl) init_state acts st ->
    shift st = shift_after false acts /\
    (forall f o, In (f, o) (sel st) ->
       retained_cell tbl f o /\ exists x y, In (x, y) (eff_clicks false acts) /\ designates_ssi tbl x y f o) /\
    (exists removed, Permutation (sel st ++ removed) (picks_made (pick_ssi tbl) acts) /\ (length removed <= ndesel false acts)%nat).
Proof.
  intros Hst.
  destruct (pick_inv_gen (pick_ssi tbl) (fun e => retained_cell tbl (fst e) (snd e))
              (fun x y e => match e with (f, o) => pick_ssi_retained tbl x y f o end) acts st Hst) as (H1 & H2 & H3).
  split; [exact H1|]. split; [|exact H3].
  intros f o Hin. destruct (H2 _ Hin) as (Hc & x & y & Hxy & Hp). split; [exact Hc|].
  exists x, y. split; [exact Hxy|]. apply pick_ssi_spec. exact Hp.
Qed.

Theorem pick_inv_fdd freq acts st : steps (pick_fdd freq) init_state acts st ->
    shift st = shift_after false acts /\
    (forall f k, In (f, k) (sel st) ->
       nth_error freq k = Some f /\ exists x y, In (x, y) (eff_clicks false acts) /\ designates_fdd freq x f k) /\
    (exists removed, Permutation (sel st ++ removed) (picks_made (pick_fdd freq) acts) /\ (length removed <= ndesel false acts)%nat).
Proof.
  intros Hst.
  assert (Hcell : forall x y e, pick_fdd freq x y = Picked e -> nth_error freq (snd e) = Some (fst e)).
  { intros x y [f k] Hp. destruct (pick_fdd_spec _ _ _ _ _ Hp) as (d & _ & Hn). exact Hn. }
  destruct (pick_inv_gen (pick_fdd freq) (fun e => nth_error freq (snd e) = Some (fst e)) Hcell acts st Hst) as (H1 & H2 & H3).
  split; [exact H1|]. split; [|exact H3].
  intros f k Hin. destruct (H2 _ Hin) as (Hc & x & y & Hxy & Hp). split; [exact Hc|].
  exists x, y. split; [exact Hxy|]. eapply pick_fdd_spec. exact Hp.
Qed.

(* ------------------------------------------------------------------ single steps ------------------------------ *)
(* a deselecting click with the modifier held on a non-empty selection removes exactly one selected pair;
   the middle button removes one that minimises |f - x|; nothing else changes *)
Theorem deselect_removes_one pick st b x y st' :
  allowed pick st (Click b x y) st' = true -> shift st = true -> (b = BRight \/ b = BMiddle) ->
  shift st' = shift st /\
  (sel st = [] -> sel st' = []) /\
  (sel st <> [] ->
     exists e, In e (sel st) /\ Permutation (sel st) (e :: sel st') /\ length (sel st) = S (length (sel st')) /\
               (b = BMiddle -> forall e2, In e2 (sel st) -> absdist x (fst e) <= absdist x (fst e2))).
Proof.
  intros Hal Hs Hb. apply allowed_iff in Hal. cbn [allowedP] in Hal. rewrite Hs in Hal. destruct Hal as (H1 & H2).
  split; [rewrite Hs; exact H1|].
  destruct Hb as [Hb|Hb]; subst b.
  - destruct H2 as [(E1 & E2)|(e & Hin & Hp)].
    + split; [intros _; exact E2|]. intros Hne. contradiction.
    + split; [intros E; rewrite E in Hin; destruct Hin|]. intros _. exists e. split; [exact Hin|]. split; [exact Hp|].
      split; [apply Permutation_length in Hp; exact Hp|]. intros Hb. discriminate.
  - destruct H2 as [(E1 & E2)|(e & Hin & Hmin & Hp)].
    + split; [intros _; exact E2|]. intros Hne. contradiction.
    + split; [intros E; rewrite E in Hin; destruct Hin|]. intros _. exists e. split; [exact Hin|]. split; [exact Hp|].
      split; [apply Permutation_length in Hp; exact Hp|]. intros _. exact Hmin.
Qed.

(* without the modifier no click changes anything; keys and clicks outside the axes never change the selection *)
Theorem noshift_noop pick st b x y st' :
  shift st = false -> allowed pick st (Click b x y) st' = true ->
  shift st' = false /\ Permutation (sel st) (sel st') /\ impl_step pick st (Click b x y) = st.
Proof.
  intros Hs Hal. apply allowed_iff in Hal. cbn [allowedP] in Hal. rewrite Hs in Hal. destruct Hal as (H1 & H2).
  split; [exact H1|]. split; [exact H2|]. cbn [impl_step]. rewrite Hs. reflexivity.
Qed.

Theorem nonpicking_noop pick st a st' :
  allowed pick st a st' = true ->
  match a with
  | KeyDown => shift st' = true /\ Permutation (sel st) (sel st')
  | KeyUp => shift st' = false /\ Permutation (sel st) (sel st')
  | KeyOther | Click BOther _ _ => shift st' = shift st /\ Permutation (sel st) (sel st')
  | ClickOut b =>
      shift st' = shift st /\
      (Permutation (sel st) (sel st') \/
       (shift st = true /\ b = BRight /\
        exists e, In e (sel st) /\ Permutation (sel st) (e :: sel st') /\ length (sel st) = S (length (sel st'))))
  | _ => True
  end.
Proof.
  intros Hal. apply allowed_iff in Hal. destruct a as [ | | |b x y|b]; cbn [allowedP] in Hal; try exact Hal.
  - destruct b; try exact I. destruct Hal as (H1 & H2). split; [exact H1|]. destruct (shift st); exact H2.
  - destruct Hal as (H1 & [H2|(Hs & Hb & e & Hin & Hp)]); (split; [exact H1|]); [left; exact H2|].
    right. split; [exact Hs|]. split; [exact Hb|]. exists e. split; [exact Hin|]. split; [exact Hp|].
    apply Permutation_length in Hp. exact Hp.
Qed.

(* a pick adds exactly the designated pair (nothing if the click designates nothing) *)
Theorem pick_adds_designated pick st x y st' :
  allowed pick st (Click BLeft x y) st' = true -> shift st = true ->
  shift st' = true /\ Permutation (designated pick (x, y) ++ sel st) (sel st').
Proof.
  intros Hal Hs. apply allowed_iff in Hal. cbn [allowedP] in Hal. rewrite Hs in Hal. exact Hal.
Qed.

(* ------------------------------------------------------------------ hand-over --------------------------------- *)
Lemma combine_fst_snd {A B} (l:list (A*B)) : combine (map fst l) (map snd l) = l.
Proof. induction l as [|[a b] l IH]; cbn [map combine fst snd]; [reflexivity|]. rewrite IH. reflexivity. Qed.

Theorem result_zips_back st : combine (fst (result st)) (snd (result st)) = sel st.
Proof. unfold result. cbn [fst snd]. apply combine_fst_snd. Qed.

Lemma absdist_self f : absdist f f == 0.
Proof. unfold absdist. assert (H : f - f == 0) by ring. rewrite H. reflexivity. Qed.

(* extraction with the per-mode order list returns, for every handed-over pair whose frequency is a retained cell
   of its column, a row of that column holding that frequency, accepts it for any rtol >= 0, and returns the
   orders unchanged and in the same positions *)
Theorem mpe_list_exact tbl rtol : 0 <= rtol -> forall l,
  (forall f o, In (f, o) l -> retained_cell tbl f o) ->
  exists rows, mpe_list tbl rtol l = MOk rows (map snd l) /\
    Forall2 (fun rp e => exists col, nth_error tbl (snd e) = Some col /\
                                     nth_error col (fst rp) = Some (Some (snd rp)) /\ snd rp == fst e) rows l.
Proof.
  intros Hr. induction l as [|[f o] rest IH]; intros Hcells.
  - exists []. split; [reflexivity|constructor].
  - destruct IH as (rows & Hm & HF). { intros f' o' Hin. apply Hcells. right. exact Hin. }
    destruct (Hcells f o (or_introl eq_refl)) as (col & r0 & Ecol & Er0).
    cbn [mpe_list]. rewrite Ecol.
    pose proof (nanargmin_spec (row_dists f col)) as HS.
    assert (Hr0 : nth_error (row_dists f col) r0 = Some (Some (absdist f f))).
    { unfold row_dists. rewrite nth_error_map, Er0. reflexivity. }
    destruct (nanargmin (row_dists f col)) as [[r d]|].
    + destruct HS as (Hk & Hmin & _).
      destruct (row_dists_nth _ _ _ _ Hk) as (p & Hp & Hd). rewrite Hp, Hm.
      assert (Hpf : p == f).
      { specialize (Hmin r0 _ Hr0). rewrite Hd, absdist_self in Hmin. unfold absdist in Hmin.
        apply Qabs_Qle_condition in Hmin. lra. }
      assert (Hclose : isclose rtol p f = true).
      { unfold isclose. apply Qle_bool_iff. assert (H0 : p - f == 0) by lra. rewrite H0. cbn [Qabs].
        assert (Ha := Qabs_nonneg f). assert (Hb := Qmult_le_0_compat _ _ Hr Ha).
        assert (Hc : Qabs 0 == 0) by reflexivity. rewrite Hc. lra. }
      rewrite Hclose. exists ((r, p) :: rows). split; [reflexivity|].
      constructor; [|exact HF]. exists col. cbn [fst snd]. repeat split; assumption.
    + exfalso. assert (Hlt : (r0 < length (row_dists f col))%nat) by (apply nth_error_Some; rewrite Hr0; discriminate).
      rewrite (HS r0 Hlt) in Hr0. discriminate.
Qed.

(* for a table written with reduced fractions the returned frequencies are the handed-over ones, literally *)
Definition reduced_table (tbl:table) : Prop :=
  forall col r p, In col tbl -> nth_error col r = Some (Some p) -> Qred p = p.

Lemma rows_leibniz tbl : reduced_table tbl -> forall rows l,
  Forall2 (fun (rp:nat*Q) (e:entry) => exists col, nth_error tbl (snd e) = Some col /\
                                   nth_error col (fst rp) = Some (Some (snd rp)) /\ snd rp == fst e) rows l ->
  (forall e, In e l -> retained_cell tbl (fst e) (snd e)) ->
  Forall2 (fun (rp:nat*Q) (e:entry) => snd rp = fst e /\ exists col, nth_error tbl (snd e) = Some col /\
                                   nth_error col (fst rp) = Some (Some (fst e))) rows l.
Proof.
  intros Hred rows l HF.
  induction HF as [|[r p] [f o] rows' l' (col & Ecol & Ep & Heq) HF' IH]; intros Hc2; constructor.
  - cbn [fst snd] in *.
    assert (Hpf : p = f).
    { destruct (Hc2 (f, o) (or_introl eq_refl)) as (col2 & r2 & Ecol2 & Er2). cbn [fst snd] in *.
      rewrite Ecol in Ecol2. inversion Ecol2. subst col2.
      assert (Hin : In col tbl) by (eapply nth_error_In; exact Ecol).
      rewrite <- (Hred col r p Hin Ep), <- (Hred col r2 f Hin Er2). apply Qred_complete. exact Heq. }
    subst p. split; [reflexivity|]. exists col. split; assumption.
  - apply IH. intros e Hin. apply Hc2. right. exact Hin.
Qed.

Theorem handover_exact tbl rtol acts st : 0 <= rtol -> reduced_table tbl ->
  steps (pick_ssi tbl) init_state acts st ->
  combine (fst (result st)) (snd (result st)) = sel st /\
  exists rows, mpe_of_result tbl rtol (result st) = MOk rows (map snd (sel st)) /\
               map snd rows = map fst (sel st) /\
               Forall2 (fun rp e => exists col, nth_error tbl (snd e) = Some col /\
                                                nth_error col (fst rp) = Some (Some (fst e))) rows (sel st).
Proof.
  intros Hr Hred Hst. split; [apply result_zips_back|].
  unfold mpe_of_result. rewrite result_zips_back.
  destruct (pick_inv_ssi tbl acts st Hst) as (_ & Hcells & _).
  destruct (mpe_list_exact tbl rtol Hr (sel st)) as (rows & Hm & HF).
  { intros f o Hin. apply (Hcells f o Hin). }
  exists rows. split; [exact Hm|].
  assert (HF2 := rows_leibniz tbl Hred rows (sel st) HF).
  assert (Hc2 : forall e, In e (sel st) -> retained_cell tbl (fst e) (snd e)).
  { intros [f o] Hin. apply (Hcells f o Hin). }
  specialize (HF2 Hc2). clear Hm HF Hc2 Hcells.
  split.
  - induction HF2 as [|rp e rows' l' (H1 & _) _ IH]; cbn [map]; [reflexivity|]. rewrite H1, IH. reflexivity.
  - induction HF2 as [|rp e rows' l' (_ & H2) _ IH]; constructor; assumption.
Qed.

(* the multiset of pairs does not depend on the order of the clicks: two histories without deselecting clicks whose
   picking clicks are a permutation of one another end with the same multiset of (frequency, order) pairs,
   namely the pairs designated by the clicks *)
Theorem pick_order_irrelevant pick acts acts' st st' :
  steps pick init_state acts st -> steps pick init_state acts' st' ->
  ndesel false acts = 0%nat -> ndesel false acts' = 0%nat ->
  Permutation (eff_clicks false acts) (eff_clicks false acts') ->
  Permutation (sel st) (picks_made pick acts) /\ Permutation (sel st) (sel st').
Proof.
  intros H1 H2 N1 N2 HP.
  destruct (steps_account _ _ _ _ H1) as (_ & rem1 & P1 & L1).
  destruct (steps_account _ _ _ _ H2) as (_ & rem2 & P2 & L2).
  cbn [init_state shift sel app] in P1, P2, L1, L2.
  rewrite N1 in L1. rewrite N2 in L2.
  destruct rem1; [|cbn in L1; lia]. destruct rem2; [|cbn in L2; lia].
  rewrite app_nil_r in P1, P2. split; [exact P1|].
  eapply perm_trans; [exact P1|]. eapply perm_trans; [|symmetry; exact P2].
  apply Permutation_flat_map. exact HP.
Qed.

(* ------------------------------------------------------------------ the present code's resolution is allowed --- *)
Lemma insb_perm e l : Permutation (insb e l) (e :: l).
Proof.
  induction l as [|a r IH]; cbn [insb]; [reflexivity|].
  destruct (Qle_bool (fst e) (fst a)); [reflexivity|].
  eapply perm_trans; [apply perm_skip, IH|apply perm_swap].
Qed.

Lemma ssort_perm l : Permutation (ssort l) l.
Proof.
  unfold ssort. induction l as [|a r IH]; cbn [fold_right]; [reflexivity|].
  eapply perm_trans; [apply insb_perm|]. apply perm_skip. exact IH.
Qed.

Lemma drop_at_perm : forall i l e, nth_error l i = Some e -> Permutation l (e :: drop_at i l).
Proof.
  induction i as [|i IH]; intros [|a r] e H; cbn [nth_error drop_at] in *; try discriminate.
  - inversion H. reflexivity.
  - eapply perm_trans; [apply perm_skip, (IH r e H)|apply perm_swap].
Qed.

Lemma sel_dists_nth x (l:list entry) i d :
  nth_error (map (fun e:entry => Some (absdist x (fst e))) l) i = Some (Some d) ->
  exists e, nth_error l i = Some e /\ d = absdist x (fst e).
Proof.
  rewrite nth_error_map. destruct (nth_error l i) as [e|]; cbn [option_map]; intros H; [|discriminate].
  inversion H. eauto.
Qed.

Theorem impl_choice_allowed pick st a : allowed pick st a (impl_step pick st a) = true.
Proof.
  apply allowed_iff.
  destruct a as [ | | |b x y|b]; cbn [allowedP impl_step shift sel]; try (split; reflexivity).
  destruct (shift st) eqn:Hs.
  - destruct b.
    + rewrite designated_eq. destruct (pick x y) as [e|]; cbn [shift sel app].
      * split; [reflexivity|]. symmetry. eapply perm_trans; [apply ssort_perm|]. symmetry. apply Permutation_cons_append.
      * split; [exact Hs|reflexivity].
    + unfold nearest_sel.
      pose proof (nanargmin_spec (map (fun e => Some (absdist x (fst e))) (sel st))) as HS.
      destruct (nanargmin (map (fun e => Some (absdist x (fst e))) (sel st))) as [[i d]|]; cbn [shift sel].
      * split; [reflexivity|]. right. destruct HS as (Hk & Hmin & _).
        destruct (sel_dists_nth _ _ _ _ Hk) as (e & Ei & Hd). subst d. exists e. split; [eapply nth_error_In; exact Ei|]. split.
        -- intros e2 Hin. apply In_nth_error in Hin. destruct Hin as [j Hj].
           apply (Hmin j). apply (map_nth_error (fun e:entry => Some (absdist x (fst e))) j (sel st) Hj).
        -- apply drop_at_perm. exact Ei.
      * split; [exact Hs|]. left. destruct (sel st) as [|e0 r]; [split; reflexivity|].
        exfalso. assert (H0 : (0 < length (map (fun e => Some (absdist x (fst e))) (e0 :: r)))%nat) by (cbn; lia).
        specialize (HS 0%nat H0). cbn in HS. discriminate.
    + split; [reflexivity|]. destruct (sel st) as [|e0 r] eqn:Esel; [left; split; reflexivity|].
      right. assert (Hne : e0 :: r <> []) by discriminate.
      exists (last (e0 :: r) e0). split.
      * rewrite (app_removelast_last e0 Hne) at 2. apply in_or_app. right. left. reflexivity.
      * rewrite (app_removelast_last e0 Hne) at 1. symmetry. apply Permutation_cons_append.
    + split; [exact Hs|reflexivity].
  - split; [exact Hs|]. destruct b; reflexivity.
  - destruct (shift st) eqn:Hs.
    + destruct b; try (split; [exact Hs|left; reflexivity]).
      cbn [shift sel]. split; [reflexivity|].
      destruct (sel st) as [|e0 r] eqn:Esel; [left; reflexivity|].
      right. split; [reflexivity|]. split; [reflexivity|].
      assert (Hne : e0 :: r <> []) by discriminate.
      exists (last (e0 :: r) e0). split.
      * rewrite (app_removelast_last e0 Hne) at 2. apply in_or_app. right. left. reflexivity.
      * rewrite (app_removelast_last e0 Hne) at 1. symmetry. apply Permutation_cons_append.
    + split; [exact Hs|left; reflexivity].
Qed.

(* hence every run of the present code is a trace of allowed steps, and all theorems above apply to it *)
Theorem run_impl_steps pick acts : steps pick init_state acts (run_impl pick acts).
Proof.
  unfold run_impl. generalize init_state. induction acts as [|a l IH]; intros st; cbn [fold_left].
  - constructor.
  - econstructor; [apply impl_choice_allowed|apply IH].
Qed.

(* and it keeps the selection sorted by frequency (orders permuted along, since it sorts pairs) *)
Fixpoint sorted_f (l:list entry) : Prop :=
  match l with
  | [] => True
  | a :: r => (forall b, In b r -> fst a <= fst b) /\ sorted_f r
  end.

Lemma insb_sorted e l : sorted_f l -> sorted_f (insb e l).
Proof.
  induction l as [|a r IH]; intros Hs; cbn [insb].
  - cbn. split; [intros b []|exact I].
  - destruct Hs as (Ha & Hr). destruct (Qle_bool (fst e) (fst a)) eqn:E.
    + apply Qle_bool_iff in E. split; [|split; assumption].
      intros b [Hb|Hb]; [subst; exact E|]. eapply Qle_trans; [exact E|apply Ha; exact Hb].
    + assert (Hlt : fst a <= fst e).
      { apply Qlt_le_weak. apply Qnot_le_lt. intros Hle. apply Qle_bool_iff in Hle. congruence. }
      split; [|apply IH; exact Hr].
      intros b Hb. apply (Permutation_in _ (insb_perm e r)) in Hb. destruct Hb as [Hb|Hb]; [subst; exact Hlt|apply Ha; exact Hb].
Qed.

Lemma ssort_sorted l : sorted_f (ssort l).
Proof. unfold ssort. induction l as [|a r IH]; cbn [fold_right]; [exact I|apply insb_sorted; exact IH]. Qed.

Lemma drop_at_in : forall i l (b:entry), In b (drop_at i l) -> In b l.
Proof.
  induction i as [|i IH]; intros [|a r] b H; cbn [drop_at] in H; try (destruct H; fail).
  - right. exact H.
  - destruct H as [H|H]; [left; exact H|right; apply (IH r b H)].
Qed.

Lemma drop_at_sorted : forall i l, sorted_f l -> sorted_f (drop_at i l).
Proof.
  induction i as [|i IH]; intros [|a r] Hs; cbn [drop_at]; try exact I.
  - destruct Hs as (_ & Hr). exact Hr.
  - destruct Hs as (Ha & Hr). split; [|apply IH; exact Hr]. intros b Hb. apply Ha. eapply drop_at_in. exact Hb.
Qed.

Lemma removelast_sorted : forall l, sorted_f l -> sorted_f (removelast l).
Proof.
  induction l as [|a r IH]; intros Hs; [exact I|].
  destruct Hs as (Ha & Hr). cbn [removelast]. destruct r as [|b r']; [exact I|].
  split; [|apply IH; exact Hr].
  intros c Hc. apply Ha. assert (Hne : b :: r' <> []) by discriminate.
  rewrite (app_removelast_last b Hne). apply in_or_app. left. exact Hc.
Qed.

Theorem impl_keeps_sorted pick acts : sorted_f (sel (run_impl pick acts)).
Proof.
  unfold run_impl. assert (H0 : sorted_f (sel init_state)) by exact I. revert H0. generalize init_state.
  induction acts as [|a l IH]; intros st Hs; cbn [fold_left]; [exact Hs|]. apply IH.
  destruct a as [ | | |b x y|b]; cbn [impl_step sel]; try exact Hs.
  - destruct (shift st); [|exact Hs]. destruct b; try exact Hs.
    + destruct (pick x y); [apply ssort_sorted|exact Hs].
    + destruct (nearest_sel x (sel st)) as [[i d]|]; [apply drop_at_sorted; exact Hs|exact Hs].
    + apply removelast_sorted. exact Hs.
  - destruct (shift st); [|exact Hs]. destruct b; try exact Hs. apply removelast_sorted. exact Hs.
Qed.
