(* C17 - model of the uncertainty path of covariance-driven SSI.  Definitions only.

   ssi.build_hank(method="cov_mm", calc_unc=True, nb):
       Yf, Yp : the stacked future / past matrices of the moment method (N-1 columns, M_hankel.mm_Yf / mm_Yp),
       H   = 1/N  Yf Yp^T                                 (full estimate)
       Nb  = N // nb ;  block k = columns [k Nb, (k+1) Nb) of Yf, Yp as NumPy slices them (cut at N-1)
       h_k = 1/Nb Yf_k Yp_k^T                             (block-wise estimate)
       T[:,k] = vec_col(h_k - H) / sqrt(nb (nb-1))        (column-stacked; the sqrt is the caller's kernel)
   ssi.SSI_fast(H, br, ordmax, calc_unc=True, T):  for each factor column dH = unvec_col(T[:,k])
       d sigma_i = u_i^T dH v_i ;  du_i = du_code (eqs 28-34, inverse K_i supplied by the caller)
       dObs[:,i] = d sigma_i / (2 sqrt sigma_i) u_i + sqrt sigma_i du_i
       Q1 = vec_col(O_p^T dO_p), Q2 = vec_col(O_m^T dO_p), Q3 = vec_col(O_p^T dO_m), Q4 = vec_col(dObs[:l,:])
       (ordmax x ordmax, column-stacked: row i*ordmax+j holds entry (j,i))
   ssi.SSI_poles(..., calc_unc=True, Q1..Q4), order n, pole (lam, phi, chi):
       W = (M2^T + M3) - lam (M1^T + M1),  M_x = n x n corner of unvec_col(Q_x)
       d lam = chi^H (O_p^T O_p)^-1 W phi / (chi^H phi)
       d f   = 1/(2 pi) (a (c x + d y) + b (c y - d x)) / (dt |lam_d|^2 |lam_c|),  lam_c = a+ib, lam_d = c+id, d lam = x+iy
       Fn_cov = | sum_k (d f_k)^2 |
   External kernels (SVD, eig, inverses, sqrt, log, |.|, pi) are arguments (witness values), never computed here.
   The list-level wrappers at the end are what the correspondence check evaluates; they postpone every division to the
   very end so that exact arithmetic on float images stays dyadic (lemmas dObs_postponed, Q_postponed, jf_row_parts). *)
From Coq Require Import List Arith Lia.
From PyOMA.Base Require Import Carrier FMat Cplx.
From PyOMA.Model Require Import M_hankel.
Import ListNotations.

Section Unc.
Variable R:Type. Variable K:Ops R.
Local Open Scope K_scope.
Notation "0" := (o0 K) : K_scope. Notation "1" := (o1 K) : K_scope.
Infix "+" := (oadd K) : K_scope. Infix "*" := (omul K) : K_scope. Infix "-" := (osub K) : K_scope.
Notation "- x" := (oopp K x) : K_scope. Infix "/" := (odiv K) : K_scope.

(* ---------- vectorisations and the Kronecker product (np.kron, np.reshape order="F" / "C") ---------- *)
Definition vec_col (m:nat) (M:fmat R) : nat -> R := fun k => M (k mod m)%nat (k / m)%nat.      (* m rows *)
Definition vec_row (nc:nat) (M:fmat R) : nat -> R := fun k => M (k / nc)%nat (k mod nc)%nat.   (* nc columns *)
Definition unvec_col (m:nat) (v:nat->R) : fmat R := fun i j => v (j*m+i)%nat.
(* B has rb rows and cb columns *)
Definition kron (rb cb:nat) (A B:fmat R) : fmat R :=
  fun i j => A (i / rb)%nat (j / cb)%nat * B (i mod rb)%nat (j mod cb)%nat.
Definition colv (v:nat->R) : fmat R := fun i _ => v i.
Definition rowv (v:nat->R) : fmat R := fun _ j => v j.
Definition mapply (n:nat) (A:fmat R) (x:nat->R) : nat -> R := fun i => sumn K n (fun k => A i k * x k).
Definition fsum (n:nat) (F:nat -> fmat R) : fmat R := fun i j => sumn K n (fun k => F k i j).

(* ---------- (a) block-bootstrap covariance factor ---------- *)
(* NumPy slice [k Nb : (k+1) Nb] of an axis of length Ncol *)
Definition blk_lo (Nb Ncol k:nat) : nat := Nat.min (k*Nb) Ncol.
Definition blk_len (Nb Ncol k:nat) : nat := (Nat.min (S k * Nb) Ncol - Nat.min (k*Nb) Ncol)%nat.
Definition win_mom (Yf Yp:fmat R) (lo len:nat) : fmat R :=
  fun I J => sumn K len (fun t => Yf I (lo+t)%nat * Yp J (lo+t)%nat).
Definition full_est (invN:R) (Ncol:nat) (Yf Yp:fmat R) : fmat R := fscal K invN (win_mom Yf Yp 0 Ncol).
Definition blk_est (invNb:R) (Nb Ncol:nat) (Yf Yp:fmat R) (k:nat) : fmat R :=
  fscal K invNb (win_mom Yf Yp (blk_lo Nb Ncol k) (blk_len Nb Ncol k)).
(* deviations, column-stacked: entry (s, k); rows = number of rows of H *)
Definition dev_factor (invN invNb:R) (Nb Ncol rows:nat) (Yf Yp:fmat R) : fmat R :=
  fun s k => vec_col rows (fsub K (blk_est invNb Nb Ncol Yf Yp k) (full_est invN Ncol Yf Yp)) s.
(* the factor itself; c is the caller's 1/sqrt(nb(nb-1)) *)
Definition cov_factor (c invN invNb:R) (Nb Ncol rows:nat) (Yf Yp:fmat R) : fmat R :=
  fscal K c (dev_factor invN invNb Nb Ncol rows Yf Yp).
(* the row-major variant (what the code did before 6052c88), kept for the counter-statement *)
Definition dev_factor_rowmajor (invN invNb:R) (Nb Ncol cols:nat) (Yf Yp:fmat R) : fmat R :=
  fun s k => vec_row cols (fsub K (blk_est invNb Nb Ncol Yf Yp k) (full_est invN Ncol Yf Yp)) s.

(* ---------- (b) propagation: realisation layer ---------- *)
Definition dsig_of (m n:nat) (u:nat->R) (dH:fmat R) (v:nat->R) : R :=
  sumn K m (fun a => u a * sumn K n (fun b => dH a b * v b)).
(* U, V: singular vectors as columns; rs i = sqrt(sigma_i) (witness); dU: singular-vector sensitivities (witness) *)
Definition dObs_gen (rs dsg:nat->R) (U dU:fmat R) : fmat R :=
  fun a i => dsg i / ((1+1) * rs i) * U a i + rs i * dU a i.
Definition dObs (m n:nat) (rs:nat->R) (U V dU dH:fmat R) : fmat R :=
  dObs_gen rs (fun i => dsig_of m n (fun x => U x i) dH (fun y => V y i)) U dU.
(* SSI_fast eqs 28-34: the code's sensitivity of the i-th left singular vector (H is m x c, isg = 1/sigma_i, Ki the
   caller's inverse of Ki_arg).  The code multiplies the block row  B_i1 = [ I + (H/s) Ki (H^T/s - e u^T) , (H/s) Ki ]  with the
   stacked vector [b1; b2]; here the common factor (H/s) Ki is taken out (distributivity only). *)
Definition elast (c:nat) : fmat R := fun i _ => if Nat.eqb i (c-1) then 1 else 0.          (* last unit vector, c x 1 *)
Definition proj_out (k:nat) (w x:fmat R) : fmat R := fsub K x (fmul K 1 w (fmul K k (ftr w) x)).   (* x - w (w^T x) *)
Definition Ki_arg (m c:nat) (isg:R) (H v:fmat R) : fmat R :=
  fsub K (fadd K (fid K) (fscal K (1+1) (fmul K 1 (elast c) (ftr v)))) (fscal K (isg*isg) (fmul K m (ftr H) H)).
Definition b1_of (m c:nat) (isg:R) (dH u v:fmat R) : fmat R := fscal K isg (proj_out m u (fmul K c dH v)).
Definition b2_of (m c:nat) (isg:R) (dH u v:fmat R) : fmat R := fscal K isg (proj_out c v (fmul K m (ftr dH) u)).
Definition dv_rhs (m c:nat) (isg:R) (H dH u v:fmat R) : fmat R :=
  fadd K (b2_of m c isg dH u v)
         (fmul K m (fsub K (fscal K isg (ftr H)) (fmul K 1 (elast c) (ftr u))) (b1_of m c isg dH u v)).
Definition dv_code (m c:nat) (isg:R) (H dH u v Ki:fmat R) : fmat R := fmul K c Ki (dv_rhs m c isg H dH u v).
Definition du_code (m c:nat) (isg:R) (H dH u v Ki:fmat R) : fmat R :=
  fadd K (b1_of m c isg dH u v) (fmul K c (fscal K isg H) (dv_code m c isg H dH u v Ki)).

(* pl = br*l rows of O_p / O_m, l channels; all four are ordmax-strided column stacks *)
Definition Q1_of (ordmax pl:nat) (Obs dO:fmat R) : nat -> R :=
  fun s => sumn K pl (fun a => Obs a (s mod ordmax)%nat * dO a (s / ordmax)%nat).
Definition Q2_of (ordmax pl l:nat) (Obs dO:fmat R) : nat -> R :=
  fun s => sumn K pl (fun a => Obs (l+a)%nat (s mod ordmax)%nat * dO a (s / ordmax)%nat).
Definition Q3_of (ordmax pl l:nat) (Obs dO:fmat R) : nat -> R :=
  fun s => sumn K pl (fun a => Obs a (s mod ordmax)%nat * dO (l+a)%nat (s / ordmax)%nat).
Definition Q4_of (l:nat) (dO:fmat R) : nat -> R := fun s => dO (s mod l)%nat (s / l)%nat.

(* ---------- (b) propagation: pole layer, matrix form ---------- *)
Definition M_of (ordmax:nat) (Qk:nat->R) : fmat R := fun j i => Qk (i*ordmax + j)%nat.
Definition W_of (lam:R) (M1 M2 M3:fmat R) : fmat R := fun j i => (M2 i j + M3 j i) - lam * (M1 i j + M1 j i).
(* chi is the ROW vector chi^H *)
Definition dlam_num (n:nat) (chi:nat->R) (OO W:fmat R) (phi:nat->R) : R :=
  sumn K n (fun a => chi a * mapply n OO (mapply n W phi) a).
Definition dlam_den (n:nat) (chi phi:nat->R) : R := sumn K n (fun a => chi a * phi a).
Definition dlam_of (n:nat) (chi:nat->R) (OO W:fmat R) (phi:nat->R) : R := dlam_num n chi OO W phi / dlam_den n chi phi.

(* first row of the (f, xi) Jacobian applied to (x, y) = (Re, Im) d lam; absc = |lam_c|, inv2pi = 1/(2 pi) are the
   caller's kernels *)
Definition jf_lin (a b c d x y:R) : R := a * (c*x + d*y) + b * (c*y - d*x).
Definition jf_row (inv2pi dt absc a b c d x y:R) : R :=
  inv2pi * jf_lin a b c d x y / (dt * (c*c + d*d) * absc).
Definition sumsq (nb:nat) (uf:nat->R) : R := sumn K nb (fun k => uf k * uf k).
End Unc.

Arguments vec_col {R} m M k. Arguments vec_row {R} nc M k. Arguments unvec_col {R} m v i j.
Arguments kron {R} K rb cb A B i j. Arguments colv {R} v i j. Arguments rowv {R} v i j.
Arguments mapply {R} K n A x i. Arguments fsum {R} K n F i j.
Arguments win_mom {R} K Yf Yp lo len I J. Arguments full_est {R} K invN Ncol Yf Yp.
Arguments blk_est {R} K invNb Nb Ncol Yf Yp k. Arguments dev_factor {R} K invN invNb Nb Ncol rows Yf Yp.
Arguments cov_factor {R} K c invN invNb Nb Ncol rows Yf Yp.
Arguments dev_factor_rowmajor {R} K invN invNb Nb Ncol cols Yf Yp.
Arguments dsig_of {R} K m n u dH v. Arguments dObs {R} K m n rs U V dU dH. Arguments dObs_gen {R} K rs dsg U dU.
Arguments elast {R} K c i j. Arguments proj_out {R} K k w x. Arguments Ki_arg {R} K m c isg H v.
Arguments b1_of {R} K m c isg dH u v. Arguments b2_of {R} K m c isg dH u v. Arguments dv_rhs {R} K m c isg H dH u v.
Arguments dv_code {R} K m c isg H dH u v Ki. Arguments du_code {R} K m c isg H dH u v Ki.
Arguments Q1_of {R} K ordmax pl Obs dO. Arguments Q2_of {R} K ordmax pl l Obs dO.
Arguments Q3_of {R} K ordmax pl l Obs dO. Arguments Q4_of {R} l dO.
Arguments M_of {R} ordmax Qk. Arguments W_of {R} K lam M1 M2 M3.
Arguments dlam_num {R} K n chi OO W phi. Arguments dlam_den {R} K n chi phi. Arguments dlam_of {R} K n chi OO W phi.
Arguments jf_lin {R} K a b c d x y. Arguments jf_row {R} K inv2pi dt absc a b c d x y. Arguments sumsq {R} K nb uf.

(* ---------- list-level wrappers used by the correspondence check ---------- *)
Definition fm_of {R} (K:Ops R) (M:list (list R)) : fmat R := fun i j => ent K M i j.
Definition fv_of {R} (K:Ops R) (v:list R) : nat -> R := fun i => lget K v i.

(* build_hank: un-normalised factor  sqrt(nb(nb-1)) T  from the data; invN = 1/N, invNb = 1/(N // nb) *)
Definition unc_factor_l {R} (K:Ops R) (invN invNb:R) (l r br Ndat nb:nat) (Yl Yrefl:list (list R)) : list (list R) :=
  let N := mm_N br Ndat in
  tab2 (hank_rows l br * hank_cols r br) nb
    (dev_factor K invN invNb (N / nb) (N - 1) (hank_rows l br) (mm_Yf l br (sig_of K Yl)) (mm_Yp r br (sig_of K Yrefl))).

(* SSI_fast: the four Q columns for one perturbation dH, from witnesses (Obs as returned, U, V, sqrt sigma, dU).
   Executed with the division by 2 sqrt(sigma_i) postponed to the very end (all sums stay dyadic):
     dObs[:,i] = Nd[:,i] / (2 rs_i),  Nd[:,i] = d sigma_i u_i + 2 rs_i^2 du_i ;  Q(Obs, dObs)[s] = Q(Obs, Nd)[s] / (2 rs_(column of s)) *)
Definition dObs_num {R} (K:Ops R) (rs dsg:nat->R) (U dU:fmat R) : fmat R :=
  fun a i => oadd K (omul K (dsg i) (U a i)) (omul K (omul K (omul K (oadd K (o1 K) (o1 K)) (rs i)) (rs i)) (dU a i)).
Definition q_layer_l {R} (K:Ops R) (l br cols ordmax:nat) (rs:list R) (Obs U V dU dH:list (list R)) : list (list R) :=
  let rows := hank_rows l br in
  let dsg := tab ordmax (fun i => dsig_of K rows cols (fun x => ent K U x i) (fm_of K dH) (fun y => ent K V y i)) in
  let Ndl := tab2 rows ordmax (dObs_num K (fv_of K rs) (fv_of K dsg) (fm_of K U) (fm_of K dU)) in
  let Nd := fm_of K Ndl in
  let two_rs := fun i => omul K (oadd K (o1 K) (o1 K)) (lget K rs i) in
  [ tab (ordmax*ordmax) (fun s => odiv K (Q1_of K ordmax (br*l) (fm_of K Obs) Nd s) (two_rs (s / ordmax)%nat));
    tab (ordmax*ordmax) (fun s => odiv K (Q2_of K ordmax (br*l) l (fm_of K Obs) Nd s) (two_rs (s / ordmax)%nat));
    tab (ordmax*ordmax) (fun s => odiv K (Q3_of K ordmax (br*l) l (fm_of K Obs) Nd s) (two_rs (s / ordmax)%nat));
    tab (l*ordmax) (fun s => odiv K (Q4_of l Nd s) (two_rs (s / l)%nat)) ].
(* the un-postponed reference form (same values over a field, lemma q_postponed of P_unc.v) *)
Definition q_layer_ref_l {R} (K:Ops R) (l br cols ordmax:nat) (rs:list R) (Obs U V dU dH:list (list R)) : list (list R) :=
  let rows := hank_rows l br in
  let dO := dObs K rows cols (fv_of K rs) (fm_of K U) (fm_of K V) (fm_of K dU) (fm_of K dH) in
  [ tab (ordmax*ordmax) (Q1_of K ordmax (br*l) (fm_of K Obs) dO);
    tab (ordmax*ordmax) (Q2_of K ordmax (br*l) l (fm_of K Obs) dO);
    tab (ordmax*ordmax) (Q3_of K ordmax (br*l) l (fm_of K Obs) dO);
    tab (l*ordmax) (Q4_of l dO) ].

(* the code's singular-vector sensitivity for one singular triple: returns [du ; Ki_arg] (the harness inverts Ki_arg itself) *)
Definition colm {R} (K:Ops R) (x:list R) : fmat R := fun i _ => lget K x i.
Definition ki_arg_l {R} (K:Ops R) (m c:nat) (isg:R) (H:list (list R)) (v:list R) : list (list R) :=
  tab2 c c (Ki_arg K m c isg (fm_of K H) (colm K v)).
Definition du_code_l {R} (K:Ops R) (m c:nat) (isg:R) (H dH:list (list R)) (u v:list R) (Ki:list (list R)) : list R :=
  let rhs := tab2 c 1 (dv_rhs K m c isg (fm_of K H) (fm_of K dH) (colm K u) (colm K v)) in
  let dv := tab2 c 1 (fmul K c (fm_of K Ki) (fm_of K rhs)) in
  tab m (fun a => oadd K (b1_of K m c isg (fm_of K dH) (colm K u) (colm K v) a 0%nat)
                         (fmul K c (fscal K isg (fm_of K H)) (fm_of K dv) a 0%nat)).

(* SSI_poles: d lam for one pole of order n and one factor column; complex carrier, real tables embedded *)
Definition cemb {R} (K:Ops R) (M:fmat R) : fmat (C R) := fun i j => cofR K (M i j).
Definition dlam_l {R} (K:Ops R) (ordmax n:nat) (q1 q2 q3:list R) (OO:list (list R))
           (lam:C R) (lvec phi:list (C R)) : C R :=
  let KC := COps K in
  let Mx := fun q => cemb K (M_of ordmax (fv_of K q)) in
  let chi := fun a => cconj K (lget KC lvec a) in
  (* materialised once: W phi, then (O_p^T O_p)^-1 (W phi); same value as dlam_of (sums re-associated by tabulation only) *)
  let Wphi := tab n (mapply KC n (W_of KC lam (Mx q1) (Mx q2) (Mx q3)) (lget KC phi)) in
  let OWphi := tab n (mapply KC n (cemb K (fm_of K OO)) (lget KC Wphi)) in
  cdiv K (sumn KC n (fun a => cmul K (chi a) (lget KC OWphi a))) (dlam_den KC n chi (lget KC phi)).

(* Fn_cov of one pole: Q columns are given per factor column (lists of the nb columns) *)
Definition fn_var_l {R} (K:Ops R) (ordmax n:nat) (inv2pi dt absc:R) (lam_c lam_d:C R)
           (Q1c Q2c Q3c:list (list R)) (OO:list (list R)) (lvec phi:list (C R)) : R :=
  let nb := length Q1c in
  sumsq K nb (fun k =>
    let dl := dlam_l K ordmax n (nth k Q1c []) (nth k Q2c []) (nth k Q3c []) OO lam_d lvec phi in
    jf_row K inv2pi dt absc (cre lam_c) (cim lam_c) (cre lam_d) (cim lam_d) (cre dl) (cim dl)).

(* The same value with every division postponed (the executed form: exact dyadic arithmetic stays cheap):
     fn_var = inv2pi^2 * S / D^2,   S = sum_k jf_lin(num_k * conj den)^2,   D = |den|^2 dt |lam_d|^2 |lam_c|
   where d lam_k = num_k / den.  Returns (S, D).                                                             *)
Definition dlam_num_l {R} (K:Ops R) (ordmax n:nat) (q1 q2 q3:list R) (OO:list (list R))
           (lam:C R) (lvec phi:list (C R)) : C R :=
  let KC := COps K in
  let Mx := fun q => cemb K (M_of ordmax (fv_of K q)) in
  let chi := fun a => cconj K (lget KC lvec a) in
  let Wphi := tab n (mapply KC n (W_of KC lam (Mx q1) (Mx q2) (Mx q3)) (lget KC phi)) in
  let OWphi := tab n (mapply KC n (cemb K (fm_of K OO)) (lget KC Wphi)) in
  sumn KC n (fun a => cmul K (chi a) (lget KC OWphi a)).
Definition fn_var_parts_l {R} (K:Ops R) (ordmax n:nat) (dt absc:R) (lam_c lam_d:C R)
           (Q1c Q2c Q3c:list (list R)) (OO:list (list R)) (lvec phi:list (C R)) : R * R :=
  let KC := COps K in
  let den := dlam_den KC n (fun a => cconj K (lget KC lvec a)) (lget KC phi) in
  let S := sumn K (length Q1c) (fun k =>
    let z := cmul K (dlam_num_l K ordmax n (nth k Q1c []) (nth k Q2c []) (nth k Q3c []) OO lam_d lvec phi) (cconj K den) in
    let u := jf_lin K (cre lam_c) (cim lam_c) (cre lam_d) (cim lam_d) (cre z) (cim z) in omul K u u) in
  (S, omul K (omul K (omul K (cnorm2 K den) dt) (cnorm2 K lam_d)) absc).
