(* C14 - model of the preprocessing methods of pyoma2.setup.single.SingleSetup and pyoma2.setup.multi.MultiSetup_PreGER
   (decimate_data, detrend_data, filter_data, rollback, add_algorithms; static helpers of setup/base.py;
   functions.gen.filter_data, functions.gen.pre_multisetup).  Definitions only.

   SciPy is NOT modelled: data arrays are symbolic TERMS recording which SciPy call was applied to what, with which
   arguments (the harness evaluates a term with the same SciPy calls).  The only numerical fact used about SciPy is the
   shape contract  rows (decimate x q) = ceil (rows x / q), rows/channels unchanged by detrend and sosfiltfilt.
   Sampling attributes are exact rationals (Qc, Leibniz equality).  A Python exception is an explicit [PErr]. *)
From Coq Require Import List ZArith QArith Qcanon String Bool Arith PArith.
From PyOMA.Base Require Import Show.
Import ListNotations.
Local Open Scope string_scope.

(* ---------------------------------------------------------------- keyword arguments ------------------------- *)
Inductive kwval := VNone | VInt (z:Z) | VBool (b:bool) | VStr (s:string) | VInts (l:list Z).
Definition kwargs := list (string * kwval).
(* the keywords the class docstrings (and SciPy) document for the two **kwargs methods *)
Definition dec_names : list string := ["n"; "ftype"; "zero_phase"].
Definition det_names : list string := ["type"; "bp"; "overwrite_data"].   (* overwrite_data: documented by SciPy, passed through by the wrapper *)
Definition name_in (names:list string) (p:string * kwval) : bool := existsb (String.eqb (fst p)) names.
Definition kw_ok (names:list string) (kw:kwargs) : bool := forallb (name_in names) kw.

(* critical frequency / frequencies of scipy.signal.butter *)
Inductive wn := W1 (a:Qc) | W2 (a b:Qc).

(* ---------------------------------------------------------------- data terms -------------------------------- *)
Inductive term :=
| Init (k n c:nat)                                   (* the k-th array the user passed in: n rows (samples), c channels *)
| Dec (q:positive) (kw:kwargs) (d:term)              (* scipy.signal.decimate(d, q, axis=0, **kw) *)
| Det (kw:kwargs) (d:term)                           (* scipy.signal.detrend(d, axis=0, **kw) *)
| Filt (f:Qc) (w:wn) (ord:nat) (bt:string) (d:term). (* sosfiltfilt(butter(ord, w, btype=bt, output="sos", fs=f), d, axis=0) *)

Definition cdiv (n:nat) (q:positive) : nat := (n + Pos.to_nat q - 1) / Pos.to_nat q.
Fixpoint tlen (t:term) : nat :=
  match t with Init _ n _ => n | Dec q _ d => cdiv (tlen d) q | Det _ d => tlen d | Filt _ _ _ _ d => tlen d end.
Fixpoint tnch (t:term) : nat :=
  match t with Init _ _ c => c | Dec _ _ d => tnch d | Det _ d => tnch d | Filt _ _ _ _ d => tnch d end.

(* what add_algorithms hands to an algorithm: the array itself (SingleSetup) or, per dataset, the rows
   {"ref": d[:, refs].T, "mov": d[:, movs].T} (MultiSetup_PreGER, functions.gen.pre_multisetup) *)
Inductive view := Whole (t:term) | Split (t:term) (refs movs:list nat).

Inductive perr := TypeErr | ValueErr | IndexErr.
Inductive presult (A:Type) := POk (a:A) | PErr (e:perr).
Arguments POk {A} a. Arguments PErr {A} e.
Definition bindp {A B} (r:presult A) (f:A -> presult B) : presult B := match r with POk a => f a | PErr e => PErr e end.

(* list.remove(x): drops the first occurrence, ValueError when absent *)
Fixpoint remove1 (x:nat) (l:list nat) : option (list nat) :=
  match l with
  | [] => None
  | y :: r => if Nat.eqb x y then Some r else match remove1 x r with Some r' => Some (y :: r') | None => None end
  end.
Fixpoint mov_ids_from (l:list nat) (refs:list nat) : option (list nat) :=
  match refs with [] => Some l | r :: rs => match remove1 r l with Some l' => mov_ids_from l' rs | None => None end end.
Definition mov_ids (nch:nat) (refs:list nat) : option (list nat) := mov_ids_from (seq 0 nch) refs.

(* pre_multisetup(datasets, ref_ind): one entry per dataset; reflist[i] raises IndexError when missing *)
Fixpoint mk_views (refs:list (list nat)) (cur:list term) {struct cur} : presult (list view) :=
  match cur with
  | [] => POk []
  | t :: cr =>
      match refs with
      | [] => PErr IndexErr
      | rf :: rr =>
          match mov_ids (tnch t) rf with
          | None => PErr ValueErr
          | Some mv => match mk_views rr cr with POk vs => POk (Split t rf mv :: vs) | PErr e => PErr e end
          end
      end
  end.
(* sg = true: SingleSetup (one array, handed over whole); sg = false: MultiSetup_PreGER *)
Definition mk_data (sg:bool) (refs:list (list nat)) (cur:list term) : presult (list view) :=
  if sg then POk (map Whole cur) else mk_views refs cur.

(* ---------------------------------------------------------------- state and operations ---------------------- *)
Definition Qc_of_nat (n:nat) : Qc := Q2Qc (inject_Z (Z.of_nat n)).
Definition Qc_of_pos (p:positive) : Qc := Q2Qc (Zpos p # 1).

Record state := {
  cur : list term;               (* SingleSetup: [data];  PreGER: datasets *)
  data : list view;              (* SingleSetup: [Whole data];  PreGER: data (the ref/mov split) *)
  fs : Qc; dt : Qc;
  Ndats : list nat;              (* SingleSetup: [Ndat] *)
  Ts : list Qc;                  (* SingleSetup: [T] *)
  ref : list (list nat);         (* ref_ind (unused by SingleSetup) *)
  init : list term; init_fs : Qc; init_ref : list (list nat);   (* _initial_data / _initial_datasets, _initial_fs, _initial_ref_ind *)
  bound : list (nat * (list view * Qc))  (* log of (algorithm, (data, fs)) handed over by add_algorithms, oldest first *)
}.

Inductive op :=
| Decimate (q:positive) (kw:kwargs)
| Detrend (kw:kwargs)
| Filter (w:wn) (ord:nat) (bt:string)
| Rollback
| AddAlg (nm:nat)    (* add_algorithms(alg): nm identifies the algorithm INSTANCE (a fresh one, or one added before) *)
| ScipyRaises        (* a decimate/detrend/filter call that SciPy itself refuses on the present data (record too short for the
                        padding, unknown ftype/type/btype value, Wn above Nyquist): SciPy is not modelled, the harness marks these calls *).

(* __init__ / _initialize_data *)
Definition init_state (sg:bool) (fs0:Qc) (refs:list (list nat)) (ds:list term) : presult state :=
  match mk_data sg refs ds with
  | PErr e => PErr e
  | POk vs =>
      let dt0 := (/ fs0)%Qc in
      POk {| cur := ds; data := vs; fs := fs0; dt := dt0; Ndats := map tlen ds;
             Ts := map (fun t => (dt0 * Qc_of_nat (tlen t))%Qc) ds; ref := refs;
             init := ds; init_fs := fs0; init_ref := refs; bound := [] |}
  end.

Definition with_data (s:state) (c:list term) (vs:list view) : state :=
  {| cur := c; data := vs; fs := fs s; dt := dt s; Ndats := Ndats s; Ts := Ts s; ref := ref s;
     init := init s; init_fs := init_fs s; init_ref := init_ref s; bound := bound s |}.

(* duration stored by decimate_data.
   pc = false: the property-conforming formula  T = Ndat * dt  (what MultiSetup_PreGER.decimate_data computes);
   pc = true : the formula of BaseSetup._decimate_data used by the present SingleSetup:  T = 1 / fs' / q * Ndat *)
Definition dec_T (pc:bool) (fs' dt':Qc) (q:positive) (n:nat) : Qc :=
  if pc then (/ fs' / Qc_of_pos q * Qc_of_nat n)%Qc else (dt' * Qc_of_nat n)%Qc.

Definition step (pc sg:bool) (s:state) (o:op) : presult state :=
  match o with
  | Decimate q kw =>
      if kw_ok dec_names kw then
        let c := map (Dec q kw) (cur s) in
        match mk_data sg (ref s) c with
        | PErr e => PErr e
        | POk vs =>
            let fs' := (fs s / Qc_of_pos q)%Qc in
            let dt' := (/ fs')%Qc in
            let nd := map tlen c in
            POk {| cur := c; data := vs; fs := fs'; dt := dt'; Ndats := nd; Ts := map (dec_T pc fs' dt' q) nd; ref := ref s;
                   init := init s; init_fs := init_fs s; init_ref := init_ref s; bound := bound s |}
        end
      else PErr TypeErr
  | Detrend kw =>
      if kw_ok det_names kw then
        let c := map (Det kw) (cur s) in
        match mk_data sg (ref s) c with PErr e => PErr e | POk vs => POk (with_data s c vs) end
      else PErr TypeErr
  | Filter w ord bt =>
      let c := map (Filt (fs s) w ord bt) (cur s) in
      match mk_data sg (ref s) c with PErr e => PErr e | POk vs => POk (with_data s c vs) end
  | Rollback =>
      match init_state sg (init_fs s) (init_ref s) (init s) with
      | PErr e => PErr e
      | POk s' => POk {| cur := cur s'; data := data s'; fs := fs s'; dt := dt s'; Ndats := Ndats s'; Ts := Ts s'; ref := ref s';
                         init := init s'; init_fs := init_fs s'; init_ref := init_ref s'; bound := bound s |}
      end
  | ScipyRaises => PErr ValueErr   (* the helper raises before anything is assigned *)
  | AddAlg nm =>   (* alg._set_data(data=self.data, fs=self.fs), whether or not this instance was added before *)
      POk {| cur := cur s; data := data s; fs := fs s; dt := dt s; Ndats := Ndats s; Ts := Ts s; ref := ref s;
             init := init s; init_fs := init_fs s; init_ref := init_ref s; bound := (bound s ++ [(nm, (data s, fs s))])%list |}
  end.

(* what the algorithm instance nm holds: its most recent binding *)
Definition alg_lookup (nm:nat) (log:list (nat * (list view * Qc))) : option (list view * Qc) :=
  match find (fun e => Nat.eqb (fst e) nm) (rev log) with Some e => Some (snd e) | None => None end.

Definition run (pc sg:bool) (s0:state) (ops:list op) : presult state :=
  fold_left (fun r o => bindp r (fun s => step pc sg s o)) ops (POk s0).

(* A call that raises leaves the object as it was and the session goes on: the history continues from the unchanged state. *)
Definition step_keep (pc sg:bool) (s:state) (o:op) : option perr * state :=
  match step pc sg s o with POk s' => (None, s') | PErr e => (Some e, s) end.
Fixpoint run_keep (pc sg:bool) (s:state) (ops:list op) : state :=
  match ops with [] => s | o :: r => run_keep pc sg (snd (step_keep pc sg s o)) r end.
(* the calls of a history that succeeded *)
Fixpoint succ_ops (pc sg:bool) (s:state) (ops:list op) : list op :=
  match ops with
  | [] => []
  | o :: r => match step pc sg s o with POk s' => o :: succ_ops pc sg s' r | PErr _ => succ_ops pc sg s r end
  end.

(* ---------------------------------------------------------------- the specification side --------------------- *)
(* the operations issued after the last rollback *)
Definition since_rb (ops:list op) : list op :=
  fold_left (fun acc o => match o with Rollback => [] | _ => (acc ++ [o])%list end) ops [].
(* "the same scipy operations applied in that sequence", threading the sampling frequency the filter design needs *)
Definition app1 (c:list term * Qc) (o:op) : list term * Qc :=
  match o with
  | Decimate q kw => (map (Dec q kw) (fst c), (snd c / Qc_of_pos q)%Qc)
  | Detrend kw => (map (Det kw) (fst c), snd c)
  | Filter w ord bt => (map (Filt (snd c) w ord bt) (fst c), snd c)
  | Rollback => c
  | AddAlg _ => c
  | ScipyRaises => c
  end.
Definition apply_ops (ops:list op) (c:list term * Qc) : list term * Qc := fold_left app1 ops c.
(* product of the decimation factors *)
Fixpoint qprod (ops:list op) : Qc :=
  match ops with [] => 1%Qc | Decimate q _ :: r => (Qc_of_pos q * qprod r)%Qc | _ :: r => qprod r end.
(* every keyword of the call is a documented one *)
Definition op_documented (o:op) : Prop :=
  match o with Decimate _ kw => kw_ok dec_names kw = true | Detrend kw => kw_ok det_names kw = true | ScipyRaises => False | _ => True end.

(* the user's arrays as terms *)
Fixpoint inits_from (k:nat) (shapes:list (nat * nat)) : list term :=
  match shapes with [] => [] | (n, c) :: r => Init k n c :: inits_from (S k) r end.
Definition inits (shapes:list (nat * nat)) : list term := inits_from 0 shapes.

(* ---------------------------------------------------------------- printers (read by harness/props/C14.py) ---- *)
Definition showKV (v:kwval) : string :=
  match v with VNone => "N" | VInt z => "i" ++ showZ z | VBool b => "b" ++ showB b | VStr s => "s" ++ s | VInts l => "l" ++ showL showZ ":" l end.
Definition showKw (kw:kwargs) : string := "{" ++ showL (fun p => fst p ++ "=" ++ showKV (snd p)) "," kw ++ "}".
Definition showWn (w:wn) : string := match w with W1 a => showQc a | W2 a b => showQc a ++ "," ++ showQc b end.
Fixpoint showT (t:term) : string :=
  match t with
  | Init k n c => "(I " ++ showN k ++ " " ++ showN n ++ " " ++ showN c ++ ")"
  | Dec q kw d => "(D " ++ showZ (Zpos q) ++ " " ++ showKw kw ++ " " ++ showT d ++ ")"
  | Det kw d => "(T " ++ showKw kw ++ " " ++ showT d ++ ")"
  | Filt f w o b d => "(F " ++ showQc f ++ " " ++ showWn w ++ " " ++ showN o ++ " " ++ b ++ " " ++ showT d ++ ")"
  end.
Definition showErr (e:perr) : string := match e with TypeErr => "TypeError" | ValueErr => "ValueError" | IndexErr => "IndexError" end.

(* Output is kept short (printing strings dominates the evaluation time): a term that is the first dataset's term with only
   the Init leaf replaced is printed "^k n c"; a view whose term is the dataset's current term is printed with "=" for
   the term.  Both abbreviations are used only when a boolean structural comparison ([term_eqb], sound by
   P_prep.term_eqb_eq) says so, otherwise the term is printed in full. *)
Fixpoint zs_eqb (x y:list Z) : bool :=
  match x, y with [], [] => true | u :: x', v :: y' => Z.eqb u v && zs_eqb x' y' | _, _ => false end.
Definition kwval_eqb (a b:kwval) : bool :=
  match a, b with
  | VNone, VNone => true | VInt x, VInt y => Z.eqb x y | VBool x, VBool y => Bool.eqb x y | VStr x, VStr y => String.eqb x y
  | VInts x, VInts y => zs_eqb x y
  | _, _ => false
  end.
Fixpoint kw_eqb (a b:kwargs) : bool :=
  match a, b with
  | [], [] => true
  | (k, v) :: a', (k', v') :: b' => String.eqb k k' && kwval_eqb v v' && kw_eqb a' b'
  | _, _ => false
  end.
Definition wn_eqb (a b:wn) : bool :=
  match a, b with W1 x, W1 y => Qc_eq_bool x y | W2 x x', W2 y y' => Qc_eq_bool x y && Qc_eq_bool x' y' | _, _ => false end.
Fixpoint term_eqb (a b:term) : bool :=
  match a, b with
  | Init k n c, Init k' n' c' => Nat.eqb k k' && Nat.eqb n n' && Nat.eqb c c'
  | Dec q kw d, Dec q' kw' d' => Pos.eqb q q' && kw_eqb kw kw' && term_eqb d d'
  | Det kw d, Det kw' d' => kw_eqb kw kw' && term_eqb d d'
  | Filt f w o bt d, Filt f' w' o' bt' d' => Qc_eq_bool f f' && wn_eqb w w' && Nat.eqb o o' && String.eqb bt bt' && term_eqb d d'
  | _, _ => false
  end.
Fixpoint tleaf (t:term) : term := match t with Init _ _ _ => t | Dec _ _ d => tleaf d | Det _ d => tleaf d | Filt _ _ _ _ d => tleaf d end.
Fixpoint reinit (l:term) (t:term) : term :=
  match t with Init _ _ _ => l | Dec q kw d => Dec q kw (reinit l d) | Det kw d => Det kw (reinit l d) | Filt f w o b d => Filt f w o b (reinit l d) end.
Definition showT_rel (first:option term) (t:term) : string :=
  match first, tleaf t with
  | Some t0, Init k n c => if term_eqb t (reinit (Init k n c) t0) then "^" ++ showN k ++ " " ++ showN n ++ " " ++ showN c else showT t
  | _, _ => showT t
  end.
Definition showCur (c:list term) : string :=
  match c with [] => "" | t0 :: r => join ";" (showT t0 :: map (showT_rel (Some t0)) r) end.
Definition showT_cur (c:option term) (t:term) : string :=
  match c with Some t' => if term_eqb t t' then "=" else showT t | None => showT t end.
Definition showV (c:option term) (v:view) : string :=
  match v with
  | Whole t => "W " ++ showT_cur c t
  | Split t r m => "S r" ++ showL showN "," r ++ " m" ++ showL showN "," m ++ " " ++ showT_cur c t
  end.
Fixpoint showVs (c:list term) (vs:list view) : list string :=
  match vs with [] => [] | v :: vr => showV (hd_error c) v :: showVs (tl c) vr end.
Definition showBound (c:list term) (b:nat * (list view * Qc)) : string :=
  showN (fst b) ++ ":" ++ showQc (snd (snd b)) ++ "@" ++ join ";" (showVs c (fst (snd b))).
(* fs|dt|Ndats|Ts|cur|data|number of bindings|last binding (algorithm:fs@data) *)
Definition showS (s:state) : string :=
  showQc (fs s) ++ "|" ++ showQc (dt s) ++ "|" ++ showL showN " " (Ndats s) ++ "|" ++ showL showQc " " (Ts s) ++ "|"
  ++ showCur (cur s) ++ "|" ++ join ";" (showVs (cur s) (data s)) ++ "|" ++ showN (List.length (bound s)) ++ "|"
  ++ match rev (bound s) with b :: _ => showBound (cur s) b | [] => "-" end.
Definition showR (r:presult state) : string := match r with POk s => showS s | PErr e => "E:" ++ showErr e end.

(* outcome of each call of a history: (the exception raised, if any; the state after the call) *)
Fixpoint trace_keep (pc sg:bool) (s:state) (ops:list op) : list (option perr * state) :=
  match ops with [] => [] | o :: rest => let p := step_keep pc sg s o in p :: trace_keep pc sg (snd p) rest end.
Definition last_keep (pc sg:bool) (s:state) (ops:list op) : option perr * state :=
  fold_left (fun p o => step_keep pc sg (snd p) o) ops (None, s).
Definition setup (sg:bool) (fs0:Qc) (refs:list (list nat)) (shapes:list (nat * nat)) : presult state :=
  init_state sg fs0 refs (inits shapes).
(* "E:<exception>!" when the call raised, then the state after the call *)
Definition showK (p:option perr * state) : string :=
  match fst p with Some e => "E:" ++ showErr e ++ "!" | None => "" end ++ showS (snd p).
Definition showTsK (p:option perr * state) : string := showL showQc " " (Ts (snd p)).
(* one history: after construction and after every call *)
Definition showTrace (pc sg:bool) (fs0:Qc) (refs:list (list nat)) (shapes:list (nat * nat)) (ops:list op) : string :=
  match setup sg fs0 refs shapes with PErr e => "E:" ++ showErr e | POk s0 => showL showK "~" ((None, s0) :: trace_keep pc sg s0 ops) end.
(* one history: outcome of the last call only *)
Definition showFinal (pc sg:bool) (fs0:Qc) (refs:list (list nat)) (shapes:list (nat * nat)) (ops:list op) : string :=
  match setup sg fs0 refs shapes with PErr e => "E:" ++ showErr e | POk s0 => showK (last_keep pc sg s0 ops) end.
Definition showFinals (pc sg:bool) (fs0:Qc) (refs:list (list nat)) (shapes:list (nat * nat)) (hs:list (list op)) : string :=
  showL (showFinal pc sg fs0 refs shapes) "#" hs.
Definition showTraces (pc sg:bool) (fs0:Qc) (refs:list (list nat)) (shapes:list (nat * nat)) (hs:list (list op)) : string :=
  showL (showTrace pc sg fs0 refs shapes) "#" hs.
(* durations only (used for the second model variant of SingleSetup, whose other components are identical) *)
Definition showTsFinals (pc sg:bool) (fs0:Qc) (refs:list (list nat)) (shapes:list (nat * nat)) (hs:list (list op)) : string :=
  showL (fun ops => match setup sg fs0 refs shapes with PErr e => "E:" ++ showErr e | POk s0 => showTsK (last_keep pc sg s0 ops) end) "#" hs.
Definition showTsTraces (pc sg:bool) (fs0:Qc) (refs:list (list nat)) (shapes:list (nat * nat)) (hs:list (list op)) : string :=
  showL (fun ops => match setup sg fs0 refs shapes with PErr e => "E:" ++ showErr e
                    | POk s0 => showL showTsK "~" ((None, s0) :: trace_keep pc sg s0 ops) end) "#" hs.
