(* C13 - model of pyoma2.functions.fdd.SD_est ('per': scipy.signal.csd Welch estimate with broadcasting over
   (channel, reference) pairs; 'cor': box-car periodogram -> inverse real FFT -> exponential window -> real FFT).
   Generic commutative ring R with complex numbers as pairs (Base/Cplx.v).  The DFT is an explicit finite sum over
   a twiddle table tw k t (= omega^(k t), omega = exp(-2 pi i / nfft)), window samples w t and the exponential
   window we t are witness inputs; reciprocals (1/n, 1/(fs sum w^2), 1/K) are parameters of the function-level
   model and are computed with the carrier's division in the list-level wrappers.  Definitions only. *)
From Coq Require Import List Arith Bool Lia ZArith QArith Qcanon String.
From Bignums Require Import BigZ.
From PyOMA.Base Require Import Carrier Cplx Show.
Import ListNotations.

Section Spectra.
Variable R:Type. Variable K:Ops R.
Local Open Scope K_scope.
Notation "0" := (o0 K) : K_scope. Notation "1" := (o1 K) : K_scope.
Infix "+" := (oadd K) : K_scope. Infix "*" := (omul K) : K_scope. Infix "-" := (osub K) : K_scope.
Notation "- x" := (oopp K x) : K_scope. Infix "/" := (odiv K) : K_scope.
Notation CR := (C R).
Notation csum := (sumn (COps K)).

(* real data: channel -> sample -> value *)
Definition rsig := nat -> nat -> R.
Definition ofnat (n:nat) : R := sumn K n (fun _ => 1).

(* --- one segment: samples off .. off+m-1, mean removed (detrend='constant') --- *)
Definition seg_mean (invm:R) (m off:nat) (y:nat->R) : R := invm * sumn K m (fun t => y (off+t)%nat).
Definition seg_dt (invm:R) (m off:nat) (y:nat->R) (t:nat) : R := y (off+t)%nat - seg_mean invm m off y.

(* --- short-time DFT of segment s (start s*step, length m), line k:  X^s[k] = sum_t w_t (y_t - mean) tw k t.
   (For nfft > m the segment is zero-padded: only t < m contributes.)                                  *)
Definition stft (tw:nat->nat->CR) (w:nat->R) (invm:R) (m step:nat) (y:nat->R) (s k:nat) : CR :=
  csum m (fun t => cscal K (w t * seg_dt invm m (s*step) y t) (tw k t)).

(* one-sided doubling as scipy does it: lines 1 .. nfft/2-1 (even nfft) or 1 .. (nfft-1)/2 (odd nfft) *)
Definition dbl (nfft k:nat) : R :=
  if (k =? 0)%nat then 1 else if Nat.even nfft && (k =? nfft/2)%nat then 1 else 1+1.

(* --- averaged cross periodogram of two families of segment spectra XA, XR : channel -> segment -> line.
   scipy.signal.csd(x, y) = mean over segments of conj(X) * Y: the FIRST argument (here: the channel of Yall) is
   conjugated, the second (the reference channel) is not.                                               *)
Definition csd_of (XA XR:nat->nat->nat->CR) (coef:nat->R) (nseg:nat) (i j k:nat) : CR :=
  cscal K (coef k) (csum nseg (fun s => cmul K (cconj K (XA i s k)) (XR j s k))).

Definition spec_of tw w invm m step (Y:rsig) : nat->nat->nat->CR := fun i => stft tw w invm m step (Y i).
Definition coef_of (scale invK:R) (nfft:nat) : nat -> R := fun k => dbl nfft k * scale * invK.

Definition pxy tw w invm scale invK (nfft m step nseg:nat) (Y Yref:rsig) : nat->nat->nat->CR :=
  csd_of (spec_of tw w invm m step Y) (spec_of tw w invm m step Yref) (coef_of scale invK nfft) nseg.

(* 'per': nperseg = nfft = n, Hann samples w, scale = 1/(fs * sum w^2), invK = 1/number of segments *)
Definition sd_per tw w invn scale invK (n step nseg:nat) (Y Yref:rsig) : nat->nat->nat->CR :=
  pxy tw w invn scale invK n n step nseg Y Yref.

(* --- 'cor' (even n): P = box-car csd with nperseg = n/2, nfft = n, noverlap = 0, fs = 1 (so scale = 1/(n/2));
   r = numpy.fft.irfft(P) (length n; the imaginary parts of the lines 0 and n/2 are ignored);
   r *= we;  Sy = numpy.fft.rfft(r).                                                                    *)
Definition alt (t:nat) : R := if Nat.even t then 1 else - (1).
Definition irfft_of (tw:nat->nat->CR) (invn:R) (n:nat) (P:nat->CR) (t:nat) : R :=
  invn * (cre (P 0%nat) + alt t * cre (P (n/2)%nat)
          + sumn K (n/2 - 1) (fun q => (1+1) * cre (cmul K (P (S q)) (cconj K (tw (S q) t))))).
Definition rfft_of (tw:nat->nat->CR) (n:nat) (x:nat->R) (k:nat) : CR := csum n (fun t => cscal K (x t) (tw k t)).
Definition cor_of tw (we:nat->R) invn (n:nat) (P:nat->CR) (k:nat) : CR :=
  rfft_of tw n (fun t => we t * irfft_of tw invn n P t) k.
Definition ones : nat -> R := fun _ => 1.
Definition sd_cor tw we invm invn invK (n nseg:nat) (Y Yref:rsig) : nat->nat->nat->CR :=
  fun i j => cor_of tw we invn n (pxy tw ones invm invm invK n (n/2) (n/2) nseg Y Yref i j).

(* --- frequency grid: n/2+1 lines, line k at k*fs/n --- *)
Definition nlines (n:nat) : nat := S (n/2).
Definition freq_at (fs:R) (n k:nat) : R := ofnat k * fs / ofnat n.
Definition freq_grid (fs:R) (n:nat) : list R := tab (nlines n) (freq_at fs n).

(* --- segmentation parameters as scipy derives them --- *)
Definition noverlap (n pn pd:nat) : nat := (n * pn / pd)%nat.        (* int(nxseg * pov), pov = pn/pd *)
Definition nsegs (Ndat m nov:nat) : nat := ((Ndat - nov) / (m - nov))%nat.

(* ================= list-level (executable) wrappers ================= *)
Definition sig_of (Yl:list (list R)) : rsig := fun a t => ent K Yl a t.
(* twiddle table from the list of the n powers omega^0 .. omega^(n-1): tw k t = omega^((k t) mod n) *)
Definition tw_of (twl:list CR) (n:nat) : nat->nat->CR := fun k t => lget (COps K) twl ((k*t) mod n)%nat.
(* the same table, materialised once for lines k < nl and samples t < n *)
Definition tw_tab (twl:list CR) (n nl:nat) : nat->nat->CR :=
  let T := tab2 nl n (tw_of twl n) in fun k t => ent (COps K) T k t.
(* segment spectra of nch channels, tabulated once: per segment the mean is computed once, the windowed mean-removed
   samples are tabulated, then every line is a sum over that table (same function as [stft], see P_spectra.stft_tab_entry) *)
Definition seg_tab (w:nat->R) invm (m off:nat) (y:nat->R) : list R :=
  let mu := seg_mean invm m off y in tab m (fun t => w t * (y (off+t)%nat - mu)).
Definition stft_tab tw w invm m step (nch nseg nl:nat) (Y:rsig) : list (list (list CR)) :=
  map (fun i => map (fun s => let xs := seg_tab w invm m (s*step) (Y i) in
                               tab nl (fun k => csum m (fun t => cscal K (lget K xs t) (tw k t)))) (seq 0 nseg)) (seq 0 nch).
Definition look3 (T:list (list (list CR))) (i s k:nat) : CR := ent (COps K) (nth i T []) s k.

Definition sd_per_l (twl:list CR) (wl:list R) (fs:R) (n nov Ndat nall nref:nat) (Yl Yrefl:list (list R))
  : list (list (list CR)) :=
  let tw := tw_tab twl n (nlines n) in let w := lget K wl in
  let step := (n - nov)%nat in let nseg := nsegs Ndat n nov in
  let invn := 1 / ofnat n in
  let scale := 1 / (fs * sumn K n (fun t => w t * w t)) in
  let invK := 1 / ofnat nseg in
  let nl := nlines n in
  let TA := stft_tab tw w invn n step nall nseg nl (sig_of Yl) in
  let TR := stft_tab tw w invn n step nref nseg nl (sig_of Yrefl) in
  map (fun i => tab2 nref nl (fun j k => csd_of (look3 TA) (look3 TR) (coef_of scale invK n) nseg i j k)) (seq 0 nall).

Definition cor_of_l tw (we:nat->R) invn (n:nat) (P:nat->CR) : list CR :=
  let nl := nlines n in
  let Pl := tab nl P in
  let rl := tab n (fun t => we t * irfft_of tw invn n (lget (COps K) Pl) t) in
  tab nl (rfft_of tw n (lget K rl)).

(* None = outside the modelled domain (odd nxseg: no Nyquist line; the property speaks of even segment lengths) *)
Definition sd_cor_l (twl:list CR) (wel:list R) (n Ndat nall nref:nat) (Yl Yrefl:list (list R))
  : option (list (list (list CR))) :=
  if negb (Nat.even n) then None else
  let tw := tw_tab twl n (nlines n) in let we := lget K wel in
  let m := (n/2)%nat in let nseg := nsegs Ndat m 0 in
  let invm := 1 / ofnat m in let invn := 1 / ofnat n in let invK := 1 / ofnat nseg in
  let nl := nlines n in
  let TA := stft_tab tw ones invm m m nall nseg nl (sig_of Yl) in
  let TR := stft_tab tw ones invm m m nref nseg nl (sig_of Yrefl) in
  Some (map (fun i => map (fun j => cor_of_l tw we invn n (csd_of (look3 TA) (look3 TR) (coef_of invm invK n) nseg i j))
                          (seq 0 nref)) (seq 0 nall)).
End Spectra.

Arguments rsig R : clear implicits.
Arguments ofnat {R} K n.
Arguments seg_mean {R} K invm m off y. Arguments seg_dt {R} K invm m off y t.
Arguments stft {R} K tw w invm m step y s k.
Arguments dbl {R} K nfft k.
Arguments csd_of {R} K XA XR coef nseg i j k.
Arguments spec_of {R} K tw w invm m step Y.
Arguments coef_of {R} K scale invK nfft.
Arguments pxy {R} K tw w invm scale invK nfft m step nseg Y Yref.
Arguments sd_per {R} K tw w invn scale invK n step nseg Y Yref.
Arguments alt {R} K t.
Arguments irfft_of {R} K tw invn n P t.
Arguments rfft_of {R} K tw n x k.
Arguments cor_of {R} K tw we invn n P k.
Arguments ones {R} K.
Arguments sd_cor {R} K tw we invm invn invK n nseg Y Yref.
Arguments freq_at {R} K fs n k. Arguments freq_grid {R} K fs n.
Arguments sig_of {R} K Yl. Arguments tw_of {R} K twl n. Arguments tw_tab {R} K twl n nl.
Arguments seg_tab {R} K w invm m off y.
Arguments stft_tab {R} K tw w invm m step nch nseg nl Y.
Arguments look3 {R} K T i s k.
Arguments sd_per_l {R} K twl wl fs n nov Ndat nall nref Yl Yrefl.
Arguments cor_of_l {R} K tw we invn n P.
Arguments sd_cor_l {R} K twl wel n Ndat nall nref Yl Yrefl.

(* ================= two-carrier evaluator (speed only) =================
   The sums of the model use ring operations only, so they can be evaluated in any ring K1 that embeds into the
   field K2 by phi; the non-ring factors (1/(fs sum w^2), 1/K) are applied in K2.  With K1 = K2, phi = id this is
   sd_per_l / sd_cor_l entry by entry (P_spectra.sd_per_x_id, sd_cor_x_id); the harness instantiates K1 with exact dyadic
   numbers over Bignums integers (DyOps below: every witness float and every short-dyadic sample is a dyadic number,
   and 1/n is dyadic for n a power of two) and compares both evaluators exactly on the small cases of every run. *)
Section TwoCarrier.
Variables (R1 R2:Type) (K1:Ops R1) (K2:Ops R2) (phi:R1->R2).
Definition cphi (z:C R1) : C R2 := (phi (cre z), phi (cim z)).
Definition sd_per_x (twl:list (C R1)) (wl:list R1) (invn1:R1) (fs:R2) (n nov Ndat nall nref:nat) (Yl Yrefl:list (list R1))
  : list (list (list (C R2))) :=
  let tw := tw_tab K1 twl n (nlines n) in let w := lget K1 wl in
  let step := (n - nov)%nat in let nseg := nsegs Ndat n nov in
  let scale := odiv K2 (o1 K2) (omul K2 fs (phi (sumn K1 n (fun t => omul K1 (w t) (w t))))) in
  let invK := odiv K2 (o1 K2) (ofnat K2 nseg) in
  let nl := nlines n in
  let TA := stft_tab K1 tw w invn1 n step nall nseg nl (sig_of K1 Yl) in
  let TR := stft_tab K1 tw w invn1 n step nref nseg nl (sig_of K1 Yrefl) in
  map (fun i => tab2 nref nl (fun j k =>
         cscal K2 (coef_of K2 scale invK n k) (cphi (csd_of K1 (look3 K1 TA) (look3 K1 TR) (fun _ => o1 K1) nseg i j k))))
      (seq 0 nall).
Definition sd_cor_x (twl:list (C R1)) (wel:list R1) (invm1 invn1:R1) (n Ndat nall nref:nat) (Yl Yrefl:list (list R1))
  : option (list (list (list (C R2)))) :=
  if negb (Nat.even n) then None else
  let tw := tw_tab K1 twl n (nlines n) in let we := lget K1 wel in
  let m := (n/2)%nat in let nseg := nsegs Ndat m 0 in
  let invK := odiv K2 (o1 K2) (ofnat K2 nseg) in
  let nl := nlines n in
  let TA := stft_tab K1 tw (ones K1) invm1 m m nall nseg nl (sig_of K1 Yl) in
  let TR := stft_tab K1 tw (ones K1) invm1 m m nref nseg nl (sig_of K1 Yrefl) in
  Some (map (fun i => map (fun j =>
          map (fun z => cscal K2 invK (cphi z))
              (cor_of_l K1 tw we invn1 n (csd_of K1 (look3 K1 TA) (look3 K1 TR) (fun k => omul K1 (dbl K1 n k) invm1) nseg i j)))
        (seq 0 nref)) (seq 0 nall)).
End TwoCarrier.
Arguments cphi {R1 R2} phi z.
Arguments sd_per_x {R1 R2} K1 K2 phi twl wl invn1 fs n nov Ndat nall nref Yl Yrefl.
Arguments sd_cor_x {R1 R2} K1 K2 phi twl wel invm1 invn1 n Ndat nall nref Yl Yrefl.

(* exact dyadic numbers m * 2^(-e) over Bignums integers (ring operations only; no division in this carrier:
   odiv/oinv are never called by the two-carrier evaluator and return their first argument) *)
Definition dy := (bigZ * Z)%type.
Definition dy_add (x y:dy) : dy := let (m1,e1) := x in let (m2,e2) := y in
  match (e1 ?= e2)%Z with
  | Eq => (BigZ.add m1 m2, e1)
  | Lt => (BigZ.add (BigZ.shiftl m1 (BigZ.of_Z (e2-e1))) m2, e2)
  | Gt => (BigZ.add m1 (BigZ.shiftl m2 (BigZ.of_Z (e1-e2))), e1)
  end.
Definition dy_mul (x y:dy) : dy := (BigZ.mul (fst x) (fst y), (snd x + snd y)%Z).
Definition dy_opp (x:dy) : dy := (BigZ.opp (fst x), snd x).
Definition DyOps : Ops dy :=
  {| o0 := (BigZ.zero, 0%Z); o1 := (BigZ.one, 0%Z); oadd := dy_add; omul := dy_mul; osub := fun x y => dy_add x (dy_opp y);
     oopp := dy_opp; odiv := fun x _ => x; oinv := fun x => x |}.
(* reader: n / 2^e ;  embedding into Qc (e >= 0 for every value the evaluator produces from such readers) *)
Definition dyq (n:Z) (e:Z) : dy := (BigZ.of_Z n, e).
Definition dy2q (x:dy) : Q :=
  match snd x with
  | Zpos e => BigZ.to_Z (fst x) # Pos.shiftl 1 (Npos e)
  | Z0 => BigZ.to_Z (fst x) # 1
  | Zneg e => Z.shiftl (BigZ.to_Z (fst x)) (Zpos e) # 1
  end.
(* plain (non-canonical) rationals for the few scaling operations of the two-carrier evaluator *)
Definition QOps_spectra : Ops Q :=
  {| o0 := 0%Q; o1 := 1%Q; oadd := Qplus; omul := Qmult; osub := Qminus; oopp := Qopp; odiv := Qdiv; oinv := Qinv |}.

(* output: every value is printed as floor(x * 2^90) (the comparison with the implementation is at relative 1e-9 of the
   largest entry, entries are O(1e-4 .. 1e4); full-length rationals of ~300 digits each would make the result string
   too long for coqc's reader) *)
Definition showQr (x:Q) : string := showZ (Z.div (Z.shiftl (Qnum x) 90) (Zpos (Qden x))).
Definition showCr (z:Q*Q) : string := (showQr (fst z) ++ "," ++ showQr (snd z))%string.
Definition showS3r (res:list (list (list (Q*Q)))) : string := showL (showL (showL showCr " ") ";") "|" res.
Definition qc3 (res:list (list (list (Qc*Qc)))) : list (list (list (Q*Q))) :=
  map (map (map (fun z => (this (fst z), this (snd z))))) res.
