(* C11 - model of the CLASS-level extraction: SSIdat.mpe (inherited unchanged by SSIcov, SSIdat_MS, SSIcov_MS) and
   pLSCF.mpe (inherited by pLSCF_MS), pyoma2/algorithms/ssi.py:173-234 and plscf.py:139-188, reached through
   setup.mpe(name, ...) (setup/base.py:131-150).  Definitions only.

   What the glue does, statement by statement:
     super().mpe(...)                       -> ValueError "Run algorithm first" when there is no result object
     run_params.sel_freq / order_in / rtol  := the three mpe arguments, as given
     hand-over to SSI_mpe                   := (sel_freq, result.Fn_poles, result.Xi_poles, result.Phi_poles, order, Lab = result.Lab,
                                                rtol, Fn_cov = result.Fn_poles_cov, Xi_cov = result.Xi_poles_cov, Phi_cov = result.Phi_poles_cov)
     hand-over to pLSCF_mpe                 := (sel_freq, result.Fn_poles, result.Xi_poles, result.Phi_poles, order, Lab = result.Lab, rtol)
                                                deltaf is NOT handed over: the function's own default 0.05 applies
     result.{order_out, Fn, Xi, Phi [, Fn_cov, Xi_cov, Phi_cov]} := the function's return values, in that order
   [order] is handed over as it is: it is a COLUMN index of the pole tables (column i holds the poles of model order i * step;
   the tables keep every column whatever ordmin is - ordmin only enters the labels), so neither ordmin nor step nor ordmax
   takes part in the hand-over; order_out is a column index too.

   The function level is Model/M_mpe.v (imported, not restated).  M_mpe moves ONE opaque payload per cell; here the moved
   tables are separate (damping X, shape S, and - when calc_unc=True - the three covariance tables CF, CX, CS), zipped
   cell by cell into the payload the function-level model moves, and unzipped into the separately stored arrays. *)
From Coq Require Import List Arith ZArith QArith Qabs Bool String.
From PyOMA.Base Require Import Argmin Show.
From PyOMA.Model Require Import M_mpe.
Import ListNotations.
Open Scope Q_scope.

(* cell-by-cell pairing of two tables (a cell missing in either is missing in the result) *)
Definition tzip {A B} (T:list (list A)) (U:list (list B)) : list (list (A*B)) := map2 (map2 pair) T U.

(* class-level exceptions: one raised by the extraction routine, ValueError("Run algorithm first"), KeyError(no such algorithm) *)
Inductive cerr := FunErr (e:err) | NotRun | NoAlg.
Inductive cres (A:Type) := COk (a:A) | CErr (e:cerr).
Arguments COk {A} a. Arguments CErr {A} e.

(* pLSCF_mpe(order="find_min") reports a Python int that can be -1 (present code); the other paths report [oout] *)
Inductive porder := PExp (o:oout) | PZ (z:Z).

Section ClassModel.
Variables X S CF CX CS : Type.

Definition covtabs : Type := (list (list CF) * list (list CX) * list (list CS))%type.
Definition covouts : Type := (list CF * list CX * list CS)%type.

(* the pole tables of a result object; [cov_poles] = None when the run was made with calc_unc=False (the three
   covariance attributes are then all None - run() sets them together) and always for pLSCF *)
Record tables := { Fn_poles : tab; Xi_poles : list (list X); Phi_poles : list (list S); Lab : list (list Z);
                   cov_poles : option covtabs }.

(* run parameters: those of run() that could be thought to enter (they do not) and the three mpe writes *)
Record run_params := { ordmin : nat; ordmax : nat; step : nat;
                       sel_freq : option (list Q); order_in : order; rp_rtol : Q }.

(* what mpe stores back *)
Record results := { r_Fn : list Q; r_Xi : list X; r_Phi : list S; r_order_out : porder; r_cov : option covouts }.

(* an algorithm object: its parameters, its pole tables (None = not run yet), its extracted results (None = no mpe yet) *)
Record algo := { a_rp : run_params; a_tabs : option tables; a_res : option results }.

(* ---------------------------------------------------------------------------------------------------------
   the hand-over: the argument list of SSI_mpe / pLSCF_mpe *)
Record fun_args := { fa_freq : list Q; fa_Fn : tab; fa_Xi : list (list X); fa_Phi : list (list S); fa_order : order;
                     fa_Lab : list (list Z); fa_rtol : Q; fa_deltaf : Q; fa_cov : option covtabs }.

Definition default_deltaf : Q := 1 # 20.

Definition ssi_args (T:tables) (rp:run_params) (freq:list Q) (ord:order) (rtol:Q) : fun_args :=
  {| fa_freq := freq; fa_Fn := Fn_poles T; fa_Xi := Xi_poles T; fa_Phi := Phi_poles T; fa_order := ord;
     fa_Lab := Lab T; fa_rtol := rtol; fa_deltaf := default_deltaf (* no such argument in SSI_mpe *); fa_cov := cov_poles T |}.

Definition plscf_args (T:tables) (rp:run_params) (freq:list Q) (ord:order) (rtol:Q) : fun_args :=
  {| fa_freq := freq; fa_Fn := Fn_poles T; fa_Xi := Xi_poles T; fa_Phi := Phi_poles T; fa_order := ord;
     fa_Lab := Lab T; fa_rtol := rtol; fa_deltaf := default_deltaf; fa_cov := None |}.

(* ---------------------------------------------------------------------------------------------------------
   the function level on separate tables = M_mpe on the zipped payload.
   SSI_mpe: "if Fn_cov is not None" decides once whether the covariance tables are indexed (at the SAME [index, order]). *)
Definition ssi_fun (a:fun_args) : res results :=
  match fa_cov a with
  | None =>
    match ssi_mpe (fa_Fn a) (tzip (fa_Xi a) (fa_Phi a)) (fa_Lab a) (fa_freq a) (fa_order a) (fa_rtol a) with
    | Err e => Err e
    | Ok (vals, oo) => Ok {| r_Fn := map fst vals; r_Xi := map (fun v => fst (snd v)) vals; r_Phi := map (fun v => snd (snd v)) vals;
                             r_order_out := PExp oo; r_cov := None |}
    end
  | Some (F, Xc, Sc) =>
    match ssi_mpe (fa_Fn a) (tzip (tzip (fa_Xi a) (fa_Phi a)) (tzip (tzip F Xc) Sc)) (fa_Lab a) (fa_freq a) (fa_order a) (fa_rtol a) with
    | Err e => Err e
    | Ok (vals, oo) => Ok {| r_Fn := map fst vals;
                             r_Xi := map (fun v => fst (fst (snd v))) vals; r_Phi := map (fun v => snd (fst (snd v))) vals;
                             r_order_out := PExp oo;
                             r_cov := Some (map (fun v => fst (fst (snd (snd v)))) vals,
                                            map (fun v => snd (fst (snd (snd v)))) vals,
                                            map (fun v => snd (snd (snd v))) vals) |}
    end
  end.

(* pLSCF_mpe; [conf] = true: order="find_min" as the property wants it (M_mpe.plscf_find_min_conforming),
   false: the present code (M_mpe.plscf_find_min_present, known finding).  Explicit orders: one code for both. *)
Definition plscf_fun (conf:bool) (a:fun_args) : res results :=
  let Pay := tzip (fa_Xi a) (fa_Phi a) in
  match fa_order a with
  | Explicit eo =>
    match plscf_mpe_explicit (fa_Fn a) Pay (fa_freq a) eo (fa_rtol a) with
    | Err e => Err e
    | Ok (vals, oo) => Ok {| r_Fn := map fst vals; r_Xi := map (fun v => fst (snd v)) vals; r_Phi := map (fun v => snd (snd v)) vals;
                             r_order_out := PExp oo; r_cov := None |}
    end
  | FindMin =>
    if conf then
      match plscf_find_min_conforming (fa_Fn a) Pay (fa_Lab a) (fa_freq a) (fa_deltaf a) (fa_rtol a) with
      | Err e => Err e
      | Ok (vals, oo) => Ok {| r_Fn := map fst vals; r_Xi := map (fun v => fst (snd v)) vals; r_Phi := map (fun v => snd (snd v)) vals;
                               r_order_out := PExp oo; r_cov := None |}
      end
    else
      match plscf_find_min_present (fa_Fn a) Pay (fa_Lab a) (fa_freq a) (fa_deltaf a) (fa_rtol a) with
      | Err e => Err e
      | Ok (us, ps, z) => Ok {| r_Fn := us; r_Xi := map fst ps; r_Phi := map snd ps; r_order_out := PZ z; r_cov := None |}
      end
  end.

(* ---------------------------------------------------------------------------------------------------------
   the methods.  An exception leaves nothing to compare: the model returns the error only. *)
Definition store (A:algo) (freq:list Q) (ord:order) (rtol:Q) (R:results) : algo :=
  {| a_rp := {| ordmin := ordmin (a_rp A); ordmax := ordmax (a_rp A); step := step (a_rp A);
                sel_freq := Some freq; order_in := ord; rp_rtol := rtol |};
     a_tabs := a_tabs A; a_res := Some R |}.

Definition class_mpe (args:tables -> run_params -> list Q -> order -> Q -> fun_args) (f:fun_args -> res results)
                     (A:algo) (freq:list Q) (ord:order) (rtol:Q) : cres algo :=
  match a_tabs A with
  | None => CErr NotRun
  | Some T => match f (args T (a_rp A) freq ord rtol) with
              | Err e => CErr (FunErr e)
              | Ok R => COk (store A freq ord rtol R)
              end
  end.

Definition ssi_class_mpe := class_mpe ssi_args ssi_fun.
Definition plscf_class_mpe (conf:bool) := class_mpe plscf_args (plscf_fun conf).

(* setup.mpe(name, ...): the algorithm registered under [name] runs its mpe; every other algorithm is left as it is *)
Inductive alg := ASsi (a:algo) | APl (a:algo).
Definition alg_mpe (conf:bool) (g:alg) (freq:list Q) (ord:order) (rtol:Q) : cres alg :=
  match g with
  | ASsi a => match ssi_class_mpe a freq ord rtol with COk a' => COk (ASsi a') | CErr e => CErr e end
  | APl a => match plscf_class_mpe conf a freq ord rtol with COk a' => COk (APl a') | CErr e => CErr e end
  end.

Fixpoint setup_mpe (conf:bool) (st:list (string * alg)) (name:string) (freq:list Q) (ord:order) (rtol:Q) : cres (list (string * alg)) :=
  match st with
  | [] => CErr NoAlg
  | (n, g) :: t =>
    if String.eqb n name then
      match alg_mpe conf g freq ord rtol with COk g' => COk ((n, g') :: t) | CErr e => CErr e end
    else
      match setup_mpe conf t name freq ord rtol with COk t' => COk ((n, g) :: t') | CErr e => CErr e end
  end.

(* ---------------------------------------------------------------------------------------------------------
   specification vocabulary (Prop-valued definitions; nothing is asserted here) *)

(* the k-th entry of every stored array is the content of the k-th cell of [cells], the SAME cells for every array *)
Definition from_cells3 (T:tables) (R:results) (cells:list (nat*nat)) : Prop :=
  Forall2 (fun rc x => cell (Xi_poles T) (fst rc) (snd rc) = Some x) cells (r_Xi R) /\
  Forall2 (fun rc s => cell (Phi_poles T) (fst rc) (snd rc) = Some s) cells (r_Phi R).

Definition from_cells_fn (T:tables) (R:results) (cells:list (nat*nat)) : Prop :=
  Forall2 (fun rc f => cell (Fn_poles T) (fst rc) (snd rc) = Some (Some f)) cells (r_Fn R).

(* covariances: stored exactly when the tables have them, and then from the same cells again *)
Definition from_cells_cov (T:tables) (R:results) (cells:list (nat*nat)) : Prop :=
  match cov_poles T, r_cov R with
  | None, None => True
  | Some (F, Xc, Sc), Some (fc, xc, sc) =>
      Forall2 (fun rc a => cell F (fst rc) (snd rc) = Some a) cells fc /\
      Forall2 (fun rc a => cell Xc (fst rc) (snd rc) = Some a) cells xc /\
      Forall2 (fun rc a => cell Sc (fst rc) (snd rc) = Some a) cells sc
  | _, _ => False
  end.

(* nothing stored *)
Definition stored_nothing (T:tables) (R:results) : Prop :=
  r_Fn R = [] /\ r_Xi R = [] /\ r_Phi R = [] /\
  match cov_poles T, r_cov R with None, None => True | Some _, Some (fc, xc, sc) => fc = [] /\ xc = [] /\ sc = [] | _, _ => False end.

(* what mpe writes besides the results, and what it leaves alone *)
Definition params_stored (A A':algo) (freq:list Q) (ord:order) (rtol:Q) : Prop :=
  sel_freq (a_rp A') = Some freq /\ order_in (a_rp A') = ord /\ rp_rtol (a_rp A') = rtol /\
  ordmin (a_rp A') = ordmin (a_rp A) /\ ordmax (a_rp A') = ordmax (a_rp A) /\ step (a_rp A') = step (a_rp A) /\
  a_tabs A' = a_tabs A.

End ClassModel.

Arguments Fn_poles {X S CF CX CS}. Arguments Xi_poles {X S CF CX CS}. Arguments Phi_poles {X S CF CX CS}.
Arguments Lab {X S CF CX CS}. Arguments cov_poles {X S CF CX CS}.
Arguments Build_tables {X S CF CX CS}.
Arguments r_Fn {X S CF CX CS}. Arguments r_Xi {X S CF CX CS}. Arguments r_Phi {X S CF CX CS}.
Arguments r_order_out {X S CF CX CS}. Arguments r_cov {X S CF CX CS}.
Arguments Build_results {X S CF CX CS}.
Arguments a_rp {X S CF CX CS}. Arguments a_tabs {X S CF CX CS}. Arguments a_res {X S CF CX CS}.
Arguments Build_algo {X S CF CX CS}.
Arguments fa_freq {X S CF CX CS}. Arguments fa_Fn {X S CF CX CS}. Arguments fa_Xi {X S CF CX CS}. Arguments fa_Phi {X S CF CX CS}.
Arguments fa_order {X S CF CX CS}. Arguments fa_Lab {X S CF CX CS}. Arguments fa_rtol {X S CF CX CS}.
Arguments fa_deltaf {X S CF CX CS}. Arguments fa_cov {X S CF CX CS}.
Arguments ssi_args {X S CF CX CS}. Arguments plscf_args {X S CF CX CS}.
Arguments ssi_fun {X S CF CX CS}. Arguments plscf_fun {X S CF CX CS}.
Arguments store {X S CF CX CS}. Arguments class_mpe {X S CF CX CS}.
Arguments ssi_class_mpe {X S CF CX CS}. Arguments plscf_class_mpe {X S CF CX CS}.
Arguments ASsi {X S CF CX CS}. Arguments APl {X S CF CX CS}.
Arguments alg_mpe {X S CF CX CS}. Arguments setup_mpe {X S CF CX CS}.
Arguments from_cells3 {X S CF CX CS}. Arguments from_cells_fn {X S CF CX CS}. Arguments from_cells_cov {X S CF CX CS}.
Arguments stored_nothing {X S CF CX CS}. Arguments params_stored {X S CF CX CS}.

(* ---------------------------------------------------------------------------------------------------------
   printers for the harness: every moved table holds the integers tag * 1000 + (row * m + column) *)
Open Scope string_scope.
Definition tag_tab (tag:Z) (n m:nat) : list (list Z) := map (map (fun i => (tag * 1000 + Z.of_nat i)%Z)) (id_tab n m).
Definition ztables := @tables Z Z Z Z Z.
Definition mk_tables (Fn:tab) (L:list (list Z)) (n m:nat) (cov:bool) : ztables :=
  {| Fn_poles := Fn; Xi_poles := tag_tab 1 n m; Phi_poles := tag_tab 2 n m; Lab := L;
     cov_poles := if cov then Some (tag_tab 3 n m, tag_tab 4 n m, tag_tab 5 n m) else None |}.
Definition mk_algo (T:ztables) (omin omax stp:nat) : @algo Z Z Z Z Z :=
  {| a_rp := {| ordmin := omin; ordmax := omax; step := stp; sel_freq := None; order_in := FindMin; rp_rtol := 1 # 20 |};
     a_tabs := Some T; a_res := None |}.

Definition showNs (l:list nat) : string := showL showN " " l.
Definition showZs (l:list Z) : string := showL showZ " " l.
Definition showOrder (o:order) : string :=
  match o with FindMin => "find_min" | Explicit (OInt k) => "I " ++ showN k | Explicit (OList l) => "L " ++ showNs l end.
Definition showPorder (o:porder) : string := match o with PExp oo => showOout oo | PZ z => "I " ++ showZ z end.
Definition showCerr (e:cerr) : string :=
  match e with FunErr e => showErr e | NotRun => "ValueError" | NoAlg => "KeyError" end.
Definition tab_tag (T:list (list Z)) : string :=
  match T with (x :: _) :: _ => showZ (x / 1000) | _ => "-" end.
Definition showShape {A} (T:list (list A)) : string := showN (List.length T) ++ "x" ++ showN (ncols T).
(* the hand-over: requests | order | rtol | deltaf | which table sits in which slot (Xi, Phi, Fn_cov, Xi_cov, Phi_cov) | shape of Fn, of Lab *)
Definition showArgs (a:@fun_args Z Z Z Z Z) : string :=
  showL showQ " " (fa_freq a) ++ "|" ++ showOrder (fa_order a) ++ "|" ++ showQ (fa_rtol a) ++ "|" ++ showQ (fa_deltaf a) ++ "|" ++
  tab_tag (fa_Xi a) ++ " " ++ tab_tag (fa_Phi a) ++ " " ++
  match fa_cov a with None => "N" | Some (F, Xc, Sc) => tab_tag F ++ " " ++ tab_tag Xc ++ " " ++ tab_tag Sc end ++ "|" ++
  showShape (fa_Fn a) ++ " " ++ showShape (fa_Lab a).
(* the object after mpe: sel_freq | order_in | rtol | ordmin ordmax step | Fn | Xi | Phi | order_out | covariances *)
Definition showAlgo (r:cres (@algo Z Z Z Z Z)) : string :=
  match r with
  | CErr e => "E " ++ showCerr e
  | COk A =>
    "O " ++ match sel_freq (a_rp A) with None => "N" | Some l => showL showQ " " l end ++ "|" ++ showOrder (order_in (a_rp A)) ++ "|" ++
    showQ (rp_rtol (a_rp A)) ++ "|" ++ showNs [ordmin (a_rp A); ordmax (a_rp A); step (a_rp A)] ++ "|" ++
    match a_res A with
    | None => "N"
    | Some R => showL showQ " " (r_Fn R) ++ "|" ++ showZs (r_Xi R) ++ "|" ++ showZs (r_Phi R) ++ "|" ++ showPorder (r_order_out R) ++ "|" ++
                match r_cov R with None => "N" | Some (fc, xc, sc) => showZs fc ++ ";" ++ showZs xc ++ ";" ++ showZs sc end
    end
  end.
