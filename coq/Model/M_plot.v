(* C20 - executable model of the diagram functions of pyoma2/functions/plot.py (stab_plot, cluster_plot, CMIF_plot),
   of the way the algorithm classes call them, and of the explicit-order branch of the extraction functions
   (the column an [order] argument reads).  Definitions only.

   Tables are lists of rows indexed [row][order-column] as in the code; NumPy nan = None.  Frequencies and damping
   ratios are only MOVED by the plotting code, so the marker functions are parametric in their type X.

   What the code does (plot.py):
     Fns_stab   = np.where(Lab == 1, Fn, nan) ;  Fns_unstab = np.where(Lab == 0, Fn, nan)
     x  = Fns_stab.flatten(order="F")         ;  y  = [i // len(Fns_stab) for i in range(len(x))] * step
     x1 = Fns_unstab.flatten(order="F")       ;  y1 = [i // len(Fns_unstab) for i in range(len(x))] * step
     ax.plot(x, y, "go") ; if not hide_poles: ax.scatter(x1, y1)
   A point with a nan coordinate is not a marker.  *)
From Coq Require Import String List Arith ZArith QArith Qabs Bool.
From PyOMA.Base Require Import Argmin Show.
Import ListNotations.

Section Tables.
Context {A:Type}.
(* t[:, j] of a table given as a list of rows; a row too short for j contributes nothing (no default value) *)
Definition column (j:nat) (t:list (list A)) : list A :=
  flat_map (fun r => match nth_error r j with Some x => [x] | None => [] end) t.
(* t.shape[1] *)
Definition ncols (t:list (list A)) : nat := match t with [] => 0%nat | r :: _ => length r end.
(* t.flatten(order="F"): the columns one after the other *)
Definition flattenF (t:list (list A)) : list A := flat_map (fun j => column j t) (seq 0 (ncols t)).
(* t[i][j] ; None = outside the table *)
Definition get2 (t:list (list A)) (i j:nat) : option A :=
  match nth_error t i with Some r => nth_error r j | None => None end.
End Tables.

Fixpoint zipw {A B C} (f:A->B->C) (a:list A) (b:list B) : list C :=
  match a, b with x :: a', y :: b' => f x y :: zipw f a' b' | _, _ => [] end.

(* np.where(Lab == l, T, nan) for tables of one shape *)
Definition where_lab {X} (l:Z) (Lab:list (list Z)) (T:list (list (option X))) : list (list (option X)) :=
  zipw (zipw (fun lb v => if Z.eqb lb l then v else None)) Lab T.

(* np.array([i // rows for i in range(n)]) * step *)
Definition order_axis (rows n:nat) (step:Z) : list Z := map (fun i => (Z.of_nat (i / rows) * step)%Z) (seq 0 n).

(* the points of a Line2D / PathCollection that are markers: both coordinates finite *)
Definition pts {X Y} (x:list (option X)) (y:list Y) : list (X*Y) :=
  flat_map (fun p => match fst p with Some f => [(f, snd p)] | None => [] end) (combine x y).
Definition pts2 {X Y} (x:list (option X)) (y:list (option Y)) : list (X*Y) :=
  flat_map (fun p => match p with (Some f, Some d) => [(f, d)] | _ => [] end) (combine x y).

(* stab_plot: (stable markers, unstable markers) as (frequency, y) *)
Definition stab_markers {X} (Fn:list (list (option X))) (Lab:list (list Z)) (step:Z) (hide:bool)
  : list (X*Z) * list (X*Z) :=
  let Fs := where_lab 1 Lab Fn in
  let Fu := where_lab 0 Lab Fn in
  let x := flattenF Fs in
  let y := order_axis (length Fs) (length x) step in
  if hide then (pts x y, [])
  else let x1 := flattenF Fu in
       let y1 := order_axis (length Fu) (length x) step in
       (pts x y, pts x1 y1).

(* cluster_plot: (stable markers, unstable markers) as (frequency, damping) *)
Definition cluster_markers {X} (Fn Xi:list (list (option X))) (Lab:list (list Z)) (hide:bool)
  : list (X*X) * list (X*X) :=
  let st := pts2 (flattenF (where_lab 1 Lab Fn)) (flattenF (where_lab 1 Lab Xi)) in
  if hide then (st, [])
  else (st, pts2 (flattenF (where_lab 0 Lab Fn)) (flattenF (where_lab 0 Lab Xi))).

(* the classes' plot methods: SSI passes its run parameter step, pLSCF the literal 1 (plscf.py plot_stab) *)
Definition ssi_plot_stab {X} (Fn:list (list (option X))) Lab (run_step:Z) hide := stab_markers Fn Lab run_step hide.
Definition plscf_plot_stab {X} (Fn:list (list (option X))) Lab hide := stab_markers Fn Lab 1 hide.

(* ---------- explicit-order branch of SSI_mpe / pLSCF_mpe for one requested frequency ----------
   sel = np.nanargmin(|Fn_pol[:, order] - fj|) ; accepted iff np.isclose(Fn_pol[sel, order], fj, rtol) (atol = 1e-8).
   Both functions index the COLUMN [order] (for pLSCF that column holds polynomial order [order]+1).
   Result: Some (row, frequency) ; None = nothing accepted / IndexError / all-NaN column (negative orders, which Python
   wraps around, are outside the model). *)
Definition isclose (a b rtol:Q) : bool := Qle_bool (Qabs (a - b)) ((1 # 100000000) + rtol * Qabs b).
Definition mpe_pick (Fn:list (list (option Q))) (fj rtol:Q) (order:Z) : option (nat * Q) :=
  if Z.ltb order 0 then None else
  let c := column (Z.to_nat order) Fn in
  match nanargmin (map (option_map (fun v => Qabs (v - fj))) c) with
  | Some (r, _) => match nth_error c r with
                   | Some (Some v) => if isclose v fj rtol then Some (r, v) else None
                   | _ => None
                   end
  | None => None
  end.

(* ---------- CMIF_plot ----------
   S[k][k'][f] = S_val[k, k', f].  Curve k = S[k][k][:] / S[0][0][argmax S[0][0]] ; the decibel map 10 log10 is applied
   outside (DESIGN 3.4).  nSv: None = "all". *)
Inductive perr := PValueErr | PIndexErr.
Inductive pres (A:Type) := POk (a:A) | PErr (e:perr).
Arguments POk {A} a. Arguments PErr {A} e.

Definition qmax (l:list Q) : option Q :=
  match l with [] => None | x :: r => Some (fold_left (fun m v => if Qlt_bool m v then v else m) r x) end.
Definition diag3 (S:list (list (list Q))) (k:nat) : option (list Q) := get2 S k k.
Fixpoint curves (S:list (list (list Q))) (mx:Q) (ks:list nat) : pres (list (list Q)) :=
  match ks with
  | [] => POk []
  | k :: r => match diag3 S k with
              | None => PErr PIndexErr
              | Some d => match curves S mx r with
                          | POk cs => POk (map (fun v => v / mx) d :: cs)
                          | PErr e => PErr e
                          end
              end
  end.
Definition cmif_build (S:list (list (list Q))) (m:nat) : pres (list (list Q)) :=
  match m with
  | 0%nat => POk []
  | _ => match diag3 S 0 with
         | None => PErr PIndexErr
         | Some d0 => match qmax d0 with
                      | None => PErr PValueErr          (* argmax of an empty sequence *)
                      | Some mx => curves S mx (seq 0 m)
                      end
         end
  end.
Definition cmif_curves (S:list (list (list Q))) (nSv:option Z) : pres (list (list Q)) :=
  let n := ncols S in                                     (* S_val.shape[1] *)
  match nSv with
  | None => cmif_build S n
  | Some z => if Z.ltb z (Z.of_nat n) then cmif_build S (Z.to_nat z) else PErr PValueErr
  end.

(* ---------- shape predicates (hypotheses of the theorems; evaluated on every executed case) ---------- *)
Definition rectb {A} (rows cols:nat) (t:list (list A)) : bool :=
  Nat.eqb (length t) rows && forallb (fun r => Nat.eqb (length r) cols) t.
Definition cubeb (n nf:nat) (S:list (list (list Q))) : bool :=
  Nat.eqb (length S) n && forallb (fun r => Nat.eqb (length r) n && forallb (fun c => Nat.eqb (length c) nf) r) S.

(* ---------- specification vocabulary used by the theorems of Properties/C20.v (Props; nothing is computed with them) ---------- *)
Definition rect {A} (rows cols:nat) (t:list (list A)) : Prop :=
  length t = rows /\ Forall (fun r => length r = cols) t.
(* cell (i,o) is a retained pole (finite frequency) carrying label l *)
Definition pole_with_label {X} (Fn:list (list (option X))) (Lab:list (list Z)) (l:Z) (rows cols i o:nat) : Prop :=
  (i < rows)%nat /\ (o < cols)%nat /\ get2 Lab i o = Some l /\ exists f, get2 Fn i o = Some (Some f).
(* marker m sits at (frequency of cell c, column of c times step) *)
Definition marker_at {X} (Fn:list (list (option X))) (step:Z) (c:nat*nat) (m:X*Z) : Prop :=
  get2 Fn (fst c) (snd c) = Some (Some (fst m)) /\ snd m = (Z.of_nat (snd c) * step)%Z.
Definition pole2_with_label {X} (Fn Xi:list (list (option X))) (Lab:list (list Z)) (l:Z) (rows cols i o:nat) : Prop :=
  pole_with_label Fn Lab l rows cols i o /\ exists d, get2 Xi i o = Some (Some d).
Definition cluster_at {X} (Fn Xi:list (list (option X))) (c:nat*nat) (m:X*X) : Prop :=
  get2 Fn (fst c) (snd c) = Some (Some (fst m)) /\ get2 Xi (fst c) (snd c) = Some (Some (snd m)).
Definition is_max (l:list Q) (m:Q) : Prop := In m l /\ forall v, In v l -> v <= m.
Definition cube (n nf:nat) (S:list (list (list Q))) : Prop :=
  length S = n /\ Forall (fun r => length r = n /\ Forall (fun c => length c = nf) r) S.
(* number of curves requested: None = inadmissible *)
Definition requested (n:nat) (nSv:option Z) : option nat :=
  match nSv with None => Some n | Some z => if Z.ltb z (Z.of_nat n) then Some (Z.to_nat z) else None end.

(* ---------- printers ---------- *)
Local Open Scope string_scope.
Definition show_fz (l:list (Q*Z)) : string := showL (fun p => showQ (fst p) ++ "," ++ showZ (snd p)) " " l.
Definition show_ff (l:list (Q*Q)) : string := showL (fun p => showQ (fst p) ++ "," ++ showQ (snd p)) " " l.
Definition show_stab (r:list (Q*Z) * list (Q*Z)) : string := show_fz (fst r) ++ "|" ++ show_fz (snd r).
Definition show_cluster (r:list (Q*Q) * list (Q*Q)) : string := show_ff (fst r) ++ "|" ++ show_ff (snd r).
Definition show_perr (e:perr) : string := match e with PValueErr => "ValueError" | PIndexErr => "IndexError" end.
Definition show_cmif (r:pres (list (list Q))) : string :=
  match r with POk cs => "O " ++ showL (showL showQ " ") ";" cs | PErr e => "E " ++ show_perr e end.
Definition show_pick (r:option (nat*Q)) : string :=
  match r with Some (i, v) => showN i ++ "," ++ showQ v | None => "none" end.
