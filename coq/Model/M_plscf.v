(* C05 - model of pyoma2.functions.plscf: pLSCF (one model order), rmfd2ac, ac2mp_poly, pLSCF_poles.
   Definitions only.

   Conventions.  Real matrices are function matrices over a generic carrier; complex matrices are kept as
   their real and imaginary parts (the code only ever uses Re(A^H B)).  NumPy nan = None.  A LinAlgError
   raised by np.linalg.solve = [PLinAlgErr].  External kernels are parameters of the model functions:
   - [solve d c A B]  = np.linalg.solve(A, B) for a d x d matrix A and a d x c right-hand side;
   - eigen-decomposition and complex logarithm enter [ac2mp_poly] as the list of cells
       (z, L, q) = (eigenvalue, (log z)*(1/dt) or None when z = 0 (log 0 = -inf, a non-finite number), eigenvector);
   - sqrt / abs / division by 2 pi are applied by the caller to the exact arguments returned here
     (fn^2 (2 pi)^2 = |lam|^2 ; xi = (-Re lam) / sqrt |lam|^2).
   Layout facts mirrored from the code:
   - Nch = Sy.shape[1] (columns of the spectrum), Nref = Sy.shape[0] (rows); alpha is ((n+1) Nch) x Nch,
     block i = A_i; beta_o is (n+1) x Nch;  Y_o[k, i*Nch + c] = - Omega_k^i * Sy[o,c,k]  (np.kron(x, H));
   - rmfd2ac receives n+1 coefficient blocks and builds a ((n+1) m) x ((n+1) m) matrix: the n m companion
     (first block row  -A_n^-1 A_(n-1-j), identity on the block sub-diagonal) bordered by a zero block column;
   - pLSCF_poles: tables [row][order column], filled with nan (itertools.zip_longest) below the cells of a column. *)
From Coq Require Import List Arith Lia Bool.
From PyOMA.Base Require Import Carrier FMat Cplx.
Import ListNotations.

Inductive pres (A:Type) : Type := POk (a:A) | PLinAlgErr.
Arguments POk {A} a. Arguments PLinAlgErr {A}.
Definition pbind {A B:Type} (x:pres A) (f:A -> pres B) : pres B :=
  match x with POk a => f a | PLinAlgErr => PLinAlgErr end.

Inductive constr : Type := LO | HI.      (* sgn_basf = -1 -> "LO" (alpha_0 = I) ; sgn_basf = +1 -> "HI" (alpha_n = I) *)

Section PL.
Variable R:Type. Variable K:Ops R.
Local Open Scope K_scope.
Notation "0" := (o0 K) : K_scope. Notation "1" := (o1 K) : K_scope.
Infix "+" := (oadd K) : K_scope. Infix "*" := (omul K) : K_scope. Infix "-" := (osub K) : K_scope.
Notation "- x" := (oopp K x) : K_scope.

Definition cmat := nat -> nat -> C R.
Fixpoint cpow (z:C R) (i:nat) : C R := match i with O => c1 K | S j => cmul K z (cpow z j) end.
Definition fre (Z:cmat) : fmat R := fun i j => cre (Z i j).
Definition fim (Z:cmat) : fmat R := fun i j => cim (Z i j).

(* evaluation-sharing wrappers: pointwise equal to their argument on the index range (P_plscf.memo_feq) *)
Definition memo (m n:nat) (A:fmat R) : fmat R := let L := tab2 m n A in fun i j => ent K L i j.
Definition memo_fam (N m n:nat) (F:nat -> fmat R) : nat -> fmat R :=
  let L := map (fun o => tab2 m n (F o)) (seq 0 N) in fun o i j => ent K (nth o L []) i j.

Definition solver := nat -> nat -> fmat R -> fmat R -> pres (fmat R).
Fixpoint solve_fam (N:nat) (f:nat -> pres (fmat R)) : pres (nat -> fmat R) :=
  match N with
  | O => POk (fun _ => fzero K)
  | S k => pbind (solve_fam k f) (fun g => pbind (f k) (fun z => POk (fun o => if Nat.eqb o k then z else g o)))
  end.

(* ------------------------------------------------------------------ pLSCF, one model order n *)
Definition basisX (Om:nat -> C R) : cmat := fun k i => cpow (Om k) i.                  (* Xo[k,i] = Omega_k^i ; the model is generic in the basis-function table X *)
Definition kronY (Nch:nat) (X:cmat) (H:nat -> nat -> C R) : cmat :=                    (* H c k = Sy[o,c,k] *)
  fun k J => copp K (cmul K (X k (J / Nch)%nat) (H (J mod Nch)%nat k)).
Definition regram (Nf:nat) (AR AI BR BI:fmat R) : fmat R :=                            (* Re(A^H B) *)
  fadd K (fmul K Nf (ftr AR) BR) (fmul K Nf (ftr AI) BI).
Definition fsum (N:nat) (F:nat -> fmat R) : fmat R := fun i j => sumn K N (fun o => F o i j).
Definition fneg (A:fmat R) : fmat R := fun i j => - A i j.
Definition fblock (r0 q0:nat) (A:fmat R) : fmat R := fun i j => A (r0+i)%nat (q0+j)%nat.
Definition fstack (m:nat) (A B:fmat R) : fmat R := fun i j => if Nat.ltb i m then A i j else B (i-m)%nat j.   (* np.r_[A, B] *)

Definition plscf_M (Nref n:nat) (Sm Tm Zm:nat -> fmat R) : fmat R :=
  fsum Nref (fun o => fsub K (Tm o) (fmul K (S n) (ftr (Sm o)) (Zm o))).

Definition plscf_constrained (solve:solver) (Nch n:nat) (cs:constr) (M:fmat R) : pres (fmat R) :=
  match cs with
  | LO => pbind (solve (n*Nch)%nat Nch (fneg (fblock Nch Nch M)) (fblock Nch 0 M)) (fun X => POk (fstack Nch (fid K) X))
  | HI => pbind (solve (n*Nch)%nat Nch (fneg (fblock 0 0 M)) (fblock 0 (n*Nch) M)) (fun X => POk (fstack (n*Nch) X (fid K)))
  end.

(* basis stage: (Re X, Im X, [Re Y_o], [Im Y_o]) with every complex power / product evaluated once *)
Definition cmemo (m n:nat) (Z:cmat) : cmat := let L := tab2 m n Z in fun i j => ent (COps K) L i j.
Definition cmemo_fam (N m n:nat) (F:nat -> cmat) : nat -> cmat :=
  let L := map (fun o => tab2 m n (F o)) (seq 0 N) in fun o i j => ent (COps K) (nth o L []) i j.
Definition plscf_basis (Nf Nch Nref n:nat) (X:cmat) (Sy:nat -> nat -> nat -> C R)
  : fmat R * fmat R * (nat -> fmat R) * (nat -> fmat R) :=
  let p := S n in let D := (p * Nch)%nat in
  let XC := cmemo Nf p X in
  let YC := cmemo_fam Nref Nf D (fun o => kronY Nch XC (Sy o)) in
  (fre XC, fim XC, fun o => fre (YC o), fun o => fim (YC o)).

(* Gram stage: (Ro, [So], [To]) = (Re(X^H X), Re(X^H Y_o), Re(Y_o^H Y_o)) *)
Definition plscf_grams (Nf Nch Nref n:nat) (X:cmat) (Sy:nat -> nat -> nat -> C R)
  : fmat R * (nat -> fmat R) * (nat -> fmat R) :=
  let p := S n in let D := (p * Nch)%nat in
  match plscf_basis Nf Nch Nref n X Sy with (XR, XI, YR, YI) =>
  (memo p p (regram Nf XR XI XR XI),
   memo_fam Nref p D (fun o => regram Nf XR XI (YR o) (YI o)),
   memo_fam Nref D D (fun o => regram Nf (YR o) (YI o) (YR o) (YI o))) end.

(* the code's solve chain on given Gram matrices: returns (M, alpha, beta) *)
Definition plscf_solve (solve:solver) (Nch Nref n:nat) (cs:constr) (Rm:fmat R) (Sm Tm:nat -> fmat R)
  : pres (fmat R * fmat R * (nat -> fmat R)) :=
  let p := S n in let D := (p * Nch)%nat in
  pbind (solve_fam Nref (fun o => solve p D Rm (Sm o))) (fun Z =>
  let M := memo D D (plscf_M Nref n Sm Tm Z) in
  pbind (plscf_constrained solve Nch n cs M) (fun alpha0 =>
  let alpha := memo D Nch alpha0 in
  pbind (solve_fam Nref (fun o => solve p Nch (fneg Rm) (fmul K D (Sm o) alpha))) (fun beta =>
  POk (M, alpha, beta)))).

(* plscf.pLSCF at order n: (alpha, beta) : alpha ((n+1)Nch x Nch) = A_den stacked, beta o ((n+1) x Nch) = B_num[:, o, :] *)
Definition plscf_order (solve:solver) (Nf Nch Nref n:nat) (cs:constr) (X:cmat) (Sy:nat -> nat -> nat -> C R)
  : pres (fmat R * (nat -> fmat R)) :=
  match plscf_grams Nf Nch Nref n X Sy with (Rm, Sm, Tm) =>
    match plscf_solve solve Nch Nref n cs Rm Sm Tm with
    | POk (_, alpha, beta) => POk (alpha, beta)
    | PLinAlgErr => PLinAlgErr
    end end.

(* stationarity residuals of the constrained linear least-squares problem  min sum_o |X beta_o + Y_o alpha|^2 :
   E1 o = Ro beta_o + So alpha ((n+1) x Nch) ;  E2 = sum_o (So^T beta_o + To alpha) (rows of the free blocks matter).
   Division-free: evaluated exactly on the coefficients the implementation returned. *)
Definition resid1 (Nch n:nat) (Rm Smo:fmat R) (alpha beta_o:fmat R) : fmat R :=
  fadd K (fmul K (S n) Rm beta_o) (fmul K (S n * Nch) Smo alpha).
Definition resid2 (Nch Nref n:nat) (Sm Tm:nat -> fmat R) (alpha:fmat R) (beta:nat -> fmat R) : fmat R :=
  fsum Nref (fun o => fadd K (fmul K (S n) (ftr (Sm o)) (beta o)) (fmul K (S n * Nch) (Tm o) alpha)).
(* the same residuals through the per-line equation error eps_o = X beta_o + Y_o alpha (Nf x Nch, complex):
   E1 o = Re(X^H eps_o), E2 = sum_o Re(Y_o^H eps_o)  (P_plscf.resid_fast_eq) *)
Definition plscf_resid_fast (Nf Nch Nref n:nat) (X:cmat) (Sy:nat -> nat -> nat -> C R) (alpha:fmat R) (beta:nat -> fmat R)
  : (nat -> fmat R) * fmat R :=
  let p := S n in let D := (p * Nch)%nat in
  match plscf_basis Nf Nch Nref n X Sy with (XR, XI, YR, YI) =>
  let ER := memo_fam Nref Nf Nch (fun o => fadd K (fmul K p XR (beta o)) (fmul K D (YR o) alpha)) in
  let EI := memo_fam Nref Nf Nch (fun o => fadd K (fmul K p XI (beta o)) (fmul K D (YI o) alpha)) in
  (fun o => regram Nf XR XI (ER o) (EI o), fsum Nref (fun o => regram Nf (YR o) (YI o) (ER o) (EI o))) end.
Definition free_off (Nch:nat) (cs:constr) : nat := match cs with LO => Nch | HI => O end.        (* first free row *)
Definition fixed_off (Nch n:nat) (cs:constr) : nat := match cs with LO => O | HI => (n*Nch)%nat end.

(* exact right matrix fraction data: polynomial matrices evaluated at a complex point, real coefficients *)
Definition csum (n:nat) (f:nat -> C R) : C R := sumn (COps K) n f.
Definition polyC (n:nat) (coef:nat -> R) (z:C R) : C R := csum (S n) (fun i => cmul K (cpow z i) (cofR K (coef i))).
(* stacked coefficient matrices as pLSCF lays them out *)
Definition alpha_of (Nch:nat) (A:nat -> fmat R) : fmat R := fun J c => A (J / Nch)%nat (J mod Nch)%nat c.
Definition beta_of (B:nat -> fmat R) (o:nat) : fmat R := fun i c => B i o c.
(* right multiplication of every block by a fixed matrix *)
Definition blocks_of (Nch:nat) (alpha:fmat R) (i:nat) : fmat R := fun a c => alpha (i*Nch + a)%nat c.     (* A_den[i] *)

(* ------------------------------------------------------------------ rmfd2ac *)
(* P j = np.linalg.solve(A_den[-1], A_den[j]) ; m = Nch ; p+1 coefficient blocks *)
Definition comp_mat (m p:nat) (P:nat -> fmat R) : fmat R := fun I J =>
  if Nat.ltb I m then (if Nat.ltb J (p*m) then - P (p-1-J/m)%nat I (J mod m)%nat else 0)
  else if Nat.eqb (I-m) J then 1 else 0.
Definition out_mat (m p:nat) (Bn P:nat -> fmat R) : fmat R := fun r J =>
  if Nat.ltb J (p*m) then Bn (p-1-J/m)%nat r (J mod m)%nat - fmul K m (Bn p) (P (p-1-J/m)%nat) r (J mod m)%nat else 0.
Definition rmfd2ac (solve:solver) (m p:nat) (Ad Bn:nat -> fmat R) : pres (fmat R * fmat R) :=
  pbind (solve_fam p (fun j => solve m m (Ad p) (Ad j))) (fun P => POk (comp_mat m p P, out_mat m p Bn P)).

(* block-geometric vector of (z, v): block j (j < p) = z^(p-1-j) v, border block = z^-1 v ; one column *)
Fixpoint rpow (z:R) (i:nat) : R := match i with O => 1 | S j => z * rpow z j end.
Definition geo_vec (m p:nat) (z zi:R) (v:fmat R) : fmat R := fun J c =>
  if Nat.ltb J (p*m) then rpow z (p-1-J/m) * v (J mod m)%nat c else zi * v (J mod m)%nat c.
(* polynomial matrix applied to a vector: sum_i z^i A_i v *)
Definition polymat_apply (m p:nat) (Ad:nat -> fmat R) (z:R) (v:fmat R) : fmat R :=
  fsum (S p) (fun i => fscal K (rpow z i) (fmul K m (Ad i) v)).

(* ------------------------------------------------------------------ ac2mp_poly / pLSCF_poles *)
Variable gt0 : R -> bool.        (* x > 0 *)
Variable ltb : R -> R -> bool.   (* x < y *)
Variable eqz : R -> bool.        (* x == 0 *)

Definition cell := (C R * option (C R) * list (C R))%type.
Definition cell_z (cl:cell) : C R := fst (fst cl).
Definition cell_L (cl:cell) : option (C R) := snd (fst cl).
Definition cell_q (cl:cell) : list (C R) := snd cl.

(* np.where(np.real(lambd) > 0, nan, lambd), then "+ shift": shift = 1/(tau dt) when methodSy = "cor" (tau = -(nxseg-1)/ln 0.01
   samples; the exponential-window correction, repository commit 2a1ca33), shift = 0 otherwise.  Blanking precedes the shift.
   z = 0: lambd = -inf + nan j, which is neither > 0 nor a number: None. *)
Definition blanked (cl:cell) : bool := match cell_L cl with Some l => gt0 (cre l) | None => false end.
Definition lam_cell (shift:R) (cl:cell) : option (C R) :=
  match cell_L cl with
  | Some l => if gt0 (cre l) then None else Some (cadd K l (cofR K shift))
  | None => None
  end.
(* fn = |lam_c| / 2 pi, inf -> nan in pLSCF_poles : exact argument |lam_c|^2 *)
Definition fn_cell (shift:R) (cl:cell) : option R := option_map (cnorm2 K) (lam_cell shift cl).
(* xi = -Re(lam_c)/|lam_c| : (numerator, |lam_c|^2) ; 0/0 and inf/inf are nan *)
Definition xi_cell (shift:R) (cl:cell) : option (R * R) :=
  match lam_cell shift cl with
  | Some l => if eqz (cnorm2 K l) then None else Some (- cre l, cnorm2 K l)
  | None => None
  end.
(* phi = C Q[:, ii], divided by its component of largest modulus (first one on ties): the cell holds the exact
   arguments (vector, divisor) of that complex division, which the caller carries out; 0/0 is nan *)
Definition cvec_apply (N:nat) (Cm:fmat R) (q:list (C R)) (r:nat) : C R :=
  (sumn K N (fun J => Cm r J * cre (nth J q (c0 K))), sumn K N (fun J => Cm r J * cim (nth J q (c0 K)))).
Fixpoint argmax_from (l:list R) (i best:nat) (bv:R) : nat :=
  match l with [] => best | x::t => if ltb bv x then argmax_from t (S i) i x else argmax_from t (S i) best bv end.
Definition argmax (l:list R) : nat := match l with [] => O | x::t => argmax_from t 1 O x end.
Definition phi_raw (Nref N:nat) (Cm:fmat R) (cl:cell) : list (C R) := map (cvec_apply N Cm (cell_q cl)) (seq 0 Nref).
Definition phi_cell (Nref N:nat) (Cm:fmat R) (cl:cell) : option (list (C R) * C R) :=
  if blanked cl then None else
  let v := phi_raw Nref N Cm cl in
  let d := nth (argmax (map (cnorm2 K) v)) v (c0 K) in
  if eqz (cnorm2 K d) then None else Some (v, d).

(* one order: the N = (order+1) Nch cells in the order np.linalg.eig returned them *)
Definition colin := (fmat R * list cell)%type.
Definition col_fn (shift:R) (ci:colin) : list (option R) := map (fn_cell shift) (snd ci).
Definition col_xi (shift:R) (ci:colin) : list (option (R*R)) := map (xi_cell shift) (snd ci).
Definition col_lam (shift:R) (ci:colin) : list (option (C R)) := map (lam_cell shift) (snd ci).
Definition col_phi (Nref:nat) (ci:colin) : list (option (list (C R) * C R)) := map (phi_cell Nref (length (snd ci)) (fst ci)) (snd ci).

(* np.array(list(itertools.zip_longest of the columns, fillvalue=nan)) : [row][order column] *)
Definition pad {X:Type} (rows:nat) (cols:list (list (option X))) : list (list (option X)) :=
  map (fun r => map (fun col => nth r col None) cols) (seq 0 rows).
Definition maxlen {X:Type} (cols:list (list X)) : nat := fold_right Nat.max O (map (@length X) cols).

Definition poles_tables (Nref:nat) (shift:R) (cis:list colin) :=
  let rows := maxlen (map (col_fn shift) cis) in
  let rows_phi := length (last (map (col_phi Nref) cis) []) in       (* np.full((len(Phis[-1]), ..)) *)
  (pad rows (map (col_fn shift) cis), pad rows (map (col_xi shift) cis),
   pad rows_phi (map (col_phi Nref) cis), pad rows (map (col_lam shift) cis)).
Definition tget {X:Type} (t:list (list (option X))) (r k:nat) : option X := nth k (nth r t []) None.
End PL.

Arguments cpow {R} K z i. Arguments fre {R} Z. Arguments fim {R} Z.
Arguments memo {R} K m n A. Arguments memo_fam {R} K N m n F.
Arguments solver R : clear implicits. Arguments solve_fam {R} K N f.
Arguments basisX {R} K Om. Arguments kronY {R} K Nch X H. Arguments regram {R} K Nf AR AI BR BI.
Arguments fsum {R} K N F. Arguments fneg {R} K A. Arguments fblock {R} r0 q0 A. Arguments fstack {R} m A B.
Arguments plscf_M {R} K Nref n Sm Tm Zm. Arguments plscf_constrained {R} K solve Nch n cs M.
Arguments cmemo {R} K m n Z. Arguments cmemo_fam {R} K N m n F. Arguments plscf_basis {R} K Nf Nch Nref n X Sy.
Arguments plscf_grams {R} K Nf Nch Nref n X Sy. Arguments plscf_solve {R} K solve Nch Nref n cs Rm Sm Tm.
Arguments plscf_order {R} K solve Nf Nch Nref n cs X Sy.
Arguments plscf_resid_fast {R} K Nf Nch Nref n X Sy alpha beta.
Arguments resid1 {R} K Nch n Rm Smo alpha beta_o. Arguments resid2 {R} K Nch Nref n Sm Tm alpha beta.
Arguments csum {R} K n f. Arguments polyC {R} K n coef z.
Arguments alpha_of {R} Nch A. Arguments beta_of {R} B o. Arguments blocks_of {R} Nch alpha i.
Arguments comp_mat {R} K m p P. Arguments out_mat {R} K m p Bn P. Arguments rmfd2ac {R} K solve m p Ad Bn.
Arguments rpow {R} K z i. Arguments geo_vec {R} K m p z zi v. Arguments polymat_apply {R} K m p Ad z v.
Arguments cell R : clear implicits. Arguments colin R : clear implicits.
Arguments cell_z {R} cl. Arguments cell_L {R} cl. Arguments cell_q {R} cl.
Arguments blanked {R} gt0 cl. Arguments lam_cell {R} K gt0 shift cl. Arguments fn_cell {R} K gt0 shift cl.
Arguments xi_cell {R} K gt0 eqz shift cl. Arguments cvec_apply {R} K N Cm q r.
Arguments argmax_from {R} ltb l i best bv. Arguments argmax {R} ltb l.
Arguments phi_raw {R} K Nref N Cm cl. Arguments phi_cell {R} K gt0 ltb eqz Nref N Cm cl.
Arguments col_fn {R} K gt0 shift ci. Arguments col_xi {R} K gt0 eqz shift ci. Arguments col_lam {R} K gt0 shift ci.
Arguments col_phi {R} K gt0 ltb eqz Nref ci.
Arguments pad {X} rows cols. Arguments maxlen {X} cols. Arguments tget {X} t r k.
Arguments poles_tables {R} K gt0 ltb eqz Nref shift cis.

(* ------------------------------------------------------------------ executable kernel: exact Gauss-Jordan *)
Section GJ.
Variable R:Type. Variable K:Ops R. Variable eqz : R -> bool.
Definition row_scale (c:R) (r:list R) : list R := map (omul K c) r.
Fixpoint row_sub (r s:list R) (c:R) : list R :=       (* r - c s *)
  match r, s with x::r', y::s' => osub K x (omul K c y) :: row_sub r' s' c | _, _ => [] end.
Fixpoint find_pivot (c:nat) (rows:list (list R)) : option (list R * list (list R)) :=
  match rows with
  | [] => None
  | r::t => if eqz (lget K r c) then
              match find_pivot c t with Some (pv, rest) => Some (pv, r::rest) | None => None end
            else Some (r, t)
  end.
Fixpoint gj_loop (steps c:nat) (done todo:list (list R)) : option (list (list R)) :=
  match steps with
  | O => Some done
  | S s => match find_pivot c todo with
           | None => None
           | Some (pv, rest) =>
               let pv' := row_scale (oinv K (lget K pv c)) pv in
               let elim := fun r => row_sub r pv' (lget K r c) in
               gj_loop s (S c) (map elim done ++ [pv']) (map elim rest)
           end
  end.
Definition gj_solve_l (d:nat) (A B:list (list R)) : option (list (list R)) :=
  match gj_loop d 0 [] (map (fun ab => fst ab ++ snd ab) (combine A B)) with
  | Some rows => Some (map (skipn d) rows)
  | None => None
  end.
(* certificate: A X = B checked entry by entry with the carrier's equality test (x - y == 0) *)
Definition cert_ok (d c:nat) (A X B:list (list R)) : bool :=
  forallb (fun i => forallb (fun j => eqz (osub K (sumn K d (fun k => omul K (ent K A i k) (ent K X k j))) (ent K B i j))) (seq 0 c)) (seq 0 d).
Definition gj_solver : solver R := fun d c A B =>
  let Al := tab2 d d A in let Bl := tab2 d c B in
  match gj_solve_l d Al Bl with
  | Some X => if cert_ok d c Al X Bl then POk (fun i j => ent K X i j) else PLinAlgErr
  | None => PLinAlgErr
  end.
End GJ.
Arguments gj_solve_l {R} K eqz d A B. Arguments gj_solver {R} K eqz. Arguments cert_ok {R} K eqz d c A X B.

(* ------------------------------------------------------------------ list-level wrappers at Qc (correspondence) *)
From Coq Require Import ZArith QArith Qcanon.
Definition qc_eqz (x:Qc) : bool := Qeq_bool (this x) 0.
Definition qc_gt0 (x:Qc) : bool := match (this x ?= 0)%Q with Gt => true | _ => false end.
Definition qc_ltb (x y:Qc) : bool := match (this x ?= this y)%Q with Lt => true | _ => false end.
Definition qsolver : solver Qc := gj_solver QcOps qc_eqz.
Definition cnth (l:list (Qc*Qc)) (k:nat) : Qc*Qc := nth k l (c0 QcOps).
Definition sy_of (Syl:list (list (list (Qc*Qc)))) : nat -> nat -> nat -> Qc*Qc := fun o c k => cnth (nth c (nth o Syl []) []) k.
Definition fam_of (Ms:list (list (list Qc))) : nat -> fmat Qc := fun i a b => ent QcOps (nth i Ms []) a b.

(* plscf.pLSCF, order n : (A_den stacked ((n+1)Nch x Nch), [B_num[:,o,:] for o]) *)
Definition xc_of (Xl:list (list (Qc*Qc))) : nat -> nat -> Qc*Qc := fun k i => cnth (nth k Xl []) i.
Definition plscf_l (Nf Nch Nref n:nat) (cs:constr) (Xl:list (list (Qc*Qc))) (Syl:list (list (list (Qc*Qc))))
  : pres (list (list Qc) * list (list (list Qc))) :=
  match plscf_order QcOps qsolver Nf Nch Nref n cs (xc_of Xl) (sy_of Syl) with
  | POk (al, be) => POk (tab2 (S n * Nch) Nch al, map (fun o => tab2 (S n) Nch (be o)) (seq 0 Nref))
  | PLinAlgErr => PLinAlgErr
  end.
(* residuals of the returned coefficients: ([E1 o], free rows of E2) *)
Definition plscf_resid_l (Nf Nch Nref n:nat) (cs:constr) (Xl:list (list (Qc*Qc))) (Syl:list (list (list (Qc*Qc))))
  (al:list (list Qc)) (bes:list (list (list Qc))) : list (list (list Qc)) * list (list Qc) :=
  match plscf_resid_fast QcOps Nf Nch Nref n (xc_of Xl) (sy_of Syl) (fun i j => ent QcOps al i j) (fam_of bes) with (E1, E2) =>
    (map (fun o => tab2 (S n) Nch (E1 o)) (seq 0 Nref), tab2 (n*Nch) Nch (fblock (free_off Nch cs) 0 E2)) end.
(* plscf.rmfd2ac(A_den, B_num): A_den = p+1 blocks m x m, B_num = p+1 blocks l x m *)
Definition rmfd2ac_l (m l p:nat) (Ads Bns:list (list (list Qc))) : pres (list (list Qc) * list (list Qc)) :=
  match rmfd2ac QcOps qsolver m p (fam_of Ads) (fam_of Bns) with
  | POk (A, Cm) => POk (tab2 (S p * m) (S p * m) A, tab2 l (S p * m) Cm)
  | PLinAlgErr => PLinAlgErr
  end.
(* plscf.pLSCF_poles on witness eigen-data: per order (C matrix l x N, cells) *)
Definition poles_l (Nref:nat) (shift:Qc) (cols:list (list (list Qc) * list (cell Qc))) :=
  poles_tables QcOps qc_gt0 qc_ltb qc_eqz Nref shift (map (fun cc => (fun r J => ent QcOps (fst cc) r J, snd cc)) cols).

(* flat integer encoding of the correspondence inputs (every float is m * 2^e exactly): a flat [list Z] literal
   elaborates in linear time, nested list/pair notations over [q n d] do not *)
Definition dyq (m e:Z) : Qc :=
  match e with Zneg k => Q2Qc (m # (Pos.pow 2 k)) | _ => Q2Qc ((m * 2 ^ e)%Z # 1) end.
Fixpoint dec (l:list Z) : list Qc := match l with m :: e :: t => dyq m e :: dec t | _ => [] end.
Fixpoint chunks_aux {A:Type} (fuel k:nat) (l:list A) : list (list A) :=
  match fuel with
  | O => []
  | S f => match l with [] => [] | _ => firstn k l :: chunks_aux f k (skipn k l) end
  end.
Definition chunks {A:Type} (k:nat) (l:list A) : list (list A) := chunks_aux (List.length l) k l.
Definition cpx (l:list Qc) : list (Qc*Qc) := map (fun ch => (nth 0 ch 0%Qc, nth 1 ch 0%Qc)) (chunks 2 l).
Definition plscf_resid_z (Nf Nch Nref n:nat) (cs:constr) (xz sz az bz:list Z) :=
  plscf_resid_l Nf Nch Nref n cs (chunks (S n) (cpx (dec xz))) (chunks Nch (chunks Nf (cpx (dec sz))))
                (chunks Nch (dec az)) (chunks (S n) (chunks Nch (dec bz))).
Definition rmfd2ac_z (m l p:nat) (az bz:list Z) :=
  rmfd2ac_l m l p (chunks m (chunks m (dec az))) (chunks l (chunks m (dec bz))).
Definition dec_cell (ch:list Qc) : cell Qc :=
  ((nth 0 ch 0%Qc, nth 1 ch 0%Qc),
   (if qc_eqz (nth 2 ch 0%Qc) then None else Some (nth 3 ch 0%Qc, nth 4 ch 0%Qc)),
   cpx (skipn 5 ch)).
Definition dec_col (Nref:nat) (col:nat * list Z) : list (list Qc) * list (cell Qc) :=
  let N := fst col in let vals := dec (snd col) in
  (chunks N (firstn (Nref * N) vals), map dec_cell (chunks (5 + 2 * N) (skipn (Nref * N) vals))).
Definition poles_z (Nref:nat) (sm se:Z) (cols:list (nat * list Z)) := poles_l Nref (dyq sm se) (map (dec_col Nref) cols).

(* printers *)
From Coq Require Import String.
From PyOMA.Base Require Import Show.
Open Scope string_scope.
Definition show_plscf (r:pres (list (list Qc) * list (list (list Qc)))) : string :=
  match r with POk (a, b) => "ok|" ++ showMat a ++ "|" ++ showL showMat "#" b | PLinAlgErr => "LinAlgErr" end.
Definition show_resid (r:list (list (list Qc)) * list (list Qc)) : string := showL showMat "#" (fst r) ++ "|" ++ showMat (snd r).
Definition show_rmfd (r:pres (list (list Qc) * list (list Qc))) : string :=
  match r with POk (a, c) => "ok|" ++ showMat a ++ "|" ++ showMat c | PLinAlgErr => "LinAlgErr" end.
(* compact printing of dyadic rationals "<numerator>p<k>" = numerator / 2^k (other rationals as "n/d") *)
Definition showDq (x:Qc) : string :=
  let d := Zpos (Qden (this x)) in let k := Z.log2 d in
  if Z.eqb (2 ^ k) d then showZ (Qnum (this x)) ++ "p" ++ showZ k else showQc x.
Definition showDC (z:Qc*Qc) : string := showDq (fst z) ++ "," ++ showDq (snd z).
Definition showXi (x:Qc*Qc) : string := showDq (fst x) ++ "," ++ showDq (snd x).
Definition showTab {X:Type} (f:X -> string) (t:list (list (option X))) : string := showL (showL (showO f) " ") ";" t.
Definition show_poles (t:list (list (option Qc)) * list (list (option (Qc*Qc))) * list (list (option (list (Qc*Qc) * (Qc*Qc)))) * list (list (option (Qc*Qc)))) : string :=
  match t with (fn, xi, phi, lam) =>
    showTab showDq fn ++ "|" ++ showTab showXi xi ++ "|" ++ showTab (fun vd => showL showDC "_" (fst vd) ++ "@" ++ showDC (snd vd)) phi ++ "|" ++ showTab showDC lam end.
