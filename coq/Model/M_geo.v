(* C19 - geometry tables: gen.check_on_geo1 / check_on_geo2 / flatten_sns_names / dfphi_map_func, the geometry
   part of GeometryMixin.def_geo1 / def_geo2 and the coordinates drawn by Geo1MplPlotter.plot_mode /
   Geo2MplPlotter.plot_mode.  Definitions only.

   A pandas DataFrame is a [tbl]: column labels + rows (index label, cells).  A cell is a string, a number or NaN.
   Index labels are strings (the harness prints integer labels in decimal).  [df.empty] is "no rows or no columns".
   A Python exception is an explicit [Err kind].  Documented cell forms (what the harness generates and the model is
   faithful on): sensor / constraint names are not numeric literals; tables are rectangular (every row has one cell
   per column label); index tables (lines, surfaces), coordinates, signs and constraint coefficients are numeric.   *)
From Coq Require Import List Arith ZArith QArith Qcanon Lia Bool String DecimalString Decimal.
From PyOMA.Base Require Import Carrier Show.
Import ListNotations.
Local Open Scope string_scope.

Inductive cell := CName (s:string) | CNum (x:Qc) | CNaN.
Definition rowt := (string * list cell)%type.
Record tbl := mkTbl { cols : list string; rows : list rowt }.
Inductive gerr := ValueErr | AttrErr | IndexErr | TypeErr.
Inductive res (A:Type) := Ok (a:A) | Err (e:gerr).
Arguments Ok {A} a. Arguments Err {A} e.

Definition labels (t:tbl) : list string := map fst (rows t).
Definition body (t:tbl) : list (list cell) := map snd (rows t).          (* df.values / df.to_numpy() *)
Definition nrows (t:tbl) : nat := List.length (rows t).
Definition ncols (t:tbl) : nat := List.length (cols t).
Definition tempty (t:tbl) : bool := Nat.eqb (nrows t) 0 || Nat.eqb (ncols t) 0.   (* df.empty *)
Definition shape_eqb (a b:tbl) : bool := Nat.eqb (nrows a) (nrows b) && Nat.eqb (ncols a) (ncols b).
Definition empty_tbl : tbl := mkTbl [] [].                                  (* pd.DataFrame() *)

Definition smem (s:string) (l:list string) : bool := existsb (String.eqb s) l.
Fixpoint sl_eqb (a b:list string) : bool :=
  match a, b with [], [] => true | x::a', y::b' => String.eqb x y && sl_eqb a' b' | _, _ => false end.
Fixpoint nodupb (l:list string) : bool := match l with [] => true | x::t => negb (smem x t) && nodupb t end.

(* ------------------------------------------------------------------ sensor names (gen.flatten_sns_names) *)
Inductive names_form :=
| NRow (r:list string)                                         (* DataFrame with exactly one row (Excel template) *)
| NTab (r1 r2:list (option string)) (rs:list (list (option string)))   (* DataFrame with >= 2 rows, NaN padded   *)
| NList (l:list string)                                        (* list of str                                     *)
| NLists (l:list (list string))                                (* list of lists of str                            *)
| NArr (l:list string).                                        (* 1-D ndarray of str                              *)

Fixpoint drop_at {A} (l:list A) (idx:list nat) (pos:nat) : list A :=
  match l with
  | [] => []
  | x::t => if existsb (Nat.eqb pos) idx then drop_at t idx (S pos) else x :: drop_at t idx (S pos)
  end.
Definition nat_str (n:nat) : string := NilEmpty.string_of_uint (Nat.to_uint n).
Definition ref_names (k:nat) : list string := map (fun i => "REF" ++ nat_str (S i)) (seq 0 k).
Definition somes {A} (l:list (option A)) : list A := flat_map (fun o => match o with Some x => [x] | None => [] end) l.

(* multi-setup: REF1..REFk (k = number of references of the FIRST setup), then every setup's non-reference names in
   setup order.  ref_ind = None -> AttributeError; ref_ind[0] or ref_ind[i] missing -> IndexError; surplus entries ignored *)
Definition flatten_multi (setups:list (list string)) (ref:option (list (list nat))) : res (list string) :=
  match ref with
  | None => Err AttrErr
  | Some [] => Err IndexErr
  | Some (r0::rl) =>
      if Nat.ltb (List.length (r0::rl)) (List.length setups) then Err IndexErr
      else Ok (List.app (ref_names (List.length r0))
                        (List.concat (map (fun nr => drop_at (fst nr) (snd nr) 0) (combine setups (r0::rl)))))
  end.
Definition flatten_names (nf:names_form) (ref:option (list (list nat))) : res (list string) :=
  match nf with
  | NRow r => Ok r
  | NTab r1 r2 rs => flatten_multi (map somes (r1::r2::rs)) ref
  | NList [] => flatten_multi [] ref            (* all(isinstance(e, list) for e in []) is True *)
  | NList l => Ok l
  | NLists ls => flatten_multi ls ref
  | NArr l => Ok l
  end.

(* ------------------------------------------------------------------ the dictionary of sheets *)
Record fdict := mkFd { fd_names : option names_form; fd_tabs : list (string * tbl) }.
Definition drop_info (d:list (string*tbl)) := filter (fun kv => negb (String.eqb (fst kv) "INFO")) d.
Definition getk (k:string) (d:list (string*tbl)) : option tbl :=
  match find (fun kv => String.eqb (fst kv) k) d with Some kv => Some (snd kv) | None => None end.
Definition remove_key (k:string) (fd:fdict) : fdict :=
  mkFd (fd_names fd) (filter (fun kv => negb (String.eqb (fst kv) k)) (fd_tabs fd)).

(* DataFrame.reindex(index=names): row k = the first row labelled names[k]; a label that is absent gives a NaN row *)
Fixpoint find_row (n:string) (rs:list rowt) : option (list cell) :=
  match rs with [] => None | (l,c)::t => if String.eqb n l then Some c else find_row n t end.
Definition reindex_rows (names:list string) (w:nat) (rs:list rowt) : list rowt :=
  map (fun n => match find_row n rs with Some c => (n,c) | None => (n, repeat CNaN w) end) names.
Definition reindex (names:list string) (t:tbl) : tbl := mkTbl (cols t) (reindex_rows names (ncols t) (rows t)).
(* pandas: identical labels -> copy; otherwise duplicate labels -> ValueError *)
Definition reindex_ok (names:list string) (t:tbl) : bool := nodupb (labels t) || sl_eqb (labels t) names.
Definition reindex_p (names:list string) (t:tbl) : tbl := if sl_eqb (labels t) names then t else reindex names t.

(* 1 -> 0 index shift (df.sub(1)); NaN stays NaN; a string cell is a TypeError *)
Definition numeric_cell (c:cell) : bool := match c with CName _ => false | _ => true end.
Definition numeric (t:tbl) : bool := forallb (fun r => forallb numeric_cell (snd r)) (rows t).
Definition shift_cell (c:cell) : cell := match c with CNum x => CNum (x - 1)%Qc | c' => c' end.
Definition shift_body (t:tbl) : list (list cell) := map (map shift_cell) (body t).
Definition arr_out (o:option tbl) : option (list (list cell)) :=
  match o with Some t => if tempty t then None else Some (body t) | None => None end.
Definition shift_out (o:option tbl) : res (option (list (list cell))) :=
  match o with
  | Some t => if tempty t then Ok None else if numeric t then Ok (Some (shift_body t)) else Err TypeErr
  | None => Ok None
  end.
Definition bad_cols (o:option tbl) (n:nat) : bool :=
  match o with Some t => negb (tempty t) && negb (Nat.eqb (ncols t) n) | None => false end.

(* ------------------------------------------------------------------ gen.check_on_geo1 *)
Definition geo1_sheets : list string := ["sensors coordinates"; "sensors directions"; "sensors lines"; "BG nodes"; "BG lines"; "BG surfaces"].
Definition geo1_optional : list string := ["sensors lines"; "BG nodes"; "BG lines"; "BG surfaces"].
Record geo1 := mkG1 { g1_names : list string; g1_coord : tbl; g1_dir : list (list cell);
  g1_lines : option (list (list cell)); g1_bgn : option (list (list cell));
  g1_bgl : option (list (list cell)); g1_bgs : option (list (list cell)) }.

Definition check_geo1 (fd:fdict) (ref:option (list (list nat))) : res geo1 :=
  let d := drop_info (fd_tabs fd) in
  match fd_names fd, getk "sensors coordinates" d, getk "sensors directions" d with
  | Some nf, Some co, Some di =>
    if negb (forallb (fun kv => smem (fst kv) geo1_sheets) d) then Err ValueErr else
    if negb (Nat.eqb (ncols co) 3) then Err ValueErr else
    if negb (shape_eqb co di) then Err ValueErr else
    if bad_cols (getk "BG nodes" d) 3 then Err ValueErr else
    if bad_cols (getk "BG lines" d) 2 then Err ValueErr else
    if bad_cols (getk "BG surfaces" d) 3 then Err ValueErr else
    if negb (sl_eqb (labels co) (labels di)) then Err ValueErr else
    match flatten_names nf ref with
    | Err e => Err e
    | Ok names =>
      if negb (forallb (fun n => smem n (labels co)) names) then Err ValueErr else
      if negb (reindex_ok names co) then Err ValueErr else
      match shift_out (getk "sensors lines" d), shift_out (getk "BG lines" d), shift_out (getk "BG surfaces" d) with
      | Ok sl, Ok bl, Ok bs =>
          Ok (mkG1 names (reindex_p names co) (body (reindex_p names di)) sl (arr_out (getk "BG nodes" d)) bl bs)
      | _, _, _ => Err TypeErr
      end
    end
  | _, _, _ => Err ValueErr
  end.

(* ------------------------------------------------------------------ gen.check_on_geo2 *)
Definition geo2_sheets : list string := ["points coordinates"; "mapping"; "constraints"; "sensors sign"; "sensors lines";
  "sensors surfaces"; "BG nodes"; "BG lines"; "BG surfaces"].
Definition geo2_optional : list string := ["constraints"; "sensors sign"; "sensors lines"; "sensors surfaces"; "BG nodes"; "BG lines"; "BG surfaces"].
Definition reserved_cells : list string := ["0"; "0.0"; "interp"].
Record geo2 := mkG2 { g2_names : list string; g2_pts : option tbl; g2_map : option tbl; g2_cstr : option tbl;
  g2_sign : option tbl; g2_lines : option (list (list cell)); g2_surf : option (list (list cell));
  g2_bgn : option (list (list cell)); g2_bgl : option (list (list cell)); g2_bgs : option (list (list cell)) }.

Definition fill0 (c:cell) : cell := match c with CNaN => CNum 0%Qc | c' => c' end.        (* fillna(0) *)
Definition fill_tbl (t:tbl) : tbl := mkTbl (cols t) (map (fun r => (fst r, map fill0 (snd r))) (rows t)).
Definition cells_of (t:tbl) : list cell := List.concat (body t).                          (* values.flatten() *)
Definition cell_named (n:string) (c:cell) : bool := match c with CName s => String.eqb s n | _ => false end.
(* a cell that can name a constraint: a string that is neither a sensor name nor "0" / "0.0" / "interp" *)
Definition cell_cstr (names:list string) (i:string) (c:cell) : bool :=
  match c with CName s => String.eqb s i && negb (smem s names) && negb (smem s reserved_cells) | _ => false end.
(* constraints[name] for every sensor name, a zero column where the table has none; columns in sensor order *)
Fixpoint col_lookup (n:string) (cs:list string) (r:list cell) : cell :=
  match cs, r with c::cs', x::r' => if String.eqb n c then x else col_lookup n cs' r' | _, _ => CNum 0%Qc end.
Definition complete_cstr (names:list string) (t:tbl) : tbl :=
  mkTbl names (map (fun r => (fst r, map (fun n => col_lookup n (cols t) (snd r)) names)) (rows t)).
Definition ones_like (t:tbl) : tbl :=                    (* pd.DataFrame(np.ones(shape), columns=t.columns) *)
  mkTbl (cols t) (map (fun i => (nat_str i, repeat (CNum 1%Qc) (ncols t))) (seq 0 (nrows t))).
Definition given (o:option tbl) : bool := match o with Some t => negb (tempty t) | None => false end.
Definition opt_tbl (t:tbl) : option tbl := if tempty t then None else Some t.
Definition or_empty (o:option tbl) : tbl := match o with Some t => t | None => empty_tbl end.

Definition check_geo2 (fd:fdict) (ref:option (list (list nat))) : res geo2 :=
  let d := drop_info (fd_tabs fd) in
  match fd_names fd, getk "points coordinates" d, getk "mapping" d with
  | Some nf, Some pts, Some mp =>
    if negb (forallb (fun kv => smem (fst kv) geo2_sheets) d) then Err ValueErr else
    if negb (Nat.eqb (ncols pts) 3) then Err ValueErr else
    if negb (shape_eqb pts mp) then Err ValueErr else
    if given (getk "sensors sign" d) && negb (shape_eqb pts (or_empty (getk "sensors sign" d))) then Err ValueErr else
    if bad_cols (getk "BG nodes" d) 3 then Err ValueErr else
    if bad_cols (getk "BG lines" d) 2 then Err ValueErr else
    if bad_cols (getk "BG surfaces" d) 3 then Err ValueErr else
    let sign := if given (getk "sensors sign" d) then or_empty (getk "sensors sign" d) else ones_like pts in
    match flatten_names nf ref with
    | Err e => Err e
    | Ok names =>
      let cs := fill_tbl (or_empty (getk "constraints" d)) in
      let mp' := fill_tbl mp in
      let cells := cells_of mp' in
      if negb (forallb (fun n => existsb (cell_named n) cells) names) then Err ValueErr else
      if negb (forallb (fun c => smem c names) (cols cs)) then Err ValueErr else
      if negb (forallb (fun i => existsb (cell_cstr names i) cells) (labels cs)) then Err ValueErr else
      match shift_out (getk "sensors lines" d), shift_out (getk "sensors surfaces" d),
            shift_out (getk "BG lines" d), shift_out (getk "BG surfaces" d) with
      | Ok sl, Ok ss, Ok bl, Ok bs =>
          Ok (mkG2 names (opt_tbl pts) (opt_tbl mp') (opt_tbl (complete_cstr names cs)) (opt_tbl sign)
                   sl ss (arr_out (getk "BG nodes" d)) bl bs)
      | _, _, _, _ => Err TypeErr
      end
    end
  | _, _, _ => Err ValueErr
  end.

(* ------------------------------------------------------------------ gen.dfphi_map_func *)
Fixpoint dotq (a b:list Qc) : Qc := match a, b with x::a', y::b' => (x*y + dotq a' b')%Qc | _, _ => 0%Qc end.
Definition cnum (c:cell) : Qc := match c with CNum x => x | _ => 0%Qc end.               (* to_numpy(na_value=0) *)
(* dict(zip(keys, values)): the LAST occurrence of a key wins *)
Fixpoint assoc_last {A} (k:string) (l:list (string*A)) : option A :=
  match l with
  | [] => None
  | (k',v)::t => match assoc_last k t with Some x => Some x | None => if String.eqb k k' then Some v else None end
  end.
(* mapping = dict(sensors, **constraints): a constraint name overrides a sensor name *)
Definition cell_val (sens cstrs:list (string*Qc)) (c:cell) : option (option Qc) :=
  match c with
  | CNum x => Some (Some x)
  | CNaN => Some None
  | CName s => match assoc_last s cstrs with
               | Some v => Some (Some v)
               | None => match assoc_last s sens with Some v => Some (Some v) | None => None end
               end
  end.
Definition cell_known (sens cstrs:list (string*Qc)) (c:cell) : bool :=
  match cell_val sens cstrs c with Some _ => true | None => false end.
Definition cell_val0 (sens cstrs:list (string*Qc)) (c:cell) : option Qc :=
  match cell_val sens cstrs c with Some v => v | None => None end.
Definition cstr_vals (phi:list Qc) (cs:tbl) : list (string*Qc) := map (fun r => (fst r, dotq (map cnum (snd r)) phi)) (rows cs).
(* ValueError: len(names) != len(phi); matmul shape mismatch; a string that is neither sensor nor constraint
   (astype(float)).  TypeError: a string inside the constraint coefficients. *)
Definition dfphi_map (phi:list Qc) (names:list string) (smap:tbl) (cstr:option tbl) : res (list (list (option Qc))) :=
  if negb (Nat.eqb (List.length names) (List.length phi)) then Err ValueErr else
  let sens := combine names phi in
  match cstr with
  | Some cs =>
      if negb (numeric cs) then Err TypeErr else
      if negb (Nat.eqb (ncols cs) (List.length phi)) then Err ValueErr else
      let cv := cstr_vals phi cs in
      if forallb (forallb (cell_known sens cv)) (body smap) then Ok (map (map (cell_val0 sens cv)) (body smap)) else Err ValueErr
  | None =>
      if forallb (forallb (cell_known sens [])) (body smap) then Ok (map (map (cell_val0 sens [])) (body smap)) else Err ValueErr
  end.

(* ------------------------------------------------------------------ what the mode plots draw *)
Definition oq_mul (a b:option Qc) : option Qc := match a, b with Some x, Some y => Some (x*y)%Qc | _, _ => None end.
Definition oq_add (a b:option Qc) : option Qc := match a, b with Some x, Some y => Some (x+y)%Qc | _, _ => None end.
Definition cell_q (c:cell) : option Qc := match c with CNum x => Some x | _ => None end.
Definition disp (v:option Qc) (sign:cell) : option Qc := oq_mul v (cell_q sign).           (* mapped value x sign *)
Fixpoint map2 {A B C} (f:A->B->C) (a:list A) (b:list B) : list C :=
  match a, b with x::a', y::b' => f x y :: map2 f a' b' | _, _ => [] end.
Definition same_shape {A B} (a:list (list A)) (b:list (list B)) : bool :=
  Nat.eqb (List.length a) (List.length b) && forallb (fun p => Nat.eqb (List.length (fst p)) (List.length (snd p))) (combine a b).

(* Geo2MplPlotter.plot_mode: newpoints = pts + dfphi_map(phi * scaleF) * sens_sign *)
Definition newpoints2 (g:geo2) (phi:list Qc) (scale:Qc) : res (list (list (option Qc))) :=
  match g2_pts g, g2_map g, g2_sign g with
  | Some pts, Some mp, Some sg =>
    match dfphi_map (map (fun x => (x*scale)%Qc) phi) (g2_names g) mp (g2_cstr g) with
    | Err e => Err e
    | Ok M =>
      if negb (numeric pts && numeric sg) then Err TypeErr else
      if negb (same_shape (body pts) M && same_shape (body pts) (body sg)) then Err ValueErr else
      Ok (map2 (fun pr sr => map2 (fun pv s => oq_add (cell_q (fst pv)) (disp (snd pv) s)) pr sr)
               (map2 (fun p m => combine p m) (body pts) M) (body sg))
    end
  | _, _, _ => Err AttrErr
  end.
(* Geo1MplPlotter.plot_mode: arrow k from sens_coord[k] to sens_coord[k] + sens_dir[k] * phi[k] * scaleF *)
Definition arrows1 (g:geo1) (phi:list Qc) (scale:Qc) : res (list (list (option Qc) * list (option Qc))) :=
  if negb (Nat.eqb (List.length phi) (nrows (g1_coord g))) then Err ValueErr else
  if negb (numeric (g1_coord g) && forallb (forallb numeric_cell) (g1_dir g)) then Err TypeErr else
  if negb (same_shape (body (g1_coord g)) (g1_dir g)) then Err ValueErr else
  Ok (map2 (fun cd f => (map cell_q (fst cd),
                         map2 (fun c dd => oq_add (cell_q c) (oq_mul (oq_mul (cell_q dd) (Some f)) (Some scale))) (fst cd) (snd cd)))
           (combine (body (g1_coord g)) (g1_dir g)) phi).

(* ------------------------------------------------------------------ printers (one line per result) *)
Definition showCell (c:cell) : string := match c with CName s => "s:" ++ s | CNum x => showQc x | CNaN => "nan" end.
Definition showBody (b:list (list cell)) : string := showL (showL showCell ",") ";" b.
Definition showTbl (t:tbl) : string :=
  showN (nrows t) ++ "x" ++ showN (ncols t) ++ "|" ++ join "," (cols t) ++ "|" ++ join "," (labels t) ++ "|" ++ showBody (body t).
Definition showArr (o:option (list (list cell))) : string :=
  match o with None => "None" | Some b => showN (List.length b) ++ "|" ++ showBody b end.
Definition showOT (o:option tbl) : string := match o with None => "None" | Some t => showTbl t end.
Definition showErr (e:gerr) : string :=
  match e with ValueErr => "ValueError" | AttrErr => "AttributeError" | IndexErr => "IndexError" | TypeErr => "TypeError" end.
Definition showRes {A} (f:A->string) (r:res A) : string := match r with Ok a => "Ok#" ++ f a | Err e => "Err#" ++ showErr e end.
Definition showG1 (g:geo1) : string :=
  join "," (g1_names g) ++ "#" ++ showTbl (g1_coord g) ++ "#" ++ showBody (g1_dir g) ++ "#" ++ showArr (g1_lines g) ++ "#" ++
  showArr (g1_bgn g) ++ "#" ++ showArr (g1_bgl g) ++ "#" ++ showArr (g1_bgs g).
Definition showG2 (g:geo2) : string :=
  join "," (g2_names g) ++ "#" ++ showOT (g2_pts g) ++ "#" ++ showOT (g2_map g) ++ "#" ++ showOT (g2_cstr g) ++ "#" ++
  showOT (g2_sign g) ++ "#" ++ showArr (g2_lines g) ++ "#" ++ showArr (g2_surf g) ++ "#" ++ showArr (g2_bgn g) ++ "#" ++
  showArr (g2_bgl g) ++ "#" ++ showArr (g2_bgs g).
Definition showOQ (o:option Qc) : string := showO showQc o.
Definition showOMat (m:list (list (option Qc))) : string := showL (showL showOQ " ") ";" m.
Definition showArrows (a:list (list (option Qc) * list (option Qc))) : string :=
  showL (fun p => showL showOQ " " (fst p) ++ ">" ++ showL showOQ " " (snd p)) ";" a.
Definition showNames (r:res (list string)) : string := showRes (join ",") r.
(* composed observations used by the harness: geometry, then what the mode plot draws *)
Definition geo2_points (fd:fdict) (ref:option (list (list nat))) (phi:list Qc) (scale:Qc) : res (list (list (option Qc))) :=
  match check_geo2 fd ref with Ok g => newpoints2 g phi scale | Err e => Err e end.
Definition geo1_arrows (fd:fdict) (ref:option (list (list nat))) (phi:list Qc) (scale:Qc) :=
  match check_geo1 fd ref with Ok g => arrows1 g phi scale | Err e => Err e end.
Definition geo2_mapped (fd:fdict) (ref:option (list (list nat))) (phi:list Qc) : res (list (list (option Qc))) :=
  match check_geo2 fd ref with
  | Ok g => match g2_map g with Some mp => dfphi_map phi (g2_names g) mp (g2_cstr g) | None => Err AttrErr end
  | Err e => Err e
  end.
