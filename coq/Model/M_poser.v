(* C02 - the class MultiSetup_PoSER (setup/multi.py): __init__ / _init_setups validation, merge_results (grouping of the
   setups' algorithms under the given names, statistics over each group, forwarding of ref_ind to merge_mode_shapes),
   and gen.flatten_sns_names in every argument form it accepts (table, list of lists, list, 1-D array).
   Definitions only; the numerical parts are those of M_merge.v.                                                      *)
From Coq Require Import List Arith ZArith Lia Bool String QArith Qcanon Qround.
From PyOMA.Base Require Import Carrier Cplx Show.
From PyOMA.Model Require Import M_merge.
Import ListNotations.

Fixpoint list_eqb {A} (eqb:A->A->bool) (l1 l2:list A) : bool :=
  match l1, l2 with
  | [], [] => true
  | x::t, y::u => eqb x y && list_eqb eqb t u
  | _, _ => false
  end.

Section Poser.
Variable R:Type. Variable K:Ops R.
Notation C := (C R).

(* what merge_results reads of one algorithm of one SingleSetup: its class, whether it has a result with Fn (has been run
   and its modes extracted), result.Fn, result.Xi, result.Phi (sensors x modes)                          *)
Record alg_res := { a_cls : string; a_run : bool; a_fn : list R; a_xi : list R; a_phi : list (list C) }.
Definition alg_dflt : alg_res := {| a_cls := EmptyString; a_run := false; a_fn := []; a_xi := []; a_phi := [] |}.
(* a SingleSetup = its algorithms, in the order of setup.algorithms.values() *)
Definition setup := list alg_res.

(* _init_setups: every failed validation is a ValueError *)
Inductive init_res := InitOk | InitValueErr.
Definition poser_init (names:list string) (setups:list setup) : init_res :=
  if Nat.leb (List.length setups) 1 then InitValueErr
  else if existsb (fun su : setup => match su with [] => true | _ => false end) setups then InitValueErr
  else if negb (forallb (fun su : setup => list_eqb String.eqb (map a_cls su) (map a_cls (hd [] setups))) setups) then InitValueErr
  else if negb (Nat.eqb (List.length names) (List.length (hd [] setups))) then InitValueErr
  else if negb (forallb (fun su : setup => forallb a_run su) setups) then InitValueErr
  else InitOk.

(* MsPoserResult; the two dispersions in squared form (the square root is taken on the harness side) *)
Record merged := { m_fn : list R; m_fn_cov2 : list R; m_xi : list R; m_xi_cov2 : list R; m_phi : list (list C) }.
Inductive group_res := GroupOk (m:merged) | GroupValueErr | GroupIndexErr.

(* np.array(list of 1-D results) raises ValueError when the rows have different lengths *)
Definition uniform (rows:list (list R)) : bool :=
  forallb (fun r => Nat.eqb (List.length r) (List.length (hd [] rows))) rows.

(* the body of the loop over alg_groups: algs = the group's algorithms in insertion order, refl = self.ref_ind *)
Definition merge_group (algs:list alg_res) (refl:list (list nat)) : group_res :=
  let fr := map a_fn algs in
  let xr := map a_xi algs in
  if negb (uniform fr) then GroupValueErr
  else if negb (uniform xr) then GroupValueErr
  else match merge_mode_shapes K (map a_phi algs) refl with
       | MergeOk P => GroupOk {| m_fn := map fst (poser_stats K fr); m_fn_cov2 := map snd (poser_stats K fr);
                                 m_xi := map fst (poser_stats K xr); m_xi_cov2 := map snd (poser_stats K xr); m_phi := P |}
       | MergeValueErr => GroupValueErr
       | MergeIndexErr => GroupIndexErr
       end.

(* alg_groups.setdefault(self.names[ii], []).append(alg) for setup in setups, for ii, alg in enumerate(algorithms):
   the keys in order of first appearance, and under each key the algorithms whose position carries that name,
   setup by setup                                                                                                 *)
Fixpoint keys (names:list string) : list string :=
  match names with
  | [] => []
  | x::t => x :: filter (fun y => negb (String.eqb x y)) (keys t)
  end.
Definition group_of (names:list string) (setups:list setup) (nm:string) : list alg_res :=
  List.concat (map (fun su : setup => map snd (filter (fun na : string * alg_res => String.eqb (fst na) nm) (combine names su))) setups).

Inductive poser_res := PoserOk (l:list (string * merged)) | PoserValueErr | PoserIndexErr.
(* the groups are merged one after the other; the first exception ends the call *)
Fixpoint seq_groups (l:list (string * group_res)) : poser_res :=
  match l with
  | [] => PoserOk []
  | (nm, GroupOk m)::t => match seq_groups t with PoserOk r => PoserOk ((nm,m)::r) | e => e end
  | (_, GroupValueErr)::_ => PoserValueErr
  | (_, GroupIndexErr)::_ => PoserIndexErr
  end.
Definition merge_results (names:list string) (setups:list setup) (refl:list (list nat)) : poser_res :=
  seq_groups (map (fun nm => (nm, merge_group (group_of names setups nm) refl)) (keys names)).

(* MultiSetup_PoSER(ref_ind, single_setups, names).merge_results() *)
Inductive class_res := ClassInitErr | ClassRes (r:poser_res).
Definition poser_class (names:list string) (setups:list setup) (refl:list (list nat)) : class_res :=
  match poser_init names setups with
  | InitValueErr => ClassInitErr
  | InitOk => ClassRes (merge_results names setups refl)
  end.
End Poser.

Arguments a_cls {R} a. Arguments a_run {R} a. Arguments a_fn {R} a. Arguments a_xi {R} a. Arguments a_phi {R} a.
Arguments alg_dflt {R}.
Arguments poser_init {R} names setups.
Arguments m_fn {R} m. Arguments m_fn_cov2 {R} m. Arguments m_xi {R} m. Arguments m_xi_cov2 {R} m. Arguments m_phi {R} m.
Arguments GroupOk {R} m. Arguments GroupValueErr {R}. Arguments GroupIndexErr {R}.
Arguments uniform {R} rows. Arguments merge_group {R} K algs refl. Arguments group_of {R} names setups nm.
Arguments PoserOk {R} l. Arguments PoserValueErr {R}. Arguments PoserIndexErr {R}.
Arguments seq_groups {R} l. Arguments merge_results {R} K names setups refl.
Arguments ClassInitErr {R}. Arguments ClassRes {R} r. Arguments poser_class {R} K names setups refl.

(* ---- gen.flatten_sns_names, every argument form ----
   NTable  : a pandas DataFrame, cell = Some name | None (NaN / missing)
   NLists  : a list whose elements are all lists (of names)
   NList   : a list of names (the empty list is also "a list whose elements are all lists": Python takes that branch)
   NArray  : a 1-D array of names
   A table with exactly one row is a single-setup geometry: its row is returned as it is (NaN included, no REF names);
   with two rows or more the NaN cells are removed from every row and the rows are treated as the list-of-lists form;
   a table without rows is a ValueError.  Multi-setup form: AttributeError without ref_ind; IndexError when ref_ind is
   empty, or when a non-empty row has no reference list (an empty row never looks its list up).                   *)
Inductive names_arg := NTable (rows:list (list (option string))) | NLists (l:list (list string)) | NList (l:list string) | NArray (l:list string).
Inductive flat_gen := FlatG (l:list (option string)) | FlatGAttrErr | FlatGValueErr | FlatGIndexErr.
Definition not_nan (row:list (option string)) : list string :=
  flat_map (fun o : option string => match o with Some x => [x] | None => [] end) row.
Fixpoint flat_rows (names:list (list string)) (rl:list (list nat)) : option (list string) :=
  match names with
  | [] => Some []
  | row::t =>
    match row, rl with
    | [], _ => flat_rows t (tl rl)
    | _::_, [] => None
    | _::_, r::rl' => option_map (fun rest => drop_at row r 0 ++ rest)%list (flat_rows t rl')
    end
  end.
Definition flatten_lists (names:list (list string)) (refl:option (list (list nat))) : flat_gen :=
  match refl with
  | None => FlatGAttrErr
  | Some [] => FlatGIndexErr
  | Some (r0::rl) => match flat_rows names (r0::rl) with
                     | Some l => FlatG (map Some (ref_names (List.length r0) ++ l))
                     | None => FlatGIndexErr
                     end
  end.
Definition flatten_gen (a:names_arg) (refl:option (list (list nat))) : flat_gen :=
  match a with
  | NTable [] => FlatGValueErr
  | NTable [row] => FlatG row
  | NTable rows => flatten_lists (map not_nan rows) refl
  | NLists l => flatten_lists l refl
  | NList [] => flatten_lists [] refl
  | NList l => FlatG (map Some l)
  | NArray l => FlatG (map Some l)
  end.

(* ---- printers used by the harness (evaluation at Qc) ---- *)
Local Open Scope string_scope.
Definition show_merged (m:merged Qc) : string :=
  showRow (m_fn m) ++ "|" ++ showRow (m_fn_cov2 m) ++ "|" ++ showRow (m_xi m) ++ "|" ++ showRow (m_xi_cov2 m) ++ "|" ++ showCMat (m_phi m).
(* the whole result: names in dictionary order, statistics of every group, the rows [lo, lo+cnt) of every merged shape *)
Definition show_class (lo cnt:nat) (r:class_res Qc) : string :=
  match r with
  | ClassInitErr => "InitValueError"
  | ClassRes PoserValueErr => "ValueError"
  | ClassRes PoserIndexErr => "IndexError"
  | ClassRes (PoserOk l) =>
      "ok:" ++ join "#" (map (fun nm_m : string * merged Qc =>
                                fst nm_m ++ "=" ++ show_merged {| m_fn := m_fn (snd nm_m); m_fn_cov2 := m_fn_cov2 (snd nm_m);
                                                                   m_xi := m_xi (snd nm_m); m_xi_cov2 := m_xi_cov2 (snd nm_m);
                                                                   m_phi := firstn cnt (skipn lo (m_phi (snd nm_m))) |}) l)
  end.
(* the same with every entry of the merged shapes printed as floor(x * 2^100) (a bounded number of digits whatever the size of
   the exact numerator and denominator); the harness divides by 2^100 and compares at relative 1e-9 as everywhere *)
Definition showFix (x:Qc) : string := showZ (Qfloor (Qmult (this x) (inject_Z (2 ^ 100)))).
Definition showFixC (z:Qc*Qc) : string := showFix (fst z) ++ "," ++ showFix (snd z).
Definition show_class_fix (lo cnt:nat) (r:class_res Qc) : string :=
  match r with
  | ClassInitErr => "InitValueError"
  | ClassRes PoserValueErr => "ValueError"
  | ClassRes PoserIndexErr => "IndexError"
  | ClassRes (PoserOk l) =>
      "fix:" ++ join "#" (map (fun nm_m : string * merged Qc =>
                                fst nm_m ++ "=" ++ showRow (m_fn (snd nm_m)) ++ "|" ++ showRow (m_fn_cov2 (snd nm_m)) ++ "|" ++
                                showRow (m_xi (snd nm_m)) ++ "|" ++ showRow (m_xi_cov2 (snd nm_m)) ++ "|" ++
                                showL (showL showFixC " ") ";" (firstn cnt (skipn lo (m_phi (snd nm_m))))) l)
  end.
Definition show_flat (r:flat_gen) : string :=
  match r with
  | FlatG l => "ok:" ++ join "," (map (fun o : option string => match o with Some x => x | None => "nan" end) l)
  | FlatGAttrErr => "AttributeError"
  | FlatGValueErr => "ValueError"
  | FlatGIndexErr => "IndexError"
  end.
