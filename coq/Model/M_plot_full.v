(* C20 - executable model of the WHOLE diagrams of pyoma2/functions/plot.py and of the classes' plot methods
   (extends Model/M_plot.v, which has the marker and curve cores).  Definitions only.

   New here
     - the error-bar branch of stab_plot (Fn_cov given):
         xerr  = abs(Fn_cov * Fn)                      (nan where either factor is nan)
         xerr1 = np.where(xerr <= 0.5, xerr, nan)      "gray" bars ; xerr2 = np.where(xerr > 0.5, 0.5, nan)   "red" bars
         ax.errorbar(x, y, xerr=xerr1.flatten("F")) ; ax.errorbar(x, y, xerr=xerr2.flatten("F")) ; the same two calls on
         (x1, y1) when hide_poles is off.   A bar with a nan centre or a nan width is not drawn.
     - the axis limits: ax.set_xlim(freqlim) when freqlim is given (all three functions), ax.set_ylim(ordmin, ordmax + 1)
       in the hide_poles = False branch of stab_plot; None = left to Matplotlib.
     - CMIF_plot with its frequency grid: curve k is drawn as (freq, db (S[k][k] / max S[0][0])); Matplotlib's plot raises
       ValueError when x and y differ in length.  db is the decibel map 10 log10, a function argument (DESIGN 3.4).
     - the plot methods of the algorithm classes (ssi.py, plscf.py, fdd.py): which fields of the result and which run
       settings they hand to the plot function, as functions POLYMORPHIC in the table types (they can only move tables, so
       evaluating them on field NAMES shows which field goes to which keyword).  *)
From Coq Require Import String List Arith ZArith QArith Qabs Bool.
From PyOMA.Base Require Import Show.
From PyOMA.Model Require Import M_plot.
Import ListNotations.

Definition qtab := list (list (option Q)).
Definition ztab := list (list Z).

(* ---------- error bars ---------- *)
Definition half : Q := 1 # 2.
(* abs(Fn_cov * Fn) cell by cell *)
Definition xerr_cell (c f:option Q) : option Q :=
  match c, f with Some cv, Some fv => Some (Qabs (cv * fv)) | _, _ => None end.
Definition xerr_tab (Cov Fn:qtab) : qtab := zipw (zipw xerr_cell) Cov Fn.
(* np.where(xerr <= 0.5, xerr, nan) ; np.where(xerr > 0.5, 0.5, nan) : comparisons with nan are False *)
Definition xerr_small (e:option Q) : option Q :=
  match e with Some v => if Qle_bool v half then Some v else None | None => None end.
Definition xerr_big (e:option Q) : option Q :=
  match e with Some v => if Qle_bool v half then None else Some half | None => None end.
(* half-width of the bar of a pole with relative deviation c and frequency f *)
Definition errw (c f:Q) : Q := if Qle_bool (Qabs (c * f)) half then Qabs (c * f) else half.

(* the drawn bars of one errorbar call: (centre x, y, half-width) *)
Definition bars {Y} (x:list (option Q)) (y:list Y) (xe:list (option Q)) : list (Q*Y*Q) :=
  flat_map (fun p => match p with (Some f, yv, Some e) => [(f, yv, e)] | _ => [] end) (combine (combine x y) xe).

Record stab_diag := {
  sd_stable   : list (Q*Z);          (* ax.plot(x, y, "go") *)
  sd_unstable : list (Q*Z);          (* ax.scatter(x1, y1) *)
  sd_bs_small : list (Q*Z*Q);        (* error bars on stable markers, width = the pole's own |cov * f| <= 0.5 *)
  sd_bs_big   : list (Q*Z*Q);        (* error bars on stable markers, width clipped to 0.5 *)
  sd_bu_small : list (Q*Z*Q);        (* the same on unstable markers *)
  sd_bu_big   : list (Q*Z*Q);
  sd_xlim     : option (Q*Q);
  sd_ylim     : option (Z*Z)
}.

(* stab_plot(Fn, Lab, step, ordmax, ordmin, freqlim, hide_poles, Fn_cov) *)
Definition stab_diagram (Fn:qtab) (Lab:ztab) (step ordmax ordmin:Z) (freqlim:option (Q*Q)) (hide:bool) (cov:option qtab)
  : stab_diag :=
  let Fs := where_lab 1 Lab Fn in
  let Fu := where_lab 0 Lab Fn in
  let x := flattenF Fs in
  let y := order_axis (length Fs) (length x) step in
  let x1 := flattenF Fu in
  let y1 := order_axis (length Fu) (length x) step in
  let xe := match cov with Some C => flattenF (xerr_tab C Fn) | None => [] end in
  let e1 := map xerr_small xe in
  let e2 := map xerr_big xe in
  {| sd_stable := pts x y;
     sd_unstable := if hide then [] else pts x1 y1;
     sd_bs_small := bars x y e1;
     sd_bs_big := bars x y e2;
     sd_bu_small := if hide then [] else bars x1 y1 e1;
     sd_bu_big := if hide then [] else bars x1 y1 e2;
     sd_xlim := freqlim;
     sd_ylim := if hide then None else Some (ordmin, (ordmax + 1)%Z) |}.

Record clus_diag := {
  cd_stable   : list (Q*Q);
  cd_unstable : list (Q*Q);
  cd_xlim     : option (Q*Q)
}.
(* cluster_plot(Fn, Xi, Lab, ordmin, freqlim, hide_poles) : ordmin is accepted and not used *)
Definition cluster_diagram (Fn Xi:qtab) (Lab:ztab) (ordmin:Z) (freqlim:option (Q*Q)) (hide:bool) : clus_diag :=
  let m := cluster_markers Fn Xi Lab hide in
  {| cd_stable := fst m; cd_unstable := snd m; cd_xlim := freqlim |}.

(* ---------- CMIF_plot with grid and limits ---------- *)
Record cmif_diag (Y:Type) := {
  md_curves : list (list (Q*Y));     (* one Line2D per curve: its (x, y) points *)
  md_xlim   : option (Q*Q)
}.
Arguments md_curves {Y} _. Arguments md_xlim {Y} _.
Definition cmif_diagram {Y} (db:Q->Y) (S:list (list (list Q))) (freq:list Q) (freqlim:option (Q*Q)) (nSv:option Z)
  : pres (cmif_diag Y) :=
  match cmif_curves S nSv with
  | PErr e => PErr e
  | POk cs =>
      if forallb (fun c => Nat.eqb (length c) (length freq)) cs
      then POk {| md_curves := map (fun c => combine freq (map db c)) cs; md_xlim := freqlim |}
      else PErr PValueErr                                     (* x and y must have same first dimension *)
  end.

(* ---------- the classes' plot methods ---------- *)
Inductive alg_class :=
  | SSIdat | SSIcov | SSIdat_MS | SSIcov_MS | pLSCF | pLSCF_MS | FDD | EFDD | FSDD | FDD_MS | EFDD_MS.
Definition is_ssi (c:alg_class) : bool :=
  match c with SSIdat | SSIcov | SSIdat_MS | SSIcov_MS => true | _ => false end.
Definition is_plscf (c:alg_class) : bool := match c with pLSCF | pLSCF_MS => true | _ => false end.
Definition is_fdd (c:alg_class) : bool :=
  match c with FDD | EFDD | FSDD | FDD_MS | EFDD_MS => true | _ => false end.

(* result fields read by the plot methods (T: float tables, L: label table, V: singular-value array, F: frequency vector) *)
Record pole_res (T L:Type) := { pr_Fn : T; pr_Xi : T; pr_Lab : L; pr_cov : option T }.   (* Fn_poles Xi_poles Lab Fn_poles_cov *)
Record spec_res (V F:Type) := { sr_S : V; sr_freq : F }.                                   (* S_val freq *)
Arguments pr_Fn {T L} _. Arguments pr_Xi {T L} _. Arguments pr_Lab {T L} _. Arguments pr_cov {T L} _.
Arguments sr_S {V F} _. Arguments sr_freq {V F} _.
(* run settings read by the plot methods (pLSCF has no step) *)
Record run_set := { rs_step : Z; rs_ordmin : Z; rs_ordmax : Z }.

(* keyword arguments received by the plot functions *)
Record stab_args (T L:Type) := {
  sa_Fn : T; sa_Lab : L; sa_step : Z; sa_ordmax : Z; sa_ordmin : Z;
  sa_freqlim : option (Q*Q); sa_hide : bool; sa_cov : option T }.
Record clus_args (T L:Type) := {
  ca_Fn : T; ca_Xi : T; ca_Lab : L; ca_ordmin : Z; ca_freqlim : option (Q*Q); ca_hide : bool }.
Record cmif_args (V F:Type) := { ma_S : V; ma_freq : F; ma_freqlim : option (Q*Q); ma_nSv : option Z }.
Arguments sa_Fn {T L} _. Arguments sa_Lab {T L} _. Arguments sa_step {T L} _. Arguments sa_ordmax {T L} _.
Arguments sa_ordmin {T L} _. Arguments sa_freqlim {T L} _. Arguments sa_hide {T L} _. Arguments sa_cov {T L} _.
Arguments ca_Fn {T L} _. Arguments ca_Xi {T L} _. Arguments ca_Lab {T L} _. Arguments ca_ordmin {T L} _.
Arguments ca_freqlim {T L} _. Arguments ca_hide {T L} _.
Arguments ma_S {V F} _. Arguments ma_freq {V F} _. Arguments ma_freqlim {V F} _. Arguments ma_nSv {V F} _.

(* outcome of calling a plot method: the plot function is reached with these arguments, or an exception is raised
   before (no result yet), or the class has no such method *)
Inductive call_res (A:Type) := Called (a:A) | NotRun | NoMethod.
Arguments Called {A} a. Arguments NotRun {A}. Arguments NoMethod {A}.

(* SSIdat.plot_stab (inherited by SSIcov and both _MS classes) passes its own step and the deviation table;
   pLSCF.plot_stab (inherited by pLSCF_MS) passes the literal step 1 and no deviation table *)
Definition class_plot_stab {T L} (c:alg_class) (res:option (pole_res T L)) (rs:run_set) (freqlim:option (Q*Q)) (hide:bool)
  : call_res (stab_args T L) :=
  if is_ssi c then
    match res with
    | None => NotRun
    | Some r => Called {| sa_Fn := pr_Fn r; sa_Lab := pr_Lab r; sa_step := rs_step rs; sa_ordmax := rs_ordmax rs;
                          sa_ordmin := rs_ordmin rs; sa_freqlim := freqlim; sa_hide := hide; sa_cov := pr_cov r |}
    end
  else if is_plscf c then
    match res with
    | None => NotRun
    | Some r => Called {| sa_Fn := pr_Fn r; sa_Lab := pr_Lab r; sa_step := 1; sa_ordmax := rs_ordmax rs;
                          sa_ordmin := rs_ordmin rs; sa_freqlim := freqlim; sa_hide := hide; sa_cov := None |}
    end
  else NoMethod.
Definition class_plot_cluster {T L} (c:alg_class) (res:option (pole_res T L)) (rs:run_set) (freqlim:option (Q*Q)) (hide:bool)
  : call_res (clus_args T L) :=
  if (is_ssi c || is_plscf c)%bool then
    match res with
    | None => NotRun
    | Some r => Called {| ca_Fn := pr_Fn r; ca_Xi := pr_Xi r; ca_Lab := pr_Lab r; ca_ordmin := rs_ordmin rs;
                          ca_freqlim := freqlim; ca_hide := hide |}
    end
  else NoMethod.
Definition class_plot_cmif {V F} (c:alg_class) (res:option (spec_res V F)) (freqlim:option (Q*Q)) (nSv:option Z)
  : call_res (cmif_args V F) :=
  if is_fdd c then
    match res with
    | None => NotRun
    | Some r => Called {| ma_S := sr_S r; ma_freq := sr_freq r; ma_freqlim := freqlim; ma_nSv := nSv |}
    end
  else NoMethod.

(* the step of the order axis a class draws with *)
Definition class_step (c:alg_class) (rs:run_set) : Z := if is_ssi c then rs_step rs else 1%Z.

(* the diagram a plot method returns = the plot function applied to the forwarded arguments *)
Definition map_call {A B} (f:A->B) (r:call_res A) : call_res B :=
  match r with Called a => Called (f a) | NotRun => NotRun | NoMethod => NoMethod end.
Definition stab_of_args (a:stab_args qtab ztab) : stab_diag :=
  stab_diagram (sa_Fn a) (sa_Lab a) (sa_step a) (sa_ordmax a) (sa_ordmin a) (sa_freqlim a) (sa_hide a) (sa_cov a).
Definition cluster_of_args (a:clus_args qtab ztab) : clus_diag :=
  cluster_diagram (ca_Fn a) (ca_Xi a) (ca_Lab a) (ca_ordmin a) (ca_freqlim a) (ca_hide a).
Definition cmif_of_args {Y} (db:Q->Y) (a:cmif_args (list (list (list Q))) (list Q)) : pres (cmif_diag Y) :=
  cmif_diagram db (ma_S a) (ma_freq a) (ma_freqlim a) (ma_nSv a).
Definition class_stab_diagram c res rs freqlim hide : call_res stab_diag :=
  map_call stab_of_args (class_plot_stab c res rs freqlim hide).
Definition class_cluster_diagram c res rs freqlim hide : call_res clus_diag :=
  map_call cluster_of_args (class_plot_cluster c res rs freqlim hide).
Definition class_cmif_diagram {Y} (db:Q->Y) c res freqlim nSv : call_res (pres (cmif_diag Y)) :=
  map_call (cmif_of_args db) (class_plot_cmif c res freqlim nSv).

(* ---------- specification vocabulary (Props; nothing is computed with them) ---------- *)
(* cell c carries a bar b = (frequency of c, column of c times step, errw of c's own deviation and frequency) *)
Definition bar_at (Fn Cov:qtab) (step:Z) (c:nat*nat) (b:Q*Z*Q) : Prop :=
  get2 Fn (fst c) (snd c) = Some (Some (fst (fst b))) /\ snd (fst b) = (Z.of_nat (snd c) * step)%Z /\
  exists cv, get2 Cov (fst c) (snd c) = Some (Some cv) /\ snd b = errw cv (fst (fst b)).
(* cell (i,o) is a retained pole with label l whose deviation is finite, |cov * f| <= 1/2 (big = false) or > 1/2 (big = true) *)
Definition bar_cell (Fn Cov:qtab) (Lab:ztab) (l:Z) (big:bool) (rows cols i o:nat) : Prop :=
  pole_with_label Fn Lab l rows cols i o /\
  exists cv f, get2 Cov i o = Some (Some cv) /\ get2 Fn i o = Some (Some f) /\ Qle_bool (Qabs (cv * f)) half = negb big.

(* ---------- printers ---------- *)
Local Open Scope string_scope.
Definition show_bar (b:Q*Z*Q) : string := showQ (fst (fst b)) ++ "," ++ showZ (snd (fst b)) ++ "," ++ showQ (Qred (snd b)).
Definition show_bars (l:list (Q*Z*Q)) : string := showL show_bar " " l.
Definition show_lim (l:option (Q*Q)) : string :=
  match l with None => "auto" | Some (a, b) => showQ a ++ "," ++ showQ b end.
Definition show_zlim (l:option (Z*Z)) : string :=
  match l with None => "auto" | Some (a, b) => showZ a ++ "," ++ showZ b end.
(* stable|unstable # small-stable|big-stable|small-unstable|big-unstable # xlim # ylim *)
Definition show_stab_diag (d:stab_diag) : string :=
  show_fz (sd_stable d) ++ "|" ++ show_fz (sd_unstable d) ++ "#" ++
  show_bars (sd_bs_small d) ++ "|" ++ show_bars (sd_bs_big d) ++ "|" ++ show_bars (sd_bu_small d) ++ "|" ++ show_bars (sd_bu_big d)
  ++ "#" ++ show_lim (sd_xlim d) ++ "#" ++ show_zlim (sd_ylim d).
(* what the whole stabilisation diagram has beyond its markers: bars ! x-limits ! y-limits *)
Definition show_stab_extras (d:stab_diag) : string :=
  show_bars (sd_bs_small d) ++ "|" ++ show_bars (sd_bs_big d) ++ "|" ++ show_bars (sd_bu_small d) ++ "|" ++ show_bars (sd_bu_big d)
  ++ "!" ++ show_lim (sd_xlim d) ++ "!" ++ show_zlim (sd_ylim d).
Definition show_clus_diag (d:clus_diag) : string :=
  show_ff (cd_stable d) ++ "|" ++ show_ff (cd_unstable d) ++ "#" ++ show_lim (cd_xlim d).
Definition show_cmif_diag (r:pres (cmif_diag Q)) : string :=
  match r with
  | POk d => "O " ++ showL (fun c => showL showQ " " (map fst c) ++ "@" ++ showL showQ " " (map snd c)) ";" (md_curves d)
             ++ "#" ++ show_lim (md_xlim d)
  | PErr e => "E " ++ show_perr e
  end.
Definition show_call {A} (sh:A->string) (r:call_res A) : string :=
  match r with Called a => "C " ++ sh a | NotRun => "raises" | NoMethod => "nomethod" end.
Definition show_opt {A} (sh:A->string) (o:option A) : string := match o with Some a => sh a | None => "None" end.
Definition idS (s:string) : string := s.
(* the forwarded keywords, with tables shown by NAME *)
Definition show_stab_args (a:stab_args string string) : string :=
  "Fn=" ++ sa_Fn a ++ ";Lab=" ++ sa_Lab a ++ ";step=" ++ showZ (sa_step a) ++ ";ordmax=" ++ showZ (sa_ordmax a) ++
  ";ordmin=" ++ showZ (sa_ordmin a) ++ ";freqlim=" ++ show_lim (sa_freqlim a) ++ ";hide_poles=" ++ showB (sa_hide a) ++
  ";Fn_cov=" ++ show_opt idS (sa_cov a).
Definition show_clus_args (a:clus_args string string) : string :=
  "Fn=" ++ ca_Fn a ++ ";Xi=" ++ ca_Xi a ++ ";Lab=" ++ ca_Lab a ++ ";ordmin=" ++ showZ (ca_ordmin a) ++
  ";freqlim=" ++ show_lim (ca_freqlim a) ++ ";hide_poles=" ++ showB (ca_hide a).
Definition show_cmif_args (a:cmif_args string string) : string :=
  "S_val=" ++ ma_S a ++ ";freq=" ++ ma_freq a ++ ";freqlim=" ++ show_lim (ma_freqlim a) ++ ";nSv=" ++
  match ma_nSv a with None => "all" | Some z => showZ z end.
