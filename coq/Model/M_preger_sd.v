(* C04 - model of pyoma2.functions.fdd.SD_PreGER (per frequency line) and of its call structure.
   Definitions only.

   Code (fdd.py:68-118).  For every setup ii:  Gyy[ii] = hstack(SD_est(vstack(ref,mov), ref), SD_est(vstack(ref,mov), mov));
   only  Grr(ii) = Gyy[ii][:n_ref,:n_ref]  (reference rows x reference columns) and
         Gmr(ii) = Gyy[ii][n_ref:,:n_ref]  (roving rows x reference columns) are used afterwards:
     Gy_refref      = 1/n_setup * sum_ii Grr(ii)
     Sy[:, :, f]    = vstack(Gy_refref, Gmr(0) . inv(Grr(0)) . Gy_refref, Gmr(1) . inv(Grr(1)) . Gy_refref, ...)
   np.linalg.inv is an oracle: the function-level model takes the matrices X k it returned; the theorems assume the
   two-sided contract Grr(k).X k = I, X k.Grr(k) = I.  The executable list-level model computes X k exactly by the
   adjugate formula over the carrier (complex pairs over Qc in the check) and certifies that contract on every case. *)
From Coq Require Import List Arith Bool ZArith QArith Qcanon String.
From PyOMA.Base Require Import Carrier FMat Cplx Show.
Import ListNotations.

(* ---- stacking of blocks: block k has nm k rows, B k a is row a of block k ---- *)
Fixpoint off (nm:nat->nat) (k:nat) : nat :=
  match k with O => 0%nat | S k' => (off nm k' + nm k')%nat end.

Fixpoint vpick {T:Type} (d:T) (n:nat) (nm:nat->nat) (B:nat->nat->T) (r:nat) {struct n} : T :=
  match n with
  | O => d
  | S n' => if (r <? nm 0%nat)%nat then B 0%nat r
            else vpick d n' (fun k => nm (S k)) (fun k => B (S k)) (r - nm 0%nat)%nat
  end.

Fixpoint del {T:Type} (i:nat) (l:list T) : list T :=
  match l, i with
  | [], _ => []
  | _ :: t, O => t
  | x :: t, S i' => x :: del i' t
  end.

Inductive res (T:Type) := Ok (v:T) | ErrLinAlg.
Arguments Ok {T} v. Arguments ErrLinAlg {T}.

Section PreGER.
Variable R:Type. Variable K:Ops R.
Local Open Scope K_scope.
Notation "0" := (o0 K) : K_scope. Notation "1" := (o1 K) : K_scope.
Infix "+" := (oadd K) : K_scope. Infix "*" := (omul K) : K_scope. Infix "-" := (osub K) : K_scope.

(* what SD_PreGER keeps of one setup at one frequency line *)
Record setupG := mkG { nmov : nat; Grr : fmat R; Gmr : fmat R }.

Definition ofnat (n:nat) : R := sumn K n (fun _ => 1).

(* Gy_refref = 1/n_setup * np.sum([...], axis=0) *)
Definition gsum (n:nat) (Gs:nat->setupG) : fmat R := fun a b => sumn K n (fun i => Grr (Gs i) a b).
Definition gmean (invn:R) (n:nat) (Gs:nat->setupG) : fmat R := fun a b => invn * gsum n Gs a b.

Definition vstk (n:nat) (nm:nat->nat) (B:nat->fmat R) : fmat R :=
  fun r c => vpick 0 n nm (fun k a => B k a c) r.

(* reference block M on top, then for k = 0..n-1 the block  T k . M  (T k = transmissibility of setup k) *)
Definition merge_with (M:fmat R) (nr n:nat) (nm:nat->nat) (T:nat->fmat R) : fmat R :=
  fun r c => if (r <? nr)%nat then M r c else vstk n nm (fun k => fmul K nr (T k) M) (r - nr)%nat c.

(* np.dot(Gmr, np.linalg.inv(Grr)) *)
Definition transm (nr:nat) (Gs:nat->setupG) (X:nat->fmat R) (k:nat) : fmat R := fmul K nr (Gmr (Gs k)) (X k).

Definition merge (invn:R) (nr n:nat) (Gs:nat->setupG) (X:nat->fmat R) : fmat R :=
  merge_with (gmean invn n Gs) nr n (fun k => nmov (Gs k)) (transm nr Gs X).

Definition merge_rows (nr n:nat) (Gs:nat->setupG) : nat := (nr + off (fun k => nmov (Gs k)) n)%nat.

(* the oracle contract of np.linalg.inv *)
Definition inv_contract (nr:nat) (G X:fmat R) : Prop :=
  feq nr nr (fmul K nr G X) (fid K) /\ feq nr nr (fmul K nr X G) (fid K).

(* one setup with all its channels multiplied by a constant whose square is g2 *)
Definition scaleG (g2:R) (s:setupG) : setupG := mkG (nmov s) (fscal K g2 (Grr s)) (fscal K g2 (Gmr s)).

(* ---- call structure: sd_preger (nxseg,pov,method) setups := merge (map (sd_est (nxseg,pov,method)) setups) ---- *)
Section Calls.
Variable Rec : Type.                      (* the time record of one channel *)
Variable P : Type.                        (* run parameters (nxseg, pov, method) *)
Variable csd : P -> Rec -> Rec -> nat -> R.   (* oracle (C13): cross spectral estimate of a channel against a reference at line f *)

Record setupD := mkD { d_nmov : nat; d_ref : nat -> Rec; d_mov : nat -> Rec }.

(* SD_est(Yall, Yref, dt, nxseg, method, pov)[:, :, f] : entry (a,b) pairs channel a of Yall with channel b of Yref *)
Definition sd_est (p:P) (Yall Yref:nat->Rec) (f:nat) : fmat R := fun a b => csd p (Yall a) (Yref b) f.

Definition setup_sd (p:P) (f:nat) (d:setupD) : setupG :=
  mkG (d_nmov d) (sd_est p (d_ref d) (d_ref d) f) (sd_est p (d_mov d) (d_ref d) f).

Definition sd_preger (invn:R) (nr n:nat) (p:P) (Y:nat->setupD) (X:nat->nat->fmat R) (f:nat) : fmat R :=
  merge invn nr n (fun k => setup_sd p f (Y k)) (X f).

(* all sensors of the measurement in the order of the property: references, then roving sensors in setup order *)
Definition all_sensors (nr n:nat) (ref:nat->Rec) (Y:nat->setupD) : nat -> Rec :=
  fun r => if (r <? nr)%nat then ref r
           else vpick (ref 0%nat) n (fun k => d_nmov (Y k)) (fun k a => d_mov (Y k) a) (r - nr)%nat.

Definition scaleD (scal:Rec->Rec) (d:setupD) : setupD :=
  mkD (d_nmov d) (fun a => scal (d_ref d a)) (fun a => scal (d_mov d a)).
End Calls.

(* ---- executable list-level model ---- *)
Variable eqbR : R -> R -> bool.

Definition fm_of (A:list (list R)) : fmat R := fun i j => ent K A i j.
Definition minor (i j:nat) (A:list (list R)) : list (list R) := map (del j) (del i A).
Definition sgn (k:nat) : R := if Nat.even k then 1 else oopp K 1.
Fixpoint det (n:nat) (A:list (list R)) : R :=
  match n with
  | O => 1
  | S n' => sumn K (S n') (fun j => sgn j * ent K A 0%nat j * det n' (minor 0%nat j A))
  end.
Definition adj (n:nat) (A:list (list R)) : list (list R) :=
  tab2 n n (fun i j => sgn (i + j) * det (pred n) (minor j i A)).
Definition inv_adj (n:nat) (A:list (list R)) : list (list R) :=
  let Aj := adj n A in let di := oinv K (det n A) in tab2 n n (fun i j => di * ent K Aj i j).

Definition feqb (m n:nat) (A B:fmat R) : bool :=
  forallb (fun i => forallb (fun j => eqbR (A i j) (B i j)) (seq 0 n)) (seq 0 m).
Definition inv_cert (nr:nat) (A X:list (list R)) : bool :=
  feqb nr nr (fmul K nr (fm_of A) (fm_of X)) (fid K) && feqb nr nr (fmul K nr (fm_of X) (fm_of A)) (fid K).
(* G.A = d.I, A.G = d.I, d <> 0 : then (1/d).A meets the two-sided inverse contract (P_preger_sd.adj_contract) *)
Definition adj_cert (nr:nat) (G A:list (list R)) (d:R) : bool :=
  feqb nr nr (fmul K nr (fm_of G) (fm_of A)) (fscal K d (fid K)) &&
  feqb nr nr (fmul K nr (fm_of A) (fm_of G)) (fscal K d (fid K)) && negb (eqbR d 0).

Definition setupL := (list (list R) * list (list R))%type.     (* (Grr, Gmr) as row lists *)
Definition setup_of (s:setupL) : setupG := mkG (List.length (snd s)) (fm_of (fst s)) (fm_of (snd s)).
Definition nthS (L:list setupL) (k:nat) : setupL := nth k L ([], []).
Definition invs_l (nr:nat) (L:list setupL) : list (list (list R)) := map (fun s => inv_adj nr (fst s)) L.
Definition X_of (XL:list (list (list R))) : nat -> fmat R := fun k => fm_of (nth k XL []).

(* intermediate tables are materialised once (a function matrix would be re-evaluated at every access) *)
Definition merge_tab (nr:nat) (L:list setupL) (XL:list (list (list R))) : list (list R) :=
  let n := List.length L in
  let Gs := fun k => setup_of (nthS L k) in
  let Ml := tab2 nr nr (gmean (oinv K (ofnat n)) n Gs) in
  let TL := map (fun k => tab2 (nmov (Gs k)) nr (transm nr Gs (X_of XL) k)) (seq 0 n) in
  tab2 (merge_rows nr n Gs) nr
       (merge_with (fm_of Ml) nr n (fun k => nmov (Gs k)) (fun k => fm_of (nth k TL []))).

Definition merge_l (nr:nat) (L:list setupL) : res (list (list R)) :=
  if existsb (fun s => eqbR (det nr (fst s)) 0) L then ErrLinAlg     (* np.linalg.inv raises LinAlgError *)
  else Ok (merge_tab nr L (invs_l nr L)).

Definition cert_l (nr:nat) (L:list setupL) : bool :=
  forallb (fun s => inv_cert nr (fst s) (inv_adj nr (fst s))) L.

(* division-free evaluation (ring operations only): numerators and denominators of the merged rows.
   reference block = Msum / n ;  roving block k = (Gmr(k) . adj(Grr(k)) . Msum) / (det(Grr(k)) . n)
   (P_preger_sd.merge_ff_spec).  The check runs this on integer-scaled witnesses. *)
Definition ff_num (nr n:nat) (Gs:nat->setupG) (A:nat->fmat R) (k:nat) : fmat R :=
  fmul K nr (fmul K nr (Gmr (Gs k)) (A k)) (gsum n Gs).
Definition ff_merged_num (nr n:nat) (nm:nat->nat) (Msum:fmat R) (Nk:nat->fmat R) : fmat R :=
  fun r c => if (r <? nr)%nat then Msum r c else vstk n nm Nk (r - nr)%nat c.
Definition ff_merged_den (nr n:nat) (nm:nat->nat) (nn:R) (d:nat->R) : nat -> R :=
  fun r => if (r <? nr)%nat then nn else vpick 0 n nm (fun k _ => d k * nn) (r - nr)%nat.

Record ffres := mkFF { ff_numt : list (list R); ff_dent : list R; ff_dets : list R; ff_cert : bool }.
Definition ff_tab (docert:bool) (nr:nat) (L:list setupL) : ffres :=
  let n := List.length L in
  let Gs := fun k => setup_of (nthS L k) in
  let nm := fun k => nmov (Gs k) in
  let Ml := tab2 nr nr (gsum n Gs) in
  let AL := map (fun s => adj nr (fst s)) L in
  let dL := map (fun s => det nr (fst s)) L in
  let BL := map (fun k => tab2 (nm k) nr (fmul K nr (Gmr (Gs k)) (fm_of (nth k AL [])))) (seq 0 n) in
  let NL := map (fun k => tab2 (nm k) nr (fmul K nr (fm_of (nth k BL [])) (fm_of Ml))) (seq 0 n) in
  let rows := merge_rows nr n Gs in
  mkFF (tab2 rows nr (ff_merged_num nr n nm (fm_of Ml) (fun k => fm_of (nth k NL []))))
       (tab rows (ff_merged_den nr n nm (ofnat n) (fun k => nth k dL 0)))
       dL
       (if docert then forallb (fun k => adj_cert nr (fst (nthS L k)) (nth k AL []) (nth k dL 0)) (seq 0 n) else true).
End PreGER.

Arguments mkG {R} nmov Grr Gmr. Arguments nmov {R} s. Arguments Grr {R} s. Arguments Gmr {R} s.
Arguments ofnat {R} K n. Arguments gsum {R} K n Gs. Arguments gmean {R} K invn n Gs. Arguments vstk {R} K n nm B.
Arguments merge_with {R} K M nr n nm T. Arguments transm {R} K nr Gs X k.
Arguments merge {R} K invn nr n Gs X. Arguments merge_rows {R} nr n Gs.
Arguments inv_contract {R} K nr G X. Arguments scaleG {R} K g2 s.
Arguments mkD {Rec} d_nmov d_ref d_mov. Arguments d_nmov {Rec} s. Arguments d_ref {Rec} s. Arguments d_mov {Rec} s.
Arguments sd_est {R Rec P} csd p Yall Yref f. Arguments setup_sd {R Rec P} csd p f d.
Arguments sd_preger {R} K {Rec P} csd invn nr n p Y X f.
Arguments all_sensors {Rec} nr n ref Y. Arguments scaleD {Rec} scal d.
Arguments fm_of {R} K A. Arguments minor {R} i j A. Arguments sgn {R} K k. Arguments det {R} K n A.
Arguments adj {R} K n A. Arguments inv_adj {R} K n A. Arguments adj_cert {R} K eqbR nr G A d.
Arguments ff_num {R} K nr n Gs A k. Arguments ff_merged_num {R} K nr n nm Msum Nk. Arguments ff_merged_den {R} K nr n nm nn d.
Arguments ff_numt {R} f. Arguments ff_dent {R} f. Arguments ff_dets {R} f. Arguments ff_cert {R} f. Arguments ff_tab {R} K eqbR docert nr L. Arguments feqb {R} eqbR m n A B. Arguments inv_cert {R} K eqbR nr A X.
Arguments setup_of {R} K s. Arguments nthS {R} L k. Arguments invs_l {R} K nr L. Arguments X_of {R} K XL.
Arguments merge_tab {R} K nr L XL. Arguments merge_l {R} K eqbR nr L. Arguments cert_l {R} K eqbR nr L.

(* ---- instance used by the correspondence check: complex pairs over Qc ---- *)
Definition ceqb (x y:Qc*Qc) : bool := Qc_eq_bool (fst x) (fst y) && Qc_eq_bool (snd x) (snd y).
Open Scope string_scope.
Definition CQ := (Qc*Qc)%type.
(* exact closeness test with one multiplication per entry:  x = num - den.s ,
   |re x| + |im x| <= (|re den| + |im den|) . t   implies   |num/den - s| <= sqrt 2 . t ;  the check passes t = tau / sqrt 2
   rounded down, so a passing entry is within tau of the model and a failing one is farther than tau / 2. *)
Definition qabs (x:Qc) : Qc := if Qle_bool 0 (this x) then x else Qcopp x.
Definition n1 (z:CQ) : Qc := Qcplus (qabs (fst z)) (qabs (snd z)).
Definition close1 (bound:Qc) (num den s:CQ) : bool :=
  Qle_bool (this (n1 (csub QcOps num (cmul QcOps den s)))) (this bound).

(* comparison of the implementation's merged matrix S with the model, inside Coq:
   "<certificates>|<shape equal>|<r,c of every entry not close to the model>"  or "E" (singular reference block).
   docert = true also evaluates the adjugate certificates  G.A = A.G = det.I  of every setup. *)
Definition check_line (docert:bool) (nr:nat) (L:list (list (list CQ) * list (list CQ))) (S:list (list CQ)) (t:Qc) : string :=
  let r := ff_tab QcC ceqb docert nr L in
  if existsb (fun d => ceqb d (c0 QcOps)) (ff_dets r) then "E"
  else
    let rows := List.length (ff_numt r) in
    let bad := flat_map (fun i =>
                 let den := lget QcC (ff_dent r) i in
                 let bound := Qcmult (n1 den) t in
                 flat_map (fun j =>
                   if close1 bound (ent QcC (ff_numt r) i j) den (ent QcC S i j) then []
                   else [showN i ++ "," ++ showN j]) (seq 0 nr)) (seq 0 rows) in
    showB (ff_cert r) ++ "|" ++ showB (Nat.eqb (List.length S) rows && forallb (fun row => Nat.eqb (List.length row) nr) S)
      ++ "|" ++ String.concat " " bad.
(* full output (diagnostics of a failing line): "<certificates>|<numerators>|<row denominators>" *)
Definition run_line (nr:nat) (L:list (list (list CQ) * list (list CQ))) : string :=
  let r := ff_tab QcC ceqb true nr L in
  if existsb (fun d => ceqb d (c0 QcOps)) (ff_dets r) then "E"
  else showB (ff_cert r) ++ "|" ++ showCMat (ff_numt r) ++ "|" ++ showCRow (ff_dent r).
(* the same line through the adjugate inverse and the division inside Coq (small inputs, Examples) *)
Definition run_line_inv (nr:nat) (L:list (list (list CQ) * list (list CQ))) : string :=
  match merge_l QcC ceqb nr L with
  | Ok M => showB (cert_l QcC ceqb nr L) ++ "|" ++ showCMat M
  | ErrLinAlg => "E"
  end.
