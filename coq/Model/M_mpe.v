(* C11 - model of pyoma2.functions.ssi.SSI_mpe and pyoma2.functions.plscf.pLSCF_mpe
   (order = int / list of int / "find_min").  Definitions only.
   Tables are indexed [row][order-column]; NaN = None; a Python exception = Err.  The tables other than the frequency
   table (damping, shapes, covariances) are only MOVED by the code: they are one opaque payload table [Pay] here, so
   "frequency, damping, shape and covariances of ONE pole" = "the frequency and the payload of ONE cell". *)
From Coq Require Import List Arith ZArith QArith Qabs Bool.
From PyOMA.Base Require Import Argmin.
Import ListNotations.
Open Scope Q_scope.

Inductive err := ValueErr | IndexErr.
Inductive res (A:Type) := Ok (a:A) | Err (e:err).
Arguments Ok {A} a. Arguments Err {A} e.

Definition tab := list (list (option Q)).

(* T[:, c] ; None = IndexError (column out of range) *)
Fixpoint getcol {A} (T:list (list A)) (c:nat) : option (list A) :=
  match T with
  | [] => Some []
  | r::t => match nth_error r c, getcol t c with
            | Some x, Some l => Some (x::l)
            | _, _ => None
            end
  end.

Definition cell {A} (T:list (list A)) (r c:nat) : option A :=
  match nth_error T r with Some row => nth_error row c | None => None end.

(* np.isclose(a, b, rtol=rtol)  ==  |a - b| <= atol + rtol * |b| , atol = 1e-8 *)
Definition atol : Q := 1 # 100000000.
Definition isclose (rtol a b:Q) : bool := Qle_bool (Qabs (a - b)) (atol + rtol * Qabs b).

(* np.abs(col - f), NaN stays NaN *)
Definition dists (col:list (option Q)) (f:Q) : list (option Q) :=
  map (fun o => match o with Some p => Some (Qabs (p - f)) | None => None end) col.

(* ---------------------------------------------------------------------------------------------------------
   explicit order.  One request = (frequency, Some column) ; column None = order list too short (IndexError). *)
Definition pick1 (Fn:tab) (rtol:Q) (f:Q) (oc:option nat) : res (option (nat*nat)) :=
  match oc with
  | None => Err IndexErr
  | Some c =>
    match getcol Fn c with
    | None => Err IndexErr
    | Some col =>
      match nanargmin (dists col f) with
      | None => Err ValueErr                       (* np.nanargmin: All-NaN slice encountered *)
      | Some (r,_) =>
        match nth_error col r with
        | Some (Some p) => if isclose rtol p f then Ok (Some (r,c)) else Ok None
        | _ => Err ValueErr                        (* unreachable: P_mpe.pick1_spec *)
        end
      end
    end
  end.

(* requests are processed in sequence, the first exception wins *)
Fixpoint pick_all (Fn:tab) (rtol:Q) (reqs:list (Q * option nat)) : res (list (option (nat*nat))) :=
  match reqs with
  | [] => Ok []
  | (f,oc)::t =>
    match pick1 Fn rtol f oc with
    | Err e => Err e
    | Ok s => match pick_all Fn rtol t with Err e => Err e | Ok l => Ok (s::l) end
    end
  end.

Fixpoint somes {A} (l:list (option A)) : list A :=
  match l with [] => [] | Some x :: t => x :: somes t | None :: t => somes t end.

(* the returned arrays: for every selected cell the frequency of that cell and the payload of that SAME cell *)
Fixpoint gather {P} (Fn:tab) (Pay:list (list P)) (cells:list (nat*nat)) : res (list (Q*P)) :=
  match cells with
  | [] => Ok []
  | (r,c)::t =>
    match cell Fn r c, cell Pay r c with
    | Some (Some v), Some p => match gather Fn Pay t with Err e => Err e | Ok l => Ok ((v,p)::l) end
    | _, _ => Err IndexErr
    end
  end.

Inductive eorder := OInt (o:nat) | OList (os:list nat).
Inductive order := Explicit (eo:eorder) | FindMin.
Inductive oout := OutInt (o:nat) | OutList (l:list nat) | OutNone.

Fixpoint zip_orders (freq:list Q) (os:list nat) : list (Q * option nat) :=
  match freq with
  | [] => []
  | f::t => match os with [] => (f,None) :: zip_orders t [] | o::os' => (f,Some o) :: zip_orders t os' end
  end.

Definition requests (freq:list Q) (eo:eorder) : list (Q * option nat) :=
  match eo with
  | OInt o => map (fun f => (f, Some o)) freq
  | OList os => zip_orders freq os
  end.

Definition order_out_explicit (eo:eorder) : oout := match eo with OInt o => OutInt o | OList os => OutList os end.

Definition mpe_explicit {P} (Fn:tab) (Pay:list (list P)) (freq:list Q) (eo:eorder) (rtol:Q) : res (list (Q*P) * oout) :=
  match pick_all Fn rtol (requests freq eo) with
  | Err e => Err e
  | Ok sels => match gather Fn Pay (somes sels) with
               | Err e => Err e
               | Ok vals => Ok (vals, order_out_explicit eo)
               end
  end.

(* ---------------------------------------------------------------------------------------------------------
   order = "find_min", generic in the band test [band f p] ("pole p lies in the search band of request f") and in
   the label value [lv] that marks a stable pole. *)
Fixpoint map2 {A B C} (f:A->B->C) (l1:list A) (l2:list B) : list C :=
  match l1, l2 with a::t1, b::t2 => f a b :: map2 f t1 t2 | _, _ => [] end.

(* np.where(Lab == lv, Fn_pol, nan) *)
Definition lab_tab (lv:Z) (Lab:list (list Z)) (Fn:tab) : tab :=
  map2 (map2 (fun (l:Z) (p:option Q) => if Z.eqb l lv then p else None)) Lab Fn.

(* SSI_mpe: limits (f - rtol, f + rtol), both ends included *)
Definition inb (rtol f p:Q) : bool := Qle_bool (f - rtol) p && Qle_bool p (f + rtol).
(* pLSCF_mpe: limits (f - deltaf, f + deltaf), both ends excluded *)
Definition inbs (deltaf f p:Q) : bool := Qlt_bool (f - deltaf) p && Qlt_bool p (f + deltaf).

Fixpoint sumQ (l:list Q) : Q := match l with [] => 0 | x::t => x + sumQ t end.

(* one cell of aggregated_poles: sum over the requests of (pole if inside that band else 0); 0 -> NaN.
   A NaN pole fails every comparison, contributes 0 everywhere, hence NaN. *)
Definition aggv (band:Q->Q->bool) (freq:list Q) (p:Q) : Q := sumQ (map (fun f => if band f p then p else 0) freq).
Definition agg_cell (band:Q->Q->bool) (freq:list Q) (o:option Q) : option Q :=
  match o with
  | None => None
  | Some p => let s := aggv band freq p in if Qeq_bool s 0 then None else Some s
  end.
Definition agg_col (band:Q->Q->bool) (freq:list Q) (scol:list (option Q)) : list (option Q) := map (agg_cell band freq) scol.
Definition agg_tab (band:Q->Q->bool) (freq:list Q) (S:tab) : tab := map (agg_col band freq) S.

(* np.unique: sorted ascending, numerically distinct *)
Fixpoint insert_u (x:Q) (l:list Q) : list Q :=
  match l with
  | [] => [x]
  | y::t => match x ?= y with Lt => x::l | Eq => l | Gt => y :: insert_u x t end
  end.
Definition uniq_sorted (l:list Q) : list Q := fold_right insert_u [] l.

(* rows selected for the distinct values: np.nanargmin(|column - u|) *)
Fixpoint rows_of (acol:list (option Q)) (us:list Q) : res (list (Q*nat)) :=
  match us with
  | [] => Ok []
  | u::t => match nanargmin (dists acol u) with
            | None => Err ValueErr
            | Some (r,_) => match rows_of acol t with Err e => Err e | Ok l => Ok ((u,r)::l) end
            end
  end.

(* the test made on one column of aggregated_poles; None = this order does not qualify *)
Definition qual_col (freq:list Q) (rtol:Q) (acol:list (option Q)) : option (res (list (Q*nat))) :=
  let us := uniq_sorted (somes acol) in
  if (length us =? length freq)%nat && forallb (fun uf => isclose rtol (fst uf) (snd uf)) (combine us freq)
  then Some (rows_of acol us) else None.

(* first i in [i0, i0+n) with g i = Some _ *)
Fixpoint first_some {A} (g:nat -> option A) (n i0:nat) : option (nat*A) :=
  match n with
  | O => None
  | S n' => match g i0 with Some a => Some (i0,a) | None => first_some g n' (S i0) end
  end.

Fixpoint payloads {P} (Pay:list (list P)) (c:nat) (urs:list (Q*nat)) : res (list (Q*P)) :=
  match urs with
  | [] => Ok []
  | (u,r)::t => match cell Pay r c with
                | Some p => match payloads Pay c t with Err e => Err e | Ok l => Ok ((u,p)::l) end
                | None => Err IndexErr
                end
  end.

Definition ncols {A} (T:list (list A)) : nat := match T with [] => O | r::_ => length r end.

Definition col_test (A:tab) (freq:list Q) (rtol:Q) (i:nat) : option (res (list (Q*nat))) :=
  match getcol A i with
  | None => Some (Err IndexErr)
  | Some acol => qual_col freq rtol acol
  end.

Definition find_min_gen {P} (band:Q->Q->bool) (lv:Z) (Fn:tab) (Pay:list (list P)) (Lab:list (list Z)) (freq:list Q) (rtol:Q)
  : res (list (Q*P) * oout) :=
  let A := agg_tab band freq (lab_tab lv Lab Fn) in
  match first_some (col_test A freq rtol) (ncols Fn) 0 with
  | None => Ok ([], OutNone)
  | Some (_, Err e) => Err e
  | Some (i, Ok urs) => match payloads Pay i urs with Err e => Err e | Ok vals => Ok (vals, OutInt i) end
  end.

(* SSI_mpe(order="find_min"): stable = label 1, band = [f - rtol, f + rtol] *)
Definition find_min {P} (Fn:tab) (Pay:list (list P)) (Lab:list (list Z)) (freq:list Q) (rtol:Q) :=
  @find_min_gen P (inb rtol) 1%Z Fn Pay Lab freq rtol.

Definition ssi_mpe {P} (Fn:tab) (Pay:list (list P)) (Lab:list (list Z)) (freq:list Q) (ord:order) (rtol:Q)
  : res (list (Q*P) * oout) :=
  match ord with
  | Explicit eo => mpe_explicit Fn Pay freq eo rtol
  | FindMin => find_min Fn Pay Lab freq rtol
  end.

(* ---------------------------------------------------------------------------------------------------------
   pLSCF_mpe.  Explicit order: the same code as SSI_mpe ([order] is used directly as the column index). *)
Definition plscf_mpe_explicit {P} := @mpe_explicit P.

(* order = "find_min", PROPERTY-CONFORMING behaviour: stable = label 1 (what gen.SC_apply writes), band = (f - deltaf, f + deltaf),
   first qualifying order, every output from that order.  This is the function the theorem mpe_find_min speaks about. *)
Definition plscf_find_min_conforming {P} (Fn:tab) (Pay:list (list P)) (Lab:list (list Z)) (freq:list Q) (deltaf rtol:Q) :=
  @find_min_gen P (inbs deltaf) 1%Z Fn Pay Lab freq rtol.

(* order = "find_min", the PRESENT code, statement by statement (plscf.py:318-375):
     a  = where(Lab == 7, Fn, nan);  aa = sum of the per-request strict bands, 0 -> nan
     ii = 0; check = [False, False]
     while not check.any():
         fn = unique non-NaN values of aa[:, ii]
         if len(fn) == len(sel_freq): check = isclose(fn, sel_freq, rtol)        (element-wise, then ANY)
         if ii == ncols - 1: break
         ii += 1
     ii -= 1
     Fn_out = fn ;  b = aa[:, ii] (Python index: -1 = last column) ; if b has a non-NaN entry: Xi, Phi of nanargmin|b - f| for f in fn
     order_out = ii
   Result: (Fn_out, payloads, order_out); the two lists need not have the same length. *)
Fixpoint plscf_scan (A:tab) (freq:list Q) (rtol:Q) (last fuel i:nat) : res (Z * list Q) :=
  match fuel with
  | O => Err IndexErr                              (* aa[:, 0] of a table without columns *)
  | S fuel' =>
    match getcol A i with
    | None => Err IndexErr
    | Some col =>
      let us := uniq_sorted (somes col) in
      let anyc := (length us =? length freq)%nat && existsb (fun uf => isclose rtol (fst uf) (snd uf)) (combine us freq) in
      if (i =? last)%nat then Ok ((Z.of_nat i - 1)%Z, us)
      else if anyc then Ok (Z.of_nat i, us)
      else plscf_scan A freq rtol last fuel' (S i)
    end
  end.

Definition plscf_find_min_lab {P} (lv:Z) (Fn:tab) (Pay:list (list P)) (Lab:list (list Z)) (freq:list Q) (deltaf rtol:Q)
  : res (list Q * list P * Z) :=
  let A := agg_tab (inbs deltaf) freq (lab_tab lv Lab Fn) in
  match plscf_scan A freq rtol (ncols Fn - 1) (ncols Fn) 0 with
  | Err e => Err e
  | Ok (z, us) =>
    let c := if (z <? 0)%Z then (ncols Fn - 1)%nat else Z.to_nat z in
    match getcol A c with
    | None => Err IndexErr
    | Some b =>
      match somes b with
      | [] => Ok (us, [], z)
      | _ :: _ => match rows_of b us with
                  | Err e => Err e
                  | Ok urs => match payloads Pay c urs with Err e => Err e | Ok vals => Ok (us, map snd vals, z) end
                  end
      end
    end
  end.

Definition plscf_find_min_present {P} := @plscf_find_min_lab P 7%Z.

(* ---------------------------------------------------------------------------------------------------------
   specification vocabulary used by the theorems (Prop-valued definitions; nothing is asserted here) *)

(* the pole of row r is retained and labelled lv at order-column i, and its frequency is p *)
Definition stable_at (lv:Z) (Lab:list (list Z)) (Fn:tab) (i r:nat) (p:Q) : Prop :=
  cell Lab r i = Some lv /\ cell Fn r i = Some (Some p).

(* acceptance region of request f: inside the band and not the value 0 (the code turns a 0 sum into NaN) *)
Definition region (band:Q->Q->bool) (f p:Q) : Prop := band f p = true /\ ~ p == 0.

(* order-column i qualifies: every request has exactly one distinct stable pole in its region, and that pole is
   np.isclose to the request *)
Definition qualifies (band:Q->Q->bool) (lv:Z) (Lab:list (list Z)) (Fn:tab) (freq:list Q) (rtol:Q) (i:nat) : Prop :=
  Forall (fun f => exists r p, stable_at lv Lab Fn i r p /\ region band f p /\ isclose rtol p f = true /\
                     forall r' p', stable_at lv Lab Fn i r' p' -> region band f p' -> p' == p) freq.

(* ascending requests with separated bands: whatever lies in the band of an earlier request is below whatever lies
   in the band of a later one *)
Definition separated (band:Q->Q->bool) (freq:list Q) : Prop :=
  ForallOrdPairs (fun f g => forall p p', band f p = true -> band g p' = true -> p < p') freq.

(* the isclose neighbourhood of one request does not reach into the band of another request *)
Definition no_reach (band:Q->Q->bool) (freq:list Q) (rtol:Q) : Prop :=
  forall f g p, In f freq -> In g freq -> band f p = true -> isclose rtol p g = true -> f = g.

(* rectangular n x m table *)
Definition rect {A} (n m:nat) (T:list (list A)) : Prop := length T = n /\ Forall (fun r => length r = m) T.

(* ---------------------------------------------------------------------------------------------------------
   printers for the harness *)
From Coq Require Import String.
From PyOMA.Base Require Import Show.
Open Scope string_scope.
Definition showErr (e:err) : string := match e with ValueErr => "ValueError" | IndexErr => "IndexError" end.
Definition showOout (o:oout) : string :=
  match o with OutInt k => "I " ++ showN k | OutList l => "L " ++ showL showN " " l | OutNone => "N" end.
Definition showVals (l:list (Q*nat)) : string := showL (fun vp => showQ (fst vp) ++ "@" ++ showN (snd vp)) " " l.
Definition showRes (r:res (list (Q*nat) * oout)) : string :=
  match r with
  | Err e => "E " ++ showErr e
  | Ok (vals, oo) => "O " ++ showVals vals ++ "|" ++ showOout oo
  end.
Definition showSels (r:res (list (option (nat*nat)))) : string :=
  match r with
  | Err e => "E " ++ showErr e
  | Ok l => "O " ++ showL (fun s => match s with Some (r,c) => showN r ++ "," ++ showN c | None => "-" end) " " l
  end.
Definition showPresent (r:res (list Q * list nat * Z)) : string :=
  match r with
  | Err e => "E " ++ showErr e
  | Ok (us, ps, z) => "O " ++ showL showQ " " us ++ "|" ++ showL showN " " ps ++ "|" ++ showZ z
  end.
(* payload table of cell identifiers r*m + c, n rows x m columns *)
Definition id_tab (n m:nat) : list (list nat) := map (fun r => map (fun c => (r*m + c)%nat) (seq 0 m)) (seq 0 n).
