(* C10 - model of pyoma2.functions.gen.SC_apply (stability labels between consecutive orders), of the MAC it
   uses, and of the two call sites (SSI classes: column o = order o; pLSCF classes: column k = order k+1).
   Definitions only.

   Conventions: a pole table is [list (list (option Q))] indexed [row][column]; NumPy nan = None; every float is
   the exact rational it denotes.  Float semantics that the code relies on are mirrored explicitly:
   - np.nanargmin raises on an all-NaN slice (caught by the code: label stays 0)  -> [nanargmin = None] -> false;
   - it returns the FIRST index of the minimum                                     -> Base/Argmin.v;
   - a NaN anywhere in a comparison makes it False                                 -> [None] -> false;
   - the relative tests divide by the SIGNED value f (resp. xi) of the pole itself, no absolute value;
     x / 0 is inf or nan, and [inf < err], [nan < err] are False                   -> [rel_lt] tests the divisor;
   - 0/0 in MAC (a zero shape) is nan                                              -> [mac_q = None];
   - column 0 is skipped ([continue]) whatever ordmin is: the first order has no previous order;
   - a column index beyond the table raises IndexError outside the try block      -> [ScIndexErr].
   The code is modelled for step = 1 (the only value for which SSI_poles builds a usable table).        *)
From Coq Require Import List Arith ZArith QArith Qabs Bool.
From PyOMA.Base Require Import Argmin.
Import ListNotations.
Open Scope Q_scope.

Section SC.
Variable Shape : Type.
Variable mac : Shape -> Shape -> option Q.      (* None: the value is nan (or MAC raised) *)

Definition getQ (t:list (list (option Q))) (i o:nat) : option Q := nth o (nth i t []) None.
Definition getS (t:list (list (option Shape))) (i o:nat) : option Shape := nth o (nth i t []) None.

(* np.abs(f_n1 - f_n[i]) : one entry per row of the previous column, nan kept *)
Definition dists (Fn:list (list (option Q))) (o1:nat) (f:Q) : list (option Q) :=
  map (fun r => match nth o1 r None with Some f1 => Some (Qabs (f1 - f)) | None => None end) Fn.

(* [num / den < err] in IEEE arithmetic for finite operands *)
Definition rel_lt (num den err:Q) : bool := negb (Qeq_bool den 0) && Qlt_bool (num / den) err.
(* [1 - MAC < err] *)
Definition mac_lt (m:option Q) (err:Q) : bool := match m with Some v => Qlt_bool (1 - v) err | None => false end.

(* body of the inner loop for pole i of column o (o = S o1: column 0 is skipped by [continue]) *)
Definition stable_at Fn Xi (Phi:list (list (option Shape))) (efn exi ephi:Q) (i o:nat) : bool :=
  match o with
  | 0%nat => false
  | S o1 =>
    match getQ Fn i o, getQ Xi i o, getS Phi i o with
    | Some f, Some x, Some p =>
       match nanargmin (dists Fn o1 f) with
       | None => false
       | Some (k,_) =>
          match getQ Fn k o1, getQ Xi k o1, getS Phi k o1 with
          | Some f1, Some x1, Some p1 =>
              rel_lt (Qabs (f - f1)) f efn && rel_lt (Qabs (x - x1)) x exi && mac_lt (mac p p1) ephi
          | _,_,_ => false
          end
       end
    | _,_,_ => false
    end
  end.

(* Lab[i,o] after the loop  for oo in range(c0, c1+1)  (step = 1) *)
Definition label Fn Xi Phi (c0 c1:nat) efn exi ephi (i o:nat) : bool :=
  (c0 <=? o)%nat && (o <=? c1)%nat && stable_at Fn Xi Phi efn exi ephi i o.

Definition nrows (Fn:list (list (option Q))) : nat := length Fn.
Definition ncols (Fn:list (list (option Q))) : nat := length (hd [] Fn).

Inductive sc_res : Type := ScOk (lab:list (list bool)) | ScIndexErr.

Definition lab_table Fn Xi Phi c0 c1 efn exi ephi : list (list bool) :=
  map (fun i => map (fun o => label Fn Xi Phi c0 c1 efn exi ephi i o) (seq 0 (ncols Fn))) (seq 0 (nrows Fn)).

(* gen.SC_apply(Fn, Xi, Phi, c0, c1, 1, efn, exi, ephi): the loop visits columns c0..c1; the last one visited
   is c1, so an IndexError is raised exactly when the range is non-empty and c1 is not a column. *)
Definition sc_apply Fn Xi Phi (c0 c1:nat) efn exi ephi : sc_res :=
  if (c0 <=? c1)%nat && (ncols Fn <=? c1)%nat then ScIndexErr
  else ScOk (lab_table Fn Xi Phi c0 c1 efn exi ephi).

(* call sites *)
(* SSIcov / SSIdat / SSIcov_MS / SSIdat_MS .run():  SC_apply(Fns, Xis, Phis, ordmin, ordmax, step=1, ...);  column o = order o *)
Definition sc_ssi Fn Xi Phi (ordmin ordmax:nat) efn exi ephi : sc_res := sc_apply Fn Xi Phi ordmin ordmax efn exi ephi.
Definition ssi_order_of_col (o:nat) : nat := o.
(* pLSCF / pLSCF_MS .run():  SC_apply(Fns, Xis, Phis, max(ordmin-1,0), ordmax-1, 1, ...);  column k = order k+1.
   ordmax = 0 gives the Python range(c0, 0), which is empty: nothing is visited, nothing is labelled. *)
Definition sc_plscf Fn Xi Phi (ordmin ordmax:nat) efn exi ephi : sc_res :=
  match ordmax with
  | 0%nat => ScOk (lab_table Fn Xi Phi 1 0 efn exi ephi)
  | S m => sc_apply Fn Xi Phi (Nat.max (ordmin - 1) 0) m efn exi ephi
  end.
Definition plscf_order_of_col (k:nat) : nat := S k.

(* ---------- declarative reading of the property text ---------- *)
(* relative difference below the tolerance, as the code evaluates it (signed divisor, not zero) *)
Definition rel_below (num den err:Q) : Prop := ~ den == 0 /\ num / den < err.
Definition mac_below (m:option Q) (err:Q) : Prop := exists v, m = Some v /\ 1 - v < err.

Definition stable_spec Fn Xi (Phi:list (list (option Shape))) efn exi ephi (i o:nat) : Prop :=
  exists o1 f x p k d f1 x1 p1,
    o = S o1 /\ getQ Fn i o = Some f /\ getQ Xi i o = Some x /\ getS Phi i o = Some p /\
    is_first_argmin (dists Fn o1 f) k d /\
    getQ Fn k o1 = Some f1 /\ getQ Xi k o1 = Some x1 /\ getS Phi k o1 = Some p1 /\
    rel_below (Qabs (f - f1)) f efn /\ rel_below (Qabs (x - x1)) x exi /\ mac_below (mac p p1) ephi.

(* the same with the relative difference read as a magnitude, |a - a'| / |a| < err  (the property text);
   the two readings coincide on filtered pole tables, where frequencies and dampings are positive *)
Definition rel_text (num den err:Q) : Prop := ~ den == 0 /\ num / Qabs den < err.
Definition stable_text Fn Xi (Phi:list (list (option Shape))) efn exi ephi (i o:nat) : Prop :=
  exists o1 f x p k d f1 x1 p1,
    o = S o1 /\ getQ Fn i o = Some f /\ getQ Xi i o = Some x /\ getS Phi i o = Some p /\
    is_first_argmin (dists Fn o1 f) k d /\
    getQ Fn k o1 = Some f1 /\ getQ Xi k o1 = Some x1 /\ getS Phi k o1 = Some p1 /\
    rel_text (Qabs (f - f1)) f efn /\ rel_text (Qabs (x - x1)) x exi /\ mac_below (mac p p1) ephi.

(* ---------- exact margins, reported to the harness (DESIGN 3.5: decisions within 1e-9 are not judged) ---------- *)
Definition tol9 : Q := 1 # 1000000000.
(* 0 < |a - b| <= tol9 * scale *)
Definition near (a b scale:Q) : bool := negb (Qeq_bool (a - b) 0) && Qle_bool (Qabs (a - b)) (tol9 * scale).
Definition tie (a b:Q) : bool := Qeq_bool (a - b) 0.
(* a second candidate whose distance differs from the minimum d by a non-zero amount below 1e-9 relative *)
Definition runner_up_near (ds:list (option Q)) (d:Q) : bool :=
  existsb (fun e => match e with Some e => near e d e | None => false end) ds.

(* one test: clearly true / clearly false / within 1e-9 of the tolerance / exactly on the tolerance *)
Inductive tri : Type := TT | TF | TN | TE.
(* frequency and damping tests: an exact tie is observable on dyadic inputs (IEEE division is exact there) *)
Definition tri_rel (num den err:Q) : tri :=
  if Qeq_bool den 0 then TF else
  if near (num / den) err (Qabs err) then TN else
  if tie (num / den) err then TE else
  if Qlt_bool (num / den) err then TT else TF.
(* MAC test: the float MAC goes through a complex modulus, so an exact tie is not observable: counted as near *)
Definition tri_mac (m:option Q) (err:Q) : tri :=
  match m with
  | None => TF
  | Some v => if Qle_bool (Qabs (1 - v - err)) tol9 then TN else if Qlt_bool (1 - v) err then TT else TF
  end.
Definition is_tf (t:tri) : bool := match t with TF => true | _ => false end.
Definition is_tn (t:tri) : bool := match t with TN => true | _ => false end.
Definition is_te (t:tri) : bool := match t with TE => true | _ => false end.

Inductive verdict : Type := VStable | VNot | VNear | VTie.
(* VStable : all three tests clearly true                       (label must be 1)
   VNot    : the cell cannot be stable, or one test is clearly false (label must be 0)
   VNear   : no test clearly false and some decision within 1e-9 (relative) of its threshold: not judged
   VTie    : otherwise, some frequency/damping test has cond = err exactly (strict test fails: label 0). *)
Definition verdict3 (a b c:tri) : verdict :=
  if is_tf a || is_tf b || is_tf c then VNot
  else if is_tn a || is_tn b || is_tn c then VNear
  else if is_te a || is_te b || is_te c then VTie
  else VStable.

Definition cell_verdict Fn Xi Phi c0 c1 efn exi ephi (i o:nat) : verdict :=
  if negb ((c0 <=? o)%nat && (o <=? c1)%nat) then VNot else
  match o with
  | 0%nat => VNot
  | S o1 =>
    match getQ Fn i o, getQ Xi i o, getS Phi i o with
    | Some f, Some x, Some p =>
       match nanargmin (dists Fn o1 f) with
       | None => VNot
       | Some (k,d) =>
          if runner_up_near (dists Fn o1 f) d then VNear else
          match getQ Fn k o1, getQ Xi k o1, getS Phi k o1 with
          | Some f1, Some x1, Some p1 =>
              verdict3 (tri_rel (Qabs (f - f1)) f efn) (tri_rel (Qabs (x - x1)) x exi) (tri_mac (mac p p1) ephi)
          | _,_,_ => VNot
          end
       end
    | _,_,_ => VNot
    end
  end.
End SC.

Arguments getS {Shape} t i o.
Arguments stable_at {Shape} mac Fn Xi Phi efn exi ephi i o.
Arguments label {Shape} mac Fn Xi Phi c0 c1 efn exi ephi i o.
Arguments lab_table {Shape} mac Fn Xi Phi c0 c1 efn exi ephi.
Arguments sc_apply {Shape} mac Fn Xi Phi c0 c1 efn exi ephi.
Arguments sc_ssi {Shape} mac Fn Xi Phi ordmin ordmax efn exi ephi.
Arguments sc_plscf {Shape} mac Fn Xi Phi ordmin ordmax efn exi ephi.
Arguments stable_spec {Shape} mac Fn Xi Phi efn exi ephi i o.
Arguments stable_text {Shape} mac Fn Xi Phi efn exi ephi i o.
Arguments cell_verdict {Shape} mac Fn Xi Phi c0 c1 efn exi ephi i o.

(* ---------- the closed executable instance: complex shapes as lists of (re, im), exact rational MAC ---------- *)
Definition cshape := list (Q*Q).
(* x^H a = sum conj(x_k) a_k : real and imaginary part (Qred keeps the fractions short; it preserves ==) *)
Fixpoint herm_re (x a:cshape) : Q :=
  match x, a with
  | (xr,xi)::x', (ar,ai)::a' => Qred (xr*ar + xi*ai + herm_re x' a')
  | _, _ => 0
  end.
Fixpoint herm_im (x a:cshape) : Q :=
  match x, a with
  | (xr,xi)::x', (ar,ai)::a' => Qred (xr*ai - xi*ar + herm_im x' a')
  | _, _ => 0
  end.
(* gen.MAC on two vectors:  |x^H a|^2 / ((x^H x)(a^H a)), real part;  lengths differ -> raises;  0/0 -> nan *)
Definition mac_q (x a:cshape) : option Q :=
  if negb (length x =? length a)%nat then None else
  let den := Qred (herm_re x x * herm_re a a) in
  if Qeq_bool den 0 then None
  else Some (Qred ((herm_re x a * herm_re x a + herm_im x a * herm_im x a) / den)).

(* the same quantities without the intermediate reductions: the reference the executable ones are proved equal (==) to *)
Fixpoint hre (x a:cshape) : Q :=
  match x, a with
  | (xr,xi)::x', (ar,ai)::a' => xr*ar + xi*ai + hre x' a'
  | _, _ => 0
  end.
Fixpoint him (x a:cshape) : Q :=
  match x, a with
  | (xr,xi)::x', (ar,ai)::a' => xr*ai - xi*ar + him x' a'
  | _, _ => 0
  end.
(* |x^H a|^2 / ((x^H x)(a^H a)) *)
Definition mac_ref (x a:cshape) : Q := (hre x a * hre x a + him x a * him x a) / (hre x x * hre a a).

(* a cell of Phi as stored: one optional complex number per channel; MAC of a vector with any nan is nan *)
Fixpoint cell_shape (c:list (option (Q*Q))) : option cshape :=
  match c with
  | [] => Some []
  | None :: _ => None
  | Some z :: r => match cell_shape r with Some s => Some (z::s) | None => None end
  end.
Definition norm_phi (P:list (list (list (option (Q*Q))))) : list (list (option cshape)) := map (map cell_shape) P.

Definition ssi_labels Fn Xi PhiRaw ordmin ordmax efn exi ephi := sc_ssi mac_q Fn Xi (norm_phi PhiRaw) ordmin ordmax efn exi ephi.
Definition plscf_labels Fn Xi PhiRaw ordmin ordmax efn exi ephi := sc_plscf mac_q Fn Xi (norm_phi PhiRaw) ordmin ordmax efn exi ephi.

(* ---------- output for the harness: one character per cell, rows separated by ';' ---------- *)
From Coq Require Import String.
Definition show_verdict (v:verdict) : string :=
  match v with VStable => "T" | VNot => "F" | VNear => "n" | VTie => "e" end%string.
Fixpoint concat_s (l:list string) : string := match l with [] => EmptyString | x::r => (x ++ concat_s r)%string end.
Fixpoint join_s (sep:string) (l:list string) : string :=
  match l with [] => EmptyString | [x] => x | x::r => (x ++ sep ++ join_s sep r)%string end.
Definition show_verdicts Fn Xi PhiRaw (c0 c1:nat) efn exi ephi : string :=
  let Phi := norm_phi PhiRaw in
  join_s ";" (map (fun i => concat_s (map (fun o => show_verdict (cell_verdict mac_q Fn Xi Phi c0 c1 efn exi ephi i o))
                                          (seq 0 (ncols Fn)))) (seq 0 (nrows Fn))).
Definition show_labels (r:sc_res) : string :=
  match r with
  | ScIndexErr => "IndexError"
  | ScOk L => join_s ";" (map (fun row => concat_s (map (fun b:bool => if b then "1" else "0")%string row)) L)
  end.
(* what the harness evaluates: labels of the call, then the verdict of every cell of the same call *)
Definition run_sc Fn Xi PhiRaw (c0 c1:nat) efn exi ephi : string :=
  (show_labels (sc_apply mac_q Fn Xi (norm_phi PhiRaw) c0 c1 efn exi ephi) ++ "|" ++ show_verdicts Fn Xi PhiRaw c0 c1 efn exi ephi)%string.
Definition run_ssi Fn Xi PhiRaw (ordmin ordmax:nat) efn exi ephi : string :=
  (show_labels (ssi_labels Fn Xi PhiRaw ordmin ordmax efn exi ephi) ++ "|" ++ show_verdicts Fn Xi PhiRaw ordmin ordmax efn exi ephi)%string.
(* the verdict range of the pLSCF call is stated through ORDERS: column k is in range iff ordmin <= k+1 <= ordmax *)
Definition run_plscf Fn Xi PhiRaw (ordmin ordmax:nat) efn exi ephi : string :=
  (show_labels (plscf_labels Fn Xi PhiRaw ordmin ordmax efn exi ephi) ++ "|"
   ++ match ordmax with
      | 0%nat => show_verdicts Fn Xi PhiRaw 1 0 efn exi ephi
      | S m => show_verdicts Fn Xi PhiRaw (ordmin - 1) m efn exi ephi
      end)%string.
