(* C16 - vocabulary for histories of the picking dialog (Model/M_pick.v): the events that can neither pick nor deselect
   nor change the modifier, and what is left of a history when they are dropped.  Definitions only.

   In M_pick.action, [KeyOther] stands for EVERY event the dialog has no selecting reaction to: a press / release of a
   key other than the modifier, pointer motion, scrolling, a button release, a menu entry, closing the window (the
   harness maps all of these to [KeyOther]; the canvas delivers only key_press / key_release / button_press events to
   the handlers). *)
From Coq Require Import List Arith ZArith QArith Bool.
From PyOMA.Model Require Import M_pick.
Import ListNotations.

(* [acting sh a] : with the modifier in state sh, the event a may change the selection or the modifier *)
Definition acting (sh:bool) (a:action) : bool :=
  match a with
  | KeyDown | KeyUp => true
  | KeyOther => false
  | Click BOther _ _ => false
  | Click _ _ _ => sh
  | ClickOut BRight => sh
  | ClickOut _ => false
  end.

(* the modifier after one event *)
Definition shift_step (sh:bool) (a:action) : bool :=
  match a with KeyDown => true | KeyUp => false | _ => sh end.

(* the history with every non-acting event dropped (sh = modifier state before the first event) *)
Fixpoint strip (sh:bool) (l:list action) : list action :=
  match l with
  | [] => []
  | a :: r => if acting sh a then a :: strip (shift_step sh a) r else strip (shift_step sh a) r
  end.

(* same modifier, same multiset of pairs *)
Definition same_selection (s t:state) : Prop := shift s = shift t /\ Permutation.Permutation (sel s) (sel t).
