(* C08 - covariance of the identification under gain, channel order / orthogonal mixing and time unit.
   Small executable models of the places where these transformations act.  Definitions only.

   data transforms      sgain g Y = g*Y ; sperm pi Y = rows re-ordered ; smix Q Y = Q Y  (channel x sample signals)
   block structure      kronI l P = I (x) P on block vectors of block size l ; bperm = row index map of I (x) P_pi
   unity normalisation  phi / phi[argmax |phi|]   (ssi.ac2mp, plscf.ac2mp_poly, fdd.FDD_mpe): first index of the
                        largest modulus; 0/0 is NaN in NumPy = None here
   time unit            lam_c = log(lam_d) * (1/dt) with log(lam_d) an ARGUMENT (the statement is about the division);
                        frequency grids of fdd.SD_est ('cor': arange*(1/dt/nxseg); 'per': scipy rfftfreq j/(n d)),
                        fdd.SDOF_bellandMS (arange*(1/dt/(2 nxseg))), plscf.pLSCF (linspace(0, fs/2, Nf)) and the
                        argument omega*dt of the pLSCF basis functions                                              *)
From Coq Require Import List Arith Lia Bool ZArith QArith Qcanon.
From PyOMA.Base Require Import Carrier FMat Cplx.
From PyOMA.Model Require Import M_hankel.
Import ListNotations.

Section Covar.
Variable R:Type. Variable K:Ops R.
Local Open Scope K_scope.
Notation "0" := (o0 K) : K_scope. Notation "1" := (o1 K) : K_scope.
Infix "+" := (oadd K) : K_scope. Infix "*" := (omul K) : K_scope. Infix "-" := (osub K) : K_scope.
Notation "- x" := (oopp K x) : K_scope. Infix "/" := (odiv K) : K_scope.

(* ---------- transformations of the data (channel -> sample -> value) ---------- *)
Definition sgain (g:R) (Y:sig R) : sig R := fun a t => g * Y a t.
Definition sperm (pi:nat->nat) (Y:sig R) : sig R := fun a t => Y (pi a) t.
Definition smix (l:nat) (Q:fmat R) (Y:sig R) : sig R := fun a t => sumn K l (fun c => Q a c * Y c t).

(* ---------- block structure ---------- *)
Definition kronI (l:nat) (P:fmat R) : fmat R :=
  fun I J => if Nat.eqb (I / l) (J / l) then P (I mod l)%nat (J mod l)%nat else 0.
Definition pmat (pi:nat->nat) : fmat R := fun a c => if Nat.eqb c (pi a) then 1 else 0.
Definition cv_diag (S:nat->R) : fmat R := fun i j => if Nat.eqb i j then S i else 0.
Definition bperm (l:nat) (pi:nat->nat) (I:nat) : nat := ((I / l) * l + pi (I mod l)%nat)%nat.
(* right-hand sides of the Hankel relations *)
Definition hank_perm_rhs (l r:nat) (pi rho:nat->nat) (H:fmat R) : fmat R := fun I J => H (bperm l pi I) (bperm r rho J).
Definition hank_mix_rhs (l r:nat) (Q Qr H:fmat R) : fmat R :=
  fun I J => sumn K l (fun c => sumn K r (fun d =>
     Q (I mod l)%nat c * Qr (J mod r)%nat d * H ((I / l) * l + c)%nat ((J / r) * r + d)%nat)).

(* a general bilinear estimator (every Welch / correlogram cross-spectrum line, real or imaginary part, and every
   Hankel entry is of this shape): B[a][b] = sum_t sum_s w t s * Y_a[t] * Yref_b[s] *)
Definition bil_gen (N:nat) (w:nat->nat->R) (Y Yref:sig R) : fmat R :=
  fun a b => sumn K N (fun t => sumn K N (fun s => w t s * (Y a t * Yref b s))).

(* ---------- SVD contract (thin, k columns) and the realisation step, kernels as arguments ---------- *)
Definition svd_contract (m n k:nat) (H U:fmat R) (S:nat->R) (V:fmat R) : Prop :=
  feq m n H (fmul K k (fmul K k U (cv_diag S)) (ftr V)) /\
  feq k k (fmul K m (ftr U) U) (fid K) /\ feq k k (fmul K n (ftr V) V) (fid K).
(* Obs = U[:, :n] sqrt(diag S): column k scaled by a square root of S k (sq k * sq k = S k) *)
Definition cv_obs (U:fmat R) (sq:nat->R) : fmat R := fun i k => U i k * sq k.
Definition rows_from (l:nat) (M:fmat R) : fmat R := fun i k => M (l + i)%nat k.

(* ---------- unity normalisation over complex pairs ---------- *)
Variable ltb : R -> R -> bool.     (* strict order of the carrier, used on squared moduli only *)
Fixpoint cv_argmax_from (xs:list R) (i bi:nat) (bv:R) : nat :=
  match xs with
  | [] => bi
  | x::r => if ltb bv x then cv_argmax_from r (S i) i x else cv_argmax_from r (S i) bi bv
  end.
Definition cv_argmax (xs:list R) : nat := match xs with [] => 0%nat | x::r => cv_argmax_from r 1 0 x end.
Definition cv_pivot (v:list (C R)) : C R := nth (cv_argmax (map (cnorm2 K) v)) v (c0 K).
Definition cv_unity_norm (v:list (C R)) : option (list (C R)) :=
  let p := cv_pivot v in
  if ltb 0 (cnorm2 K p) then Some (map (fun z => cdiv K z p) v) else None.

(* channel permutation of a shape: component i of the result is component pi i of v *)
Definition cv_vperm (pi:nat->nat) (n:nat) (v:list (C R)) : list (C R) := map (fun i => nth (pi i) v (c0 K)) (seq 0 n).

(* ---------- time unit ---------- *)
Definition lamc (logl:C R) (dt:R) : C R := cscal K (1 / dt) logl.
Definition mp_w2 (lam:C R) : R := cnorm2 K lam.                                 (* (2 pi fn)^2 *)
Definition mp_xi2 (lam:C R) : R := (cre lam * cre lam) / cnorm2 K lam.          (* xi^2 ; sign xi = - sign Re *)
Definition grid_cor (fs nx j:R) : R := j * (1 / (1 / fs) / nx).
Definition grid_per (fs nx j:R) : R := j / (nx * (1 / fs)).
Definition grid_bell (fs nx j:R) : R := j * (1 / (1 / fs) / ((1+1) * nx)).
Definition grid_lin (fs nfm1 j:R) : R := j * ((1 / (1 / fs)) / (1+1) / nfm1).
Definition basis_arg (twopi fs nfm1 j:R) : R := twopi * grid_lin fs nfm1 j * (1 / fs).
End Covar.

Arguments sgain {R} K g Y. Arguments sperm {R} pi Y. Arguments smix {R} K l Q Y.
Arguments kronI {R} K l P. Arguments pmat {R} K pi. Arguments cv_diag {R} K S.
Arguments hank_perm_rhs {R} l r pi rho H. Arguments hank_mix_rhs {R} K l r Q Qr H.
Arguments bil_gen {R} K N w Y Yref.
Arguments svd_contract {R} K m n k H U S V. Arguments cv_obs {R} K U sq. Arguments rows_from {R} l M.
Arguments cv_argmax_from {R} ltb xs i bi bv. Arguments cv_argmax {R} ltb xs.
Arguments cv_pivot {R} K ltb v. Arguments cv_unity_norm {R} K ltb v.
Arguments cv_vperm {R} K pi n v.
Arguments lamc {R} K logl dt. Arguments mp_w2 {R} K lam. Arguments mp_xi2 {R} K lam.
Arguments grid_cor {R} K fs nx j. Arguments grid_per {R} K fs nx j. Arguments grid_bell {R} K fs nx j.
Arguments grid_lin {R} K fs nfm1 j. Arguments basis_arg {R} K twopi fs nfm1 j.

(* ---------- executable instances at Qc used by the correspondence check ---------- *)
Definition Qc_ltb (a b:Qc) : bool := negb (Qle_bool (this b) (this a)).
Definition unity_norm_Qc (v:list (Qc*Qc)) : option (list (Qc*Qc)) := cv_unity_norm QcOps Qc_ltb v.
Definition lperm_idx (pil:list nat) : nat -> nat := fun a => nth a pil 0%nat.
(* the right-hand sides of hank_gain / hank_perm on the tables of M_hankel, evaluated on the UNtransformed data *)
Definition hank_gain_rhs_mm_l (g invN:Qc) l r br Ndat (Yl Yrl:list (list Qc)) :=
  tab2 (hank_rows l br) (hank_cols r br)
    (fscal QcOps (g*g)%Qc (hank_mm QcOps invN l r br Ndat (sig_of QcOps Yl) (sig_of QcOps Yrl))).
Definition hank_gain_rhs_R_l (g:Qc) invn l r br Ndat (Yl Yrl:list (list Qc)) :=
  tab2 (hank_rows l br) (hank_cols r br)
    (fscal QcOps (g*g)%Qc (hank_R QcOps invn l r br Ndat (sig_of QcOps Yl) (sig_of QcOps Yrl))).
Definition hank_perm_rhs_mm_l (pil rhol:list nat) (invN:Qc) l r br Ndat (Yl Yrl:list (list Qc)) :=
  tab2 (hank_rows l br) (hank_cols r br)
    (hank_perm_rhs l r (lperm_idx pil) (lperm_idx rhol) (hank_mm QcOps invN l r br Ndat (sig_of QcOps Yl) (sig_of QcOps Yrl))).
Definition hank_perm_rhs_R_l (pil rhol:list nat) invn l r br Ndat (Yl Yrl:list (list Qc)) :=
  tab2 (hank_rows l br) (hank_cols r br)
    (hank_perm_rhs l r (lperm_idx pil) (lperm_idx rhol) (hank_R QcOps invn l r br Ndat (sig_of QcOps Yl) (sig_of QcOps Yrl))).
Definition hank_mix_rhs_mm_l (Ql Qrl:list (list Qc)) (invN:Qc) l r br Ndat (Yl Yrl:list (list Qc)) :=
  tab2 (hank_rows l br) (hank_cols r br)
    (hank_mix_rhs QcOps l r (sig_of QcOps Ql) (sig_of QcOps Qrl) (hank_mm QcOps invN l r br Ndat (sig_of QcOps Yl) (sig_of QcOps Yrl))).
Definition hank_mix_rhs_R_l (Ql Qrl:list (list Qc)) invn l r br Ndat (Yl Yrl:list (list Qc)) :=
  tab2 (hank_rows l br) (hank_cols r br)
    (hank_mix_rhs QcOps l r (sig_of QcOps Ql) (sig_of QcOps Qrl) (hank_R QcOps invn l r br Ndat (sig_of QcOps Yl) (sig_of QcOps Yrl))).
(* a cyclic permutation of three channels and its inverse (used by the Examples of Properties/C08.v) *)
Definition ex_swap3 (a:nat) : nat := match a with 0 => 2 | 1 => 0 | 2 => 1 | n => n end%nat.
Definition ex_swap3i (a:nat) : nat := match a with 0 => 1 | 1 => 2 | 2 => 0 | n => n end%nat.
Definition Qc_invn : nat -> Qc := fun n => Qcinv (Q2Qc (Z.of_nat n # 1)).
