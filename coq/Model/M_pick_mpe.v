(* C16 - mpe_from_plot of SSIdat / SSIcov / pLSCF and their multi-setup variants:
     SFP = SelFromPlot(...) ; sel_freq = SFP.result[0] ; order = SFP.result[1]
     Fn, Xi, Phi, order_out, ... = SSI_mpe(sel_freq, Fn_pol, Xi_pol, Phi_pol, order, Lab=None, rtol=rtol, ...)
   i.e. the dialog of Model/M_pick.v followed by the explicit-order extraction of C11 (Model/M_mpe.v, imported,
   not restated) fed with the dialog's two lists.  Definitions only.

   M_pick gives the pole table COLUMN-major (list of the columns Fn_poles[:, o]), M_mpe ROW-major ([row][order], with
   the tables that the code only moves - damping, shapes, covariances - as one payload table Pay of the same shape). *)
From Coq Require Import List Arith ZArith QArith Qabs Bool String.
From PyOMA.Base Require Import Argmin Show.
From PyOMA.Model Require Import M_pick M_mpe.
Import ListNotations.
Open Scope Q_scope.

(* the columns c, c+1, ..., c+n-1 of a row-major table; None = a row is too short *)
Fixpoint cols_from (Fn:tab) (c n:nat) : option table :=
  match n with
  | O => Some []
  | S n' => match getcol Fn c, cols_from Fn (S c) n' with
            | Some col, Some r => Some (col :: r)
            | _, _ => None
            end
  end.
Definition cols_of (m:nat) (Fn:tab) : option table := cols_from Fn 0 m.

(* [tbl] lists columns of [Fn] *)
Definition columns_of (Fn:tab) (tbl:table) : Prop :=
  forall c col, nth_error tbl c = Some col -> getcol Fn c = Some col.

(* the hand-over: C11's extraction with order = the dialog's order list and the caller's rtol *)
Definition handover {P} (Fn:tab) (Pay:list (list P)) (rtol:Q) (r:list Q * list nat) : res (list (Q*P) * oout) :=
  mpe_explicit Fn Pay (fst r) (OList (snd r)) rtol.

(* the whole of mpe_from_plot with the present code's resolution of the dialog (m = number of orders) *)
Definition mpe_from_plot_impl {P} (m:nat) (Fn:tab) (Pay:list (list P)) (rtol:Q) (acts:list action)
  : res (list (Q*P) * oout) :=
  match cols_of m Fn with
  | None => Err IndexErr
  | Some tbl => handover Fn Pay rtol (result (run_impl (pick_ssi tbl) acts))
  end.

(* the CELL a picking click designates: (row, order, frequency); pick_ssi forgets the row *)
Definition pick_ssi_cell (tbl:table) (x y:Q) : option (nat * nat * Q) :=
  match nearest_col (List.length tbl) y with
  | None => None
  | Some o =>
      match nth_error tbl o with
      | None => None
      | Some col =>
          match nanargmin (row_dists x col) with
          | None => None
          | Some (r, _) => match nth_error col r with Some (Some f) => Some (r, o, f) | _ => None end
          end
      end
  end.

(* the payload table covers the frequency table *)
Definition pay_covers {P} (Fn:tab) (Pay:list (list P)) : Prop :=
  forall r c v, cell Fn r c = Some v -> exists p, cell Pay r c = Some p.

(* "the mode (frequency f', payload p) is the selected pole e's own": its frequency is e's, and frequency and payload
   are the contents of ONE cell (r, order of e) - the first row of that order holding this frequency, which is the
   very cell designated by a picking click of the history *)
Definition own_pole {P} (Fn:tab) (Pay:list (list P)) (tbl:table) (acts:list action) (vp:Q*P) (e:entry) : Prop :=
  fst vp = fst e /\
  exists r, cell Fn r (snd e) = Some (Some (fst e)) /\ cell Pay r (snd e) = Some (snd vp) /\
            (forall j q, (j < r)%nat -> cell Fn j (snd e) = Some (Some q) -> ~ q == fst e) /\
            exists x y, In (x, y) (eff_clicks false acts) /\ pick_ssi_cell tbl x y = Some (r, snd e, fst e).

(* printer for the correspondence: the hand-over with cell identifiers r*m + c as payload *)
Definition showHandover (n m:nat) (Fn:tab) (rtol:Q) (r:list Q * list nat) : string :=
  showRes (handover Fn (id_tab n m) rtol r).
Definition showFromPlot (n m:nat) (Fn:tab) (rtol:Q) (acts:list action) : string :=
  showRes (mpe_from_plot_impl m Fn (id_tab n m) rtol acts).
