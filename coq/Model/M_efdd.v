(* C07 - model of pyoma2.functions.fdd.SDOF_bellandMS and of the time-domain part of pyoma2.functions.fdd.EFDD_mpe.
   Definitions only.

   1. SDOF bell (generic carrier, complex numbers = pairs, function matrices; executed at Qc):
        freq[k] = k * (1/dt/(2 Nf))                 (the code's own grid, Nf = number of lines)
        idxlim  = (argmin|freq-(f-DF)|, argmin|freq-(f+DF)|)   first index of the minimum; hi EXCLUDED
        EFDD :  bell[l] = sum_{c<cm} ( sigma_c(Sy[l])     if MAC(phi, S_vec[c,:,l]) > MAClim else 0 )
                (the code stores sqrt(sigma) in S_val and squares it; the model receives sigma, the singular value)
        FSDD :  bell[l] = sum_{c<cm} ( phi^H Sy[l] phi    if MAC(phi, S_vec[c,:,l]) > MAClim else 0 )
        bell is zero outside lo <= l < hi.   S_vec[c,:,l] = row c of U^H = conj (column c of U), U from the SVD oracle.
        MAC(x,a) = |x^H a|^2 / ((x^H x)(a^H a))     (real part; the denominator is real)
   2. the free decay (exact rationals Qc; split at the inverse FFT: the correlation samples are a witness input):
        norm   = corr[: n/2] / corr[argmax corr]             (argmax over the WHOLE record)
        zc     = indices i with sign norm[i] <> sign norm[i+1]
        windows= (zc[i], zc[i+2]) for i = 0,2,4,.. < len zc - 2 ;  per window min and max of norm[a:b]
        minmax = [min0, max0, min1, max1, ..] ; idx = first index of the whole record holding that value
        fit    = entries sppk .. sppk+npmax-1  (IndexError if the record holds fewer extrema)
        Td     = mean (2 * diff time[idx_fit]),  time = linspace(0, tlag, n/2)
        ratio_k= |minmax[0]| / |minmax[k]|, k < npmax      (arguments of log; NOT shifted by sppk - as the code has it)
        slope  = sum k delta_k / sum k^2  (contract of curve_fit for the model m*x), delta_k = log ratio_k (witness)
        lam    = 2 slope ('per') | 2 slope - 1/tau ('cor') ; xi^2 = lam^2/(4 pi^2 + lam^2) ; fn^2 = fd^2/(1 - xi^2)
   A Python exception is an explicit Err.  NoModel = input on which NumPy goes through nan/inf (all-zero bell, an
   extremum exactly 0, fewer than two fitted extrema): outside the model. *)
From Coq Require Import List Arith ZArith QArith Qcanon Bool String.
From PyOMA.Base Require Import Carrier Cplx Show.
Import ListNotations.

Inductive err := ValueErr | IndexErr | NoModel.
Inductive res (A:Type) := Ok (a:A) | Err (e:err).
Arguments Ok {A} a. Arguments Err {A} e.

Inductive meth := EFDD | FSDD.

(* ------------------------------------------------------------------------------------------------------------
   1. the SDOF bell *)
Section Bell.
Variable R:Type. Variable K:Ops R.
Variable gtb : R -> R -> bool.            (* x > y on the carrier *)

Definition cvec := nat -> C R.
Definition cmat := nat -> nat -> C R.

(* x^H y *)
Definition cdotH (n:nat) (x y:cvec) : C R := sumn (COps K) n (fun k => cmul K (cconj K (x k)) (y k)).
Definition mac (n:nat) (x a:cvec) : R :=
  odiv K (cnorm2 K (cdotH n x a)) (omul K (cre (cdotH n x x)) (cre (cdotH n a a))).
(* (phi^H A) phi *)
Definition quadH (n:nat) (phi:cvec) (A:cmat) : C R :=
  sumn (COps K) n (fun j => cmul K (sumn (COps K) n (fun i => cmul K (cconj K (phi i)) (A i j))) (phi j)).

Definition mac_pass (n:nat) (phi svec:cvec) (lim:R) : bool := gtb (mac n phi svec) lim.

Definition bell_term (m:meth) (n:nat) (phi:cvec) (A:cmat) (sig:R) (svec:cvec) (lim:R) : C R :=
  if mac_pass n phi svec lim then match m with EFDD => cofR K sig | FSDD => quadH n phi A end else c0 K.

(* one spectral line: A = Sy[:,:,l], sig c = c-th singular value of A, svec c = S_vec[c,:,l] *)
Definition bell_line (m:meth) (n cm:nat) (phi:cvec) (A:cmat) (sig:nat->R) (svec:nat->cvec) (lim:R) : C R :=
  sumn (COps K) cm (fun c => bell_term m n phi A (sig c) (svec c) lim).

(* SDOFbell1[l] *)
Definition sdof_bell (m:meth) (n cm:nat) (phi:cvec) (Sy:nat->cmat) (sig:nat->nat->R) (svec:nat->nat->cvec)
    (lim:R) (lo hi:nat) : nat -> C R :=
  fun l => if Nat.leb lo l && Nat.ltb l hi then bell_line m n cm phi (Sy l) (sig l) (svec l) lim else c0 K.

(* the stored singular vectors: S_vec[c,i,l] = conj (U_l[i,c]) *)
Definition svec_of (U:nat->cmat) : nat -> nat -> cvec := fun l c i => cconj K (U l i c).

(* the SVD oracle's contract for one matrix: A = U diag(S) V^H, U^H U = I, V^H V = I (S real) *)
Definition cdelta (i j:nat) : C R := if Nat.eqb i j then c1 K else c0 K.
Definition svd_ok (n:nat) (A U V:cmat) (S:nat->R) : Prop :=
  (forall i j, (i<n)%nat -> (j<n)%nat ->
     A i j = sumn (COps K) n (fun k => cmul K (cmul K (U i k) (cofR K (S k))) (cconj K (V j k)))) /\
  (forall i j, (i<n)%nat -> (j<n)%nat -> sumn (COps K) n (fun k => cmul K (cconj K (U k i)) (U k j)) = cdelta i j) /\
  (forall i j, (i<n)%nat -> (j<n)%nat -> sumn (COps K) n (fun k => cmul K (cconj K (V k i)) (V k j)) = cdelta i j).

Definition cmscal (c:R) (A:cmat) : cmat := fun i j => cscal K c (A i j).
End Bell.

Arguments cdotH {R} K n x y. Arguments mac {R} K n x a. Arguments quadH {R} K n phi A.
Arguments mac_pass {R} K gtb n phi svec lim.
Arguments bell_term {R} K gtb m n phi A sig svec lim.
Arguments bell_line {R} K gtb m n cm phi A sig svec lim.
Arguments sdof_bell {R} K gtb m n cm phi Sy sig svec lim lo hi.
Arguments svec_of {R} K U. Arguments svd_ok {R} K n A U V S. Arguments cmscal {R} K c A. Arguments cdelta {R} K i j.

(* ------------------------------------------------------------------------------------------------------------
   order and small list tools on Qc *)
Definition Qcgtb (x y:Qc) : bool := if Qclt_le_dec y x then true else false.
Definition Qcabs (x:Qc) : Qc := if Qclt_le_dec x 0 then (- x)%Qc else x.
Definition qcmax (m y:Qc) : Qc := if Qclt_le_dec m y then y else m.
Definition qcmin (m y:Qc) : Qc := if Qclt_le_dec y m then y else m.
(* np.max / np.min ; None = ValueError on an empty array *)
Definition maxl (l:list Qc) : option Qc := match l with [] => None | x::t => Some (fold_left qcmax t x) end.
Definition minl (l:list Qc) : option Qc := match l with [] => None | x::t => Some (fold_left qcmin t x) end.

(* np.argmin: first index of the minimum ; None = ValueError on an empty array *)
Fixpoint argmin_from (l:list Qc) (i bi:nat) (bv:Qc) : nat :=
  match l with
  | [] => bi
  | x::r => if Qclt_le_dec x bv then argmin_from r (S i) i x else argmin_from r (S i) bi bv
  end.
Definition argmin_first (l:list Qc) : option nat := match l with [] => None | x::r => Some (argmin_from r 1 0 x) end.

Definition ofnat (k:nat) : Qc := Q2Qc (inject_Z (Z.of_nat k)).

(* np.argmin(np.abs(np.arange(Nf)*h - x)) *)
Definition band_idx (Nf:nat) (h x:Qc) : option nat :=
  argmin_first (map (fun k => Qcabs (ofnat k * h - x)%Qc) (seq 0 Nf)).
(* idxlim of SDOF_bellandMS ; ValueError on an empty grid *)
Definition band (Nf:nat) (h f DF:Qc) : res (nat*nat) :=
  match band_idx Nf h (f - DF)%Qc, band_idx Nf h (f + DF)%Qc with
  | Some lo, Some hi => Ok (lo, hi)
  | _, _ => Err ValueErr
  end.

(* list-level wrapper of the bell used by the correspondence check: the lines lo0, lo0+1, .. are given as
   (Sy[:,:,l], [sigma_c], [S_vec[c,:,l]]) ; the band is computed by the model itself *)
Definition QcC := C Qc.
Definition cz : QcC := c0 QcOps.
Definition line_data := (list (list QcC) * list Qc * list (list QcC))%type.
Definition ld_Sy (d:line_data) : cmat Qc := fun i j => nth j (nth i (fst (fst d)) []) cz.
Definition ld_sig (d:line_data) : nat -> Qc := fun c => nth c (snd (fst d)) 0%Qc.
Definition ld_svec (d:line_data) : nat -> cvec Qc := fun c i => nth i (nth c (snd d) []) cz.
Definition no_line : line_data := ([], [], []).

Definition sdof_bell_l (m:meth) (n cm Nf:nat) (h f DF:Qc) (phi:list QcC) (lim:Qc) (lo0:nat) (lines:list line_data)
  : res (nat * nat * list QcC) :=
  match band Nf h f DF with
  | Err e => Err e
  | Ok (lo, hi) =>
      if Nat.leb hi lo && Nat.leb 1 cm then Err ValueErr   (* empty band: the mode-shape accumulator cannot broadcast *)
      else
      let dat := fun l => nth (l - lo0) lines no_line in
      let b := sdof_bell QcOps Qcgtb m n cm (fun i => nth i phi cz)
                 (fun l => ld_Sy (dat l)) (fun l => ld_sig (dat l)) (fun l => ld_svec (dat l)) lim lo hi in
      Ok (lo, hi, map b (seq lo (hi - lo)))
  end.

(* ------------------------------------------------------------------------------------------------------------
   2. the free decay *)
Local Open Scope Qc_scope.

Definition two : Qc := Q2Qc 2.
Definition four : Qc := Q2Qc 4.
Definition sgn (x:Qc) : Z := Z.sgn (Qnum (this x)).

(* normSDOFcorr = corr[: n/2] / corr[argmax corr] *)
Definition normcorr (full:list Qc) : res (list Qc) :=
  match maxl full with
  | None => Err ValueErr
  | Some m => if Qc_eq_dec m 0 then Err NoModel
              else Ok (map (fun y => y / m) (firstn (List.length full / 2) full))
  end.

(* np.where(np.diff(np.sign(x)))[0] *)
Fixpoint zero_cross (l:list Qc) (i:nat) : list nat :=
  match l with
  | x :: r => match r with
              | y :: _ => if Z.eqb (sgn x) (sgn y) then zero_cross r (S i) else i :: zero_cross r (S i)
              | [] => []
              end
  | [] => []
  end.

(* (zc[i], zc[i+2]) for i in range(0, len(zc)-2, 2) *)
Fixpoint windows (zc:list nat) : list (nat*nat) :=
  match zc with
  | a :: r1 => match r1 with
               | _ :: r2 => match r2 with c :: _ => (a, c) :: windows r2 | [] => [] end
               | [] => []
               end
  | [] => []
  end.

Definition pyslice {A} (lo hi:nat) (l:list A) : list A := firstn (hi - lo) (skipn lo l).

(* np.argmin(abs(x - v)) for a value v taken from x: the first index holding v (P_efdd.index_of_argmin) *)
Fixpoint index_of (v:Qc) (l:list Qc) (i:nat) : option nat :=
  match l with [] => None | x::r => if Qc_eq_dec x v then Some i else index_of v r (S i) end.

(* per window: (min, max, index of min, index of max) *)
Definition extremum (x:list Qc) (w:nat*nat) : res (Qc*Qc*nat*nat) :=
  let s := pyslice (fst w) (snd w) x in
  match minl s, maxl s with
  | Some mn, Some mx =>
      match index_of mn x 0, index_of mx x 0 with
      | Some imn, Some imx => Ok (mn, mx, imn, imx)
      | _, _ => Err NoModel
      end
  | _, _ => Err ValueErr
  end.

Fixpoint all_ok {A} (l:list (res A)) : res (list A) :=
  match l with
  | [] => Ok []
  | Ok a :: r => match all_ok r with Ok t => Ok (a::t) | Err e => Err e end
  | Err e :: _ => Err e
  end.

(* minmax and minmax_idx, interleaved min first (np.ravel(order="F") of the 2 x k array (min, max)) *)
Definition interleave (e:list (Qc*Qc*nat*nat)) : list (Qc*nat) :=
  flat_map (fun t => match t with (mn, mx, imn, imx) => [(mn, imn); (mx, imx)] end) e.

Definition extrema (x:list Qc) : res (list (Qc*nat)) :=
  match all_ok (map (extremum x) (windows (zero_cross x 0))) with
  | Ok e => Ok (interleave e)
  | Err e => Err e
  end.

Fixpoint diffs (l:list Qc) : list Qc :=
  match l with x :: r => match r with y :: _ => (y - x) :: diffs r | [] => [] end | [] => [] end.
Definition sumq (l:list Qc) : Qc := fold_left Qcplus l 0.

Record decay := { d_idx : list nat;       (* minmax_fit_idx *)
                  d_ratio : list Qc;      (* |minmax[0]| / |minmax[k]|, k < npmax : the arguments of log *)
                  d_Td : Qc }.            (* mean damped period *)

(* tstep = time[1] - time[0] of np.linspace(0, tlag, n/2) *)
Definition decay_of (x:list Qc) (tstep:Qc) (sppk npmax:nat) : res decay :=
  match extrema x with
  | Err e => Err e
  | Ok mm =>
      if Nat.ltb (List.length mm) (sppk + npmax) then Err IndexErr
      else if Nat.ltb npmax 2 then (if Nat.eqb npmax 0 then Err IndexErr else Err NoModel)
      else
        let idx := map snd (pyslice sppk (sppk + npmax) mm) in
        let Td := sumq (map (fun d => two * d) (diffs (map (fun i => ofnat i * tstep) idx))) / ofnat (List.length idx - 1) in
        let first := firstn npmax (map fst mm) in
        match first with
        | [] => Err IndexErr
        | m0 :: _ =>
            if existsb (fun v => if Qc_eq_dec v 0 then true else false) first then Err NoModel
            else Ok {| d_idx := idx; d_ratio := map (fun v => Qcabs m0 / Qcabs v) first; d_Td := Td |}
        end
  end.

(* the part of EFDD_mpe after the inverse FFT: full = SDOFcorr1 (all nIFFT samples) *)
Definition efdd_time (full:list Qc) (tlag:Qc) (sppk npmax:nat) : res decay :=
  match normcorr full with
  | Err e => Err e
  | Ok x => decay_of x (tlag / ofnat (List.length full / 2 - 1)) sppk npmax
  end.

(* the fit: delta_k = log(ratio_k) enters as a witness.  Generic carrier: executed at Qc, theorems at R. *)
Inductive sdmeth := Per | Cor | OtherSD.
Section Fit.
Variable T:Type. Variable K:Ops T.
Fixpoint natK (k:nat) : T := match k with O => o0 K | S j => oadd K (natK j) (o1 K) end.
Definition sumK (l:list T) : T := fold_left (oadd K) l (o0 K).
(* curve_fit(m*x, arange(len delta), delta): the least-squares slope through the origin *)
Definition gslope (delta:list T) : T :=
  let ks := map natK (seq 0 (List.length delta)) in
  odiv K (sumK (map (fun p => omul K (fst p) (snd p)) (combine ks delta))) (sumK (map (fun k => omul K k k) ks)).
Definition gtwo : T := oadd K (o1 K) (o1 K).
(* inv_tau = -log(0.01)/(nxseg-1) (witness) *)
Definition glam_of (sd:sdmeth) (inv_tau:T) (delta:list T) : T :=
  match sd with
  | Per => omul K gtwo (gslope delta)
  | Cor => osub K (omul K gtwo (gslope delta)) inv_tau
  | OtherSD => gslope delta
  end.
(* xi^2 = lam^2/(4 pi^2 + lam^2) and fn^2 = (1/Td)^2/(1 - xi^2)   (pi2 = pi^2, witness) *)
Definition gxi2_of (pi2 lam:T) : T :=
  odiv K (omul K lam lam) (oadd K (omul K (omul K gtwo gtwo) pi2) (omul K lam lam)).
Definition gfn2_of (Td xi2:T) : T :=
  odiv K (omul K (odiv K (o1 K) Td) (odiv K (o1 K) Td)) (osub K (o1 K) xi2).
End Fit.
Arguments natK {T} K k. Arguments sumK {T} K l. Arguments gslope {T} K delta. Arguments gtwo {T} K.
Arguments glam_of {T} K sd inv_tau delta. Arguments gxi2_of {T} K pi2 lam. Arguments gfn2_of {T} K Td xi2.
Definition slope := gslope QcOps.
Definition lam_of := glam_of QcOps.
Definition xi2_of := gxi2_of QcOps.
Definition fn2_of := gfn2_of QcOps.

(* the whole pipeline after the SVD, with the inverse FFT as an oracle (ifft_re = real part of the zero-padded
   orthonormal inverse transform) *)
Definition efdd_after_svd (ifft_re : list QcC -> list Qc) (bell:list QcC) (tlag:Qc) (sppk npmax:nat) : res decay :=
  efdd_time (ifft_re bell) tlag sppk npmax.

(* ------------------------------------------------------------------------------------------------------------
   compact readers for generated case files: a float is (mantissa, binary exponent), lists are flat lists of Z
   (hexadecimal numerals elaborate several times faster than decimal fractions) *)
Definition qd (m e:Z) : Qc :=
  Q2Qc (if Z.leb 0 e then inject_Z (m * 2 ^ e) else Qmake m (Z.to_pos (2 ^ (- e)))).
Fixpoint dec_q (l:list Z) : list Qc :=
  match l with m :: l1 => match l1 with e :: r => qd m e :: dec_q r | [] => [] end | [] => [] end.
Fixpoint dec_c (l:list Z) : list QcC :=
  match l with
  | a :: l1 => match l1 with
     | b :: l2 => match l2 with
        | c :: l3 => match l3 with d :: r => (qd a b, qd c d) :: dec_c r | [] => [] end
        | [] => [] end
     | [] => [] end
  | [] => []
  end.
Fixpoint chunk {A} (fuel k:nat) (l:list A) : list (list A) :=
  match fuel with
  | O => []
  | S f => match l with [] => [] | _ => firstn k l :: chunk f k (skipn k l) end
  end.
(* one line = Sy (n*n complex, row-major) ++ sigma (cm reals) ++ S_vec rows (cm*n complex) *)
Definition dec_line (n cm:nat) (zs:list Z) : line_data :=
  let a := (4 * n * n)%nat in let b := (2 * cm)%nat in
  (chunk n n (dec_c (firstn a zs)), dec_q (firstn b (skipn a zs)), chunk cm n (dec_c (skipn (a + b) zs))).
Definition dec_lines (n cm:nat) (zs:list Z) : list line_data :=
  let w := (4 * n * n + 2 * cm + 4 * cm * n)%nat in
  map (dec_line n cm) (chunk (List.length zs) w zs).
Definition sdof_bell_z (m:meth) (n cm Nf:nat) (h f DF:Qc) (phi:list Z) (lim:Qc) (lo0:nat) (zs:list Z) :=
  sdof_bell_l m n cm Nf h f DF (dec_c phi) lim lo0 (dec_lines n cm zs).
Definition efdd_time_z (zs:list Z) (tlag:Qc) (sppk npmax:nat) := efdd_time (dec_q zs) tlag sppk npmax.

(* ------------------------------------------------------------------------------------------------------------
   printers *)
Open Scope string_scope.
Definition showErr (e:err) : string := match e with ValueErr => "E:Value" | IndexErr => "E:Index" | NoModel => "E:NoModel" end.
Definition showBell (r:res (nat*nat*list QcC)) : string :=
  match r with
  | Err e => showErr e
  | Ok (lo, hi, b) => showN lo ++ "|" ++ showN hi ++ "|" ++ showCRow b
  end.
Definition showDecay (r:res decay) : string :=
  match r with
  | Err e => showErr e
  | Ok d => showL showN " " (d_idx d) ++ "|" ++ showRow (d_ratio d) ++ "|" ++ showQc (d_Td d)
  end.
(* lam | xi^2 | fn^2 from the witness logarithms *)
Definition showFit (sd:sdmeth) (inv_tau pi2 Td:Qc) (delta:list Qc) : string :=
  let lam := lam_of sd inv_tau delta in let xi2 := xi2_of pi2 lam in
  showQc lam ++ "|" ++ showQc xi2 ++ "|" ++ showQc (fn2_of Td xi2).

(* ------------------------------------------------------------------------------------------------------------
   concrete instances used by the Examples of Properties/C07.v *)
Definition ex_Ur (i j:nat) : Qc := nth j (nth i [[q 3 5; q (-4) 5]; [q 4 5; q 3 5]] []) (q 0 1).
Definition ex_cos (j:nat) : Qc := nth (j mod 6) [q 1 1; q 1 2; q (-1) 2; q (-1) 1; q (-1) 2; q 1 2] (q 0 1).
Fixpoint ex_pow (j:nat) : Qc := match j with O => q 1 1 | S k => (q 9 10 * ex_pow k)%Qc end.
Definition ex_corr : list Qc := map (fun j => (ex_pow j * ex_cos j)%Qc) (seq 0 48).
