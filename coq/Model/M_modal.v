(* C01 - model of pyoma2.functions.ssi.ac2mp (split at eig / log / sqrt) and of the pole-table assembly of
   ssi.SSI_poles.  Definitions only.

   ac2mp(A, C, dt):   lam_d, psi = eig(A)                       (kernel: eigen-pairs are ARGUMENTS, see eig_cert)
                      lam_c = log(lam_d) / dt                    (kernel: complex logarithm, argument [clog])
                      fn = |lam_c| / (2 pi) ; xi = - Re lam_c / |lam_c|      (kernel: sqrt, constant 2 pi)
                      phi = C psi, each column divided by its component of largest modulus (first index on ties)
   SSI_poles: for order ii = 1..ordmax the ii values of ac2mp(A[ii], C[ii]) go to rows 0..ii-1 of column ii of the
   tables; every other cell (column 0, rows >= ii) is NaN.                                                          *)
From Coq Require Import List Arith Lia Bool.
From PyOMA.Base Require Import Carrier Cplx.
Import ListNotations.

Section Modal.
Variable R:Type. Variable K:Ops R.
Local Open Scope K_scope.
Notation "0" := (o0 K) : K_scope. Notation "1" := (o1 K) : K_scope.
Infix "+" := (oadd K) : K_scope. Infix "*" := (omul K) : K_scope. Infix "-" := (osub K) : K_scope.
Notation "- x" := (oopp K x) : K_scope. Infix "/" := (odiv K) : K_scope.
Variable leb : R -> R -> bool.     (* x <= y of the carrier, used on squared moduli only *)
Variable zerob : R -> bool.        (* exact test x = 0 *)

(* ---------- unity normalisation ---------- *)
(* np.argmax: first index of the maximum; a later entry replaces the current best only if strictly larger *)
Fixpoint argmax_from (best:nat) (bv:R) (i:nat) (l:list R) : nat :=
  match l with
  | [] => best
  | x::t => if leb x bv then argmax_from best bv (S i) t else argmax_from i x (S i) t
  end.
Definition argmax (l:list R) : nat := match l with [] => 0%nat | x::t => argmax_from 0 x 1 t end.
Definition amax_idx (phi:list (C R)) : nat := argmax (map (cnorm2 K) phi).
Definition unity_norm (phi:list (C R)) : list (C R) :=
  let d := nth (amax_idx phi) phi (c0 K) in map (fun z => cdiv K z d) phi.
(* 0/0 is NaN in NumPy: an all-zero shape has no normalised form *)
Definition unity_norm_nan (phi:list (C R)) : option (list (C R)) :=
  if zerob (cnorm2 K (nth (amax_idx phi) phi (c0 K))) then None else Some (unity_norm phi).
(* how decisive the argmax is: (largest squared modulus, largest squared modulus among the other indices) *)
Definition amax_margin (phi:list (C R)) : R * R :=
  let k := amax_idx phi in
  let ms := map (cnorm2 K) phi in
  (nth k ms 0, fold_right (fun x acc => if leb x acc then acc else x) 0 (firstn k ms ++ skipn (S k) ms)).

(* ---------- complex matrix-vector products with a real matrix (C . psi, A . psi) ---------- *)
Definition csum (l:list (C R)) : C R := fold_right (cadd K) (c0 K) l.
Definition rc_dot (row:list R) (v:list (C R)) : C R := csum (map (fun rv => cscal K (fst rv) (snd rv)) (combine row v)).
Definition rc_mv (M:list (list R)) (v:list (C R)) : list (C R) := map (fun row => rc_dot row v) M.
Definition ceqb (x y:C R) : bool := zerob (cre x - cre y) && zerob (cim x - cim y).
(* exact certificate that (lam, psi) is an eigen-pair of the real matrix A with psi <> 0 *)
Definition eig_cert (A:list (list R)) (lam:C R) (psi:list (C R)) : bool :=
  Nat.eqb (length A) (length psi) &&
  forallb (fun xy => ceqb (fst xy) (snd xy)) (combine (rc_mv A psi) (map (cmul K lam) psi)) &&
  negb (forallb (fun z => zerob (cnorm2 K z)) psi).

(* mode shape of one eigen-pair: C psi, unity normalised *)
Definition mode_shape (Cm:list (list R)) (psi:list (C R)) : option (list (C R)) := unity_norm_nan (rc_mv Cm psi).

(* ---------- MAC of two shapes without the division: MAC(u,v) = mac_num u v / mac_den u v ---------- *)
Definition cdotH (u v:list (C R)) : C R := csum (map (fun p => cmul K (cconj K (fst p)) (snd p)) (combine u v)).
Definition mac_num (u v:list (C R)) : R := cnorm2 K (cdotH u v).
Definition mac_den (u v:list (C R)) : R := cre (cdotH u u) * cre (cdotH v v).

(* ---------- the algebraic part of fn / xi, on both sides of the transcendental boundary ---------- *)
(* from the continuous-time pole lam_c (= log(lam_d)/dt, applied by the caller):  (2 pi fn)^2 , xi^2 , and Re lam_c
   (xi has the sign of - Re lam_c) *)
Definition mp_w2 (lam_c:C R) : R := cnorm2 K lam_c.
Definition mp_xi2 (lam_c:C R) : R := (cre lam_c * cre lam_c) / cnorm2 K lam_c.
(* the whole map with the kernels as arguments *)
Definition ac2mp_fn_xi (clog:C R -> C R) (sqrtf:R -> R) (twopi dt:R) (lam_d:C R) : R * R :=
  let lc := cscal K (1 / dt) (clog lam_d) in
  let m := sqrtf (cnorm2 K lc) in (m / twopi, (- cre lc) / m).

(* ---------- pole table of SSI_poles: [row][column], column = model order, ordmax rows, ordmax+1 columns ---------- *)
Definition pole_table {X:Type} (ordmax:nat) (per_order:nat -> list X) : list (list (option X)) :=
  map (fun row => map (fun col => if Nat.eqb col 0 then None else nth_error (per_order col) row) (seq 0 (S ordmax)))
      (seq 0 ordmax).
Definition table_cell {X:Type} (T:list (list (option X))) (row col:nat) : option X :=
  match nth_error T row with Some r => match nth_error r col with Some c => c | None => None end | None => None end.
Definition col_nan_count {X:Type} (T:list (list (option X))) (col:nat) : nat :=
  length (filter (fun r => match nth_error r col with Some (Some _) => false | _ => true end) T).
End Modal.

Arguments argmax {R} leb l.
Arguments amax_idx {R} K leb phi.
Arguments unity_norm {R} K leb phi.
Arguments unity_norm_nan {R} K leb zerob phi.
Arguments amax_margin {R} K leb phi.
Arguments csum {R} K l.
Arguments rc_dot {R} K row v.
Arguments rc_mv {R} K M v.
Arguments ceqb {R} K zerob x y.
Arguments eig_cert {R} K zerob A lam psi.
Arguments mode_shape {R} K leb zerob Cm psi.
Arguments cdotH {R} K u v.
Arguments mac_num {R} K u v.
Arguments mac_den {R} K u v.
Arguments mp_w2 {R} K lam_c.
Arguments mp_xi2 {R} K lam_c.
Arguments ac2mp_fn_xi {R} K clog sqrtf twopi dt lam_d.

(* ---------- instance used by the correspondence check (Gaussian rationals) ---------- *)
From Coq Require Import QArith Qcanon String.
From PyOMA.Base Require Import Show.
Definition Qc_leb (x y:Qc) : bool := Qle_bool (this x) (this y).
Definition Qc_zb (x:Qc) : bool := Qc_eq_bool x (Q2Qc 0).
Definition showOC (o:option (list (Qc*Qc))) : string := match o with Some v => showCRow v | None => "nan"%string end.
(* one eigen-pair of ac2mp: "cert|shape|margin_best margin_second" *)
Definition show_mode (A Cm:list (list Qc)) (lam:Qc*Qc) (psi:list (Qc*Qc)) : string :=
  (showB (eig_cert QcOps Qc_zb A lam psi) ++ "|" ++ showOC (mode_shape QcOps Qc_leb Qc_zb Cm psi) ++ "|" ++
   (let m := amax_margin QcOps Qc_leb (rc_mv QcOps Cm psi) in showQc (fst m) ++ " " ++ showQc (snd m)))%string.
(* algebraic part after the log: "(2 pi fn)^2 xi^2 re" *)
Definition show_fx (lam_c:Qc*Qc) : string :=
  (showQc (mp_w2 QcOps lam_c) ++ " " ++ showQc (mp_xi2 QcOps lam_c) ++ " " ++ showQc (fst lam_c))%string.
(* NaN pattern of a pole table whose column ii holds (lens ii) values: rows of T/F joined by ';' (T = NaN) *)
Definition show_nanpat (ordmax:nat) (lens:list nat) : string :=
  showL (fun r => showL (fun c => showB (match c with None => true | Some _ => false end)) "" r) ";"
        (pole_table ordmax (fun ii => repeat tt (nth ii lens 0%nat))).
