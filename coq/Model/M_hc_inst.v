(* C09 - the hard criteria with the indicators INSTANTIATED by the executable models of gen.MPC / gen.MPD
   (Model/M_indicators.v, property C18), the damping read off the eigenvalue as ac2mp does, and the restriction of a
   table set to an arbitrary list of order columns.  Definitions only.

   - a mode shape as the pole tables hold it is a list of optional Gaussian rationals (None = nan);
     [mpc_inst] = gen.MPC as HC_phi_comp sees it: None when an entry is nan (np.cov gives nan, eigvals raises), when
     the trace of the covariance matrix is 0 (0/0) or when there is one channel only (ddof = 1: division by 0);
     [mpd_inst] = gen.MPD: np.linalg.svd is an external kernel [sv2] (the second right-singular vector of
     [Re phi, Im phi]), sqrt and arccos are external functions; None when an entry is nan (svd raises) or when no
     component has a non-zero modulus (0/0).
   - [xi_of absf z] = ac2mp's  xi = -(Re lam / abs(lam))  with abs an external function; None = 0/0 or x/0.
   - [sel_ssi sel s] = the table set whose column j is column (nth j sel) of s: the tables as they are for orders
     sel = [0; step; 2*step; ...] or for any other labelling of the order axis (gaps, permutations, repetitions).   *)
From Coq Require Import List Arith ZArith QArith Qcanon Bool.
From PyOMA.Base Require Import Carrier Cplx Argmin.
From PyOMA.Model Require Import M_indicators M_hc.
Import ListNotations.
Open Scope Q_scope.

(* ---------------- shapes ---------------- *)
Definition shape := list (option QcCplx).
Fixpoint all_some {A} (v:list (option A)) : option (list A) :=
  match v with
  | [] => Some []
  | Some x :: r => match all_some r with Some l => Some (x :: l) | None => None end
  | None :: _ => None
  end.
Definition cj (z:QcCplx) : QcCplx := cconj QcOps z.
Definition conj_shape (v:shape) : shape := map (option_map cj) v.

(* ---------------- gen.MPC, gen.MPD on a table cell ---------------- *)
Definition mpc_inst (v:shape) : option Q :=
  match all_some v with Some x => option_map this (mpc_l x) | None => None end.

Section Kern.
Variable sv2 : list QcCplx -> Qc * Qc.      (* np.linalg.svd([Re phi, Im phi]): (V[0,1], V[1,1]) *)
Variable sqrtf acosf : Qc -> Qc.            (* np.sqrt, np.arccos *)
Definition mpd_terms_inst (v:shape) : option (list (Qc*Qc)) :=
  match all_some v with Some x => Some (mpd_terms_l x (fst (sv2 x)) (snd (sv2 x))) | None => None end.
Definition mpd_inst (v:shape) : option Q :=
  match mpd_terms_inst v with
  | Some [] => None
  | Some t => Some (this (mpd_val QcOps sqrtf acosf t))
  | None => None
  end.
End Kern.

(* the terms for a supplied singular vector (what the harness evaluates: the vector comes from NumPy) *)
Definition mpd_terms_at (v:shape) (v0 v1:Qc) : option (list (Qc*Qc)) := mpd_terms_inst (fun _ => (v0, v1)) v.

(* ---------------- ac2mp: damping ratio of a continuous-time eigenvalue ---------------- *)
Definition xi_of (absf:cplx -> Q) (z:cplx) : option Q :=
  if Qeq_bool (absf z) 0 then None else Some (- (fst z / absf z)).
Definition oqeq (a b:option Q) : Prop :=
  match a, b with Some x, Some y => x == y | None, None => True | _, _ => False end.

(* ---------------- the structure of the unfiltered tables (SSI_poles / pLSCF_poles) ----------------
   Xi is the damping of Lambds, cell by cell *)
Definition xi_table (absf:cplx -> Q) (L:tbl cplx) (X:tbl Q) : Prop :=
  forall i o z, cell L i o = Some z -> oqeq (cell X i o) (xi_of absf z).
(* cell (i',o') is the mirror image of cell (i,o): conjugate eigenvalue, conjugate shape *)
Definition mirror_cell (L:tbl cplx) (P:tbl3 QcCplx) (i o i' o':nat) : Prop :=
  exists z z' v, cell L i o = Some z /\ cell L i' o' = Some z' /\ ceq z' (cconjq z)
                 /\ vget P i o = Some v /\ vget P i' o' = Some (conj_shape v).
(* every pole whose conjugate occurs in the eigenvalue table has a mirror image in the tables (the eigenvectors of a
   real matrix for conjugate eigenvalues are conjugate; a real eigenvalue has a real shape and mirrors itself), with the
   same frequency covariance when covariances are computed *)
Definition mirror_ssi {EC} (s:ssi_tabs QcCplx EC) : Prop :=
  forall i o, has_conj (sLam s) i o ->
  exists i' o', mirror_cell (sLam s) (sPhi s) i o i' o'
                /\ (forall F, sFnC s = Some F -> oqeq (cell F i' o') (cell F i o)).
Definition mirror_pl (s:pl_tabs QcCplx) : Prop :=
  forall i o, has_conj (pLam s) i o -> exists i' o', mirror_cell (pLam s) (pPhi s) i o i' o'.

(* boolean forms, evaluated by the harness on the unfiltered tables of every run *)
Definition oqeqb (a b:option Q) : bool :=
  match a, b with Some x, Some y => Qeq_bool x y | None, None => true | _, _ => false end.
Definition qc_eqb (a b:Qc) : bool := Qeq_bool (this a) (this b).
Definition cqc_eqb (a b:QcCplx) : bool := qc_eqb (fst a) (fst b) && qc_eqb (snd a) (snd b).
Definition ocqc_eqb (a b:option QcCplx) : bool :=
  match a, b with Some x, Some y => cqc_eqb x y | None, None => true | _, _ => false end.
Fixpoint shape_eqb (a b:shape) : bool :=
  match a, b with
  | [], [] => true
  | x :: r, y :: r' => ocqc_eqb x y && shape_eqb r r'
  | _, _ => false
  end.
Definition idx (nr nc:nat) : list (nat*nat) := flat_map (fun i => map (fun o => (i, o)) (seq 0 nc)) (seq 0 nr).
Definition mirror_cellb (L:tbl cplx) (P:tbl3 QcCplx) (F:option (tbl Q)) (i o i' o':nat) : bool :=
  match cell L i o, cell L i' o', vget P i o, vget P i' o' with
  | Some z, Some z', Some v, Some v' =>
      if ceqb z' (cconjq z)
      then (if shape_eqb v' (conj_shape v)
            then match F with Some f => oqeqb (cell f i' o') (cell f i o) | None => true end
            else false)
      else false
  | _, _, _, _ => false
  end.
Definition mirrorb (nr nc:nat) (L:tbl cplx) (P:tbl3 QcCplx) (F:option (tbl Q)) : bool :=
  forallb (fun io => negb (conj_okb (elems L) (cell L (fst io) (snd io)))
                     || existsb (fun io' => mirror_cellb L P F (fst io) (snd io) (fst io') (snd io')) (idx nr nc))
          (idx nr nc).

(* ---------------- the order axis: a table set restricted / relabelled to the columns [sel] ---------------- *)
Definition sel_cols {A} (d:A) (sel:list nat) (t:list (list A)) : list (list A) :=
  map (fun r => map (fun n => nth n r d) sel) t.
Definition sel_ssi {E EC} (sel:list nat) (s:ssi_tabs E EC) : ssi_tabs E EC :=
  {| sFn := sel_cols None sel (sFn s); sXi := sel_cols None sel (sXi s); sPhi := sel_cols [] sel (sPhi s);
     sLam := sel_cols None sel (sLam s); sFnC := option_map (sel_cols None sel) (sFnC s);
     sXiC := option_map (sel_cols None sel) (sXiC s); sPhiC := option_map (sel_cols [] sel) (sPhiC s) |}.
Definition sel_pl {E} (sel:list nat) (s:pl_tabs E) : pl_tabs E :=
  {| pFn := sel_cols None sel (pFn s); pXi := sel_cols None sel (pXi s); pPhi := sel_cols [] sel (pPhi s);
     pLam := sel_cols None sel (pLam s) |}.
(* the selected orders are columns of the mode-shape table *)
Definition cols_ok {A} (sel:list nat) (t:list (list A)) : Prop :=
  forall r n, In r t -> In n sel -> (n < length r)%nat.
Definition cols_okb {A} (sel:list nat) (t:list (list A)) : bool :=
  forallb (fun r => forallb (fun n => Nat.ltb n (length r)) sel) t.
(* the conjugate criterion read inside the restricted table; everything else read on the full table at order n *)
Definition ssi_keep_sel {E EC} (mpc mpd:list (option E) -> option Q) (h:hcrit) (sel:list nat) (s:ssi_tabs E EC) (i j n:nat) : Prop :=
  (hc_conj_on h = true -> has_conj (sel_cols None sel (sLam s)) i j) /\ ssi_other E EC mpc mpd h s i n.
Definition pl_keep_sel {E} (mpc mpd:list (option E) -> option Q) (h:hcrit) (sel:list nat) (s:pl_tabs E) (i j n:nat) : Prop :=
  (hc_conj_on h = true -> has_conj (sel_cols None sel (pLam s)) i j) /\ pl_other E mpc mpd h s i n.
(* conjugates sit in the column of their pole (one eig call per order) *)
Definition conj_local (L:tbl cplx) : Prop :=
  forall i o, has_conj L i o -> exists z i' z', cell L i o = Some z /\ cell L i' o = Some z' /\ ceq z' (cconjq z).

(* every defined eigenvalue cell lies inside nr x nc, and the mirror-image structure holds (boolean form of mirror_ssi) *)
Definition boundb {A} (nr nc:nat) (t:list (list A)) : bool := Nat.leb (length t) nr && forallb (fun r => Nat.leb (length r) nc) t.
Definition mirror_ssib {EC} (nr nc:nat) (s:ssi_tabs QcCplx EC) : bool :=
  boundb nr nc (sLam s) && mirrorb nr nc (sLam s) (sPhi s) (sFnC s).
Definition mirror_plb (nr nc:nat) (s:pl_tabs QcCplx) : bool :=
  boundb nr nc (pLam s) && mirrorb nr nc (pLam s) (pPhi s) None.

(* "the cell c of the returned table is Some v iff the cell c0 of the unfiltered table was Some v and K holds" *)
Definition cell_spec {A} (K:Prop) (c0 c:option A) : Prop := forall v, c = Some v <-> c0 = Some v /\ K.
Definition ocell_spec {A} (K:Prop) (t0 t:option (tbl A)) (i n j:nat) : Prop :=
  match t0, t with Some a, Some b => cell_spec K (cell a i n) (cell b i j) | None, None => True | _, _ => False end.
Definition ocell3_spec {X} (K:Prop) (t0 t:option (tbl3 X)) (i n j:nat) : Prop :=
  match t0, t with Some a, Some b => forall k, cell_spec K (cell3 a i n k) (cell3 b i j k) | None, None => True | _, _ => False end.

(* ---------------- printers / entry points for the harness ---------------- *)
From Coq Require Import String.
From PyOMA.Base Require Import Show.
Open Scope string_scope.
Definition showOT (t:option (list (Qc*Qc))) : string := match t with Some l => showTerms l | None => "nan" end.
Definition showOQ' (o:option Q) : string := showO showQ o.
(* whole run on the columns sel of the full tables: tokens for the shapes are those of the FULL table *)
Definition eval_ssi_sel (nch:nat) (mpcv mpdv:list (option Q)) (h:hcrit) (sel:list nat) (s:ssi_tabs nat nat) : string :=
  show_ssi (wf_ssi nat nat s && cols_okb sel (sPhi s))
           (run_ssi nat nat (tok_ind nch mpcv) (tok_ind nch mpdv) h (sel_ssi sel s)).
Definition eval_pl_sel (nch:nat) (mpcv mpdv:list (option Q)) (h:hcrit) (sel:list nat) (s:pl_tabs nat) : string :=
  show_pl (wf_pl nat s && cols_okb sel (pPhi s))
          (run_pl nat (tok_ind nch mpcv) (tok_ind nch mpdv) h (sel_pl sel s)).
