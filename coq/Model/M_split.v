(* C03 - model of pyoma2.functions.gen.pre_multisetup (reference / roving channel partition of every setup).
   Definitions only.
   A dataset is (n, y): n = y.shape[1] channels, y = list of samples, each a list of n values (samples x channels,
   as the code receives it).  The result of one setup is (ref, mov), both channels x samples.
   Python exceptions are results: ValueError (list.remove(x): x not in list - a repeated, negative or out-of-range
   reference index; reshape(0,-1) of an empty array - no reference or no roving channel), IndexError (fewer
   reference lists than datasets).                                                                               *)
From Coq Require Import List Arith ZArith Lia Bool.
From PyOMA.Base Require Import Carrier.
Import ListNotations.

(* list.remove(x): removes the first occurrence; None = ValueError *)
Fixpoint remove1 (x:nat) (l:list nat) : option (list nat) :=
  match l with
  | [] => None
  | y::t => if Nat.eqb x y then Some t else option_map (cons y) (remove1 x t)
  end.
(* for ii in range(n_ref): mov_id.remove(ref_id[ii]) *)
Fixpoint remove_all (refs:list nat) (l:list nat) : option (list nat) :=
  match refs with
  | [] => Some l
  | r::rs => match remove1 r l with None => None | Some l' => remove_all rs l' end
  end.

Inductive split_res (A:Type) := SplitOk (v:A) | SplitValueErr | SplitIndexErr.
Arguments SplitOk {A} v. Arguments SplitValueErr {A}. Arguments SplitIndexErr {A}.

Section Split.
Variable R:Type. Variable K:Ops R.

(* y[:, c] : the record of channel c *)
Definition chan (y:list (list R)) (c:nat) : list R := map (fun row => nth c row (o0 K)) y.
(* np.array(y[:, ids]).T.reshape(len(ids), -1) : one row per listed channel, in the listed order *)
Definition take_cols (y:list (list R)) (ids:list nat) : list (list R) := map (chan y) ids.

Definition split_one (n:nat) (y:list (list R)) (refs:list Z) : split_res (list (list R) * list (list R)) :=
  if existsb (fun z => Z.ltb z 0) refs then SplitValueErr      (* a negative index is never in range(n_sens) *)
  else
    let rn := map Z.to_nat refs in
    match remove_all rn (seq 0 n) with
    | None => SplitValueErr
    | Some mov =>
      if Nat.eqb (length rn) 0 || Nat.eqb (length mov) 0 then SplitValueErr
      else SplitOk (take_cols y rn, take_cols y mov)
    end.

Fixpoint pre_multisetup (data:list (nat * list (list R))) (refl:list (list Z))
  : split_res (list (list (list R) * list (list R))) :=
  match data with
  | [] => SplitOk []
  | (n,y)::ds =>
    match refl with
    | [] => SplitIndexErr
    | r::rs =>
      match split_one n y r with
      | SplitOk s => match pre_multisetup ds rs with
                     | SplitOk l => SplitOk (s::l)
                     | SplitValueErr => SplitValueErr
                     | SplitIndexErr => SplitIndexErr
                     end
      | SplitValueErr => SplitValueErr
      | SplitIndexErr => SplitIndexErr
      end
    end
  end.

(* the declarative partition the property describes: references in the listed order, the others ascending *)
Definition roving_of (n:nat) (refl:list nat) : list nat :=
  filter (fun c => negb (existsb (Nat.eqb c) refl)) (seq 0 n).
End Split.

Arguments chan {R} K y c. Arguments take_cols {R} K y ids.
Arguments split_one {R} K n y refs. Arguments pre_multisetup {R} K data refl.

(* printers used by the correspondence check *)
From Coq Require Import String Qcanon.
From PyOMA.Base Require Import Show.
Local Open Scope string_scope.
Definition showSplit1 (s:list (list Qc) * list (list Qc)) : string := showMat (fst s) ++ "|" ++ showMat (snd s).
Definition showSplit (r:split_res (list (list (list Qc) * list (list Qc)))) : string :=
  match r with
  | SplitOk l => "Ok#" ++ showL showSplit1 "#" l
  | SplitValueErr => "ValueError"
  | SplitIndexErr => "IndexError"
  end.
