(* C07 - which singular value decomposition?  Definitions only (theorems: Proofs/P_efdd_svd.v).

   numpy.linalg.svd returns ONE of the many triples (U, S, V) meeting its contract (Model/M_efdd.v svd_ok: A = U diag(S) V^H,
   U^H U = I, V^H V = I; numpy also promises S non-negative and non-increasing).  fdd.SD_svalsvec keeps S and S_vec = U^H, and
   fdd.SDOF_bellandMS reads S_vec[c,:,l] = conj (column c of U) through MAC(phi, .) only.  This file names
     - the freedom that is always there: column k of U and of V multiplied by a number t k of modulus 1 (rephase_cols), seen on
       the stored vector as a factor on every entry (rephase_vec);
     - the part of numpy's promise on the values the proofs use: non-negative with the first a maximum (sv_first_max), the
       hypothesis of the property's input: the first value positive and strictly above all others (sv_first_gap), and both
       together for two decompositions of one spectral line (line_ok);
     - the executable list-level bell with the stored vectors of every line multiplied by given unit-modulus numbers
       (sdof_bell_zt): what the implementation computes when the decomposition routine answers with U diag(t), V diag(t);
     - the spectral matrix of the property's input with a complex shape, s phi phi^H + eps I (r1c_Sy). *)
From Coq Require Import List Arith ZArith QArith Qcanon Bool String.
From PyOMA.Base Require Import Carrier Cplx Show.
From PyOMA.Model Require Import M_efdd.
Import ListNotations.

Section SvdChoice.
Variable R:Type. Variable K:Ops R.

Definition rephase_cols (t:nat -> C R) (U:cmat R) : cmat R := fun i k => cmul K (U i k) (t k).
Definition rephase_vec (t:C R) (v:cvec R) : cvec R := fun i => cmul K (v i) t.
Definition unit_mod (t:C R) : Prop := cnorm2 K t = o1 K.

Variable ltb : R -> R -> bool.            (* x < y on the carrier *)
Definition sv_first_max (n:nat) (S:nat -> R) : Prop :=
  forall j, (j < n)%nat -> ltb (S j) (o0 K) = false /\ ltb (S 0%nat) (S j) = false.
Definition sv_first_gap (n:nat) (S:nat -> R) : Prop :=
  ltb (o0 K) (S 0%nat) = true /\ forall j, (0 < j < n)%nat -> ltb (S j) (S 0%nat) = true.

(* what is asked of one spectral line: both triples meet the contract, both value lists are non-negative with the first a
   maximum (numpy), and in ONE of them the first value is positive and strictly above the others (the property's input) *)
Definition line_ok (n:nat) (A U V:cmat R) (S:nat -> R) (U2 V2:cmat R) (S2:nat -> R) : Prop :=
  svd_ok K n A U V S /\ svd_ok K n A U2 V2 S2 /\
  sv_first_max n S /\ sv_first_max n S2 /\ sv_first_gap n S.

(* s phi phi^H + eps I, phi complex *)
Definition r1c_Sy (phi:cvec R) (s eps:R) : cmat R :=
  fun i j => cadd K (cscal K s (cmul K (phi i) (cconj K (phi j)))) (if Nat.eqb i j then cofR K eps else c0 K).
End SvdChoice.

Arguments rephase_cols {R} K t U. Arguments rephase_vec {R} K t v. Arguments unit_mod {R} K t.
Arguments sv_first_max {R} K ltb n S. Arguments sv_first_gap {R} K ltb n S.
Arguments line_ok {R} K ltb n A U V S U2 V2 S2. Arguments r1c_Sy {R} K phi s eps.

(* x < y at Qc, through the comparison the bell model already uses *)
Definition Qcltb (x y:Qc) : bool := Qcgtb y x.

(* the stored vectors S_vec[c,:,l] of one line multiplied by ts[c] (1 where ts is too short) *)
Definition ld_rephase (ts:list QcC) (d:line_data) : line_data :=
  (fst (fst d), snd (fst d),
   map (fun c => map (fun z => cmul QcOps z (nth c ts (c1 QcOps))) (nth c (snd d) [])) (seq 0 (List.length (snd d)))).

Definition sdof_bell_lt (m:meth) (n cm Nf:nat) (h f DF:Qc) (phi:list QcC) (lim:Qc) (lo0:nat) (ts:list QcC) (lines:list line_data) :=
  sdof_bell_l m n cm Nf h f DF phi lim lo0 (map (ld_rephase ts) lines).
Definition sdof_bell_zt (m:meth) (n cm Nf:nat) (h f DF:Qc) (phi:list Z) (lim:Qc) (lo0:nat) (ts:list Z) (zs:list Z) :=
  sdof_bell_lt m n cm Nf h f DF (dec_c phi) lim lo0 (dec_c ts) (dec_lines n cm zs).

(* ------------------------------------------------------------------------------------------------------------
   concrete instance for the Examples of Properties/C07.v: the 3-4-5 rotation of M_efdd.ex_Ur, Sy = 2 phi phi^T + I/100 with
   phi = (3,4); second decomposition: columns multiplied by (3+4i)/5 and (5-12i)/13 *)
Definition ex_t (k:nat) : QcC := nth k [(q 3 5, q 4 5); (q 5 13, q (-12) 13)] (c1 QcOps).
Definition ex_Sy : cmat Qc :=
  fun i j => cofR QcOps (nth j (nth i [[q 1801 100; q 24 1]; [q 24 1; q 3201 100]] []) (q 0 1)).
Definition ex_S (k:nat) : Qc := nth k [q 5001 100; q 1 100] (q 0 1).
Definition ex_U1 : cmat Qc := fun i k => cofR QcOps (ex_Ur i k).
Definition ex_U2 : cmat Qc := rephase_cols QcOps ex_t ex_U1.
