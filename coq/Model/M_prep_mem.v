(* C14 - MEMORY layer over the preprocessing model M_prep.v: which array BUFFERS the setup's fields, the user and the
   algorithms hold, which of them every call reads, allocates, writes in place, stores or hands over.  Definitions only.

   What the code does (setup/single.py, setup/multi.py, setup/base.py, algorithms/base.py, functions/gen.py):
     __init__            self.data = data / self.datasets = datasets       ALIAS of the user's arrays
                         self._initial_data(sets) = copy.deepcopy(...)      fresh buffers, same content and dtype
                         PreGER: self.data = pre_multisetup(...)            fresh buffers (fancy indexing + np.array copy)
     decimate_data       scipy.signal.decimate -> a (strided view of a) fresh buffer per dataset
     filter_data         sosfiltfilt -> a fresh buffer per dataset
     detrend_data        scipy.signal.detrend -> a fresh buffer per dataset.  BaseSetup._detrend_data drops the keyword
                         overwrite_data before calling SciPy (repo commit f6a83e1), so the result is ALWAYS a fresh buffer.
                         Model parameter [ow] = true describes the code BEFORE that commit, where the keyword reached SciPy:
                         with overwrite_data truthy, a linear trend type and a floating dtype (d, f, D, F) SciPy subtracts
                         the trend IN the buffer it was given and returns a view of it.  [ow] = false is the present code.
     rollback            self.data(sets) = self._initial_data(sets)         the SAME buffers that were the stored copy
                         then _initialize_data(...) stores a NEW deepcopy of them as the stored copy
     add_algorithms      alg.data = self.data                               ALIAS (SingleSetup: the current data buffer itself;
                                                                            PreGER: the ref/mov buffers of the current split)
   A buffer is identified by a natural number; a view (strided decimation result, the array returned by an in-place
   detrend) is identified with the buffer it lives in: two arrays share memory iff they have the same buffer id.
   The CONTENT of a buffer is a M_prep view (a symbolic SciPy term; for PreGER data the ref/mov split of one): contents are
   computed from what is READ from the heap, never from the term-level state, so that agreement with M_prep is a theorem
   (P_prep_mem.mem_coherent), not a definition.  The two arrays {"ref","mov"} of one dataset are created together, handed
   over together and never written: they are one allocation unit.
   Assumptions of the layer: the user's arrays are distinct, non-overlapping, writable buffers; a call that raises has no
   memory effect. *)
From Coq Require Import List ZArith QArith Qcanon String Bool Arith PArith.
From PyOMA.Base Require Import Show.
From PyOMA.Model Require Import M_prep.
Import ListNotations.
Local Open Scope string_scope.
Local Open Scope nat_scope.

(* ---------------------------------------------------------------- buffers and heaps -------------------------- *)
Record buf := { bc : view;      (* what the buffer holds *)
                bfl : bool }.   (* its dtype is one of d, f, D, F (the dtypes scipy.signal.detrend works on in place) *)
Definition heap := nat -> buf.
Definition vterm (v:view) : term := match v with Whole t => t | Split t _ _ => t end.
Definition bterm (b:buf) : term := vterm (bc b).
Definition no_buf : buf := {| bc := Whole (Init 0 0 0); bfl := false |}.   (* never read: every id in use is below [nx] *)
(* fresh buffers bs at ids n, n+1, ... *)
Definition halloc (h:heap) (n:nat) (bs:list buf) : heap :=
  fun j => if Nat.leb n j && Nat.ltb j (n + List.length bs) then nth (j - n) bs no_buf else h j.
(* in-place update of the buffers ids *)
Definition hupd (h:heap) (ids:list nat) (f:buf -> buf) : heap :=
  fun j => if existsb (Nat.eqb j) ids then f (h j) else h j.

Record effect := { e_reads : list nat; e_allocs : list nat; e_writes : list nat }.

Record mem := {
  hp : heap; nx : nat;            (* ids below nx are allocated *)
  m_user : list nat;              (* the arrays the user passed to the constructor *)
  m_init : list nat;              (* _initial_data / _initial_datasets *)
  m_cur : list nat;               (* data (SingleSetup) / datasets (PreGER) *)
  m_data : list nat;              (* what add_algorithms hands over: SingleSetup = m_cur; PreGER = the ref/mov buffers *)
  m_bound : list (nat * list nat);(* algorithm instance -> the buffers it holds, oldest binding first *)
  m_log : list effect             (* one entry per successful call, oldest first *)
}.
Record mstate := { st : state; mm : mem }.

(* ---------------------------------------------------------------- keywords that decide in-place operation ---- *)
Definition kw_get (k:string) (kw:kwargs) : option kwval :=
  match find (fun p => String.eqb (fst p) k) kw with Some p => Some (snd p) | None => None end.
Definition truthy (v:kwval) : bool :=
  match v with VNone => false | VInt z => negb (Z.eqb z 0) | VBool b => b | VStr s => negb (String.eqb s "")
             | VInts l => match l with [] => false | _ => true end end.
Definition kw_overwrite (kw:kwargs) : bool := match kw_get "overwrite_data" kw with Some v => truthy v | None => false end.
Definition kw_linear (kw:kwargs) : bool :=
  match kw_get "type" kw with None => true | Some (VStr s) => String.eqb s "linear" || String.eqb s "l" | Some _ => false end.
Definition det_inplace (kw:kwargs) (b:buf) : bool := kw_overwrite kw && kw_linear kw && bfl b.

(* ---------------------------------------------------------------- the loop over the current arrays ----------- *)
(* "for data in datasets: new = f(data)": one result slot per dataset at nx, nx+1, ...; where [ip] holds of the buffer
   read, the result is instead written back into that buffer (the slot is the temporary SciPy drops) *)
Definition oc_writes (ip:buf -> bool) (m:mem) : list nat := filter (fun i => ip (hp m i)) (m_cur m).
Definition oc_heap (f:term -> term) (ip:buf -> bool) (m:mem) : heap :=
  halloc (hupd (hp m) (oc_writes ip m) (fun b => {| bc := Whole (f (bterm b)); bfl := bfl b |}))
         (nx m) (map (fun i => {| bc := Whole (f (bterm (hp m i))); bfl := true |}) (m_cur m)).
Definition oc_next (m:mem) : nat := nx m + List.length (m_cur m).
Definition oc_cur (ip:buf -> bool) (m:mem) : list nat :=
  map (fun p => if ip (hp m (fst p)) then fst p else snd p) (combine (m_cur m) (seq (nx m) (List.length (m_cur m)))).

(* pre_multisetup on the arrays cur_ids (column lists taken from the term-level views vs): fresh buffers; SingleSetup
   hands over the current array itself *)
Definition resplit (t:term) (v:view) : view := match v with Whole _ => Whole t | Split _ r m => Split t r m end.
Definition md_bufs (h:heap) (cur_ids:list nat) (vs:list view) : list buf :=
  map (fun p => {| bc := resplit (bterm (h (fst p))) (snd p); bfl := bfl (h (fst p)) |}) (combine cur_ids vs).
Definition md_heap (sg:bool) (h:heap) (n:nat) (cur_ids:list nat) (vs:list view) : heap :=
  if sg then h else halloc h n (md_bufs h cur_ids vs).
Definition md_next (sg:bool) (h:heap) (n:nat) (cur_ids:list nat) (vs:list view) : nat :=
  if sg then n else n + List.length (md_bufs h cur_ids vs).
Definition md_ids (sg:bool) (h:heap) (n:nat) (cur_ids:list nat) (vs:list view) : list nat :=
  if sg then cur_ids else seq n (List.length (md_bufs h cur_ids vs)).

Definition upd_cur (sg:bool) (m:mem) (s':state) (f:term -> term) (ip:buf -> bool) : mem :=
  let h2 := oc_heap f ip m in let n2 := oc_next m in let c' := oc_cur ip m in
  let n3 := md_next sg h2 n2 c' (data s') in
  {| hp := md_heap sg h2 n2 c' (data s'); nx := n3;
     m_user := m_user m; m_init := m_init m; m_cur := c'; m_data := md_ids sg h2 n2 c' (data s'); m_bound := m_bound m;
     m_log := (m_log m ++ [{| e_reads := m_cur m ++ (if sg then [] else c'); e_allocs := seq (nx m) (n3 - nx m);
                              e_writes := oc_writes ip m |}])%list |}.

Definition mem_rollback (sg:bool) (m:mem) (s':state) : mem :=
  let old := m_init m in
  let h1 := halloc (hp m) (nx m) (map (hp m) old) in      (* deepcopy: same content, same dtype *)
  let n1 := nx m + List.length old in
  let n2 := md_next sg h1 n1 old (data s') in
  {| hp := md_heap sg h1 n1 old (data s'); nx := n2;
     m_user := m_user m; m_init := seq (nx m) (List.length old); m_cur := old; m_data := md_ids sg h1 n1 old (data s');
     m_bound := m_bound m;
     m_log := (m_log m ++ [{| e_reads := old; e_allocs := seq (nx m) (n2 - nx m); e_writes := [] |}])%list |}.

Definition mem_add (m:mem) (nm:nat) : mem :=
  {| hp := hp m; nx := nx m; m_user := m_user m; m_init := m_init m; m_cur := m_cur m; m_data := m_data m;
     m_bound := (m_bound m ++ [(nm, m_data m)])%list;
     m_log := (m_log m ++ [{| e_reads := []; e_allocs := []; e_writes := [] |}])%list |}.

(* s: the term-level state before the call, s': after it; ow: overwrite_data reaches SciPy (the code before f6a83e1) *)
Definition mem_step (ow sg:bool) (m:mem) (o:op) (s s':state) : mem :=
  match o with
  | Decimate q kw => upd_cur sg m s' (Dec q kw) (fun _ => false)
  | Detrend kw => upd_cur sg m s' (Det kw) (fun b => ow && det_inplace kw b)
  | Filter w ord bt => upd_cur sg m s' (Filt (fs s) w ord bt) (fun _ => false)
  | Rollback => mem_rollback sg m s'
  | AddAlg nm => mem_add m nm
  | ScipyRaises => m
  end.

Definition mstep (ow pc sg:bool) (ms:mstate) (o:op) : presult mstate :=
  match step pc sg (st ms) o with
  | PErr e => PErr e
  | POk s' => POk {| st := s'; mm := mem_step ow sg (mm ms) o (st ms) s' |}
  end.
Definition mrun (ow pc sg:bool) (ms0:mstate) (ops:list op) : presult mstate :=
  fold_left (fun r o => bindp r (fun ms => mstep ow pc sg ms o)) ops (POk ms0).

(* the constructor; fl k: the k-th array the user passes has a floating dtype *)
Definition tflag (fl:nat -> bool) (t:term) : bool := match t with Init k _ _ => fl k | _ => true end.
Definition minit (sg:bool) (fs0:Qc) (refs:list (list nat)) (ds:list term) (fl:nat -> bool) : presult mstate :=
  match init_state sg fs0 refs ds with
  | PErr e => PErr e
  | POk s0 =>
      let k := List.length ds in
      let user := seq 0 k in
      let h0 := halloc (fun _ => no_buf) 0 (map (fun t => {| bc := Whole t; bfl := tflag fl t |}) ds) in
      let h1 := halloc h0 k (map h0 user) in
      let n1 := k + List.length user in
      let n2 := md_next sg h1 n1 user (data s0) in
      POk {| st := s0;
             mm := {| hp := md_heap sg h1 n1 user (data s0); nx := n2; m_user := user; m_init := seq k (List.length user);
                      m_cur := user; m_data := md_ids sg h1 n1 user (data s0); m_bound := [];
                      m_log := [{| e_reads := user; e_allocs := seq 0 n2; e_writes := [] |}] |} |}
  end.

(* ---------------------------------------------------------------- specification-side vocabulary -------------- *)
Definition disjoint (a b:list nat) : Prop := forall i, In i a -> ~ In i b.
(* no detrend call of the history asks SciPy to work in place *)
Definition op_no_overwrite (o:op) : Prop := match o with Detrend kw => kw_overwrite kw = false | _ => True end.
(* what the algorithm instance nm holds: its most recent binding *)
Definition malg_lookup (nm:nat) (log:list (nat * list nat)) : option (list nat) :=
  match find (fun e => Nat.eqb (fst e) nm) (rev log) with Some e => Some (snd e) | None => None end.
Definition last_effect (m:mem) : effect := last (m_log m) {| e_reads := []; e_allocs := []; e_writes := [] |}.

(* ---------------------------------------------------------------- printers (read by harness/props/C14.py) ---- *)
(* a call that raises leaves the object as it was *)
Definition mstep_keep (ow pc sg:bool) (ms:mstate) (o:op) : mstate := match mstep ow pc sg ms o with POk ms' => ms' | PErr _ => ms end.
Fixpoint mtrace_keep (ow pc sg:bool) (ms:mstate) (ops:list op) : list mstate :=
  match ops with [] => [] | o :: r => let ms' := mstep_keep ow pc sg ms o in ms' :: mtrace_keep ow pc sg ms' r end.
Definition showIds (l:list nat) : string := showL showN " " l.
Definition showBuf (b:buf) : string :=
  (if bfl b then "f" else "i") ++
  match bc b with Whole t => "W " ++ showT t | Split t r m => "S r" ++ showL showN "," r ++ " m" ++ showL showN "," m ++ " " ++ showT t end.
Fixpoint dedup (l:list nat) : list nat :=
  match l with [] => [] | x :: r => if existsb (Nat.eqb x) r then dedup r else x :: dedup r end.
(* user ids|stored-copy ids|current ids|handed-over ids|algorithm:ids;...|writes of the last call|id=content;... of every id named *)
Definition showM (m:mem) : string :=
  let named := dedup (m_user m ++ m_init m ++ m_cur m ++ m_data m ++ flat_map snd (m_bound m)) in
  showIds (m_user m) ++ "|" ++ showIds (m_init m) ++ "|" ++ showIds (m_cur m) ++ "|" ++ showIds (m_data m) ++ "|"
  ++ join ";" (map (fun e => showN (fst e) ++ ":" ++ showIds (snd e)) (m_bound m)) ++ "|"
  ++ showIds (e_writes (last_effect m)) ++ "|" ++ showN (List.length (m_log m)) ++ "|"
  ++ join ";" (map (fun i => showN i ++ "=" ++ showBuf (hp m i)) named).
Definition showMemTrace (ow pc sg:bool) (fs0:Qc) (refs:list (list nat)) (shapes:list (nat * nat)) (fls:list bool) (ops:list op) : string :=
  match minit sg fs0 refs (inits shapes) (fun k => nth k fls true) with
  | PErr e => "E:" ++ showErr e
  | POk ms0 => join "~" (map (fun ms => showM (mm ms)) (ms0 :: mtrace_keep ow pc sg ms0 ops))
  end.
Definition showMemTraces (ow pc sg:bool) (fs0:Qc) (refs:list (list nat)) (shapes:list (nat * nat)) (fls:list bool) (hs:list (list op)) : string :=
  join "#" (map (showMemTrace ow pc sg fs0 refs shapes fls) hs).
