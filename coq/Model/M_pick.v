(* C16 - model of pyoma2.support.sel_from_plot.SelFromPlot (event handlers, get_closest_pole, get_closest_freq,
   sort_selected_poles) and of the per-request order extraction the selection is handed to
   (functions.ssi.SSI_mpe / functions.plscf.pLSCF_mpe, branch "order is a list").  Definitions only.

   The selection is a list of PAIRS (frequency, column): a frequency cannot be separated from the order (SSI, pLSCF)
   or grid-line index (FDD) at which it was picked.
   The pole table is given COLUMN-MAJOR: [tbl] is the list of the columns of Fn_poles (nth o tbl = Fn_poles[:, o]);
   NumPy nan = None.  Values are only moved, never computed, so entries are compared with Leibniz equality on the
   (reduced) fractions the harness writes. *)
From Coq Require Import List Arith ZArith QArith Qabs Bool String Permutation.
From PyOMA.Base Require Import Argmin Show.
Import ListNotations.
Open Scope Q_scope.

Definition entry := (Q * nat)%type.
Definition table := list (list (option Q)).

(* readers used in generated case files *)
Definition mkq (n:Z) (d:positive) : Q := n # d.
Definition en (n:Z) (d:positive) (o:nat) : entry := (n # d, o).

(* structural (Leibniz) equality tests *)
Definition Qeqb_l (a b:Q) : bool := Z.eqb (Qnum a) (Qnum b) && Pos.eqb (Qden a) (Qden b).
Definition entry_eqb (a b:entry) : bool := Qeqb_l (fst a) (fst b) && Nat.eqb (snd a) (snd b).

(* |f - x| *)
Definition absdist (x f:Q) : Q := Qabs (f - x).

(* ---------------------------------------------------------------- the pick designated by a click ------------- *)
(* A pick either designates an entry or the handler raises (ValueError of argmin on an empty sequence / nanargmin on
   an all-NaN slice) before touching the lists. *)
Inductive pres := Picked (e:entry) | PickRaises.

(* int(np.argmin(np.abs(np.arange(ncols) - y))) : first column index nearest to y; raises for ncols = 0 *)
Definition col_dists (n:nat) (y:Q) : list (option Q) :=
  map (fun i => Some (absdist y (inject_Z (Z.of_nat i)))) (seq 0 n).
Definition nearest_col (n:nat) (y:Q) : option nat := option_map fst (nanargmin (col_dists n y)).

(* np.nanargmin(np.abs(Fn_poles[:, o] - x)) : first retained row nearest to x in that column *)
Definition row_dists (x:Q) (col:list (option Q)) : list (option Q) := map (option_map (absdist x)) col.

Definition pick_ssi (tbl:table) (x y:Q) : pres :=
  match nearest_col (List.length tbl) y with
  | None => PickRaises
  | Some o =>
      match nth_error tbl o with
      | None => PickRaises                       (* unreachable: P_pick.nearest_col_lt *)
      | Some col =>
          match nanargmin (row_dists x col) with
          | None => PickRaises
          | Some (r, _) =>
              match nth_error col r with
              | Some (Some f) => Picked (f, o)
              | _ => PickRaises                  (* unreachable: P_pick.pick_ssi_raises_iff *)
              end
          end
      end
  end.

(* FDD: np.argmin(np.abs(freq - x)) : nearest grid line, first on ties; the pair is (freq[k], k) *)
Definition pick_fdd (freq:list Q) (x y:Q) : pres :=
  match nanargmin (map (fun f => Some (absdist x f)) freq) with
  | None => PickRaises
  | Some (k, _) => match nth_error freq k with Some f => Picked (f, k) | None => PickRaises end
  end.

(* ---------------------------------------------------------------- state, actions ------------------------------ *)
Record state := mkst { shift : bool; sel : list entry }.
Definition init_state : state := mkst false [].
Inductive button := BLeft | BMiddle | BRight | BOther.      (* Matplotlib buttons 1, 2, 3, anything else *)
Inductive action := KeyDown | KeyUp | KeyOther | Click (b:button) (x y:Q) | ClickOut (b:button).
  (* KeyDown / KeyUp = press / release of "shift"; KeyOther = press or release of any other key;
     ClickOut = a click outside the axes (Matplotlib reports xdata = ydata = None): it designates no pole and no
     frequency, so it can neither pick nor deselect-nearest; a deselect-one there may still remove one pair *)

(* ---------------------------------------------------------------- multisets of entries ------------------------ *)
Fixpoint remove1 (e:entry) (l:list entry) : option (list entry) :=
  match l with
  | [] => None
  | a :: r => if entry_eqb e a then Some r else option_map (cons a) (remove1 e r)
  end.
(* multiset equality *)
Fixpoint msame (l l':list entry) : bool :=
  match l with
  | [] => match l' with [] => true | _ => false end
  | a :: r => match remove1 a l' with Some r' => msame r r' | None => false end
  end.

Definition is_min_at (x:Q) (l:list entry) (e:entry) : bool :=
  forallb (fun e2 => Qle_bool (absdist x (fst e)) (absdist x (fst e2))) l.

(* ---------------------------------------------------------------- the specification as an executable checker -- *)
(* [allowed pick st a st'] : st' is a successor of st under action a that the property permits.
   - a pick adds the designated pair (anywhere); if the handler raises nothing changes;
   - deselect-one (right button) removes ANY one selected pair;
   - deselect-nearest (middle button) removes one pair minimising |f - x|;
   - without the modifier every click is a no-op; keys only change the modifier.
   The selection is compared as a multiset of pairs. *)
Definition allowed (pick:Q->Q->pres) (st:state) (a:action) (st':state) : bool :=
  match a with
  | KeyDown => Bool.eqb (shift st') true && msame (sel st) (sel st')
  | KeyUp => Bool.eqb (shift st') false && msame (sel st) (sel st')
  | KeyOther => Bool.eqb (shift st') (shift st) && msame (sel st) (sel st')
  | Click b x y =>
      Bool.eqb (shift st') (shift st) &&
      (if shift st then
         match b with
         | BLeft => match pick x y with
                    | Picked e => msame (e :: sel st) (sel st')
                    | PickRaises => msame (sel st) (sel st')
                    end
         | BRight => match sel st with
                     | [] => msame [] (sel st')
                     | _ => existsb (fun e => msame (sel st) (e :: sel st')) (sel st)
                     end
         | BMiddle => match sel st with
                      | [] => msame [] (sel st')
                      | _ => existsb (fun e => is_min_at x (sel st) e && msame (sel st) (e :: sel st')) (sel st)
                      end
         | BOther => msame (sel st) (sel st')
         end
       else msame (sel st) (sel st'))
  | ClickOut b =>
      Bool.eqb (shift st') (shift st) &&
      (msame (sel st) (sel st') ||
       (shift st && match b with
                    | BRight => existsb (fun e => msame (sel st) (e :: sel st')) (sel st)
                    | _ => false
                    end))
  end.

(* ---------------------------------------------------------------- traces of allowed steps ---------------------- *)
(* [steps pick st acts st'] : st' is reachable from st by the actions acts, every step being allowed.  Any
   implementation whose recorded transitions pass the checker yields such a trace. *)
Inductive steps (pick:Q->Q->pres) : state -> list action -> state -> Prop :=
| steps_nil : forall st, steps pick st [] st
| steps_cons : forall st a st1 l st2, allowed pick st a st1 = true -> steps pick st1 l st2 -> steps pick st (a :: l) st2.

(* what a history means, as a function of the actions alone (sh = modifier state before the first action):
   the modifier afterwards, the clicks that pick (left button, modifier held), the number of deselecting clicks *)
Fixpoint shift_after (sh:bool) (l:list action) : bool :=
  match l with
  | [] => sh
  | KeyDown :: r => shift_after true r
  | KeyUp :: r => shift_after false r
  | _ :: r => shift_after sh r
  end.
Fixpoint eff_clicks (sh:bool) (l:list action) : list (Q * Q) :=
  match l with
  | [] => []
  | KeyDown :: r => eff_clicks true r
  | KeyUp :: r => eff_clicks false r
  | Click BLeft x y :: r => if sh then (x, y) :: eff_clicks sh r else eff_clicks sh r
  | _ :: r => eff_clicks sh r
  end.
Fixpoint ndesel (sh:bool) (l:list action) : nat :=
  match l with
  | [] => 0
  | KeyDown :: r => ndesel true r
  | KeyUp :: r => ndesel false r
  | Click BRight _ _ :: r | Click BMiddle _ _ :: r | ClickOut BRight :: r => if sh then S (ndesel sh r) else ndesel sh r
  | _ :: r => ndesel sh r
  end.
(* the pair a click designates (none if the handler raises) *)
Definition designated (pick:Q->Q->pres) (c:Q*Q) : list entry :=
  match pick (fst c) (snd c) with Picked e => [e] | PickRaises => [] end.
Definition picks_made (pick:Q->Q->pres) (acts:list action) : list entry :=
  flat_map (designated pick) (eff_clicks false acts).

(* the specification as a relation on multisets (Permutation); [allowed] decides it: P_pick.allowed_iff *)
Definition allowedP (pick:Q->Q->pres) (st:state) (a:action) (st':state) : Prop :=
  match a with
  | KeyDown => shift st' = true /\ Permutation (sel st) (sel st')
  | KeyUp => shift st' = false /\ Permutation (sel st) (sel st')
  | KeyOther => shift st' = shift st /\ Permutation (sel st) (sel st')
  | ClickOut b =>
      shift st' = shift st /\
      (Permutation (sel st) (sel st') \/
       (shift st = true /\ b = BRight /\ exists e, In e (sel st) /\ Permutation (sel st) (e :: sel st')))
  | Click b x y =>
      shift st' = shift st /\
      if shift st then
        match b with
        | BLeft => Permutation (designated pick (x, y) ++ sel st) (sel st')
        | BRight => (sel st = [] /\ sel st' = []) \/
                    exists e, In e (sel st) /\ Permutation (sel st) (e :: sel st')
        | BMiddle => (sel st = [] /\ sel st' = []) \/
                     exists e, In e (sel st) /\
                               (forall e2, In e2 (sel st) -> absdist x (fst e) <= absdist x (fst e2)) /\
                               Permutation (sel st) (e :: sel st')
        | BOther => Permutation (sel st) (sel st')
        end
      else Permutation (sel st) (sel st')
  end.

(* declarative meaning of "the click (x,y) designates the pole f at order o":
   o is the first column index nearest to y; f is the value of the first retained cell of that column nearest to x *)
Definition retained_cell (tbl:table) (f:Q) (o:nat) : Prop :=
  exists col r, nth_error tbl o = Some col /\ nth_error col r = Some (Some f).
Definition designates_ssi (tbl:table) (x y:Q) (f:Q) (o:nat) : Prop :=
  exists col r d d',
    is_first_argmin (col_dists (List.length tbl) y) o d' /\
    nth_error tbl o = Some col /\
    is_first_argmin (row_dists x col) r d /\
    nth_error col r = Some (Some f).
Definition designates_fdd (freq:list Q) (x:Q) (f:Q) (k:nat) : Prop :=
  exists d, is_first_argmin (map (fun g => Some (absdist x g)) freq) k d /\ nth_error freq k = Some f.

(* ---------------------------------------------------------------- the present code's resolution --------------- *)
(* sort_selected_poles: np.argsort(sel_freq, kind="stable") applied to BOTH lists = stable sort of the pairs by
   frequency.  Insertion from the right, new element placed BEFORE equal ones = stable. *)
Fixpoint insb (e:entry) (l:list entry) : list entry :=
  match l with
  | [] => [e]
  | a :: r => if Qle_bool (fst e) (fst a) then e :: a :: r else a :: insb e r
  end.
Definition ssort (l:list entry) : list entry := fold_right insb [] l.

Fixpoint drop_at (i:nat) (l:list entry) : list entry :=
  match l with
  | [] => []
  | a :: r => match i with 0%nat => r | S j => a :: drop_at j r end
  end.

(* i = np.argmin(np.abs(sel_freq - x)) *)
Definition nearest_sel (x:Q) (l:list entry) : option (nat * Q) :=
  nanargmin (map (fun e => Some (absdist x (fst e))) l).

Definition impl_step (pick:Q->Q->pres) (st:state) (a:action) : state :=
  match a with
  | KeyDown => mkst true (sel st)
  | KeyUp => mkst false (sel st)
  | KeyOther => st
  | Click b x y =>
      if shift st then
        match b with
        | BLeft => match pick x y with
                   | Picked e => mkst true (ssort (sel st ++ [e]))      (* append, then sort both lists *)
                   | PickRaises => st
                   end
        | BRight => mkst true (removelast (sel st))                     (* list.pop() on both lists *)
        | BMiddle => match nearest_sel x (sel st) with
                     | Some (i, _) => mkst true (drop_at i (sel st))    (* list.pop(i) on both lists *)
                     | None => st
                     end
        | BOther => st
        end
      else st
  | ClickOut b =>                                                         (* coordinates are None *)
      if shift st then
        match b with
        | BRight => mkst true (removelast (sel st))                     (* pop() does not look at the coordinates *)
        | _ => st                                                       (* TypeError before the lists are touched, or no branch *)
        end
      else st
  end.
Definition impl_raises (pick:Q->Q->pres) (st:state) (a:action) : bool :=
  match a with
  | Click BLeft x y => shift st && match pick x y with PickRaises => true | _ => false end
  | _ => false
  end.

Definition run_impl (pick:Q->Q->pres) (acts:list action) : state := fold_left (impl_step pick) acts init_state.

(* SelFromPlot(...).result for SSI / pLSCF : (sel_freq, pole_ind) *)
Definition result (st:state) : list Q * list nat := (map fst (sel st), map snd (sel st)).

(* ---------------------------------------------------------------- hand-over: per-request order extraction ----- *)
(* SSI_mpe / pLSCF_mpe with order = list: for request ii  sel = nanargmin |Fn_pol[:, order[ii]] - fj| ;
   accepted iff np.isclose(p, fj, rtol) i.e. |p - fj| <= 1e-8 + rtol |fj| ; order_out = np.array(order).
   Output: accepted (row, frequency) in request order, and order_out.  IndexError / ValueError = MRaises. *)
Inductive mres := MOk (rows:list (nat * Q)) (order_out:list nat) | MRaises.
Definition isclose (rtol p f:Q) : bool := Qle_bool (Qabs (p - f)) ((1 # 100000000) + rtol * Qabs f).
Fixpoint mpe_list (tbl:table) (rtol:Q) (req:list entry) : mres :=
  match req with
  | [] => MOk [] []
  | (f, o) :: rest =>
      match nth_error tbl o with
      | None => MRaises
      | Some col =>
          match nanargmin (row_dists f col) with
          | None => MRaises
          | Some (r, _) =>
              match nth_error col r with
              | Some (Some p) =>
                  match mpe_list tbl rtol rest with
                  | MRaises => MRaises
                  | MOk rows ords => MOk (if isclose rtol p f then (r, p) :: rows else rows) (o :: ords)
                  end
              | _ => MRaises
              end
          end
      end
  end.
Definition mpe_of_result (tbl:table) (rtol:Q) (res:list Q * list nat) : mres :=
  mpe_list tbl rtol (combine (fst res) (snd res)).

(* ---------------------------------------------------------------- printers for the correspondence ------------- *)
Open Scope string_scope.
Fixpoint list_eqb (l l':list entry) : bool :=
  match l, l' with
  | [], [] => true
  | a :: r, b :: r' => entry_eqb a b && list_eqb r r'
  | _, _ => false
  end.
Definition state_eqb (a b:state) : bool := Bool.eqb (shift a) (shift b) && list_eqb (sel a) (sel b).
(* per recorded step: allowed? / equal to the present code's resolution? / does the model handler raise? *)
Definition check_step (pick:Q->Q->pres) (t:state * action * state) : string :=
  let '(st, a, st') := t in
  showB (allowed pick st a st') ++ showB (state_eqb (impl_step pick st a) st') ++ showB (impl_raises pick st a).
Definition check_trace (pick:Q->Q->pres) (l:list (state * action * state)) : string := showL (check_step pick) " " l.
Definition showE (e:entry) : string := showQ (fst e) ++ "@" ++ showN (snd e).
Definition showSt (st:state) : string := showB (shift st) ++ ":" ++ showL showE " " (sel st).
Definition showM (m:mres) : string :=
  match m with
  | MRaises => "raises"
  | MOk rows ords => showL (fun rp => showN (fst rp) ++ "," ++ showQ (snd rp)) " " rows ++ "|" ++ showL showN " " ords
  end.
