(* C16 - model of pyoma2.support.sel_from_plot.SelFromPlot (event handlers, get_closest_pole, get_closest_freq,
   sort_selected_poles) and of the per-request order extraction the selection is handed to
   (functions.ssi.SSI_mpe / functions.plscf.pLSCF_mpe, branch "order is a list").  Definitions only.

   The selection is a list of PAIRS (frequency, column): a frequency cannot be separated from the order (SSI, pLSCF)
   or grid-line index (FDD) at which it was picked.
   The pole table is given COLUMN-MAJOR: [tbl] is the list of the columns of Fn_poles (nth o tbl = Fn_poles[:, o]);
   NumPy nan = None.  Values are only moved, never computed, so entries are compared with Leibniz equality on the
   (reduced) fractions the harness writes. *)
From Coq Require Import List Arith ZArith QArith Qabs Bool String.
From PyOMA.Base Require Import Argmin Show.
Import ListNotations.
Open Scope Q_scope.

Definition entry := (Q * nat)%type.
Definition table := list (list (option Q)).

(* readers used in generated case files *)
Definition mkq (n:Z) (d:positive) : Q := n # d.
Definition en (n:Z) (d:positive) (o:nat) : entry := (n # d, o).

(* structural (Leibniz) equality tests *)
Definition Qeqb_l (a b:Q) : bool := Z.eqb (Qnum a) (Qnum b) && Pos.eqb (Qden a) (Qden b).
Definition entry_eqb (a b:entry) : bool := Qeqb_l (fst a) (fst b) && Nat.eqb (snd a) (snd b).

(* |f - x| *)
Definition absdist (x f:Q) : Q := Qabs (f - x).

(* ---------------------------------------------------------------- the pick designated by a click ------------- *)
(* A pick either designates an entry or the handler raises (ValueError of argmin on an empty sequence / nanargmin on
   an all-NaN slice) before touching the lists. *)
Inductive pres := Picked (e:entry) | PickRaises.

(* int(np.argmin(np.abs(np.arange(ncols) - y))) : first column index nearest to y; raises for ncols = 0 *)
Definition col_dists (n:nat) (y:Q) : list (option Q) :=
  map (fun i => Some (absdist y (inject_Z (Z.of_nat i)))) (seq 0 n).
Definition nearest_col (n:nat) (y:Q) : option nat := option_map fst (nanargmin (col_dists n y)).

(* np.nanargmin(np.abs(Fn_poles[:, o] - x)) : first retained row nearest to x in that column *)
Definition row_dists (x:Q) (col:list (option Q)) : list (option Q) := map (option_map (absdist x)) col.

Definition pick_ssi (tbl:table) (x y:Q) : pres :=
  match nearest_col (List.length tbl) y with
  | None => PickRaises
  | Some o =>
      match nth_error tbl o with
      | None => PickRaises                       (* unreachable: P_pick.nearest_col_lt *)
      | Some col =>
          match nanargmin (row_dists x col) with
          | None => PickRaises
          | Some (r, _) =>
              match nth_error col r with
              | Some (Some f) => Picked (f, o)
              | _ => PickRaises                  (* unreachable: P_pick.pick_ssi_raises_iff *)
              end
          end
      end
  end.

(* FDD: np.argmin(np.abs(freq - x)) : nearest grid line, first on ties; the pair is (freq[k], k) *)
Definition pick_fdd (freq:list Q) (x y:Q) : pres :=
  match nanargmin (map (fun f => Some (absdist x f)) freq) with
  | None => PickRaises
  | Some (k, _) => match nth_error freq k with Some f => Picked (f, k) | None => PickRaises end
  end.

(* ---------------------------------------------------------------- state, actions ------------------------------ *)
Record state := mkst { shift : bool; sel : list entry }.
Definition init_state : state := mkst false [].
Inductive button := BLeft | BMiddle | BRight | BOther.      (* Matplotlib buttons 1, 2, 3, anything else *)
Inductive action := KeyDown | KeyUp | KeyOther | Click (b:button) (x y:Q).
  (* KeyDown / KeyUp = press / release of "shift"; KeyOther = press or release of any other key *)

(* ---------------------------------------------------------------- multisets of entries ------------------------ *)
Fixpoint remove1 (e:entry) (l:list entry) : option (list entry) :=
  match l with
  | [] => None
  | a :: r => if entry_eqb e a then Some r else option_map (cons a) (remove1 e r)
  end.
(* multiset equality *)
Fixpoint msame (l l':list entry) : bool :=
  match l with
  | [] => match l' with [] => true | _ => false end
  | a :: r => match remove1 a l' with Some r' => msame r r' | None => false end
  end.

Definition is_min_at (x:Q) (l:list entry) (e:entry) : bool :=
  forallb (fun e2 => Qle_bool (absdist x (fst e)) (absdist x (fst e2))) l.

(* ---------------------------------------------------------------- the specification as an executable checker -- *)
(* [allowed pick st a st'] : st' is a successor of st under action a that the property permits.
   - a pick adds the designated pair (anywhere); if the handler raises nothing changes;
   - deselect-one (right button) removes ANY one selected pair;
   - deselect-nearest (middle button) removes one pair minimising |f - x|;
   - without the modifier every click is a no-op; keys only change the modifier.
   The selection is compared as a multiset of pairs. *)
Definition allowed (pick:Q->Q->pres) (st:state) (a:action) (st':state) : bool :=
  match a with
  | KeyDown => Bool.eqb (shift st') true && msame (sel st) (sel st')
  | KeyUp => Bool.eqb (shift st') false && msame (sel st) (sel st')
  | KeyOther => Bool.eqb (shift st') (shift st) && msame (sel st) (sel st')
  | Click b x y =>
      Bool.eqb (shift st') (shift st) &&
      (if shift st then
         match b with
         | BLeft => match pick x y with
                    | Picked e => msame (e :: sel st) (sel st')
                    | PickRaises => msame (sel st) (sel st')
                    end
         | BRight => match sel st with
                     | [] => msame [] (sel st')
                     | _ => existsb (fun e => msame (sel st) (e :: sel st')) (sel st)
                     end
         | BMiddle => match sel st with
                      | [] => msame [] (sel st')
                      | _ => existsb (fun e => is_min_at x (sel st) e && msame (sel st) (e :: sel st')) (sel st)
                      end
         | BOther => msame (sel st) (sel st')
         end
       else msame (sel st) (sel st'))
  end.

(* ---------------------------------------------------------------- the present code's resolution --------------- *)
(* sort_selected_poles: np.argsort(sel_freq, kind="stable") applied to BOTH lists = stable sort of the pairs by
   frequency.  Insertion from the right, new element placed BEFORE equal ones = stable. *)
Fixpoint insb (e:entry) (l:list entry) : list entry :=
  match l with
  | [] => [e]
  | a :: r => if Qle_bool (fst e) (fst a) then e :: a :: r else a :: insb e r
  end.
Definition ssort (l:list entry) : list entry := fold_right insb [] l.

Fixpoint drop_at (i:nat) (l:list entry) : list entry :=
  match l with
  | [] => []
  | a :: r => match i with 0%nat => r | S j => a :: drop_at j r end
  end.

(* i = np.argmin(np.abs(sel_freq - x)) *)
Definition nearest_sel (x:Q) (l:list entry) : option (nat * Q) :=
  nanargmin (map (fun e => Some (absdist x (fst e))) l).

Definition impl_step (pick:Q->Q->pres) (st:state) (a:action) : state :=
  match a with
  | KeyDown => mkst true (sel st)
  | KeyUp => mkst false (sel st)
  | KeyOther => st
  | Click b x y =>
      if shift st then
        match b with
        | BLeft => match pick x y with
                   | Picked e => mkst true (ssort (sel st ++ [e]))      (* append, then sort both lists *)
                   | PickRaises => st
                   end
        | BRight => mkst true (removelast (sel st))                     (* list.pop() on both lists *)
        | BMiddle => match nearest_sel x (sel st) with
                     | Some (i, _) => mkst true (drop_at i (sel st))    (* list.pop(i) on both lists *)
                     | None => st
                     end
        | BOther => st
        end
      else st
  end.
Definition impl_raises (pick:Q->Q->pres) (st:state) (a:action) : bool :=
  match a with
  | Click BLeft x y => shift st && match pick x y with PickRaises => true | _ => false end
  | _ => false
  end.

Definition run_impl (pick:Q->Q->pres) (acts:list action) : state := fold_left (impl_step pick) acts init_state.

(* SelFromPlot(...).result for SSI / pLSCF : (sel_freq, pole_ind) *)
Definition result (st:state) : list Q * list nat := (map fst (sel st), map snd (sel st)).

(* ---------------------------------------------------------------- hand-over: per-request order extraction ----- *)
(* SSI_mpe / pLSCF_mpe with order = list: for request ii  sel = nanargmin |Fn_pol[:, order[ii]] - fj| ;
   accepted iff np.isclose(p, fj, rtol) i.e. |p - fj| <= 1e-8 + rtol |fj| ; order_out = np.array(order).
   Output: accepted (row, frequency) in request order, and order_out.  IndexError / ValueError = MRaises. *)
Inductive mres := MOk (rows:list (nat * Q)) (order_out:list nat) | MRaises.
Definition isclose (rtol p f:Q) : bool := Qle_bool (Qabs (p - f)) ((1 # 100000000) + rtol * Qabs f).
Fixpoint mpe_list (tbl:table) (rtol:Q) (req:list entry) : mres :=
  match req with
  | [] => MOk [] []
  | (f, o) :: rest =>
      match nth_error tbl o with
      | None => MRaises
      | Some col =>
          match nanargmin (row_dists f col) with
          | None => MRaises
          | Some (r, _) =>
              match nth_error col r with
              | Some (Some p) =>
                  match mpe_list tbl rtol rest with
                  | MRaises => MRaises
                  | MOk rows ords => MOk (if isclose rtol p f then (r, p) :: rows else rows) (o :: ords)
                  end
              | _ => MRaises
              end
          end
      end
  end.
Definition mpe_of_result (tbl:table) (rtol:Q) (res:list Q * list nat) : mres :=
  mpe_list tbl rtol (combine (fst res) (snd res)).

(* ---------------------------------------------------------------- printers for the correspondence ------------- *)
Open Scope string_scope.
Fixpoint list_eqb (l l':list entry) : bool :=
  match l, l' with
  | [], [] => true
  | a :: r, b :: r' => entry_eqb a b && list_eqb r r'
  | _, _ => false
  end.
Definition state_eqb (a b:state) : bool := Bool.eqb (shift a) (shift b) && list_eqb (sel a) (sel b).
(* per recorded step: allowed? / equal to the present code's resolution? / does the model handler raise? *)
Definition check_step (pick:Q->Q->pres) (t:state * action * state) : string :=
  let '(st, a, st') := t in
  showB (allowed pick st a st') ++ showB (state_eqb (impl_step pick st a) st') ++ showB (impl_raises pick st a).
Definition check_trace (pick:Q->Q->pres) (l:list (state * action * state)) : string := showL (check_step pick) " " l.
Definition showE (e:entry) : string := showQ (fst e) ++ "@" ++ showN (snd e).
Definition showSt (st:state) : string := showB (shift st) ++ ":" ++ showL showE " " (sel st).
Definition showM (m:mres) : string :=
  match m with
  | MRaises => "raises"
  | MOk rows ords => showL (fun rp => showN (fst rp) ++ "," ++ showQ (snd rp)) " " rows ++ "|" ++ showL showN " " ords
  end.
