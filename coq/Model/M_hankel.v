(* C12 - model of pyoma2.functions.ssi.build_hank (cov_mm, cov_R; dat is specified through its LQ contract).
   Definitions only. *)
From Coq Require Import List Arith Lia.
From PyOMA.Base Require Import Carrier FMat.
Import ListNotations.

Section Hank.
Variable R:Type. Variable K:Ops R.
Local Open Scope K_scope.
Notation "0" := (o0 K) : K_scope.
Infix "+" := (oadd K) : K_scope. Infix "*" := (omul K) : K_scope.

(* data: channel -> sample -> value *)
Definition sig := nat -> nat -> R.

(* --- moment-matrix method, shaped as the code: stacked shifted copies and one matrix product.
   p = br, q = p+1, N = Ndat-p-q ; Yf block i = Y[:, q+1+i : N+q+i] ; Yp block j = Yref[:, q-j : N+q-1-j];
   H = (1/N) Yf Yp^T   (the code scales each factor by 1/sqrt N).                                     *)
Definition mm_Yf (l br:nat) (Y:sig) : fmat R := fun I t => Y (I mod l)%nat (S br + 1 + I / l + t)%nat.
Definition mm_Yp (r br:nat) (Yref:sig) : fmat R := fun J t => Yref (J mod r)%nat (S br - J / r + t)%nat.
Definition mm_N (br Ndat:nat) : nat := (Ndat - br - S br)%nat.
Definition hank_mm (invN:R) (l r br Ndat:nat) (Y Yref:sig) : fmat R :=
  fscal K invN (fmul K (mm_N br Ndat - 1) (mm_Yf l br Y) (ftr (mm_Yp r br Yref))).

(* --- correlation (Toeplitz) method: Ri[k] = 1/(Ndat-k) Y[:, :Ndat-k] Yref[:, k:]^T ; block (i,j) = Ri[br+i-j] *)
Definition cov_Ri (invn:nat->R) (Ndat:nat) (Y Yref:sig) (k:nat) : fmat R :=
  fun a b => invn (Ndat - k)%nat * sumn K (Ndat - k) (fun t => Y a t * Yref b (t + k)%nat).
Definition hank_R (invn:nat->R) (l r br Ndat:nat) (Y Yref:sig) : fmat R :=
  fun I J => cov_Ri invn Ndat Y Yref (br + I / l - J / r)%nat (I mod l)%nat (J mod r)%nat.

(* --- parametric form: what the property fixes is one lag per block, a lead convention and uniform weights.
   win i j = sample indices averaged, wt i j = common weight, (dl i j, rl i j) = offsets added on the data
   and on the reference side (lag = dl - rl).                                                          *)
Fixpoint suml (xs:list R) : R := match xs with [] => 0 | x::t => x + suml t end.
Definition hank_gen (win:nat->nat->list nat) (wt:nat->nat->R) (dl rl:nat->nat->nat) (l r:nat) (Y Yref:sig) : fmat R :=
  fun I J => let i := (I / l)%nat in let j := (J / r)%nat in
    wt i j * suml (map (fun t => Y (I mod l)%nat (t + dl i j)%nat * Yref (J mod r)%nat (t + rl i j)%nat) (win i j)).

Definition hank_rows (l br:nat) := (S br * l)%nat.
Definition hank_cols (r br:nat) := (S br * r)%nat.
End Hank.

Arguments hank_mm {R} K invN l r br Ndat Y Yref.
Arguments hank_R {R} K invn l r br Ndat Y Yref.
Arguments hank_gen {R} K win wt dl rl l r Y Yref.
Arguments cov_Ri {R} K invn Ndat Y Yref k.
Arguments suml {R} K xs.
Arguments mm_Yf {R} l br Y. Arguments mm_Yp {R} r br Yref.

(* list-level wrappers used by the correspondence check *)
Definition sig_of {R} (K:Ops R) (Yl:list (list R)) : nat -> nat -> R := fun a t => ent K Yl a t.
Definition hank_mm_l {R} (K:Ops R) invN l r br Ndat (Yl Yrefl:list (list R)) :=
  tab2 (hank_rows l br) (hank_cols r br) (hank_mm K invN l r br Ndat (sig_of K Yl) (sig_of K Yrefl)).
Definition hank_R_l {R} (K:Ops R) invn l r br Ndat (Yl Yrefl:list (list R)) :=
  tab2 (hank_rows l br) (hank_cols r br) (hank_R K invn l r br Ndat (sig_of K Yl) (sig_of K Yrefl)).
Definition hank_gen_l {R} (K:Ops R) win wt dl rl l r br (Yl Yrefl:list (list R)) :=
  tab2 (hank_rows l br) (hank_cols r br) (hank_gen K win wt dl rl l r (sig_of K Yl) (sig_of K Yrefl)).

(* data-driven method: the two exact moment matrices of the projection identity (un-normalised) *)
Definition dat_YfYpT_l {R} (K:Ops R) l r br Ndat (Yl Yrefl:list (list R)) :=
  tab2 (hank_rows l br) (hank_cols r br)
    (fmul K (mm_N br Ndat - 1) (mm_Yf l br (sig_of K Yl)) (ftr (mm_Yp r br (sig_of K Yrefl)))).
Definition dat_YpYpT_l {R} (K:Ops R) r br Ndat (Yrefl:list (list R)) :=
  tab2 (hank_cols r br) (hank_cols r br)
    (fmul K (mm_N br Ndat - 1) (mm_Yp r br (sig_of K Yrefl)) (ftr (mm_Yp r br (sig_of K Yrefl)))).
