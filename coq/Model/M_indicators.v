(* C18 - model of the mode-shape indicators of pyoma2.functions.gen: MAC, MSF, MCF, MPC, MPD.  Definitions only.
   Mode shapes are complex vectors  nat -> C R  of explicit length n (C R = pairs over the carrier); a set of
   shapes is  nat -> nat -> C R  (shape index, then component).  Execution: list wrappers at Qc, NumPy nan = None.
   MPD is split at sqrt / arccos (DESIGN.md 3.4): the model returns the exact (weight^2, clipped cosine^2) terms
   for a supplied right-singular vector (witness input); the harness applies sqrt, arccos and the weighted mean.  *)
From Coq Require Import List Arith Lia ZArith QArith Qcanon.
From PyOMA.Base Require Import Carrier Cplx.
Import ListNotations.

Section Ind.
Variable R:Type. Variable K:Ops R.
Local Open Scope K_scope.
Notation "0" := (o0 K) : K_scope. Notation "1" := (o1 K) : K_scope.
Infix "+" := (oadd K) : K_scope. Infix "*" := (omul K) : K_scope. Infix "-" := (osub K) : K_scope.
Infix "/" := (odiv K) : K_scope.
Notation C := (C R).

Definition cvec := nat -> C.
Definition csum (n:nat) (f:nat->C) : C := sumn (COps K) n f.
Definition vscale (c:C) (x:cvec) : cvec := fun k => cmul K c (x k).      (* c * phi, complex c *)
Definition vreal (v:nat->R) : cvec := fun k => cofR K (v k).             (* a real vector seen as a shape *)
Definition vre (x:cvec) : nat -> R := fun k => cre (x k).
Definition vim (x:cvec) : nat -> R := fun k => cim (x k).

(* x^H a (first argument conjugated), x^T a (no conjugation), |x|^2 *)
Definition hdot (n:nat) (x a:cvec) : C := csum n (fun k => cmul K (cconj K (x k)) (a k)).
Definition tdot (n:nat) (x a:cvec) : C := csum n (fun k => cmul K (x k) (a k)).
Definition nrm2 (n:nat) (x:cvec) : R := sumn K n (fun k => cnorm2 K (x k)).
Definition rdot (n:nat) (u v:nat->R) : R := sumn K n (fun k => u k * v k).

(* ---- gen.MAC: |x^H a|^2 / ((x^H x)(a^H a)), one normalisation per pair *)
Definition mac (n:nat) (x a:cvec) : R := cnorm2 K (hdot n x a) / (nrm2 n x * nrm2 n a).
(* rows = shapes of the first set, columns = shapes of the second *)
Definition mac_mat (n mX mA:nat) (X A:nat->cvec) : list (list R) := tab2 mX mA (fun i j => mac n (X i) (A j)).

(* ---- gen.MSF(phi_1, phi_2) = Re( (phi_2^T phi_1) / (phi_1^T phi_1) ): no conjugation *)
Definition msf (n:nat) (x y:cvec) : R := cre (cdiv K (tdot n y x) (tdot n x x)).

(* ---- gen.MCF *)
Definition two : R := 1 + 1.
Definition four : R := two * two.
Definition mcf_of (sxx sxy syy:R) : R :=
  1 - ((sxx - syy) * (sxx - syy) + four * (sxy * sxy)) / ((sxx + syy) * (sxx + syy)).
Definition mcf (n:nat) (phi:cvec) : R :=
  mcf_of (rdot n (vre phi) (vre phi)) (rdot n (vre phi) (vim phi)) (rdot n (vim phi) (vim phi)).

(* ---- gen.MPC: S = np.cov(Re, Im) (centred, factor f = 1/(n-1)), eigenvalues l0,l1 of S, (l0-l1)^2/(l0+l1)^2.
   (l0-l1)^2 = tr^2 - 4 det and l0+l1 = tr for EVERY pair with l0+l1 = tr, l0 l1 = det (P_indicators.mpc_eig),
   so the eigenvalue routine leaves no freedom. *)
Fixpoint ofnat (n:nat) : R := match n with O => 0 | S k => ofnat k + 1 end.
Definition mean (n:nat) (u:nat->R) : R := sumn K n u * oinv K (ofnat n).
Definition cen (n:nat) (u:nat->R) : nat -> R := fun k => u k - mean n u.
Definition cov_xx (f:R) n phi := f * rdot n (cen n (vre phi)) (cen n (vre phi)).
Definition cov_xy (f:R) n phi := f * rdot n (cen n (vre phi)) (cen n (vim phi)).
Definition cov_yy (f:R) n phi := f * rdot n (cen n (vim phi)) (cen n (vim phi)).
Definition cov_tr (f:R) n phi := cov_xx f n phi + cov_yy f n phi.
Definition cov_det (f:R) n phi := cov_xx f n phi * cov_yy f n phi - cov_xy f n phi * cov_xy f n phi.
Definition mpc_of (tr det:R) : R := (tr * tr - four * det) / (tr * tr).
Definition mpc_f (f:R) (n:nat) (phi:cvec) : R := mpc_of (cov_tr f n phi) (cov_det f n phi).
Definition mpc (n:nat) (phi:cvec) : R := mpc_f 1 n phi.
Definition cov_factor (n:nat) : R := oinv K (ofnat (n - 1)).      (* np.cov default ddof = 1 *)

(* ---- gen.MPD (as repaired by 7a6ce0f): V = second right-singular vector (v0,v1) of [Re phi, Im phi];
   per component k with |phi_k| > 0:  w_k = |phi_k|, ratio_k = clip(|Re_k v1 - Im_k v0| / (sqrt(v0^2+v1^2) |phi_k|), 0, 1);
   MPD = sum w_k arccos(ratio_k) / sum w_k.   The model returns (w_k^2, ratio_k^2) - both rational. *)
Section Clip.
Variable leb : R -> R -> bool.      (* a <= b *)
Variable isz : R -> bool.           (* x = 0 *)
Definition clip01 (x:R) : R := if leb x 0 then 0 else if leb 1 x then 1 else x.
Definition mpd_num (z:C) (v0 v1:R) : R := cre z * v1 - cim z * v0.
Definition mpd_arg (z:C) (v0 v1:R) : R := (mpd_num z v0 v1 * mpd_num z v0 v1) / ((v0 * v0 + v1 * v1) * cnorm2 K z).
Definition mpd_term (z:C) (v0 v1:R) : list (R*R) :=
  if isz (cnorm2 K z) then [] else [(cnorm2 K z, clip01 (mpd_arg z v0 v1))].
Definition mpd_terms (n:nat) (phi:cvec) (v0 v1:R) : list (R*R) :=
  flat_map (fun k => mpd_term (phi k) v0 v1) (seq 0 n).

(* NaN-faithful forms (None = not a finite number): 0/0 and x/0 of the code *)
Definition guard (den val:R) : option R := if isz den then None else Some val.
Definition mac_o n x a := guard (nrm2 n x * nrm2 n a) (mac n x a).
Definition msf_o n x y := guard (cnorm2 K (tdot n x x)) (msf n x y).
Definition mcf_o n phi := guard (nrm2 n phi) (mcf n phi).
Definition mpc_o n phi := guard (cov_tr (cov_factor n) n phi) (mpc_f (cov_factor n) n phi).
End Clip.

(* the part of gen.MPD after the split: sqrt and arccos are external (NumPy) functions *)
Section Trans.
Variable sqrtf acosf : R -> R.
Fixpoint mpd_wsum (t:list (R*R)) : R := match t with [] => 0 | wc :: r => sqrtf (fst wc) * acosf (sqrtf (snd wc)) + mpd_wsum r end.
Fixpoint mpd_wtot (t:list (R*R)) : R := match t with [] => 0 | wc :: r => sqrtf (fst wc) + mpd_wtot r end.
Definition mpd_val (t:list (R*R)) : R := mpd_wsum t / mpd_wtot t.
End Trans.
End Ind.

Arguments cvec R : clear implicits.
Arguments csum {R} K n f. Arguments vscale {R} K c x. Arguments vreal {R} K v. Arguments vre {R} x. Arguments vim {R} x.
Arguments hdot {R} K n x a. Arguments tdot {R} K n x a. Arguments nrm2 {R} K n x. Arguments rdot {R} K n u v.
Arguments mac {R} K n x a. Arguments mac_mat {R} K n mX mA X A. Arguments msf {R} K n x y.
Arguments two {R} K. Arguments four {R} K. Arguments mcf_of {R} K sxx sxy syy. Arguments mcf {R} K n phi.
Arguments ofnat {R} K n. Arguments mean {R} K n u. Arguments cen {R} K n u.
Arguments cov_xx {R} K f n phi. Arguments cov_xy {R} K f n phi. Arguments cov_yy {R} K f n phi.
Arguments cov_tr {R} K f n phi. Arguments cov_det {R} K f n phi. Arguments mpc_of {R} K tr det.
Arguments mpc_f {R} K f n phi. Arguments mpc {R} K n phi. Arguments cov_factor {R} K n.
Arguments clip01 {R} K leb x. Arguments mpd_num {R} K z v0 v1. Arguments mpd_arg {R} K z v0 v1.
Arguments mpd_term {R} K leb isz z v0 v1. Arguments mpd_terms {R} K leb isz n phi v0 v1.
Arguments mpd_wsum {R} K sqrtf acosf t. Arguments mpd_wtot {R} K sqrtf t. Arguments mpd_val {R} K sqrtf acosf t.
Arguments guard {R} isz den val. Arguments mac_o {R} K isz n x a. Arguments msf_o {R} K isz n x y.
Arguments mcf_o {R} K isz n phi. Arguments mpc_o {R} K isz n phi.

(* ---- execution at Qc: list wrappers used by the correspondence check ---- *)
Definition Qc_leb (a b:Qc) : bool := Qle_bool (this a) (this b).
Definition Qc_isz (a:Qc) : bool := match Qnum (this a) with Z0 => true | _ => false end.
Definition QcCplx := (Qc * Qc)%type.
Definition vec_of (l:list QcCplx) : cvec Qc := fun k => nth k l (c0 QcOps).
(* a set of shapes as NumPy holds it: rows = locations, columns = shapes *)
Definition set_of (M:list (list QcCplx)) : nat -> cvec Qc := fun i k => nth i (nth k M []) (c0 QcOps).
Definition ncols (M:list (list QcCplx)) : nat := length (hd [] M).

Inductive res (A:Type) := Ok (v:A) | ShapeErr.
Arguments Ok {A} v. Arguments ShapeErr {A}.

Definition mac_vec_l (x a:list QcCplx) : res (option Qc) :=
  if Nat.eqb (length x) (length a) then Ok (mac_o QcOps Qc_isz (length x) (vec_of x) (vec_of a)) else ShapeErr.
(* gen.MAC on two 2-D arrays (n x mX, n x mA): Exception when the first dimensions differ *)
Definition mac_mat_l (X A:list (list QcCplx)) : res (list (list (option Qc))) :=
  if Nat.eqb (length X) (length A)
  then Ok (tab2 (ncols X) (ncols A) (fun i j => mac_o QcOps Qc_isz (length X) (set_of X i) (set_of A j)))
  else ShapeErr.
Definition msf_l (x y:list QcCplx) : res (option Qc) :=
  if Nat.eqb (length x) (length y) then Ok (msf_o QcOps Qc_isz (length x) (vec_of x) (vec_of y)) else ShapeErr.
Definition mcf_l (x:list QcCplx) : option Qc := mcf_o QcOps Qc_isz (length x) (vec_of x).
Definition mpc_l (x:list QcCplx) : option Qc := mpc_o QcOps Qc_isz (length x) (vec_of x).
Definition mpd_terms_l (x:list QcCplx) (v0 v1:Qc) : list (Qc*Qc) :=
  mpd_terms QcOps Qc_leb Qc_isz (length x) (vec_of x) v0 v1.

(* printers (strings) *)
From Coq Require Import String.
From PyOMA.Base Require Import Show.
Local Open Scope string_scope.
Definition showOQ (o:option Qc) : string := showO showQc o.
Definition showRes {A} (f:A->string) (r:res A) : string := match r with Ok v => f v | ShapeErr => "ShapeErr" end.
Definition showOMat (m:list (list (option Qc))) : string := showL (showL showOQ " ") ";" m.
Definition showTerms (t:list (Qc*Qc)) : string := showL showC " " t.
