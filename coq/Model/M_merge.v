(* C02 - PoSER merging: gen.merge_mode_shapes, gen.MSF (as used there), gen.flatten_sns_names (list forms),
   MultiSetup_PoSER.merge_results statistics.  Definitions only.
   Mode shapes are complex (pairs over the carrier); scale factors are real.                                      *)
From Coq Require Import List Arith ZArith Lia Bool String DecimalString Decimal.
From PyOMA.Base Require Import Carrier Cplx.
Import ListNotations.

Definition pick {A} (d:A) (l:list A) (idx:list nat) : list A := map (fun i => nth i l d) idx.
(* np.delete(l, idx): drop the positions listed in idx, keep the others in ascending position *)
Fixpoint drop_at {A} (l:list A) (idx:list nat) (pos:nat) : list A :=
  match l with
  | [] => []
  | x::t => if existsb (Nat.eqb pos) idx then drop_at t idx (S pos) else x :: drop_at t idx (S pos)
  end.

Section Merge.
Variable R:Type. Variable K:Ops R.
Notation C := (C R).

(* sum_k u_k v_k, NO conjugation (as gen.MSF has it) *)
Fixpoint cdotl (u v:list C) : C :=
  match u, v with x::u', y::v' => cadd K (cmul K x y) (cdotl u' v') | _,_ => c0 K end.
(* gen.MSF(phi_1, phi_2) = Re( (phi_2^T phi_1) / (phi_1^T phi_1) ): the real factor taking phi_1 to phi_2 *)
Definition msf (phi1 phi2:list C) : R := cre (cdiv K (cdotl phi2 phi1) (cdotl phi1 phi1)).
Definition rscale (a:R) (l:list C) : list C := map (cscal K a) l.

(* one mode: column of the first setup + its reference positions, then (column, reference positions) of the others.
   merged = ref part of setup 0 (in listed order) ++ roving of setup 0 ++ alpha_i * roving of setup i ...,
   alpha_i = MSF(ref part of setup i, ref part of setup 0)                                                     *)
Definition merge_col (col0:list C) (rf0:list nat) (rest:list (list C * list nat)) : list C :=
  let ref0 := pick (c0 K) col0 rf0 in
  ref0 ++ drop_at col0 rf0 0 ++
  List.concat (map (fun cr => rscale (msf (pick (c0 K) (fst cr) (snd cr)) ref0) (drop_at (fst cr) (snd cr) 0)) rest).

(* all modes: for each mode the column of every setup *)
Definition merge_modes (rf0:list nat) (rfs:list (list nat)) (modes:list (list C * list (list C))) : list (list C) :=
  map (fun m => merge_col (fst m) rf0 (combine (snd m) rfs)) modes.

(* ---- the function as called: MSarr_list[i] is a (sensors x modes) table, the result is (rows x modes) ----
   ValueError: mode counts differ, or the pre-computed row count M = Nref + sum(N_i - Nref) is not the length of the
   concatenated column (NumPy cannot broadcast the assignment); IndexError: a reference position outside a setup's
   rows or fewer reference lists than setups.  (Negative positions are not modelled: the harness never generates them.) *)
Definition colk (k:nat) (M:list (list C)) : list C := map (fun r => nth k r (c0 K)) M.
Definition nmodes (M:list (list C)) : nat := List.length (hd [] M).
Definition same_modes (nm:nat) (Ms:list (list (list C))) : bool := forallb (fun M => Nat.eqb (nmodes M) nm) Ms.
Definition refs_in_range (Ms:list (list (list C))) (rfs:list (list nat)) : bool :=
  forallb (fun Mr => forallb (fun i => Nat.ltb i (List.length (fst Mr))) (snd Mr)) (combine Ms rfs).
Definition merge_cols (M0:list (list C)) (Ms:list (list (list C))) (rf0:list nat) (rfs:list (list nat)) (nm:nat) : list (list C) :=
  merge_modes rf0 rfs (map (fun k => (colk k M0, map (colk k) Ms)) (seq 0 nm)).
Definition zsum (l:list Z) : Z := fold_right Z.add 0%Z l.
Definition rows_code (nref:nat) (Ms:list (list (list C))) : Z :=
  (Z.of_nat nref + zsum (map (fun M => Z.of_nat (List.length M) - Z.of_nat nref) Ms))%Z.
Definition rows_act (Ms:list (list (list C))) (rfs:list (list nat)) : nat :=
  list_sum (map (fun Mr => List.length (drop_at (fst Mr) (snd Mr) 0)) (combine Ms rfs)).
Inductive merge_res := MergeOk (m:list (list C)) | MergeValueErr | MergeIndexErr.
Definition merge_mode_shapes (MS:list (list (list C))) (refl:list (list nat)) : merge_res :=
  match MS, refl with
  | M0::Ms, rf0::rfs =>
    let nm := nmodes M0 in
    if negb (same_modes nm Ms) then MergeValueErr
    else if negb (Nat.leb (List.length Ms) (List.length rfs)) then MergeIndexErr
    else if negb (refs_in_range (M0::Ms) (rf0::rfs)) then MergeIndexErr
    else
      let mact := (List.length rf0 + rows_act (M0::Ms) (rf0::rfs))%nat in
      let cols := merge_cols M0 Ms rf0 rfs nm in
      if Z.eqb (rows_code (List.length rf0) (M0::Ms)) (Z.of_nat mact)
      then MergeOk (tab2 mact nm (fun r k => nth r (nth k cols []) (c0 K)))
      else MergeValueErr
  | _, _ => MergeIndexErr
  end.

(* merge_results statistics over the setups: mean, population variance (std^2) *)
Fixpoint rsum (l:list R) : R := match l with [] => o0 K | x::t => oadd K x (rsum t) end.
Definition mean (n:R) (l:list R) : R := odiv K (rsum l) n.
Definition pvar (n:R) (l:list R) : R := let m := mean n l in odiv K (rsum (map (fun x => omul K (osub K x m) (osub K x m)) l)) n.
(* (std/mean)^2: the reported dispersion, squared (the square root is taken on the harness side) *)
Definition cov2 (n:R) (l:list R) : R := odiv K (pvar n l) (omul K (mean n l) (mean n l)).
(* the number of setups as an element of the carrier *)
Definition ofnat (n:nat) : R := rsum (repeat (o1 K) n).
(* np.mean(all, axis=0), (np.std(all, axis=0)/mean)^2 for all = one row per setup, one entry per mode *)
Definition poser_stats (rows:list (list R)) : list (R * R) :=
  let n := ofnat (List.length rows) in
  map (fun k => let c := map (fun r => nth k r (o0 K)) rows in (mean n c, cov2 n c)) (seq 0 (List.length (hd [] rows))).
End Merge.

Arguments cdotl {R} K u v. Arguments msf {R} K phi1 phi2. Arguments rscale {R} K a l.
Arguments merge_col {R} K col0 rf0 rest. Arguments merge_modes {R} K rf0 rfs modes.
Arguments rsum {R} K l. Arguments mean {R} K n l. Arguments pvar {R} K n l.
Arguments colk {R} K k M. Arguments nmodes {R} M. Arguments same_modes {R} nm Ms. Arguments refs_in_range {R} Ms rfs.
Arguments merge_cols {R} K M0 Ms rf0 rfs nm. Arguments rows_code {R} nref Ms. Arguments rows_act {R} Ms rfs.
Arguments MergeOk {R} m. Arguments MergeValueErr {R}. Arguments MergeIndexErr {R}.
Arguments merge_mode_shapes {R} K MS refl.
Arguments cov2 {R} K n l. Arguments ofnat {R} K n. Arguments poser_stats {R} K rows.

(* gen.flatten_sns_names, multi-setup (list of lists) form: REF1..REFk then every setup's non-reference names *)
Local Open Scope string_scope.
Definition nat_str (n:nat) : string := NilEmpty.string_of_uint (Nat.to_uint n).
Definition ref_names (k:nat) : list string := map (fun i => "REF" ++ nat_str (S i)) (seq 0 k).
Inductive flat_res := FlatOk (l:list string) | FlatAttrErr.
Definition flatten_multi (names:list (list string)) (refl:option (list (list nat))) : flat_res :=
  match refl with
  | None => FlatAttrErr
  | Some rl => FlatOk (ref_names (List.length (hd [] rl)) ++
                       List.concat (map (fun nr => drop_at (fst nr) (snd nr) 0) (combine names rl)))
  end.
(* NB: the code indexes ref_ind[i] for every row i of names; combine would silently truncate, so the harness only
   generates len(ref_ind) = len(names) (anything else is an IndexError in the code, outside the property). *)
