(* C02 - PoSER merging: gen.merge_mode_shapes, gen.MSF (as used there), gen.flatten_sns_names (list forms),
   MultiSetup_PoSER.merge_results statistics.  Definitions only.
   Mode shapes are complex (pairs over the carrier); scale factors are real.                                      *)
From Coq Require Import List Arith Lia Bool String DecimalString Decimal.
From PyOMA.Base Require Import Carrier Cplx.
Import ListNotations.

Definition pick {A} (d:A) (l:list A) (idx:list nat) : list A := map (fun i => nth i l d) idx.
(* np.delete(l, idx): drop the positions listed in idx, keep the others in ascending position *)
Fixpoint drop_at {A} (l:list A) (idx:list nat) (pos:nat) : list A :=
  match l with
  | [] => []
  | x::t => if existsb (Nat.eqb pos) idx then drop_at t idx (S pos) else x :: drop_at t idx (S pos)
  end.

Section Merge.
Variable R:Type. Variable K:Ops R.
Notation C := (C R).

(* sum_k u_k v_k, NO conjugation (as gen.MSF has it) *)
Fixpoint cdotl (u v:list C) : C :=
  match u, v with x::u', y::v' => cadd K (cmul K x y) (cdotl u' v') | _,_ => c0 K end.
(* gen.MSF(phi_1, phi_2) = Re( (phi_2^T phi_1) / (phi_1^T phi_1) ): the real factor taking phi_1 to phi_2 *)
Definition msf (phi1 phi2:list C) : R := cre (cdiv K (cdotl phi2 phi1) (cdotl phi1 phi1)).
Definition rscale (a:R) (l:list C) : list C := map (cscal K a) l.

(* one mode: column of the first setup + its reference positions, then (column, reference positions) of the others.
   merged = ref part of setup 0 (in listed order) ++ roving of setup 0 ++ alpha_i * roving of setup i ...,
   alpha_i = MSF(ref part of setup i, ref part of setup 0)                                                     *)
Definition merge_col (col0:list C) (rf0:list nat) (rest:list (list C * list nat)) : list C :=
  let ref0 := pick (c0 K) col0 rf0 in
  ref0 ++ drop_at col0 rf0 0 ++
  List.concat (map (fun cr => rscale (msf (pick (c0 K) (fst cr) (snd cr)) ref0) (drop_at (fst cr) (snd cr) 0)) rest).

(* all modes: for each mode the column of every setup *)
Definition merge_modes (rf0:list nat) (rfs:list (list nat)) (modes:list (list C * list (list C))) : list (list C) :=
  map (fun m => merge_col (fst m) rf0 (combine (snd m) rfs)) modes.

(* merge_results statistics over the setups: mean, population variance (std^2) *)
Fixpoint rsum (l:list R) : R := match l with [] => o0 K | x::t => oadd K x (rsum t) end.
Definition mean (n:R) (l:list R) : R := odiv K (rsum l) n.
Definition pvar (n:R) (l:list R) : R := let m := mean n l in odiv K (rsum (map (fun x => omul K (osub K x m) (osub K x m)) l)) n.
End Merge.

Arguments cdotl {R} K u v. Arguments msf {R} K phi1 phi2. Arguments rscale {R} K a l.
Arguments merge_col {R} K col0 rf0 rest. Arguments merge_modes {R} K rf0 rfs modes.
Arguments rsum {R} K l. Arguments mean {R} K n l. Arguments pvar {R} K n l.

(* gen.flatten_sns_names, multi-setup (list of lists) form: REF1..REFk then every setup's non-reference names *)
Local Open Scope string_scope.
Definition nat_str (n:nat) : string := NilEmpty.string_of_uint (Nat.to_uint n).
Definition ref_names (k:nat) : list string := map (fun i => "REF" ++ nat_str (S i)) (seq 0 k).
Inductive flat_res := FlatOk (l:list string) | FlatAttrErr.
Definition flatten_multi (names:list (list string)) (refl:option (list (list nat))) : flat_res :=
  match refl with
  | None => FlatAttrErr
  | Some rl => FlatOk (ref_names (List.length (hd [] rl)) ++
                       List.concat (map (fun nr => drop_at (fst nr) (snd nr) 0) (combine names rl)))
  end.
(* NB: the code indexes ref_ind[i] for every row i of names; combine would silently truncate, so the harness only
   generates len(ref_ind) = len(names) (anything else is an IndexError in the code, outside the property). *)
