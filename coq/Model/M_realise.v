(* C01 - model of the realisation step of pyoma2.functions.ssi.SSI_fast and ssi.SSI (legacy), and of the
   noise-free free-vibration response that feeds it.  Definitions only.

   The numerical kernels the code calls (np.linalg.svd, np.linalg.qr, np.linalg.inv, np.linalg.pinv) are
   ARGUMENTS of the function-level definitions below (their results U, sq, Q, Rni, Pinv are passed in); the
   contracts they have to meet are Section hypotheses of the theorems in Proofs/P_realise.v.

   Shapes (as in the code): H is rows x cols with rows = (br+1)*l, cols = (br+1)*r ;
     Obs = U[:, :ordmax] . diag(sqrt S)              rows x ordmax
     O_p = Obs[:rows-l, :]   O_m = Obs[l:, :]        (rows-l) x ordmax
     SSI_fast : Q, Rq = qr(O_p) ; A_n = inv(Rq[:n,:n]) . (Q^T O_m)[:n,:n] ; C_n = Obs[:l, :n]
     SSI      : A_n = pinv(Obs_n[:rows-l]) . Obs_n[l:] ; C_n = Obs_n[:l]   with Obs_n = U[:, :n] . diag(sqrt S)[:n,:n]   *)
From Coq Require Import List Arith Lia Bool.
From PyOMA.Base Require Import Carrier FMat.
Import ListNotations.

Section Realise.
Variable R:Type. Variable K:Ops R.
Local Open Scope K_scope.
Notation "0" := (o0 K) : K_scope. Notation "1" := (o1 K) : K_scope.
Infix "+" := (oadd K) : K_scope. Infix "*" := (omul K) : K_scope. Infix "-" := (osub K) : K_scope.
Infix "/" := (odiv K) : K_scope.

(* ---------- the system: x_{t+1} = A x_t , y_t = C x_t  (n states, l outputs) ---------- *)
Fixpoint fpow (n:nat) (A:fmat R) (k:nat) : fmat R :=
  match k with 0%nat => fid K | S j => fmul K n (fpow n A j) A end.
Definition colv (x:nat->R) : fmat R := fun k _ => x k.
(* channel a, sample t :  y_t[a] = (C A^t x0)[a] *)
Definition free_decay (n:nat) (C A:fmat R) (x0:nat->R) : nat -> nat -> R :=
  fun a t => fmul K n (fmul K n C (fpow n A t)) (colv x0) a 0%nat.
(* state sequence shifted by s samples, as an n x N matrix:  X[k,t] = (A^(s+t) x0)[k] *)
Definition state_seq (n s:nat) (A:fmat R) (x0:nat->R) : fmat R :=
  fun k t => fmul K n (fpow n A (s + t)) (colv x0) k 0%nat.
(* block observability matrix: block i (rows i*l .. i*l+l-1) = C A^i *)
Definition obs_blk (l n:nat) (C A:fmat R) : fmat R :=
  fun I k => fmul K n C (fpow n A (I / l)) (I mod l)%nat k.

(* ---------- the realisation step, function level ---------- *)
Definition fdiag (d:nat->R) : fmat R := fun i j => if Nat.eqb i j then d i else 0.
Definition obs_scaled (U:fmat R) (sq:nat->R) : fmat R := fun i k => U i k * sq k.
(* M[l:, :] ; M[:rows-l, :] is M itself read on the smaller row range *)
Definition rows_dn (l:nat) (M:fmat R) : fmat R := fun i k => M (i + l)%nat k.
(* SSI_fast:  inv(Rq[:n,:n]) . (Q^T O_m)[:n,:n]   (pr = rows - l rows of O_p / O_m) *)
Definition ssi_fast_A (pr n:nat) (Rni Q Om:fmat R) : fmat R := fmul K n Rni (fmul K pr (ftr Q) Om).
(* SSI (legacy):  pinv(O_p[:, :n]) . O_m[:, :n] *)
Definition ssi_legacy_A (pr:nat) (Pinv Om:fmat R) : fmat R := fmul K pr Pinv Om.
(* both: C_n = Obs[:l, :n]  = Obs read on rows < l, columns < n *)
Definition ssi_C (Obs:fmat R) : fmat R := Obs.

(* ---------- executable list-level linear algebra (rectangular list (list R)) ---------- *)
Variable zerob : R -> bool.   (* exact test x = 0 of the carrier (Qc: Qc_eq_bool x 0) *)

Definition ldot (u v:list R) : R := fold_right (fun p acc => fst p * snd p + acc) 0 (combine u v).
Definition lcol (M:list (list R)) (j:nat) : list R := map (fun r => nth j r 0) M.
Definition lncols (M:list (list R)) : nat := match M with [] => 0%nat | r::_ => length r end.
Definition ltr (M:list (list R)) : list (list R) := map (lcol M) (seq 0 (lncols M)).
Definition lmul (A B:list (list R)) : list (list R) :=
  let Bt := ltr B in map (fun r => map (fun c => ldot r c) Bt) A.
Definition lid (n:nat) : list (list R) := tab2 n n (fid K).
Definition lsub_row (a:R) (p row:list R) : list R := map (fun xy => snd xy - a * fst xy) (combine p row).

(* Gauss-Jordan on the augmented matrix [M | I]; the first row with a non-zero entry in column c is the pivot *)
Fixpoint take_pivot (c:nat) (rest:list (list R)) : option (list R * list (list R)) :=
  match rest with
  | [] => None
  | r::t => if zerob (nth c r 0)
            then match take_pivot c t with Some (p, o) => Some (p, r::o) | None => None end
            else Some (r, t)
  end.
Fixpoint gj (fuel c:nat) (done rest:list (list R)) : option (list (list R)) :=
  match fuel with
  | 0%nat => match rest with [] => Some done | _ => None end
  | S f => match take_pivot c rest with
           | None => None
           | Some (p, others) =>
             let pc := nth c p 0 in
             let p' := map (fun x => x / pc) p in
             let elim := fun row => lsub_row (nth c row 0) p' row in
             gj f (S c) (map elim done ++ [p']) (map elim others)
           end
  end.
Definition linv (n:nat) (M:list (list R)) : option (list (list R)) :=
  match gj n 0 [] (map (fun rr => fst rr ++ snd rr) (combine M (lid n))) with
  | Some D => Some (map (skipn n) D)
  | None => None
  end.

(* exact check X = Y, entry by entry *)
Definition leqb (X Y:list (list R)) : bool :=
  Nat.eqb (length X) (length Y) &&
  forallb (fun rr => Nat.eqb (length (fst rr)) (length (snd rr)) &&
                     forallb (fun xy => zerob (fst xy - snd xy)) (combine (fst rr) (snd rr))) (combine X Y).

(* least-squares left inverse (M^T M)^-1 M^T of a full-column-rank M, CERTIFIED: returned only if L.M = I holds exactly.
   For a full-column-rank argument this is the Moore-Penrose inverse, i.e. what np.linalg.pinv and the R^-1 Q^T of a QR
   factorisation both compute. *)
Definition left_inv (M:list (list R)) : option (list (list R)) :=
  let n := lncols M in let Mt := ltr M in
  match linv n (lmul Mt M) with
  | None => None
  | Some G => let L := lmul G Mt in if leqb (lmul L M) (lid n) then Some L else None
  end.

Definition drop_last (l:nat) (M:list (list R)) : list (list R) := firstn (length M - l) M.

(* the pair (A_n, C_n) both routines compute from the first n columns of the observability estimate (list rows x n) *)
Definition realise_A (l:nat) (Obs:list (list R)) : option (list (list R)) :=
  match left_inv (drop_last l Obs) with Some L => Some (lmul L (skipn l Obs)) | None => None end.
Definition realise_C (l:nat) (Obs:list (list R)) : list (list R) := firstn l Obs.

(* [C; CA; ...; C A^(nb-1)] *)
Fixpoint rebuild_obs (nb:nat) (C A:list (list R)) : list (list R) :=
  match nb with 0%nat => [] | S k => C ++ rebuild_obs k (lmul C A) A end.

(* the basis-free image of a realisation (A_n, C_n): the shift operator of its own observability matrix,
   W = Ohat[l:] . pinv(Ohat[:-l]) = Ohat[:-l] A pinv(Ohat[:-l]).  Invariant under (A,C) -> (T^-1 A T, C T). *)
Definition shift_op (l:nat) (Oh:list (list R)) : option (list (list R)) :=
  match left_inv (drop_last l Oh) with Some L => Some (lmul (skipn l Oh) L) | None => None end.

Definition realise_shift (l br:nat) (Obs:list (list R)) : option (list (list R)) :=
  match realise_A l Obs with
  | None => None
  | Some A => shift_op l (rebuild_obs (S br) (realise_C l Obs) A)
  end.

(* Hankel product used by the generator: H = O . Gamma, exactly *)
Definition hank_prod (Ob Gam:list (list R)) : list (list R) := lmul Ob Gam.
End Realise.

Arguments fpow {R} K n A k.
Arguments colv {R} x.
Arguments free_decay {R} K n C A x0.
Arguments state_seq {R} K n s A x0.
Arguments obs_blk {R} K l n C A.
Arguments fdiag {R} K d.
Arguments obs_scaled {R} K U sq.
Arguments rows_dn {R} l M.
Arguments ssi_fast_A {R} K pr n Rni Q Om.
Arguments ssi_legacy_A {R} K pr Pinv Om.
Arguments ssi_C {R} Obs.
Arguments ldot {R} K u v.
Arguments lcol {R} K M j.
Arguments lncols {R} M.
Arguments ltr {R} K M.
Arguments lmul {R} K A B.
Arguments lid {R} K n.
Arguments linv {R} K zerob n M.
Arguments leqb {R} K zerob X Y.
Arguments left_inv {R} K zerob M.
Arguments drop_last {R} l M.
Arguments realise_A {R} K zerob l Obs.
Arguments realise_C {R} l Obs.
Arguments rebuild_obs {R} K nb C A.
Arguments shift_op {R} K zerob l Oh.
Arguments realise_shift {R} K zerob l br Obs.

(* ---------- instance used by the correspondence check ---------- *)
From Coq Require Import QArith Qcanon String.
From PyOMA.Base Require Import Show.
Definition Qc_zerob (x:Qc) : bool := Qc_eq_bool x (Q2Qc 0).
Definition showOM (o:option (list (list Qc))) : string :=
  match o with Some M => showMat M | None => "none"%string end.
Definition realise_shift_Qc := realise_shift QcOps Qc_zerob.
(* "A_n|C_n" of the first n columns of an observability estimate (rows x n), exact *)
Definition show_pair (l:nat) (Obs:list (list Qc)) : string :=
  (showOM (realise_A QcOps Qc_zerob l Obs) ++ "|" ++ showMat (realise_C l Obs))%string.
