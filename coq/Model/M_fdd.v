(* C06 - model of pyoma2.functions.fdd.SD_svalsvec and pyoma2.functions.fdd.FDD_mpe.  Definitions only.

   FDD_mpe (executable part, exact rationals):
     tables are indexed as in the code: Sval[i][j][k], Svec[i][c][k]  (k = spectral line), freq[k];
     idxlim = (argmin|freq-(f-DF)|, argmin|freq-(f+DF)|)           first index of the minimum (np.argmin)
     diffS1S2 = Sval[0,0,lo:hi] / Sval[1,1,lo:hi]                  Python slice: hi EXCLUDED
     idx1 = argmin|diffS1S2 - max(diffS1S2)|                       first index of the maximum
     idxfin = lo + idx1 ; Fn = freq[idxfin] ; phi = Svec[0,:,idxfin] ; Phi = phi / phi[argmax|phi|]
   A Python exception is an explicit Err: empty freq or empty band -> ValueErr (np.argmin / np.max of an empty
   array), fewer than two singular values -> IndexErr (Sval[1,1]).  NoModel = input on which NumPy would go through
   inf/nan arithmetic (a second singular value exactly 0, an all-zero singular vector): outside the model.

   SD_svalsvec (generic carrier, function matrices): per line U, S, _ = svd(SD[:,:,k]);
     S_vec[:,:,k] = U^H  (U1.conj().T) ;  S_val[:,:,k] = diag(sqrt S).
   The SVD and the square root are witness inputs (Section hypotheses in the proofs, never axioms). *)
From Coq Require Import List Arith ZArith QArith Qabs Qcanon Bool String.
From PyOMA.Base Require Import Carrier FMat Cplx Argmin Show.
Import ListNotations.

Inductive err := ValueErr | IndexErr | NoModel.
Inductive res (A:Type) := Ok (a:A) | Err (e:err).
Arguments Ok {A} a. Arguments Err {A} e.

(* ------------------------------------------------------------------------------------------------------------
   1. the pick (over Q) *)
Open Scope Q_scope.

(* np.abs(freq - x) *)
Definition absd (freq:list Q) (x:Q) : list (option Q) := map (fun p => Some (Qabs (p - x))) freq.
(* np.argmin(np.abs(freq - x)) ; None = ValueError on an empty grid *)
Definition nearest (freq:list Q) (x:Q) : option nat :=
  match nanargmin (absd freq x) with Some (k,_) => Some k | None => None end.

(* l[lo:hi] for non-negative lo, hi (Python semantics: truncated at the end, empty if hi <= lo) *)
Definition pyslice {A} (lo hi:nat) (l:list A) : list A := firstn (hi - lo) (skipn lo l).

(* element-wise a / b of two equally long lines *)
Fixpoint zipdiv (a b:list Q) : res (list Q) :=
  match a, b with
  | [], [] => Ok []
  | x::a', y::b' =>
      if Qeq_bool y 0 then Err NoModel
      else match zipdiv a' b' with Ok r => Ok (x / y :: r) | Err e => Err e end
  | _, _ => Err ValueErr
  end.

(* np.max ; None = ValueError on an empty array *)
Definition qstep (m y:Q) : Q := if Qlt_le_dec m y then y else m.
Definition qmaxl (l:list Q) : option Q := match l with [] => None | x::t => Some (fold_left qstep t x) end.

(* np.argmin(np.abs(l - np.max(l))) *)
Definition first_max (l:list Q) : option nat :=
  match qmaxl l with
  | None => None
  | Some m => match nanargmin (map (fun r => Some (Qabs (r - m))) l) with Some (k,_) => Some k | None => None end
  end.

(* T[i,j,:] ; None = IndexError *)
Definition line {A} (T:list (list (list A))) (i j:nat) : option (list A) :=
  match nth_error T i with Some r => nth_error r j | None => None end.

(* (idxlim[0], idxlim[1], idxfin) *)
Definition fdd_idx (freq:list Q) (Sval:list (list (list Q))) (f DF:Q) : res (nat*nat*nat) :=
  match nearest freq (f - DF), nearest freq (f + DF) with
  | Some lo, Some hi =>
      match line Sval 0 0, line Sval 1 1 with
      | Some s1, Some s2 =>
          match zipdiv (pyslice lo hi s1) (pyslice lo hi s2) with
          | Err e => Err e
          | Ok r => match first_max r with None => Err ValueErr | Some i1 => Ok (lo, hi, (lo + i1)%nat) end
          end
      | _, _ => Err IndexErr
      end
  | _, _ => Err ValueErr
  end.

(* ratio of the stored first to the stored second singular value at line k, and the same for their squares *)
Definition ratio_at (Sval:list (list (list Q))) (k:nat) : option Q :=
  match line Sval 0 0, line Sval 1 1 with
  | Some s1, Some s2 => match nth_error s1 k, nth_error s2 k with Some a, Some b => Some (a / b) | _, _ => None end
  | _, _ => None
  end.
Definition sqratio_at (Sval:list (list (list Q))) (k:nat) : option Q :=
  match line Sval 0 0, line Sval 1 1 with
  | Some s1, Some s2 => match nth_error s1 k, nth_error s2 k with Some a, Some b => Some ((a*a) / (b*b)) | _, _ => None end
  | _, _ => None
  end.

(* declarative reading: idx is the FIRST line of [lo,hi) at which r is largest *)
Definition first_max_on (r:nat -> option Q) (lo hi idx:nat) : Prop :=
  (lo <= idx < hi)%nat /\ exists m, r idx = Some m /\
  (forall k x, (lo <= k < hi)%nat -> r k = Some x -> x <= m) /\
  (forall k x, (lo <= k < idx)%nat -> r k = Some x -> x < m).

Close Scope Q_scope.

(* ------------------------------------------------------------------------------------------------------------
   2. the shape: unity normalisation (generic carrier) and its executable instance over Gaussian rationals *)
Definition unity_by {R} (K:Ops R) (d:C R) (v:list (C R)) : list (C R) := map (fun z => cdiv K z d) v.

Definition CQ := (Qc * Qc)%type.
(* np.argmax(np.abs(v)) : first index of the largest modulus (compared through the squared modulus) *)
Definition argmax_abs (v:list CQ) : option nat :=
  match nanargmin (map (fun z => Some (- this (cnorm2 QcOps z))%Q) v) with Some (p,_) => Some p | None => None end.

Definition unity (v:list CQ) : res (list CQ) :=
  match argmax_abs v with
  | None => Err ValueErr                                   (* np.argmax of an empty array *)
  | Some p =>
      match nth_error v p with
      | None => Err IndexErr                               (* unreachable: P_fdd.argmax_abs_spec *)
      | Some d => if Qeq_bool (this (cnorm2 QcOps d)) 0 then Err NoModel else Ok (unity_by QcOps d v)
      end
  end.

Fixpoint all_some {A} (l:list (option A)) : option (list A) :=
  match l with
  | [] => Some []
  | Some x :: t => match all_some t with Some r => Some (x::r) | None => None end
  | None :: _ => None
  end.
(* Svec[0,:,k] *)
Definition row0 {A} (Svec:list (list (list A))) (k:nat) : res (list A) :=
  match nth_error Svec 0 with
  | None => Err IndexErr
  | Some chans => match all_some (map (fun ln => nth_error ln k) chans) with Some v => Ok v | None => Err IndexErr end
  end.

(* one selected frequency: (idxfin, Fn, Phi) *)
Definition fdd_mpe1 (freq:list Q) (Sval:list (list (list Q))) (Svec:list (list (list CQ))) (f DF:Q)
  : res (nat * Q * list CQ) :=
  match fdd_idx freq Sval f DF with
  | Err e => Err e
  | Ok (_, _, idx) =>
      match nth_error freq idx with
      | None => Err IndexErr
      | Some fn =>
          match row0 Svec idx with
          | Err e => Err e
          | Ok phi => match unity phi with Err e => Err e | Ok phin => Ok (idx, fn, phin) end
          end
      end
  end.

(* the loop over sel_freq: the first exception wins *)
Fixpoint fdd_mpe (freq:list Q) (Sval:list (list (list Q))) (Svec:list (list (list CQ))) (sel:list Q) (DF:Q)
  : res (list (nat * Q * list CQ)) :=
  match sel with
  | [] => Ok []
  | f::t =>
      match fdd_mpe1 freq Sval Svec f DF with
      | Err e => Err e
      | Ok x => match fdd_mpe freq Sval Svec t DF with Err e => Err e | Ok l => Ok (x::l) end
      end
  end.

(* MAC numerator and denominator (function vectors of length n over complex pairs) *)
Section Mac.
Variable R:Type. Variable K:Ops R.
Definition hdot (n:nat) (a b:nat -> C R) : C R := sumn (COps K) n (fun k => cmul K (cconj K (a k)) (b k)).
Definition nrm2 (n:nat) (a:nat -> C R) : R := sumn K n (fun k => cnorm2 K (a k)).
Definition mac_num (n:nat) (a b:nat -> C R) : R := cnorm2 K (hdot n a b).
Definition mac_den (n:nat) (a b:nat -> C R) : R := omul K (nrm2 n a) (nrm2 n b).
End Mac.
Arguments hdot {R} K n a b. Arguments nrm2 {R} K n a. Arguments mac_num {R} K n a b. Arguments mac_den {R} K n a b.
Definition vecC {R} (K:Ops R) (l:list (C R)) : nat -> C R := fun i => nth i l (c0 K).

(* ------------------------------------------------------------------------------------------------------------
   3. SD_svalsvec at one line (generic carrier) *)
Section SV.
Variable R:Type. Variable K:Ops R.
(* conjugate transpose *)
Definition fherm (A:fmat (C R)) : fmat (C R) := fun i j => cconj K (A j i).
(* S_vec[:,:,k] = U1.conj().T *)
Definition svec_of (U:fmat (C R)) : fmat (C R) := fherm U.
(* S_val[:,:,k] = np.diag(np.sqrt(S)) ; sq = the square roots returned by np.sqrt *)
Definition sval_of (sq:nat -> R) : fmat R := fun i j => if Nat.eqb i j then sq i else o0 K.
(* real diagonal embedded in the complex matrices *)
Definition cdiag (d:nat -> R) : fmat (C R) := fun i j => if Nat.eqb i j then cofR K (d i) else c0 K.
(* the squares of the stored diagonal *)
Definition sval_sq (S_val:fmat R) : nat -> R := fun k => omul K (S_val k k) (S_val k k).
End SV.
Arguments fherm {R} K A. Arguments svec_of {R} K U. Arguments sval_of {R} K sq. Arguments cdiag {R} K d.
Arguments sval_sq {R} K S_val.

(* the three-index tables FDD_mpe receives, built from per-line matrices: T[i][j][k] = f i j k *)
Definition tab3 {A} (a b c:nat) (f:nat -> nat -> nat -> A) : list (list (list A)) :=
  map (fun i => map (fun j => map (fun k => f i j k) (seq 0 c)) (seq 0 b)) (seq 0 a).

(* ------------------------------------------------------------------------------------------------------------
   4. list-level wrappers and printers used by the correspondence check (Qc) *)
Definition cent (M:list (list CQ)) (i j:nat) : CQ := nth j (nth i M []) (c0 QcOps).
Definition fmatC (M:list (list CQ)) : fmat CQ := fun i j => cent M i j.
Definition svec_l (nr:nat) (U:list (list CQ)) : list (list CQ) := tab2 nr nr (svec_of QcOps (fmatC U)).
Definition sval_l (nc:nat) (sq:list Qc) : list (list Qc) := tab2 nc nc (sval_of QcOps (fun k => nth k sq 0%Qc)).

(* certificate of the SVD witness, exact: the three residual matrices
     Sy - U[:, :nc] diag(S) Vh   (nr x nc),   U^H U - I   (nr x nr),   sq*sq - S (1 x nc)             *)
Definition svd_resid (nr nc:nat) (Sy U Vh:list (list CQ)) (S:list Qc) : list (list CQ) :=
  let KC := COps QcOps in
  tab2 nr nc (fsub KC (fmatC Sy) (fmul KC nc (fmatC U) (fmul KC nc (cdiag QcOps (fun k => nth k S 0%Qc)) (fmatC Vh)))).
Definition unit_resid (nr:nat) (U:list (list CQ)) : list (list CQ) :=
  let KC := COps QcOps in
  tab2 nr nr (fsub KC (fmul KC nr (fherm QcOps (fmatC U)) (fmatC U)) (fid KC)).
Definition sqrt_resid (sq S:list Qc) : list Qc := map (fun p => (fst p * fst p - snd p)%Qc) (combine sq S).
(* what the stored row 0 does to the spectral matrix: sum_i S_vec[0][i] * Sy[i][j]  (j < nc) *)
Definition row0_action (nr nc:nat) (Svec Sy:list (list CQ)) : list CQ :=
  tab nc (fun j => fmul (COps QcOps) nr (fmatC Svec) (fmatC Sy) 0%nat j).

Open Scope string_scope.
Definition showErr (e:err) : string := match e with ValueErr => "E:Value" | IndexErr => "E:Index" | NoModel => "E:NoModel" end.
Definition show_mpe (r:res (list (nat * Q * list CQ))) : string :=
  match r with
  | Err e => showErr e
  | Ok l => showL (fun x => showN (fst (fst x)) ++ "@" ++ showQ (Qred (snd (fst x))) ++ "@" ++ showCRow (snd x)) "|" l
  end.
Definition show_idx (r:res (nat*nat*nat)) : string :=
  match r with
  | Err e => showErr e
  | Ok x => showN (fst (fst x)) ++ " " ++ showN (snd (fst x)) ++ " " ++ showN (snd x)
  end.
