(* C03 - model of pyoma2.functions.ssi.SSI_multi_setup after the per-setup SVD: selection of the reference /
   roving rows of every setup's observability matrix, re-basing on the first setup's reference block,
   block-interleaved assembly of the global observability matrix, shift solve.  Definitions only.

   External kernels are arguments, never constants: [obs k] is the matrix U[:, :ordmax] sqrt(S) the code gets from
   np.linalg.svd for setup k, [L k] is what np.linalg.pinv returns for that setup's reference block, (Q, Ri) are the
   QR factor and the inverse of the triangular factor.  The theorems of Proofs/P_multi_ssi.v assume their contracts. *)
From Coq Require Import List Arith Lia Bool.
From PyOMA.Base Require Import Carrier FMat.
Import ListNotations.

(* ---------- index sets, shaped as the code ---------- *)
(* np.array([np.arange(br) * r + j for j in range(lo, hi)]) : one row per channel j, one column per block row b *)
Definition id_table (br r lo hi:nat) : list (list nat) :=
  map (fun j => map (fun b => b * r + j) (seq 0 br)) (seq lo (hi - lo)).
(* .flatten(order="f") of a table with ncol columns: column after column *)
Definition fflatten (ncol:nat) (T:list (list nat)) : list nat :=
  flat_map (fun b => map (fun row => nth b row 0) T) (seq 0 ncol).
Definition ref_id (br r n_ref:nat) : list nat := fflatten br (id_table br r 0 n_ref).
Definition mov_id (br r n_ref:nat) : list nat := fflatten br (id_table br r n_ref r).

(* position p inside the concatenated roving blocks -> (setup k, row m inside that setup's block);
   this is the running id1/id2 of the assembly loop *)
Fixpoint locate (nm:list nat) (p:nat) : option (nat * nat) :=
  match nm with
  | [] => None
  | n::t => if p <? n then Some (0, p)
            else match locate t (p - n) with Some (k, m) => Some (S k, m) | None => None end
  end.
Definition offset (nm:list nat) (k:nat) : nat := list_sum (firstn k nm).

Section MS.
Variable R:Type. Variable K:Ops R.

(* M[ids, :] *)
Definition sel (ids:list nat) (M:fmat R) : fmat R := fun i c => M (nth i ids 0) c.

Variables (br n_ref : nat) (nmov : list nat) (n : nat).   (* n = ordmax *)
Variable obs : nat -> fmat R.                              (* per setup: (br+1)*r_k x n *)
Variable L : nat -> fmat R.                                (* per setup: pinv(O_ref), n x br*n_ref *)

Definition nmov_of (k:nat) : nat := nth k nmov 0.
Definition rk (k:nat) : nat := n_ref + nmov_of k.
Definition nDOF : nat := n_ref + list_sum nmov.
Definition O_ref (k:nat) : fmat R := sel (ref_id br (rk k) n_ref) (obs k).
Definition O_mov (k:nat) : fmat R := sel (mov_id br (rk k) n_ref) (obs k).
(* np.dot(O_mov, np.linalg.pinv(O_ref)) : the roving rows expressed through the reference rows *)
Definition transm (k:nat) : fmat R := fmul K n (O_mov k) (L k).
(* np.dot(np.dot(O_mov, pinv(O_ref)), O1_ref) *)
Definition rebased (k:nat) : fmat R := fmul K (br * n_ref) (transm k) (O_ref 0).

(* block-interleaved assembly: block row b = [ reference rows b ; roving rows b of setup 0 ; of setup 1 ; ... ] *)
Definition interleave (fr:fmat R) (fm:nat -> fmat R) : fmat R := fun i c =>
  let b := i / nDOF in let p := i mod nDOF in
  if p <? n_ref then fr (b * n_ref + p) c
  else match locate nmov (p - n_ref) with
       | Some (k, m) => fm k (b * nmov_of k + m) c
       | None => o0 K                                      (* not reached for p < nDOF: P_multi_ssi.locate_offset / locate_total *)
       end.
Definition obs_all : fmat R := interleave (O_ref 0) rebased.
(* O_p = Obs_all[:-n_DOF], O_m = Obs_all[n_DOF:] *)
Definition O_up : fmat R := obs_all.
Definition O_down : fmat R := fun i c => obs_all (i + nDOF) c.
(* A = inv(R) (Q^T O_m) at full order, C = Obs_all[:n_DOF] *)
Definition A_hat (Q Ri:fmat R) : fmat R := fmul K n Ri (fmul K ((br - 1) * nDOF) (ftr Q) O_down).
Definition A_of_linv (Lp:fmat R) : fmat R := fmul K ((br - 1) * nDOF) Lp O_down.
Definition C_hat : fmat R := obs_all.
End MS.

Arguments sel {R} ids M. Arguments interleave {R} K n_ref nmov fr fm.
Arguments O_ref {R} br n_ref nmov obs k. Arguments O_mov {R} br n_ref nmov obs k.
Arguments transm {R} K br n_ref nmov n obs L k. Arguments rebased {R} K br n_ref nmov n obs L k.
Arguments obs_all {R} K br n_ref nmov n obs L. Arguments O_down {R} K br n_ref nmov n obs L.
Arguments A_hat {R} K br n_ref nmov n obs L Q Ri. Arguments A_of_linv {R} K br n_ref nmov n obs L Lp.
Arguments C_hat {R} K br n_ref nmov n obs L.

(* ---------- the truth the property talks about ---------- *)
Section Truth.
Variable R:Type. Variable K:Ops R.
Fixpoint fpow (n:nat) (A:fmat R) (b:nat) : fmat R := match b with 0 => fid K | S b' => fmul K n (fpow n A b') A end.
(* observability matrix of (C, A) with l outputs: block row b = C A^b *)
Definition obsv (n l:nat) (C A:fmat R) : fmat R := fun i c => fmul K n C (fpow n A (i / l)) (i mod l) c.
(* sensors of one setup: the n_ref references first, then that setup's roving sensors *)
Definition stack (n_ref:nat) (Cr Cm:fmat R) : fmat R := fun i c => if i <? n_ref then Cr i c else Cm (i - n_ref) c.
(* all sensors: references, roving of setup 0, roving of setup 1, ... *)
Definition C_global (n_ref:nat) (nmov:list nat) (Cr:fmat R) (Cm:nat -> fmat R) : fmat R := fun i c =>
  if i <? n_ref then Cr i c
  else match locate nmov (i - n_ref) with Some (k, m) => Cm k m c | None => o0 K end.
End Truth.
Arguments fpow {R} K n A b. Arguments obsv {R} K n l C A. Arguments stack {R} n_ref Cr Cm.
Arguments C_global {R} K n_ref nmov Cr Cm.

(* ---------- executable instance (lists), used by the correspondence check ---------- *)
Section Exec.
Variable R:Type. Variable K:Ops R. Variable isz : R -> bool.
Local Open Scope K_scope.
Infix "+" := (oadd K) : K_scope. Infix "*" := (omul K) : K_scope. Infix "-" := (osub K) : K_scope. Infix "/" := (odiv K) : K_scope.

Definition fm_of (M:list (list R)) : fmat R := fun i c => ent K M i c.
Fixpoint zipw (f:R->R->R) (a b:list R) : list R := match a, b with x::a', y::b' => f x y :: zipw f a' b' | _, _ => [] end.
Fixpoint find_pivot (col:nat) (rows:list (list R)) : option (list R * list (list R)) :=
  match rows with
  | [] => None
  | r::t => if isz (nth col r (o0 K))
            then match find_pivot col t with Some (p, rest) => Some (p, r::rest) | None => None end
            else Some (r, t)
  end.
(* Gauss-Jordan on an augmented matrix; None = singular.  An executable stand-in for the inverse kernels: nothing is
   proved about it, its result is CERTIFIED exactly on every evaluated case (left_inv_cert below). *)
Fixpoint gauss_jordan (steps col:nat) (done todo:list (list R)) : option (list (list R)) :=
  match steps with
  | O => Some done
  | S k => match find_pivot col todo with
           | None => None
           | Some (p, rest) =>
             let pv := nth col p (o0 K) in
             let pn := map (fun x => x / pv) p in
             let elim := fun r => let c := nth col r (o0 K) in zipw (fun a b => a - c * b) r pn in
             gauss_jordan k (S col) (map elim done ++ [pn]) (map elim rest)
           end
  end.
(* a left inverse of the m x n matrix M (normal equations): (M^T M)^-1 M^T, n x m *)
Definition left_inv_l (m n:nat) (M:fmat R) : option (list (list R)) :=
  let aug := tab2 n (n + m)%nat (fun i j => if j <? n then fmul K m (ftr M) M i j else M (j - n)%nat i) in
  match gauss_jordan n 0 [] aug with
  | None => None
  | Some rows => Some (map (skipn n) rows)
  end.
Definition is_id_l (n:nat) (M:list (list R)) : bool :=
  forallb (fun i => forallb (fun j => isz (ent K M i j - (if Nat.eqb i j then o1 K else o0 K))) (seq 0 n)) (seq 0 n).
Definition left_inv_cert (m n:nat) (Ll:list (list R)) (M:fmat R) : bool :=
  is_id_l n (tab2 n n (fmul K m (fm_of Ll) M)).

(* the assembly given the per-setup left inverses (lists): every stage is [tab2] of the function-level stage of
   Section MS (bridge: P_multi_ssi.ms_obs_all_l_entry) *)
Definition ms_transm_l (br n_ref:nat) (nmov:list nat) (n:nat) (ObsL Ll:list (list (list R))) : list (list (list R)) :=
  let obs := fun k => fm_of (nth k ObsL []) in
  let Lf := fun k => fm_of (nth k Ll []) in
  map (fun k => tab2 (br * nmov_of nmov k) (br * n_ref) (transm K br n_ref nmov n obs Lf k)) (seq 0 (length nmov)).
Definition ms_obs_all_l (br n_ref:nat) (nmov:list nat) (n:nat) (ObsL Ll:list (list (list R))) : list (list R) :=
  let obs := fun k => fm_of (nth k ObsL []) in
  let Ml := ms_transm_l br n_ref nmov n ObsL Ll in
  let Rl := map (fun k => tab2 (br * nmov_of nmov k) n
                   (fmul K (br * n_ref) (fm_of (nth k Ml [])) (O_ref br n_ref nmov obs 0))) (seq 0 (length nmov)) in
  tab2 (br * nDOF n_ref nmov) n (interleave K n_ref nmov (O_ref br n_ref nmov obs 0) (fun k => fm_of (nth k Rl []))).

(* adjugate and determinant of the Gram matrix G = M^T M by the Faddeev-LeVerrier recursion
     M_k = G M_(k-1) + c_(n-k+1) I,  c_(n-k) = - tr(G M_k) / k,   M_0 = 0, c_n = 1,
   ending with adj G = (-1)^(n+1) M_n, det G = (-1)^n c_0: the only divisions are the exact ones by k = 1..n, so it runs in
   the integers with no gcd and no long division by a large number.  As for gauss_jordan nothing is proved about it: the
   identity (adj(G) M^T) M = det(G) I is CERTIFIED exactly on every evaluated case (scaled_left_inv_cert). *)
Fixpoint fl_iter (n:nat) (G:list (list R)) (steps:nat) (kR:R) (Mp:list (list R)) (c:R) : list (list R) * R :=
  match steps with
  | O => (Mp, c)
  | S s =>
    let Mk := tab2 n n (fun i j => sumn K n (fun l => ent K G i l * ent K Mp l j) + (if Nat.eqb i j then c else o0 K)) in
    let tr := sumn K n (fun i => sumn K n (fun l => ent K G i l * ent K Mk l i)) in
    fl_iter n G s (kR + o1 K) Mk ((o0 K - tr) / kR)
  end.
(* a SCALED left inverse of the m x n matrix M: (d, L') with L' M = d I, L' = adj(M^T M) M^T, d = det(M^T M) *)
Definition scaled_left_inv_l (m n:nat) (M:fmat R) : option (R * list (list R)) :=
  let G := tab2 n n (fmul K m (ftr M) M) in
  let '(Mn, c0) := fl_iter n G n (o1 K) (tab2 n n (fun _ _ => o0 K)) (o1 K) in
  let d := if Nat.even n then c0 else o0 K - c0 in
  if isz d then None
  else Some (d, tab2 n m (fun i j => let v := sumn K n (fun l => ent K Mn i l * M j l) in if Nat.even n then o0 K - v else v)).
Definition scaled_left_inv_cert (m n:nat) (d:R) (Ll:list (list R)) (M:fmat R) : bool :=
  let P := tab2 n n (fmul K m (fm_of Ll) M) in
  forallb (fun i => forallb (fun j => isz (ent K P i j - (if Nat.eqb i j then d else o0 K))) (seq 0 n)) (seq 0 n).

(* the routine after the SVDs with scaled left inverses (runs in Z on integer witnesses).
   Result: (certificates hold, the scalars d_k, Obs_all with the roving rows of setup k scaled by d_k
   (P_multi_ssi.obs_all_scaled)) *)
Definition ms_run (br n_ref:nat) (nmov:list nat) (n:nat) (ObsL:list (list (list R)))
  : option (bool * list R * list (list R)) :=
  let obs := fun k => fm_of (nth k ObsL []) in
  let nset := length nmov in
  let Ls := map (fun k => scaled_left_inv_l (br * n_ref) n (O_ref br n_ref nmov obs k)) (seq 0 nset) in
  if forallb (fun o => match o with Some _ => true | None => false end) Ls then
    let ds := map (fun o => match o with Some (d, _) => d | None => o0 K end) Ls in
    let Ll := map (fun o => match o with Some (_, l) => l | None => [] end) Ls in
    let cert := forallb (fun k => scaled_left_inv_cert (br * n_ref) n (nth k ds (o0 K)) (nth k Ll []) (O_ref br n_ref nmov obs k))
                        (seq 0 nset) in
    Some (cert, ds, ms_obs_all_l br n_ref nmov n ObsL Ll)
  else None.
(* one setup only: (certificate, d_k, d_k O_mov pinv(O_ref)) *)
Definition ms_transm_k (br n_ref:nat) (nmov:list nat) (n:nat) (ObsL:list (list (list R))) (k:nat)
  : option (bool * R * list (list R)) :=
  let obs := fun k => fm_of (nth k ObsL []) in
  match scaled_left_inv_l (br * n_ref) n (O_ref br n_ref nmov obs k) with
  | None => None
  | Some (d, l) =>
    Some (scaled_left_inv_cert (br * n_ref) n d l (O_ref br n_ref nmov obs k), d,
          tab2 (br * nmov_of nmov k) (br * n_ref) (transm K br n_ref nmov n obs (fun _ => fm_of l) k))
  end.
End Exec.
Arguments fm_of {R} K M. Arguments left_inv_l {R} K isz m n M. Arguments left_inv_cert {R} K isz m n Ll M.
Arguments ms_run {R} K isz br n_ref nmov n ObsL. Arguments ms_transm_k {R} K isz br n_ref nmov n ObsL k.
Arguments scaled_left_inv_l {R} K isz m n M.
Arguments scaled_left_inv_cert {R} K isz m n d Ll M. Arguments ms_obs_all_l {R} K br n_ref nmov n ObsL Ll.
Arguments ms_transm_l {R} K br n_ref nmov n ObsL Ll. Arguments gauss_jordan {R} K isz steps col done todo.

From Coq Require Import String ZArith QArith Qcanon.
From PyOMA.Base Require Import Show.
Local Open Scope string_scope.
Definition Qc_isz0 (x:Qc) : bool := Qeq_bool (this x) 0.
Definition showIds (l:list nat) : string := showL showN " " l.
Definition showZRow (r:list Z) : string := showL showZ " " r.
Definition showZMat (m:list (list Z)) : string := showL showZRow ";" m.
(* printing: exact integers x with a positive denominator d are shown as the fixed-point integer floor(x 2^sh / d)
   (a presentation step only: relative error 2^-sh; Coq's string printer overflows beyond ~32000 characters) *)
Definition fixq (sh:Z) (d x:Z) : Z := Z.div (x * 2 ^ sh) d.
Definition showFixRow (sh d:Z) (r:list Z) : string := showL (fun x => showZ (fixq sh d x)) " " r.
Definition row_den (n_ref:nat) (nmov:list nat) (ds:list Z) (i:nat) : Z :=
  let p := (i mod nDOF n_ref nmov)%nat in
  if Nat.ltb p n_ref then 1%Z else match locate nmov (Nat.sub p n_ref) with Some (k, _) => nth k ds 1%Z | None => 1%Z end.
Definition showMs (n_ref:nat) (nmov:list nat) (r:option (bool * list Z * list (list Z))) : string :=
  match r with
  | None => "singular"
  | Some (c, ds, Oall) =>
    showB c ++ "|" ++ showL (fun ir => showFixRow 24 (row_den n_ref nmov ds (fst ir)) (snd ir)) ";" (combine (seq 0 (List.length Oall)) Oall)
  end.
Definition showMk (r:option (bool * Z * list (list Z))) : string :=
  match r with
  | None => "singular"
  | Some (c, d, M) => showB c ++ "|" ++ showL (showFixRow 64 d) ";" M
  end.
(* row layout of Obs_all predicted by interleave: "r b j" (reference j, block b) or "m b k i" (roving row i of setup k) *)
Definition layout_row (n_ref:nat) (nmov:list nat) (i:nat) : string :=
  let nD := nDOF n_ref nmov in let b := (i / nD)%nat in let p := (i mod nD)%nat in
  if Nat.ltb p n_ref then "r " ++ showN b ++ " " ++ showN p
  else match locate nmov (p - n_ref) with
       | Some (k, m) => "m " ++ showN b ++ " " ++ showN k ++ " " ++ showN m
       | None => "none"
       end.
Definition showLayout (br n_ref:nat) (nmov:list nat) : string :=
  showL (layout_row n_ref nmov) ";" (seq 0 (br * nDOF n_ref nmov)).
