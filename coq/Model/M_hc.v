(* C09 - model of the hard validation criteria of pyoma2: gen.applymask, gen.HC_conj, gen.HC_damp, gen.HC_phi_comp,
   gen.HC_cov and of the SEQUENCE in which the four run() methods (SSIdat/SSIcov, SSIdat_MS/SSIcov_MS, pLSCF,
   pLSCF_MS) apply them to their pole tables.  Definitions only.

   Conventions
   - a pole table is [list (list (option A))] indexed [row][order]; a mode-shape table has one more level
     [row][order][channel]; NumPy nan = None; every float is the exact rational it denotes; complex = pair.
   - [vget]/[cell]/[mget] read a position that is outside a table as "no entry" (None / false).  All call sites hand
     tables of ONE shape to the masks (SSI_poles allocates them with the same dimensions, pLSCF_poles pads them with
     zip_longest); [wf_ssi]/[wf_pl] state this and the harness evaluates it on every case.
   - a comparison with nan is False in NumPy: every criterion rejects None.
   - gen.MPC / gen.MPD are external numerical kernels: [mpc], [mpd] are Section variables returning None when the
     indicator is nan or raises (HC_phi_comp catches every exception and puts 0 in the mask).
   - HC_damp and HC_cov return  x*mask  with  x[x==0] = nan  (the table the mask was computed from is replaced by
     this product, all others go through np.where in applymask): [idiom] mirrors the product and the ==0 test, so a
     genuine 0.0 that passes its criterion is blanked in that table only.                                       *)
From Coq Require Import List Arith ZArith QArith Bool.
From PyOMA.Base Require Import Argmin.
Import ListNotations.
Open Scope Q_scope.

Definition tbl (A:Type) := list (list (option A)).
Definition tbl3 (E:Type) := list (list (list (option E))).
Definition mask := list (list bool).
Definition cplx := (Q * Q)%type.

Definition vget {A} (t:list (list A)) (i o:nat) : option A :=
  match nth_error t i with Some r => nth_error r o | None => None end.
Definition cell {A} (t:tbl A) (i o:nat) : option A := match vget t i o with Some c => c | None => None end.
Definition cell3 {E} (t:tbl3 E) (i o k:nat) : option E :=
  match vget t i o with Some v => match nth_error v k with Some e => e | None => None end | None => None end.
Definition vlen {E} (t:tbl3 E) (i o:nat) : nat := match vget t i o with Some v => length v | None => 0%nat end.
Definition mget (m:mask) (i o:nat) : bool := match vget m i o with Some b => b | None => false end.

Fixpoint zipw {A B C} (f:A->B->C) (l1:list A) (l2:list B) : list C :=
  match l1, l2 with a::r1, b::r2 => f a b :: zipw f r1 r2 | _, _ => [] end.

Definition mask_of {A} (p:A->bool) (t:list (list A)) : mask := map (map p) t.

(* ---------------- gen.applymask: np.where(mask, arr, nan); 3-D arrays use the mask repeated along the last axis *)
Definition applymask {A} (m:mask) (t:tbl A) : tbl A := zipw (zipw (fun (b:bool) c => if b then c else None)) m t.
Definition blank {E} (v:list (option E)) : list (option E) := map (fun _ => None) v.
Definition applymask3 {E} (m:mask) (t:tbl3 E) : tbl3 E := zipw (zipw (fun (b:bool) v => if b then v else blank v)) m t.

(* ---------------- the  x*mask ; x[x==0] = nan  idiom of HC_damp / HC_cov *)
Definition times_mask (b:bool) (x:Q) : option Q :=
  let y := x * (if b then 1 else 0) in if Qeq_bool y 0 then None else Some y.
Definition idiom (m:mask) (t:tbl Q) : tbl Q :=
  zipw (zipw (fun (b:bool) c => match c with Some x => times_mask b x | None => None end)) m t.

(* ---------------- gen.HC_conj: a Python set of ALL the entries of the table (table-wide, not per order) *)
Definition cconjq (z:cplx) : cplx := (fst z, - snd z).
Definition ceqb (a b:cplx) : bool := Qeq_bool (fst a) (fst b) && Qeq_bool (snd a) (snd b).
Definition somes {A} (r:list (option A)) : list A := flat_map (fun c => match c with Some x => [x] | None => [] end) r.
Definition elems {A} (t:tbl A) : list A := flat_map somes t.
Definition in_set (z:cplx) (s:list cplx) : bool := existsb (ceqb z) s.
Definition conj_okb (s:list cplx) (c:option cplx) : bool :=
  match c with Some z => in_set z s && in_set (cconjq z) s | None => false end.
Definition hc_conj (L:tbl cplx) : tbl cplx * mask :=
  let m := mask_of (conj_okb (elems L)) L in (applymask m L, m).

(* ---------------- gen.HC_damp: logical_and(damp < max_damp, damp > 0) *)
Definition damp_okb (xmax:Q) (c:option Q) : bool :=
  match c with Some x => Qlt_bool x xmax && Qlt_bool 0 x | None => false end.
Definition hc_damp (X:tbl Q) (xmax:Q) : tbl Q * mask :=
  let m := mask_of (damp_okb xmax) X in (idiom m X, m).

(* ---------------- gen.HC_cov: Fn_cov < max_cov *)
Definition cov_okb (cmax:Q) (c:option Q) : bool := match c with Some x => Qlt_bool x cmax | None => false end.
Definition hc_cov (F:tbl Q) (cmax:Q) : tbl Q * mask :=
  let m := mask_of (cov_okb cmax) F in (idiom m F, m).

Record hcrit := { hc_conj_on : bool; hc_xi_max : Q; hc_mpc_lim : Q; hc_mpd_lim : Q; hc_cov_max : Q }.

Section HC.
Variable E : Type.                              (* entries of a mode shape *)
Variable EC : Type.                             (* entries of the mode-shape covariance table *)
Variable mpc mpd : list (option E) -> option Q. (* gen.MPC / gen.MPD of one shape; None = nan or raised *)

(* ---------------- gen.HC_phi_comp: returns (MPD mask, MPC mask) in this order *)
Definition mpd_okb (lim:Q) (v:list (option E)) : bool := match mpd v with Some d => Qle_bool d lim | None => false end.
Definition mpc_okb (lim:Q) (v:list (option E)) : bool := match mpc v with Some c => Qle_bool lim c | None => false end.
Definition hc_phi_comp (P:tbl3 E) (mpc_lim mpd_lim:Q) : mask * mask :=
  (mask_of (mpd_okb mpd_lim) P, mask_of (mpc_okb mpc_lim) P).

(* ================= SSIdat.run / SSIdat_MS.run (SSIcov, SSIcov_MS inherit them) ================= *)
Record ssi_tabs := { sFn : tbl Q; sXi : tbl Q; sPhi : tbl3 E; sLam : tbl cplx;
                     sFnC : option (tbl Q); sXiC : option (tbl Q); sPhiC : option (tbl3 EC) }.

(*  if hc_conj:  Lambds, mask1 = HC_conj(Lambds);  [Fns, Xis, Phis, Fn_cov, Xi_cov, Phi_cov] <- applymask(.., mask1) *)
Definition ssi_step_conj (on:bool) (s:ssi_tabs) : ssi_tabs :=
  if on then
    let lm := hc_conj (sLam s) in let m := snd lm in
    {| sFn := applymask m (sFn s); sXi := applymask m (sXi s); sPhi := applymask3 m (sPhi s); sLam := fst lm;
       sFnC := option_map (applymask m) (sFnC s); sXiC := option_map (applymask m) (sXiC s);
       sPhiC := option_map (applymask3 m) (sPhiC s) |}
  else s.
(*  Xis, mask2 = HC_damp(Xis, xi_max);  [Fns, Lambds, Phis, Fn_cov, Xi_cov, Phi_cov] <- applymask(.., mask2) *)
Definition ssi_step_damp (xmax:Q) (s:ssi_tabs) : ssi_tabs :=
  let xm := hc_damp (sXi s) xmax in let m := snd xm in
  {| sFn := applymask m (sFn s); sXi := fst xm; sPhi := applymask3 m (sPhi s); sLam := applymask m (sLam s);
     sFnC := option_map (applymask m) (sFnC s); sXiC := option_map (applymask m) (sXiC s);
     sPhiC := option_map (applymask3 m) (sPhiC s) |}.
Definition ssi_mask_all (m:mask) (s:ssi_tabs) : ssi_tabs :=
  {| sFn := applymask m (sFn s); sXi := applymask m (sXi s); sPhi := applymask3 m (sPhi s); sLam := applymask m (sLam s);
     sFnC := option_map (applymask m) (sFnC s); sXiC := option_map (applymask m) (sXiC s);
     sPhiC := option_map (applymask3 m) (sPhiC s) |}.
(*  mask3, mask4 = HC_phi_comp(Phis, mpc_lim, mpd_lim);  all seven <- applymask(.., mask3);  all seven <- applymask(.., mask4) *)
Definition ssi_step_phi (mpc_lim mpd_lim:Q) (s:ssi_tabs) : ssi_tabs :=
  let mm := hc_phi_comp (sPhi s) mpc_lim mpd_lim in
  ssi_mask_all (snd mm) (ssi_mask_all (fst mm) s).
(*  if Fn_cov is not None:  Fn_cov, mask5 = HC_cov(Fn_cov, cov_max);  [Fns, Xis, Phis, Lambds, Xi_cov, Phi_cov] <- applymask(.., mask5) *)
Definition ssi_step_cov (cmax:Q) (s:ssi_tabs) : ssi_tabs :=
  match sFnC s with
  | None => s
  | Some F =>
    let fm := hc_cov F cmax in let m := snd fm in
    {| sFn := applymask m (sFn s); sXi := applymask m (sXi s); sPhi := applymask3 m (sPhi s); sLam := applymask m (sLam s);
       sFnC := Some (fst fm); sXiC := option_map (applymask m) (sXiC s); sPhiC := option_map (applymask3 m) (sPhiC s) |}
  end.

Definition run_ssi (h:hcrit) (s:ssi_tabs) : ssi_tabs :=
  ssi_step_cov (hc_cov_max h)
    (ssi_step_phi (hc_mpc_lim h) (hc_mpd_lim h)
       (ssi_step_damp (hc_xi_max h)
          (ssi_step_conj (hc_conj_on h) s))).

(* ================= pLSCF.run / pLSCF_MS.run: result tables Fn, Xi, Phi (Lambds is filtered by HC_conj only and not returned) *)
Record pl_tabs := { pFn : tbl Q; pXi : tbl Q; pPhi : tbl3 E; pLam : tbl cplx }.
Definition pl_step_conj (on:bool) (s:pl_tabs) : pl_tabs :=
  if on then
    let lm := hc_conj (pLam s) in let m := snd lm in
    {| pFn := applymask m (pFn s); pXi := applymask m (pXi s); pPhi := applymask3 m (pPhi s); pLam := fst lm |}
  else s.
(*  Xis, mask2 = HC_damp(Xis, xi_max);  [Fns, Phis] <- applymask(.., mask2) *)
Definition pl_step_damp (xmax:Q) (s:pl_tabs) : pl_tabs :=
  let xm := hc_damp (pXi s) xmax in let m := snd xm in
  {| pFn := applymask m (pFn s); pXi := fst xm; pPhi := applymask3 m (pPhi s); pLam := pLam s |}.
Definition pl_mask_all (m:mask) (s:pl_tabs) : pl_tabs :=
  {| pFn := applymask m (pFn s); pXi := applymask m (pXi s); pPhi := applymask3 m (pPhi s); pLam := pLam s |}.
Definition pl_step_phi (mpc_lim mpd_lim:Q) (s:pl_tabs) : pl_tabs :=
  let mm := hc_phi_comp (pPhi s) mpc_lim mpd_lim in
  pl_mask_all (snd mm) (pl_mask_all (fst mm) s).
Definition run_pl (h:hcrit) (s:pl_tabs) : pl_tabs :=
  pl_step_phi (hc_mpc_lim h) (hc_mpd_lim h) (pl_step_damp (hc_xi_max h) (pl_step_conj (hc_conj_on h) s)).

(* the four call sites *)
Definition run_SSIdat := run_ssi.        (* algorithms/ssi.py  SSIdat.run     (SSIcov inherits it) *)
Definition run_SSIdat_MS := run_ssi.     (* algorithms/ssi.py  SSIdat_MS.run  (SSIcov_MS inherits it; calc_unc=False: no covariance tables) *)
Definition run_pLSCF := run_pl.          (* algorithms/plscf.py pLSCF.run *)
Definition run_pLSCF_MS := run_pl.       (* algorithms/plscf.py pLSCF_MS.run *)

(* ================= the criteria on the UNFILTERED tables (boolean form; Prop form in Proofs/P_hc.v) ============ *)
Definition vokb (p:list (option E) -> bool) (P:tbl3 E) (i o:nat) : bool :=
  match vget P i o with Some v => p v | None => false end.
Definition conj_at (on:bool) (L:tbl cplx) (i o:nat) : bool := if on then conj_okb (elems L) (cell L i o) else true.
Definition cov_at (cmax:Q) (F:option (tbl Q)) (i o:nat) : bool :=
  match F with Some f => cov_okb cmax (cell f i o) | None => true end.
(* every criterion except the conjugate one *)
Definition ssi_otherb (h:hcrit) (s:ssi_tabs) (i o:nat) : bool :=
  damp_okb (hc_xi_max h) (cell (sXi s) i o) && vokb (mpd_okb (hc_mpd_lim h)) (sPhi s) i o
  && vokb (mpc_okb (hc_mpc_lim h)) (sPhi s) i o && cov_at (hc_cov_max h) (sFnC s) i o.
Definition ssi_keepb (h:hcrit) (s:ssi_tabs) (i o:nat) : bool :=
  conj_at (hc_conj_on h) (sLam s) i o && ssi_otherb h s i o.
Definition pl_otherb (h:hcrit) (s:pl_tabs) (i o:nat) : bool :=
  damp_okb (hc_xi_max h) (cell (pXi s) i o) && vokb (mpd_okb (hc_mpd_lim h)) (pPhi s) i o
  && vokb (mpc_okb (hc_mpc_lim h)) (pPhi s) i o.
Definition pl_keepb (h:hcrit) (s:pl_tabs) (i o:nat) : bool :=
  conj_at (hc_conj_on h) (pLam s) i o && pl_otherb h s i o.

(* ================= shapes: all tables of one call have the dimensions of the frequency table ================= *)
Definition dims {A} (t:list (list A)) : list nat := map (@length A) t.
Definition odims {A} (t:option (list (list A))) (d:list nat) : bool :=
  match t with Some x => if list_eq_dec Nat.eq_dec (dims x) d then true else false | None => true end.
Definition wf_ssi (s:ssi_tabs) : bool :=
  let d := dims (sFn s) in
  odims (Some (sXi s)) d && odims (Some (sPhi s)) d && odims (Some (sLam s)) d
  && odims (sFnC s) d && odims (sXiC s) d && odims (sPhiC s) d.
Definition wf_pl (s:pl_tabs) : bool :=
  let d := dims (pFn s) in odims (Some (pXi s)) d && odims (Some (pPhi s)) d && odims (Some (pLam s)) d.
End HC.

Arguments sFn {E EC} s. Arguments sXi {E EC} s. Arguments sPhi {E EC} s. Arguments sLam {E EC} s.
Arguments sFnC {E EC} s. Arguments sXiC {E EC} s. Arguments sPhiC {E EC} s.
Arguments pFn {E} p. Arguments pXi {E} p. Arguments pPhi {E} p. Arguments pLam {E} p.

(* ================= execution helpers for the harness: shapes are passed as tokens =================
   A mode shape is moved, never computed on, by the modelled code; the harness numbers the entries of the unfiltered
   mode-shape table (token = (i*ncol + o)*nch + k) and supplies the indicator values that gen.MPC / gen.MPD give
   for the unfiltered shapes as a list indexed by cell number i*ncol + o. *)
Definition is_some {A} (c:option A) : bool := match c with Some _ => true | None => false end.
Definition tok_ind (nch:nat) (vals:list (option Q)) (v:list (option nat)) : option Q :=
  match v with
  | Some t :: _ => if forallb is_some v then nth (t / nch) vals None else None
  | _ => None
  end.
Definition tok_tbl3 (nr nc nch:nat) (def:list (list bool)) : tbl3 nat :=
  map (fun i => map (fun o => map (fun k => if mget def i o then Some ((i*nc+o)*nch+k)%nat else None) (seq 0 nch)) (seq 0 nc)) (seq 0 nr).

(* ================= declarative reading of the property text (used by the theorems of Properties/C09.v) =========== *)
Definition ceq (a b:cplx) : Prop := fst a == fst b /\ snd a == snd b.
(* "its complex conjugate is present": the table holds the pole and an entry equal to its conjugate (any order) *)
Definition has_conj (L:tbl cplx) (i o:nat) : Prop :=
  exists z, cell L i o = Some z /\ exists i' o' z', cell L i' o' = Some z' /\ ceq z' (cconjq z).
Definition xi_ok (xmax:Q) (X:tbl Q) (i o:nat) : Prop := exists x, cell X i o = Some x /\ 0 < x /\ x < xmax.
Definition cov_ok (cmax:Q) (F:tbl Q) (i o:nat) : Prop := exists c, cell F i o = Some c /\ c < cmax.

Section HCspec.
Variable E : Type.
Variable EC : Type.
Variable mpc mpd : list (option E) -> option Q.
Definition mpd_ok (lim:Q) (P:tbl3 E) (i o:nat) : Prop := exists v d, vget P i o = Some v /\ mpd v = Some d /\ d <= lim.
Definition mpc_ok (lim:Q) (P:tbl3 E) (i o:nat) : Prop := exists v c, vget P i o = Some v /\ mpc v = Some c /\ lim <= c.

(* 0 < xi < xi_max, MPC >= mpc_lim, MPD <= mpd_lim and, when uncertainties are computed, frequency covariance < cov_max *)
Definition ssi_other (h:hcrit) (s:ssi_tabs E EC) (i o:nat) : Prop :=
  xi_ok (hc_xi_max h) (sXi s) i o /\ mpc_ok (hc_mpc_lim h) (sPhi s) i o /\ mpd_ok (hc_mpd_lim h) (sPhi s) i o
  /\ (forall F, sFnC s = Some F -> cov_ok (hc_cov_max h) F i o).
Definition ssi_keep (h:hcrit) (s:ssi_tabs E EC) (i o:nat) : Prop :=
  (hc_conj_on h = true -> has_conj (sLam s) i o) /\ ssi_other h s i o.
Definition pl_other (h:hcrit) (s:pl_tabs E) (i o:nat) : Prop :=
  xi_ok (hc_xi_max h) (pXi s) i o /\ mpc_ok (hc_mpc_lim h) (pPhi s) i o /\ mpd_ok (hc_mpd_lim h) (pPhi s) i o.
Definition pl_keep (h:hcrit) (s:pl_tabs E) (i o:nat) : Prop :=
  (hc_conj_on h = true -> has_conj (pLam s) i o) /\ pl_other h s i o.

(* "cell (i,o) of the returned table is Some v iff it was Some v before and the pole satisfies the criteria" *)
Definition tbl_spec {A} (K:Prop) (t0 t:tbl A) (i o:nat) : Prop :=
  forall v, cell t i o = Some v <-> cell t0 i o = Some v /\ K.
Definition tbl3_spec {X} (K:Prop) (t0 t:tbl3 X) (i o:nat) : Prop :=
  forall k e, cell3 t i o k = Some e <-> cell3 t0 i o k = Some e /\ K.
Definition otbl_spec {A} (K:Prop) (t0 t:option (tbl A)) (i o:nat) : Prop :=
  match t0, t with Some a, Some b => tbl_spec K a b i o | None, None => True | _, _ => False end.
Definition otbl3_spec {X} (K:Prop) (t0 t:option (tbl3 X)) (i o:nat) : Prop :=
  match t0, t with Some a, Some b => tbl3_spec K a b i o | None, None => True | _, _ => False end.

(* one NaN pattern at (i,o): every table is defined there (b = true) or every table is blank there (b = false).
   The mode-shape covariance table is left out: SSI_poles never fills it (it is all-nan before any criterion). *)
Definition ssi_joint (s:ssi_tabs E EC) (i o:nat) (b:bool) : Prop :=
  is_some (cell (sFn s) i o) = b /\ is_some (cell (sXi s) i o) = b /\ is_some (cell (sLam s) i o) = b
  /\ (forall k, (k < vlen (sPhi s) i o)%nat -> is_some (cell3 (sPhi s) i o k) = b)
  /\ (forall F, sFnC s = Some F -> is_some (cell F i o) = b)
  /\ (forall X, sXiC s = Some X -> is_some (cell X i o) = b).
Definition pl_joint (s:pl_tabs E) (i o:nat) (b:bool) : Prop :=
  is_some (cell (pFn s) i o) = b /\ is_some (cell (pXi s) i o) = b
  /\ (forall k, (k < vlen (pPhi s) i o)%nat -> is_some (cell3 (pPhi s) i o k) = b).
End HCspec.

(* ================= one-line printers for the harness (nothing parses Coq's pretty-printer) ================= *)
From Coq Require Import String.
From PyOMA.Base Require Import Show.
Open Scope string_scope.
Definition showT (t:tbl Q) : string := showL (showL (showO showQ) " ") ";" t.
Definition showTC (t:tbl cplx) : string := showL (showL (showO (fun z => showQ (fst z) ++ "," ++ showQ (snd z))) " ") ";" t.
Definition showT3 (t:tbl3 nat) : string := showL (showL (fun v => showL (showO showN) "," v) " ") ";" t.
Definition showOpt {A} (f:A->string) (t:option A) : string := match t with Some x => f x | None => "none" end.
Definition showM (m:mask) : string := showL (showL showB " ") ";" m.
Definition show_ssi (wf:bool) (r:ssi_tabs nat nat) : string :=
  join "|" [showB wf; showT (sFn r); showT (sXi r); showT3 (sPhi r); showTC (sLam r);
            showOpt showT (sFnC r); showOpt showT (sXiC r); showOpt showT3 (sPhiC r)].
Definition show_pl (wf:bool) (r:pl_tabs nat) : string :=
  join "|" [showB wf; showT (pFn r); showT (pXi r); showT3 (pPhi r)].
(* whole-run entry points: tokens for the shapes, indicator lists per cell *)
Definition eval_ssi (nch:nat) (mpcv mpdv:list (option Q)) (h:hcrit) (s:ssi_tabs nat nat) : string :=
  show_ssi (wf_ssi nat nat s) (run_ssi nat nat (tok_ind nch mpcv) (tok_ind nch mpdv) h s).
Definition eval_pl (nch:nat) (mpcv mpdv:list (option Q)) (h:hcrit) (s:pl_tabs nat) : string :=
  show_pl (wf_pl nat s) (run_pl nat (tok_ind nch mpcv) (tok_ind nch mpdv) h s).
