(* C10 - second layer of the model of pyoma2.functions.gen.SC_apply: the LOOP ITSELF, for an arbitrary step, and the
   glue of the six algorithm classes (run parameters -> arguments of SC_apply).  Definitions only.

   gen.SC_apply(Fn, Xi, Phi, ordmin, ordmax, step, err_fn, err_xi, err_phi):
       Lab = np.zeros(Fn.shape, dtype="int")
       for oo in range(ordmin, ordmax + 1, step):          -> [py_range]   (step = 0: ValueError)
           o = int(oo / step)                              -> [col_of]
           f_n = Fn[:, o] ...                              -> IndexError when o is not a column
           if o == 0: continue
           for i in range(len(f_n)): Lab[i, o] = 1 / 0 / unchanged (exception inside the try)
       return Lab
   [sc_loop] executes this on a label table that starts at zero: one step per visited column, the column being
   overwritten by the cell decisions [M_sc.stable_at] (a caught exception leaves the initial 0: the visited columns
   are strictly increasing - proved in P_sc_step.v - so no cell is written twice).
   Model orders and columns are naturals (the property takes 0 <= ordmin <= ordmax); oo / step is the exact quotient
   (IEEE division followed by int() is the floor for naturals below 2^53).

   Call sites:
     SSIdat / SSIcov / SSIdat_MS / SSIcov_MS .run():  SC_apply(Fns, Xis, Phis, ordmin, ordmax, step, sc["err_fn"], sc["err_xi"], sc["err_phi"])
         SSI_poles lays the table out with column c = order c * step  (int(ordmax / step + 1) columns);
     pLSCF / pLSCF_MS .run():  SC_apply(Fns, Xis, Phis, max(ordmin - 1, 0), ordmax - 1, 1, sc[...], ...)
         pLSCF_poles lays the table out with column c = order c + 1   (ordmax columns); these classes have no step.
   The tolerances are read from the dict [sc] BY KEY (a missing key is a KeyError, the first one in argument order). *)
From Coq Require Import List Arith ZArith QArith Qabs Bool String.
From PyOMA.Base Require Import Argmin Show.
From PyOMA.Model Require Import M_sc.
Import ListNotations.
Open Scope Q_scope.

(* ---------- the loop head ---------- *)
(* Python range(start, stop, step) for step >= 1 (CPython: len = (stop - start + step - 1) // step when start < stop,
   else 0; element j = start + j * step).  The subtraction is the truncated one of nat: start >= stop gives length 0. *)
Definition py_range (start stop step:nat) : list nat :=
  map (fun j => (start + j * step)%nat) (seq 0 ((stop - start + step - 1) / step)).
(* o = int(oo / step) *)
Definition col_of (oo step:nat) : nat := (oo / step)%nat.
(* the columns the loop touches, in the order in which it touches them *)
Definition visited (start stop step:nat) : list nat := map (fun oo => col_of oo step) (py_range start stop step).

Inductive ss_res : Type :=
| SsOk (lab:list (list bool))
| SsIndexErr                      (* a visited column is beyond the table *)
| SsValueErr                      (* range() arg 3 must not be zero *)
| SsKeyErr (k:string).            (* class level: sc has no such key *)

Section Loop.
Variable Shape : Type.
Variable mac : Shape -> Shape -> option Q.

(* np.zeros(Fn.shape) *)
Definition zeros (Fn:list (list (option Q))) : list (list bool) :=
  map (fun _ => map (fun _ => false) (seq 0 (ncols Fn))) (seq 0 (nrows Fn)).

(* Lab[i, o] = g i  for every row i; every other cell keeps its value *)
Definition set_col (L:list (list bool)) (o:nat) (g:nat -> bool) : list (list bool) :=
  map (fun i => let row := nth i L [] in
                map (fun c => if (c =? o)%nat then g i else nth c row false) (seq 0 (List.length row)))
      (seq 0 (List.length L)).

Fixpoint sc_loop Fn Xi (Phi:list (list (option Shape))) (efn exi ephi:Q) (cols:list nat) (L:list (list bool)) : ss_res :=
  match cols with
  | [] => SsOk L
  | o :: rest =>
      if (ncols Fn <=? o)%nat then SsIndexErr                                   (* Fn[:, o] *)
      else match o with
           | 0%nat => sc_loop Fn Xi Phi efn exi ephi rest L                      (* if o == 0: continue *)
           | S _ => sc_loop Fn Xi Phi efn exi ephi rest
                            (set_col L o (fun i => stable_at mac Fn Xi Phi efn exi ephi i o))
           end
  end.

(* the loop over range(start, stop, step) *)
Definition sc_apply_range Fn Xi Phi (start stop step:nat) efn exi ephi : ss_res :=
  match step with
  | 0%nat => SsValueErr
  | S _ => sc_loop Fn Xi Phi efn exi ephi (visited start stop step) (zeros Fn)
  end.

(* gen.SC_apply(Fn, Xi, Phi, ordmin, ordmax, step, efn, exi, ephi) *)
Definition sc_apply_step Fn Xi Phi (ordmin ordmax step:nat) efn exi ephi : ss_res :=
  sc_apply_range Fn Xi Phi ordmin (S ordmax) step efn exi ephi.
End Loop.

Arguments sc_loop {Shape} mac Fn Xi Phi efn exi ephi cols L.
Arguments sc_apply_range {Shape} mac Fn Xi Phi start stop step efn exi ephi.
Arguments sc_apply_step {Shape} mac Fn Xi Phi ordmin ordmax step efn exi ephi.

(* first and last visited column (an empty visit is reported as the empty interval 1..0) *)
Definition visited_bounds (start stop step:nat) : nat * nat :=
  let n := ((stop - start + step - 1) / step)%nat in
  match n with
  | 0%nat => (1%nat, 0%nat)
  | S m => ((start / step)%nat, (start / step + m)%nat)
  end.

(* column c is touched by the loop over range(start, stop, step): there is a REQUESTED order oo = start + j*step
   below stop that is looked up in column c; equivalently  start <= c*step + start mod step < stop *)
Definition col_requested (start stop step c:nat) : Prop :=
  exists oo j, (oo = start + j * step /\ oo < stop /\ oo / step = c)%nat.

(* ---------- the classes ---------- *)
Inductive cls : Type := SSIdat | SSIcov | SSIdat_MS | SSIcov_MS | PLSCF | PLSCF_MS.
Definition is_plscf (c:cls) : bool := match c with PLSCF | PLSCF_MS => true | _ => false end.

(* the run parameters that reach SC_apply: ordmin, ordmax, step (SSI only; ignored by pLSCF) and the dict sc *)
Record runp : Type := { rp_ordmin : nat; rp_ordmax : nat; rp_step : nat; rp_sc : list (string * Q) }.

(* d[k] of a Python dict given as its item list (keys of a dict are distinct; the first match is taken) *)
Fixpoint lookup (k:string) (d:list (string * Q)) : option Q :=
  match d with
  | [] => None
  | (k', v) :: r => if String.eqb k k' then Some v else lookup k r
  end.

(* positional arguments 4..9 of the SC_apply call; a_stop is (the ordmax argument) + 1, the stop of the range *)
Record sc_args : Type := { a_start : nat; a_stop : nat; a_step : nat; a_efn : Q; a_exi : Q; a_ephi : Q }.
Inductive glue_res : Type := GlueOk (a:sc_args) | GlueKeyErr (k:string).

Definition class_args (c:cls) (p:runp) : glue_res :=
  match lookup "err_fn" (rp_sc p) with
  | None => GlueKeyErr "err_fn"
  | Some efn =>
    match lookup "err_xi" (rp_sc p) with
    | None => GlueKeyErr "err_xi"
    | Some exi =>
      match lookup "err_phi" (rp_sc p) with
      | None => GlueKeyErr "err_phi"
      | Some ephi =>
          if is_plscf c
          then (* max(ordmin - 1, 0), ordmax - 1, 1 : the range is range(max(ordmin-1,0), ordmax, 1) *)
               GlueOk {| a_start := (rp_ordmin p - 1)%nat; a_stop := rp_ordmax p; a_step := 1%nat;
                         a_efn := efn; a_exi := exi; a_ephi := ephi |}
          else (* ordmin, ordmax, step *)
               GlueOk {| a_start := rp_ordmin p; a_stop := S (rp_ordmax p); a_step := rp_step p;
                         a_efn := efn; a_exi := exi; a_ephi := ephi |}
      end
    end
  end.

(* result.Lab of a class whose filtered pole tables are Fn, Xi, Phi *)
Definition class_lab {Shape:Type} (mac:Shape -> Shape -> option Q) (c:cls) (p:runp) Fn Xi (Phi:list (list (option Shape))) : ss_res :=
  match class_args c p with
  | GlueKeyErr k => SsKeyErr k
  | GlueOk a => sc_apply_range mac Fn Xi Phi (a_start a) (a_stop a) (a_step a) (a_efn a) (a_exi a) (a_ephi a)
  end.

(* the model order that column c of the class's pole tables stands for *)
Definition class_order (c:cls) (p:runp) (col:nat) : nat :=
  if is_plscf c then S col else (col * rp_step p)%nat.
(* number of columns of the tables the class builds: SSI_poles int(ordmax/step + 1), pLSCF_poles ordmax *)
Definition class_ncols (c:cls) (p:runp) : nat :=
  if is_plscf c then rp_ordmax p else S (rp_ordmax p / rp_step p)%nat.

(* ---------- the closed executable instance and the strings the harness reads ---------- *)
Definition show_ss (r:ss_res) : string :=
  match r with
  | SsOk L => show_labels (ScOk L)
  | SsIndexErr => "IndexError"
  | SsValueErr => "ValueError"
  | SsKeyErr k => ("KeyError " ++ k)%string
  end.

Definition show_range_verdicts Fn Xi PhiRaw (start stop step:nat) efn exi ephi : string :=
  let b := visited_bounds start stop step in show_verdicts Fn Xi PhiRaw (fst b) (snd b) efn exi ephi.

(* function level: labels of gen.SC_apply(Fn, Xi, Phi, ordmin, ordmax, step, ...) | verdict of every cell *)
Definition run_sc_step Fn Xi PhiRaw (ordmin ordmax step:nat) efn exi ephi : string :=
  (show_ss (sc_apply_step mac_q Fn Xi (norm_phi PhiRaw) ordmin ordmax step efn exi ephi) ++ "|"
   ++ show_range_verdicts Fn Xi PhiRaw ordmin (S ordmax) step efn exi ephi)%string.

Definition cls_of_nat (k:nat) : cls :=
  match k with 0%nat => SSIdat | 1%nat => SSIcov | 2%nat => SSIdat_MS | 3%nat => SSIcov_MS | 4%nat => PLSCF | _ => PLSCF_MS end.

Definition showQ_ (x:Q) : string := showQ x.
Definition showN_ (n:nat) : string := showN n.

(* the arguments the class passes: "start stop step efn exi ephi" (stop = ordmax argument + 1) *)
Definition show_glue (g:glue_res) : string :=
  match g with
  | GlueKeyErr k => ("KeyError " ++ k)%string
  | GlueOk a => (showN_ (a_start a) ++ " " ++ showN_ (a_stop a) ++ " " ++ showN_ (a_step a) ++ " "
                 ++ showQ_ (a_efn a) ++ " " ++ showQ_ (a_exi a) ++ " " ++ showQ_ (a_ephi a))%string
  end.

(* class level: arguments | labels | verdicts, from the run parameters and the returned tables *)
Definition run_cls (k:nat) (ordmin ordmax step:nat) (sc:list (string * Q)) Fn Xi PhiRaw : string :=
  let c := cls_of_nat k in
  let p := {| rp_ordmin := ordmin; rp_ordmax := ordmax; rp_step := step; rp_sc := sc |} in
  (show_glue (class_args c p) ++ "|" ++ show_ss (class_lab mac_q c p Fn Xi (norm_phi PhiRaw)) ++ "|"
   ++ match class_args c p with
      | GlueOk a => show_range_verdicts Fn Xi PhiRaw (a_start a) (a_stop a) (a_step a) (a_efn a) (a_exi a) (a_ephi a)
      | GlueKeyErr _ => ""
      end)%string.
