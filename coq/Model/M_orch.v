(* C15 - orchestration model: a setup holding named algorithm instances (pyoma2.setup.base.BaseSetup,
   pyoma2.algorithms.base.BaseAlgorithm), the pickle round trip (functions/gen.py save_to_file/load_from_file)
   and the validation done by MultiSetup_PoSER._init_setups (setup/multi.py).
   Definitions only.  Everything is over nat / list / option: executable by vm_compute.

   Identifiers are opaque numbers: a class id, a run-parameter id, a data-array id, a sampling-frequency id and an
   id for the arguments of an mpe call.  The RESULT of a run is the uninterpreted term [Run c p d f]: "what class c
   computes from parameters p on data d sampled at f".  Nothing else can enter a result, so "the result depends only
   on the algorithm's own parameters and the data bound when it was added" is a statement about terms. *)
From Coq Require Import String Ascii List Arith Bool.
From PyOMA.Base Require Import Show.
Import ListNotations.

Definition name := nat.
Definition cls := nat.
Definition P := nat.        (* run parameters given at construction *)
Definition DataId := nat.   (* identity + content of a data array *)
Definition Fs := nat.       (* sampling frequency *)
Definition Args := nat.     (* arguments of one mpe call (sel_freq, DF, order, rtol ...) *)

Inductive Res := Run (c:cls) (p:P) (d:DataId) (f:Fs).
(* modes extracted from a result; the implementation also writes the mpe arguments into run_params: that write is
   part of this field (it must not happen when the gate fires). *)
Inductive Modes := Extract (r:Res) (a:Args).

Record alg := mkAlg {
  a_cls : cls;
  a_params : option P;                 (* None: constructed without run parameters *)
  a_bound : option (DataId * Fs);      (* data/fs handed over by add_algorithms; None: the setup had no data *)
  a_result : option Res;
  a_mpe : option Modes }.

Record setup := mkSetup {
  s_data : option DataId;              (* setup.data (None only by direct assignment) *)
  s_fs : option Fs;                    (* setup.fs *)
  s_algs : list (name * alg) }.        (* setup.algorithms: insertion-ordered dict *)

Inductive err := ValueErr | KeyErr | TypeErr.

Inductive op :=
| Add (a:name) (c:cls) (p:option P)    (* add_algorithms(fresh instance of class c named a, parameters p) *)
| RunByName (a:name)
| RunAll
| Mpe (a:name) (args:Args)
| Rebind (d:option DataId) (f:option Fs) (* preprocessing: setup.data / setup.fs replaced by new objects *)
| SaveLoad.                            (* save_to_file then load_from_file, continue with the loaded object *)

Definition set_algs (s:setup) (l:list (name*alg)) : setup := mkSetup (s_data s) (s_fs s) l.

Fixpoint lookup (a:name) (l:list (name*alg)) : option alg :=
  match l with [] => None | (n,x)::t => if Nat.eqb n a then Some x else lookup a t end.

(* dict update {**old, **{a: x}}: an existing key keeps its position, a new key goes last *)
Fixpoint upsert (a:name) (x:alg) (l:list (name*alg)) : list (name*alg) :=
  match l with [] => [(a,x)] | (n,y)::t => if Nat.eqb n a then (n,x)::t else (n,y)::upsert a x t end.

(* replace the value of an existing key (no-op when absent) *)
Fixpoint update (a:name) (x:alg) (l:list (name*alg)) : list (name*alg) :=
  match l with [] => [] | (n,y)::t => if Nat.eqb n a then (n,x)::t else (n,y)::update a x t end.

(* _pre_run (data/fs first, then run parameters), run(), _set_result: a fresh result object, so no modes in it *)
Definition run_alg (x:alg) : err + alg :=
  match a_bound x with
  | None => inl ValueErr
  | Some (d,f) =>
    match a_params x with
    | None => inl ValueErr
    | Some p => inr (mkAlg (a_cls x) (a_params x) (a_bound x) (Some (Run (a_cls x) p d f)) None)
    end
  end.

(* mpe: the base-class gate "if not self.result: raise ValueError" comes first *)
Definition mpe_alg (args:Args) (x:alg) : err + alg :=
  match a_result x with
  | None => inl ValueErr
  | Some r => inr (mkAlg (a_cls x) (a_params x) (a_bound x) (a_result x) (Some (Extract r args)))
  end.

(* run_all: iterate the dict in order, stop at the first exception (earlier results stay stored) *)
Fixpoint run_each (l:list (name*alg)) : option err * list (name*alg) :=
  match l with
  | [] => (None, [])
  | (n,x)::t =>
    match run_alg x with
    | inl e => (Some e, (n,x)::t)
    | inr x' => let (e,t') := run_each t in (e, (n,x')::t')
    end
  end.

Definition step (s:setup) (o:op) : option err * setup :=
  match o with
  | Add a c p =>
    match s_fs s with
    | None => (Some TypeErr, s)        (* _set_data computes 1/fs before the dict is assigned *)
    | Some f => (None, set_algs s (upsert a (mkAlg c p (option_map (fun d => (d,f)) (s_data s)) None None) (s_algs s)))
    end
  | RunByName a =>
    match lookup a (s_algs s) with
    | None => (Some KeyErr, s)
    | Some x => match run_alg x with inl e => (Some e, s) | inr x' => (None, set_algs s (update a x' (s_algs s))) end
    end
  | RunAll => let (e,l) := run_each (s_algs s) in (e, set_algs s l)
  | Mpe a args =>
    match lookup a (s_algs s) with
    | None => (Some KeyErr, s)
    | Some x => match mpe_alg args x with inl e => (Some e, s) | inr x' => (None, set_algs s (update a x' (s_algs s))) end
    end
  | Rebind d f => (None, mkSetup d f (s_algs s))
  | SaveLoad => (None, s)
  end.

(* a history: every call is made, exceptions are caught by the caller and the next call follows *)
Definition exec (h:list op) (s:setup) : setup := fold_left (fun s o => snd (step s o)) h s.
Fixpoint trace (h:list op) (s:setup) : list (option err) :=
  match h with [] => [] | o::t => fst (step s o) :: trace t (snd (step s o)) end.

Definition new_setup (d:DataId) (f:Fs) : setup := mkSetup (Some d) (Some f) [].

(* ---- reference semantics of "what was handed to a at its latest add" (no results involved) ---- *)
Definition binding := (cls * option P * option (DataId * Fs))%type.
Record tracker := mkTr { t_data : option DataId; t_fs : option Fs; t_tab : list (name * binding) }.
Fixpoint tlookup (a:name) (l:list (name*binding)) : option binding :=
  match l with [] => None | (n,b)::t => if Nat.eqb n a then Some b else tlookup a t end.
Definition track1 (t:tracker) (o:op) : tracker :=
  match o with
  | Add a c p => match t_fs t with
                 | None => t
                 | Some f => mkTr (t_data t) (t_fs t) ((a, (c, p, option_map (fun d => (d,f)) (t_data t))) :: t_tab t)
                 end
  | Rebind d f => mkTr d f (t_tab t)
  | _ => t
  end.
Definition track (h:list op) (t:tracker) : tracker := fold_left track1 h t.
(* binding of a after history h started on a new setup *)
Definition last_add (d:DataId) (f:Fs) (h:list op) (a:name) : option binding :=
  tlookup a (t_tab (track h (mkTr (Some d) (Some f) []))).
Definition binding_of (x:alg) : binding := (a_cls x, a_params x, a_bound x).

Definition targets (o:op) (a:name) : bool :=
  match o with
  | Add b _ _ => Nat.eqb b a | RunByName b => Nat.eqb b a | Mpe b _ => Nat.eqb b a
  | RunAll => true | Rebind _ _ => false | SaveLoad => false
  end.
Definition is_add (o:op) (a:name) : bool := match o with Add b _ _ => Nat.eqb b a | _ => false end.

(* fold used to state run_all_is_fold *)
Definition run_step (acc:option err * setup) (n:name) : option err * setup :=
  match fst acc with Some _ => acc | None => step (snd acc) (RunByName n) end.
Definition run_names (s:setup) (ns:list name) : option err * setup := fold_left run_step ns (None, s).

(* ---- MultiSetup_PoSER._init_setups ---- *)
Inductive astate := NotRun | Ran | Extracted.   (* result None | result with Fn None | result with Fn *)
Definition setup_desc := list (cls * astate).
Definition state_of (x:alg) : astate :=
  match a_result x, a_mpe x with None, _ => NotRun | Some _, None => Ran | Some _, Some _ => Extracted end.
Definition desc_of (s:setup) : setup_desc := map (fun nx => (a_cls (snd nx), state_of (snd nx))) (s_algs s).

Fixpoint nat_list_eqb (u v:list nat) : bool :=
  match u, v with [], [] => true | x::u', y::v' => Nat.eqb x y && nat_list_eqb u' v' | _, _ => false end.
Definition is_nil {A} (l:list A) : bool := match l with [] => true | _ => false end.
Definition is_extracted (st:astate) : bool := match st with Extracted => true | _ => false end.
Definition has_run (st:astate) : bool := match st with NotRun => false | _ => true end.
Definition types_of (s:setup_desc) : list cls := map fst s.

(* the clauses in the order of the code; Some k = ValueError raised by clause k, None = accepted *)
Definition poser_check (ss:list setup_desc) (names:list name) : option nat :=
  if Nat.leb (length ss) 1 then Some 1
  else if existsb is_nil ss then Some 2
  else if negb (forallb (fun s => nat_list_eqb (types_of s) (types_of (hd [] ss))) ss) then Some 3
  else if negb (Nat.eqb (length names) (length (hd [] ss))) then Some 4
  else if negb (forallb (forallb (fun ca => has_run (snd ca) && is_extracted (snd ca))) ss) then Some 5
  else None.
Definition poser_ok (ss:list setup_desc) (names:list name) : bool :=
  match poser_check ss names with None => true | Some _ => false end.

(* ---- printers used by the harness ---- *)
Local Open Scope string_scope.
Definition showE (e:option err) : string :=
  match e with None => "ok" | Some ValueErr => "V" | Some KeyErr => "K" | Some TypeErr => "T" end.
Definition showON (o:option nat) : string := match o with None => "-" | Some n => showN n end.
Definition showBound (b:option (DataId*Fs)) : string :=
  match b with None => "-" | Some (d,f) => showN d ++ "," ++ showN f end.
Definition showRes (r:option Res) : string :=
  match r with None => "-" | Some (Run c p d f) => showN c ++ "," ++ showN p ++ "," ++ showN d ++ "," ++ showN f end.
Definition showModes (m:option Modes) : string :=
  match m with None => "-" | Some (Extract (Run c p d f) a) =>
    showN c ++ "," ++ showN p ++ "," ++ showN d ++ "," ++ showN f ++ "," ++ showN a end.
Definition showAlg (nx:name*alg) : string :=
  let x := snd nx in
  showN (fst nx) ++ ":" ++ showN (a_cls x) ++ ":" ++ showON (a_params x) ++ ":" ++ showBound (a_bound x) ++ ":" ++
  showRes (a_result x) ++ ":" ++ showModes (a_mpe x).
Definition showSetup (s:setup) : string :=
  showON (s_data s) ++ ":" ++ showON (s_fs s) ++ "/" ++ showL showAlg ";" (s_algs s).
(* one history: error codes of every call, then the final state *)
Definition showHist (d:DataId) (f:Fs) (h:list op) : string :=
  showL showE " " (trace h (new_setup d f)) ++ "/" ++ showSetup (exec h (new_setup d f)).
Definition showHists (d:DataId) (f:Fs) (hs:list (list op)) : string := showL (showHist d f) "|" hs.
Definition showPoser (cfgs:list (list setup_desc * nat)) : string :=
  showL (fun c => showON (poser_check (fst c) (seq 0 (snd c)))) " " cfgs.
(* PoSER on the final states of histories *)
Definition showPoserH (d:DataId) (f:Fs) (cfgs:list (list (list op) * nat)) : string :=
  showL (fun c => showON (poser_check (map (fun h => desc_of (exec h (new_setup d f))) (fst c)) (seq 0 (snd c)))) " " cfgs.

(* ---- readers used by the harness: a batch of cases is ONE string literal (numbers separated by blanks, cases by "|"),
   because elaborating large list literals dominates the run time.  A bug here shows up as a disagreement. *)
Definition digit_of (c:Ascii.ascii) : option nat :=
  let n := Ascii.nat_of_ascii c in if Nat.leb 48 n && Nat.leb n 57 then Some (n - 48) else None.
Definition push_num (cur:option nat) (row:list nat) : list nat := match cur with Some n => n :: row | None => row end.
Fixpoint read_rows (s:string) (cur:option nat) (row:list nat) (rows:list (list nat)) : list (list nat) :=
  match s with
  | EmptyString => rev (rev (push_num cur row) :: rows)
  | String c t =>
    match digit_of c with
    | Some d => read_rows t (Some (match cur with Some n => 10 * n + d | None => d end)) row rows
    | None => if Ascii.eqb c "|"%char then read_rows t None [] (rev (push_num cur row) :: rows)
              else read_rows t None (push_num cur row) rows
    end
  end.
Definition rows_of (s:string) : list (list nat) := read_rows s None [] [].
Definition unshift (n:nat) : option nat := match n with 0 => None | S k => Some k end.
(* op codes: 1 i c p+1|0 = Add, 2 i = RunByName, 3 = RunAll, 4 i args = Mpe, 5 d+1|0 f+1|0 = Rebind, 6 = SaveLoad *)
Fixpoint decode_ops (l:list nat) : list op :=
  match l with
  | 1 :: i :: c :: p :: t => Add i c (unshift p) :: decode_ops t
  | 2 :: i :: t => RunByName i :: decode_ops t
  | 3 :: t => RunAll :: decode_ops t
  | 4 :: i :: a :: t => Mpe i a :: decode_ops t
  | 5 :: d :: f :: t => Rebind (unshift d) (unshift f) :: decode_ops t
  | 6 :: t => SaveLoad :: decode_ops t
  | _ => []
  end.
Definition showHistsS (d:DataId) (f:Fs) (s:string) : string := showHists d f (map decode_ops (rows_of s)).
(* a PoSER row: indices into the option table, then the number of names *)
Definition cfg_of_row {A} (opts:list A) (dflt:A) (row:list nat) : list A * nat :=
  (map (fun i => nth i opts dflt) (removelast row), last row 0).
Definition showPoserS (opts:list setup_desc) (s:string) : string := showPoser (map (cfg_of_row opts []) (rows_of s)).
Definition showPoserHS (d:DataId) (f:Fs) (hs:string) (s:string) : string :=
  showPoserH d f (map (cfg_of_row (map decode_ops (rows_of hs)) []) (rows_of s)).
(* a PoSER row with an explicit name list (names may repeat): k, then k indices into the option table, then the names *)
Definition cfg_names_of_row {A} (opts:list A) (dflt:A) (row:list nat) : list A * list name :=
  match row with
  | [] => ([], [])
  | k :: t => (map (fun i => nth i opts dflt) (firstn k t), skipn k t)
  end.
Definition showPoserNS (opts:list setup_desc) (s:string) : string :=
  showL (fun c => showON (poser_check (fst c) (snd c))) " " (map (cfg_names_of_row opts []) (rows_of s)).
