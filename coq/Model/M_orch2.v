(* C15 - second orchestration machine: algorithm INSTANCES with identity (pyoma2.algorithms.base.BaseAlgorithm objects the
   caller keeps a handle on) and a setup whose dict maps a name to an instance (pyoma2.setup.base.BaseSetup, inherited
   unchanged by SingleSetup and MultiSetup_PreGER).  Definitions only; everything is over nat / list / option.

   What M_orch.v does not say and this machine does:
   * set_run_params (algorithms/base.py): replaces the run parameters of an instance, touches nothing else - the stored
     result and modes stay, a later run uses the new parameters;
   * add_algorithms (setup/base.py) on instances: every instance handed over is re-bound by _set_data (data, fs, dt) -
     result, modes and parameters are KEPT - and the dict {**old, **{alg.name: alg}} is assigned afterwards: adding the
     same instance again re-binds it, adding another instance with a name already present replaces the dict entry (the
     position of the key is kept) and leaves the replaced instance as it is; _set_data writes data and fs BEFORE it
     computes 1/fs, so with fs None the first instance is half re-bound when TypeError leaves the call;
   * mpe reads the stored result, the CURRENT run parameters and the CURRENT dt (EFDD / FSDD: method_SD, dt), so the modes
     are the term [Extract2 r p data dt args];
   * rollback (setup/single.py, setup/multi.py): data and fs back to the initial ones, the dict emptied, instances untouched.
   A result is still the uninterpreted term [Run c p d f] of M_orch.v. *)
From Coq Require Import String Ascii List Arith Bool.
From PyOMA.Base Require Import Show.
From PyOMA.Model Require Import M_orch.
Import ListNotations.

Definition iid := nat.      (* handle of an instance = its index in the heap *)

Inductive Modes2 := Extract2 (r:Res) (p:P) (d:option DataId) (dt:option Fs) (a:Args).

Record inst := mkInst {
  i_name : name;                       (* fixed at construction *)
  i_cls : cls;
  i_params : option P;                 (* run_params *)
  i_data : option DataId;              (* alg.data *)
  i_fs : option Fs;                    (* alg.fs *)
  i_dt : option Fs;                    (* alg.dt = 1 / (the fs of the last complete _set_data) *)
  i_result : option Res;
  i_modes : option Modes2 }.

Record mstate := mkM {
  m_data : option DataId;
  m_fs : option Fs;
  m_init : DataId * Fs;                (* _initial_data / _initial_fs *)
  m_heap : list inst;                  (* every instance constructed, in the dict or not *)
  m_dict : list (name * iid) }.        (* setup.algorithms, insertion ordered *)

Inductive exn := ValueE | KeyE | TypeE | AttrE | NameE.   (* NameE: a handle that does not exist (not a call at all) *)

Inductive mop :=
| MAdd (l:list iid)                    (* add_algorithms( *instances ) *)
| MSet (i:iid) (p:P)                   (* instance.set_run_params(p) *)
| MRun (a:name)
| MRunAll
| MMpe (a:name) (args:Args)
| MRebind (d:option DataId) (f:option Fs)
| MRollback
| MSaveLoad.

Fixpoint set_nth {A} (n:nat) (x:A) (l:list A) : list A :=
  match l, n with
  | [], _ => []
  | _ :: t, 0 => x :: t
  | y :: t, S k => y :: set_nth k x t
  end.

Fixpoint dlookup (a:name) (l:list (name*iid)) : option iid :=
  match l with [] => None | (n,i)::t => if Nat.eqb n a then Some i else dlookup a t end.

Fixpoint dupsert (a:name) (i:iid) (l:list (name*iid)) : list (name*iid) :=
  match l with [] => [(a,i)] | (n,j)::t => if Nat.eqb n a then (n,i)::t else (n,j)::dupsert a i t end.

(* _set_data: complete (fs is a number) / interrupted by 1/None *)
Definition bind_full (d:option DataId) (f:Fs) (x:inst) : inst :=
  mkInst (i_name x) (i_cls x) (i_params x) d (Some f) (Some f) (i_result x) (i_modes x).
Definition bind_part (d:option DataId) (x:inst) : inst :=
  mkInst (i_name x) (i_cls x) (i_params x) d None (i_dt x) (i_result x) (i_modes x).
Definition set_params (p:P) (x:inst) : inst :=
  mkInst (i_name x) (i_cls x) (Some p) (i_data x) (i_fs x) (i_dt x) (i_result x) (i_modes x).

Definition run_inst (x:inst) : exn + inst :=
  match i_fs x, i_data x with
  | Some f, Some d =>
    match i_params x with
    | None => inl ValueE
    | Some p => inr (mkInst (i_name x) (i_cls x) (i_params x) (i_data x) (i_fs x) (i_dt x) (Some (Run (i_cls x) p d f)) None)
    end
  | _, _ => inl ValueE
  end.

Definition mpe_inst (args:Args) (x:inst) : exn + inst :=
  match i_result x with
  | None => inl ValueE
  | Some r =>
    match i_params x with
    | None => inl AttrE
    | Some p => inr (mkInst (i_name x) (i_cls x) (i_params x) (i_data x) (i_fs x) (i_dt x) (i_result x)
                            (Some (Extract2 r p (i_data x) (i_dt x) args)))
    end
  end.

(* the dict comprehension of add_algorithms with fs a number: bind each instance in turn, collect name -> instance *)
Fixpoint add_each (d:option DataId) (f:Fs) (l:list iid) (heap:list inst) (dict:list (name*iid)) : list inst * list (name*iid) :=
  match l with
  | [] => (heap, dict)
  | i :: t =>
    match nth_error heap i with
    | None => add_each d f t heap dict
    | Some x => add_each d f t (set_nth i (bind_full d f x) heap) (dupsert (i_name x) i dict)
    end
  end.

(* run_all: the dict in order, stop at the first exception *)
Fixpoint run_entries (l:list (name*iid)) (heap:list inst) : option exn * list inst :=
  match l with
  | [] => (None, heap)
  | (n,i) :: t =>
    match nth_error heap i with
    | None => (Some KeyE, heap)
    | Some x => match run_inst x with inl e => (Some e, heap) | inr x' => run_entries t (set_nth i x' heap) end
    end
  end.

Definition set_heap (s:mstate) (h:list inst) : mstate := mkM (m_data s) (m_fs s) (m_init s) h (m_dict s).

Definition on_named (s:mstate) (a:name) (f:inst -> exn + inst) : option exn * mstate :=
  match dlookup a (m_dict s) with
  | None => (Some KeyE, s)
  | Some i =>
    match nth_error (m_heap s) i with
    | None => (Some KeyE, s)
    | Some x => match f x with inl e => (Some e, s) | inr x' => (None, set_heap s (set_nth i x' (m_heap s))) end
    end
  end.

Definition mstep (s:mstate) (o:mop) : option exn * mstate :=
  match o with
  | MAdd l =>
    if negb (forallb (fun i => Nat.ltb i (length (m_heap s))) l) then (Some NameE, s)
    else match m_fs s, l with
         | _, [] => (None, s)
         | None, i :: _ =>
           match nth_error (m_heap s) i with
           | None => (Some NameE, s)
           | Some x => (Some TypeE, set_heap s (set_nth i (bind_part (m_data s) x) (m_heap s)))
           end
         | Some f, _ =>
           let (h,d) := add_each (m_data s) f l (m_heap s) (m_dict s) in (None, mkM (m_data s) (m_fs s) (m_init s) h d)
         end
  | MSet i p =>
    match nth_error (m_heap s) i with
    | None => (Some NameE, s)
    | Some x => (None, set_heap s (set_nth i (set_params p x) (m_heap s)))
    end
  | MRun a => on_named s a run_inst
  | MRunAll => let (e,h) := run_entries (m_dict s) (m_heap s) in (e, set_heap s h)
  | MMpe a args => on_named s a (mpe_inst args)
  | MRebind d f => (None, mkM d f (m_init s) (m_heap s) (m_dict s))
  | MRollback => (None, mkM (Some (fst (m_init s))) (Some (snd (m_init s))) (m_init s) (m_heap s) [])
  | MSaveLoad => (None, s)
  end.

Definition mexec (h:list mop) (s:mstate) : mstate := fold_left (fun s o => snd (mstep s o)) h s.
Fixpoint mtrace (h:list mop) (s:mstate) : list (option exn) :=
  match h with [] => [] | o::t => fst (mstep s o) :: mtrace t (snd (mstep s o)) end.

(* a freshly constructed instance and a new setup around instances constructed beforehand *)
Definition new_inst (a:name) (c:cls) (p:option P) : inst := mkInst a c p None None None None None.
Definition new_mstate (d:DataId) (f:Fs) (heap:list inst) : mstate := mkM (Some d) (Some f) (d,f) heap [].
Definition fresh_inst (x:inst) : Prop :=
  i_data x = None /\ i_fs x = None /\ i_dt x = None /\ i_result x = None /\ i_modes x = None.

(* which instance a call can touch (state dependent: names are resolved through the dict) *)
Definition touches (s:mstate) (o:mop) (i:iid) : bool :=
  match o with
  | MAdd l => existsb (Nat.eqb i) l
  | MSet j _ => Nat.eqb j i
  | MRun a => match dlookup a (m_dict s) with Some j => Nat.eqb j i | None => false end
  | MMpe a _ => match dlookup a (m_dict s) with Some j => Nat.eqb j i | None => false end
  | MRunAll => existsb (fun nj => Nat.eqb (snd nj) i) (m_dict s)
  | _ => false
  end.
(* ... and which can give it a new result *)
Definition runs (s:mstate) (o:mop) (i:iid) : bool :=
  match o with
  | MRun a => match dlookup a (m_dict s) with Some j => Nat.eqb j i | None => false end
  | MRunAll => existsb (fun nj => Nat.eqb (snd nj) i) (m_dict s)
  | _ => false
  end.

(* what a run reads *)
Definition inputs_of (x:inst) : cls * option P * option DataId * option Fs := (i_cls x, i_params x, i_data x, i_fs x).
(* what the gates protect *)
Definition stored_of (x:inst) : option P * option Res * option Modes2 := (i_params x, i_result x, i_modes x).

(* fold used to state that run_all is run_by_name over the names in dict order *)
Definition mrun_step (acc:option exn * mstate) (n:name) : option exn * mstate :=
  match fst acc with Some _ => acc | None => mstep (snd acc) (MRun n) end.
Definition mrun_names (s:mstate) (ns:list name) : option exn * mstate := fold_left mrun_step ns (None, s).

(* the first machine inside this one: an algorithm entry of M_orch.v seen as an instance *)
Definition bound_of (x:inst) : option (DataId * Fs) :=
  match i_data x, i_fs x with Some d, Some f => Some (d,f) | _, _ => None end.

(* ---- printers ---- *)
Local Open Scope string_scope.
Definition showX (e:option exn) : string :=
  match e with None => "ok" | Some ValueE => "V" | Some KeyE => "K" | Some TypeE => "T" | Some AttrE => "A" | Some NameE => "N" end.
Definition showRun (r:Res) : string :=
  match r with Run c p d f => showN c ++ "," ++ showN p ++ "," ++ showN d ++ "," ++ showN f end.
Definition showRes2 (r:option Res) : string := match r with None => "-" | Some r => showRun r end.
Definition showModes2 (m:option Modes2) : string :=
  match m with
  | None => "-"
  | Some (Extract2 r p d dt a) => showRun r ++ "," ++ showN p ++ "," ++ showON d ++ "," ++ showON dt ++ "," ++ showN a
  end.
Definition showInst (x:inst) : string :=
  showN (i_name x) ++ ":" ++ showN (i_cls x) ++ ":" ++ showON (i_params x) ++ ":" ++ showON (i_data x) ++ ":" ++
  showON (i_fs x) ++ ":" ++ showON (i_dt x) ++ ":" ++ showRes2 (i_result x) ++ ":" ++ showModes2 (i_modes x).
Definition showEntry (ni:name*iid) : string := showN (fst ni) ++ ">" ++ showN (snd ni).
Definition showM (s:mstate) : string :=
  showON (m_data s) ++ ":" ++ showON (m_fs s) ++ "/" ++ showL showEntry ";" (m_dict s) ++ "/" ++ showL showInst ";" (m_heap s).
Definition showMHist (d:DataId) (f:Fs) (heap:list inst) (h:list mop) : string :=
  showL showX " " (mtrace h (new_mstate d f heap)) ++ "/" ++ showM (mexec h (new_mstate d f heap)).

(* ---- readers (one string literal per batch, as in M_orch.v).
   op codes: 1 k i1..ik = MAdd, 2 a = MRun, 3 = MRunAll, 4 a args = MMpe, 5 d+1|0 f+1|0 = MRebind, 6 = MSaveLoad,
   7 i p = MSet, 8 = MRollback;  heap row: name cls p+1|0 per instance *)
Fixpoint decode_mops (fuel:nat) (l:list nat) : list mop :=
  match fuel with
  | 0 => []
  | S fuel' =>
    match l with
    | 1 :: k :: t => MAdd (firstn k t) :: decode_mops fuel' (skipn k t)
    | 2 :: a :: t => MRun a :: decode_mops fuel' t
    | 3 :: t => MRunAll :: decode_mops fuel' t
    | 4 :: a :: g :: t => MMpe a g :: decode_mops fuel' t
    | 5 :: d :: f :: t => MRebind (unshift d) (unshift f) :: decode_mops fuel' t
    | 6 :: t => MSaveLoad :: decode_mops fuel' t
    | 7 :: i :: p :: t => MSet i p :: decode_mops fuel' t
    | 8 :: t => MRollback :: decode_mops fuel' t
    | _ => []
    end
  end.
Fixpoint decode_heap (fuel:nat) (l:list nat) : list inst :=
  match fuel with
  | 0 => []
  | S fuel' => match l with a :: c :: p :: t => new_inst a c (unshift p) :: decode_heap fuel' t | _ => [] end
  end.
(* a case = "heap row # history row"; rows_of splits at "|", so a batch is heap|hist|heap|hist|... *)
Fixpoint showPairs (d:DataId) (f:Fs) (rows:list (list nat)) (fuel:nat) : list string :=
  match fuel with
  | 0 => []
  | S fuel' =>
    match rows with
    | hp :: hs :: t => showMHist d f (decode_heap (length hp) hp) (decode_mops (length hs) hs) :: showPairs d f t fuel'
    | _ => []
    end
  end.
Definition showMHistsS (d:DataId) (f:Fs) (s:string) : string :=
  let rows := rows_of s in join "|" (showPairs d f rows (length rows)).
