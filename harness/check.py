#!/venv/bin/python
"""CLI: check.py Cxx [--tier quick|thorough] [--replay file].  Exit 0 = property held on everything explored."""
import os
import sys

# VERIF_REPO_SRC: testing aid only (run the check against a scratch copy of the sources, e.g. a seeded mutant);
# evidence is then written under .work/ instead of evidence/.  Registered commands never set it.
SRC = os.environ.get("VERIF_REPO_SRC", "/repo/src")
ENV = {
    "PYTHONPATH": SRC,
    "PYTHONHASHSEED": "0",
    "MPLBACKEND": "Agg",
    "PYTHONDONTWRITEBYTECODE": "1",
    "TQDM_DISABLE": "1",
    "OPENBLAS_NUM_THREADS": "1",
    "OMP_NUM_THREADS": "1",
    "MKL_NUM_THREADS": "1",
    "PYOMA_LOG_LEVEL": "DEBUG",
}
if any(os.environ.get(k) != v for k, v in ENV.items()):
    os.environ.update(ENV)
    os.execv("/venv/bin/python", ["/venv/bin/python"] + sys.argv)

sys.path.insert(0, SRC)
sys.path.insert(0, os.path.dirname(os.path.abspath(__file__)))
import argparse
import importlib
import logging
import traceback
import warnings

warnings.filterwarnings("ignore")



import common


def main():
    ap = argparse.ArgumentParser()
    ap.add_argument("pid")
    ap.add_argument("--tier", default=os.environ.get("VERIF_TIER", "quick"))
    ap.add_argument("--replay")
    ap.add_argument("--no-proof", action="store_true")
    a = ap.parse_args()
    tier = a.tier if a.tier in ("quick", "thorough") else "quick"
    seed = int(os.environ.get("VERIF_SEED", "0") or 0)
    ctx = common.Ctx(a.pid, tier, seed, a.replay)
    ctx.no_proof = a.no_proof  # development runs without the proof step never overwrite the committed evidence
    mod = importlib.import_module("props.%s" % a.pid)
    try:
        import pyoma2  # noqa: F401

        assert pyoma2.__file__.startswith(SRC), pyoma2.__file__
        common.quiet_debug_logging()
        if not a.no_proof:
            ctx.proof_step()
        cov = None
        if os.environ.get("VERIF_COVERAGE") == "1":  # development aid: which lines of the anchored files does this check execute?
            import coverage

            cov = coverage.Coverage(data_file=None, source=[os.path.join(SRC, "pyoma2")], branch=False)
            cov.start()
        try:
            mod.run(ctx)
            # Escalation: the anchored source differs from the recorded baseline (someone changed the code), so the quick tier
            # explores further seeds, within a time budget, as long as nothing has failed yet.  Never an alarm by itself.
            changed, other = common.anchored_changes(a.pid, SRC)
            if (changed or other) and tier == "quick" and not a.replay and os.environ.get("VERIF_NO_ESCALATION") != "1":
                import random
                import time

                import numpy as np

                rounds = []
                budget = float(os.environ.get("VERIF_ESCALATION_BUDGET_S", "300"))
                for k in range(1, 4 if changed else 2):
                    if ctx.failures or time.time() - ctx.t0 > budget:
                        break
                    s2 = seed + 7919 * k
                    ctx.rng = random.Random("%s-%d" % (a.pid, s2))
                    ctx.np_rng = np.random.default_rng([s2, int(a.pid[1:])])
                    mod.run(ctx)
                    rounds.append(s2)
                ctx.extra["escalation"] = {"reason": "library source differs from anchors_baseline.json", "anchored_files": changed, "other_files": other, "extra_seeds": rounds}
        finally:
            if cov is not None:
                cov.stop()
                common.coverage_report(ctx, cov, SRC)
    except common.CoqError as e:
        ctx.fail("correspondence", "model evaluation failed: %s" % str(e)[-1500:], key="coqerror")
    except Exception:
        ctx.fail("correspondence", "check crashed (implementation or harness raised): %s" % traceback.format_exc()[-2500:], key="crash")
    rc = ctx.finish()
    sys.exit(rc)


if __name__ == "__main__":
    main()
