"""Shared machinery of the pyOMA2 property checks (see /verif/DESIGN.md section 2).

One check = proof step (Coq build + axiom audit of Properties/Cxx.v) + correspondence step (model evaluated by
vm_compute inside coqc vs. the implementation imported from /repo/src) + oracle sweep (property text on the
implementation) + classification of failures against KNOWN_FINDINGS.txt + evidence file.
"""
import hashlib
import json
import os
import random
import re
import shutil
import subprocess
import sys
import time
from concurrent.futures import ThreadPoolExecutor
from fractions import Fraction

VERIF = os.path.dirname(os.path.dirname(os.path.abspath(__file__)))
COQ = os.path.join(VERIF, "coq")
REPO = "/repo"

ALLOWED_AXIOMS = {
    # axioms declared by Coq's standard library itself (real numbers, classical logic, extensionality)
    "ClassicalDedekindReals.sig_not_dec",
    "ClassicalDedekindReals.sig_forall_dec",
    "FunctionalExtensionality.functional_extensionality_dep",
    "functional_extensionality_dep",
    "sig_not_dec",
    "sig_forall_dec",
    "Classical_Prop.classic",
    "classic",
    "Eqdep.Eq_rect_eq.eq_rect_eq",
    "ProofIrrelevance.proof_irrelevance",
    "JMeq.JMeq_eq",
    "PropExtensionality.propositional_extensionality",
}

FORBIDDEN = re.compile(
    r"\b(Admitted|admit|Axiom|Axioms|Parameter|Parameters|Conjecture|Conjectures|Abort All)\b|"
    r"Unset Guard|bypass_check|type-in-type|impredicative-set|Admit Obligations|Unset Positivity|Unset Universe Checking"
)


class CoqError(Exception):
    pass


def fq(x):
    """float / int / Fraction -> exact Fraction."""
    if isinstance(x, Fraction):
        return x
    if isinstance(x, int):
        return Fraction(x)
    return Fraction(float(x))


def qc(x):
    """Coq term of type Qc for an exact rational (float images are exact)."""
    f = fq(x)
    return "(q (%d) %d)" % (f.numerator, f.denominator)


def qq(x):
    """Coq term of type Q."""
    f = fq(x)
    return "((%d)#%d)" % (f.numerator, f.denominator)


def clist(items):
    return "[" + "; ".join(items) + "]"


def qc_row(xs):
    return clist([qc(x) for x in xs])


def qc_mat(m):
    return clist([qc_row(r) for r in m])


def qc_c(z):
    z = complex(z)
    return "(%s, %s)" % (qc(z.real), qc(z.imag))


def coq_opt(x, f):
    return "None" if x is None else "(Some %s)" % f(x)


def parse_q(s):
    s = s.strip()
    if s == "nan":
        return None
    n, d = s.split("/")
    return Fraction(int(n), int(d))


def parse_row(s):
    s = s.strip()
    return [parse_q(t) for t in s.split(" ")] if s else []


def parse_mat(s):
    return [parse_row(r) for r in s.split(";")] if s.strip() else []


def parse_c(s):
    a, b = s.split(",")
    return complex(float(parse_q(a)), float(parse_q(b)))


def digest(obj):
    return hashlib.sha256(json.dumps(obj, sort_keys=True, default=str).encode()).hexdigest()[:16]


def jsonable(x):
    import numpy as np

    if isinstance(x, dict):
        return {str(k): jsonable(v) for k, v in x.items()}
    if isinstance(x, (list, tuple)):
        return [jsonable(v) for v in x]
    if isinstance(x, np.ndarray):
        return jsonable(x.tolist())
    if isinstance(x, (np.floating,)):
        return float(x)
    if isinstance(x, (np.integer,)):
        return int(x)
    if isinstance(x, (np.bool_,)):
        return bool(x)
    if isinstance(x, complex):
        return {"re": x.real, "im": x.imag}
    if isinstance(x, Fraction):
        return "%d/%d" % (x.numerator, x.denominator)
    if isinstance(x, float) and x != x:
        return "nan"
    if isinstance(x, float) and x in (float("inf"), float("-inf")):
        return str(x)
    return x


class Ctx:
    def __init__(self, pid, tier, seed, replay=None):
        self.pid = pid
        self.tier = tier
        self.seed = seed
        self.replay = replay
        self.rng = random.Random("%s-%d" % (pid, seed))
        import numpy as np

        self.np_rng = np.random.default_rng([seed, int(pid[1:])])
        self.work = os.path.join(VERIF, ".work", "%s-%d" % (pid, os.getpid()))
        os.makedirs(self.work, exist_ok=True)
        self.t0 = time.time()
        self.evaluations = 0
        self.nontrivial = set()
        self.samples = []
        self.hists = {}
        self.failures = []  # dicts: kind, key, what, case
        self.notes = []
        self.not_judged = 0
        self.assumptions = []
        self.proof = {"obligations": 0, "discharged": 0, "axioms": [], "theorems": [], "errors": []}
        self.extra = {}
        self._shard = 0

    # ---------- bookkeeping ----------
    def quick(self):
        return self.tier == "quick"

    def n(self, quick, thorough):
        return quick if self.tier == "quick" else thorough

    def count(self, case, nontrivial=True):
        self.evaluations += 1
        if nontrivial:
            self.nontrivial.add(digest(jsonable(case)))

    def sample(self, case, limit=3):
        if len(self.samples) < limit:
            self.samples.append(jsonable(case))

    def hist(self, name, value):
        h = self.hists.setdefault(name, {})
        h[str(value)] = h.get(str(value), 0) + 1

    def note(self, s):
        if s not in self.notes:
            self.notes.append(s)

    def fail(self, kind, what, case=None, key=None):
        """kind: 'oracle' (implementation breaks the property text on this input),
        'correspondence' (model and implementation disagree), 'proof' (obligation no longer checks)."""
        self.failures.append({"kind": kind, "what": what, "case": jsonable(case), "key": key or what})

    # ---------- Coq evaluation ----------
    def coq_eval(self, header, exprs, shard=150, timeout=900):
        """Evaluate string-typed Coq expressions with vm_compute, return the list of result strings."""
        if not exprs:
            return []
        files = []
        pre = (
            "From Coq Require Import List ZArith QArith Qcanon String Bool.\n"
            "From PyOMA.Base Require Import Carrier Show.\n" + header + "\nImport ListNotations.\n"
            "Open Scope string_scope.\nSet Printing Width 1000000000.\nSet Printing Depth 1000000000.\n"
        )
        for k in range(0, len(exprs), shard):
            self._shard += 1
            path = os.path.join(self.work, "cases_%d.v" % self._shard)
            with open(path, "w") as f:
                f.write(pre)
                for e in exprs[k : k + shard]:
                    f.write("Eval vm_compute in (%s).\n" % e)
            files.append((path, len(exprs[k : k + shard])))

        def run(item):
            path, cnt = item
            for attempt in range(3):
                p = subprocess.run(
                    ["timeout", str(timeout), "coqc", "-R", COQ, "PyOMA", path],
                    capture_output=True,
                    text=True,
                    cwd=self.work,
                )
                # a Coq error always comes with a message; a process that dies without one (killed under memory
                # pressure / machine load) says nothing about the model, so the same file is evaluated again
                if p.returncode == 0 or (p.stderr or "").strip() or p.returncode == 124:
                    break
                time.sleep(5 * (attempt + 1))
            if p.returncode != 0:
                raise CoqError("coqc failed on %s: %s" % (path, (p.stderr or p.stdout)[-2000:]))
            out = re.findall(r'^\s*= "(.*)"\s*$', p.stdout, re.M)
            if len(out) != cnt:
                raise CoqError("coqc printed %d results for %d cases in %s" % (len(out), cnt, path))
            return out

        with ThreadPoolExecutor(max_workers=14) as ex:
            res = list(ex.map(run, files))
        return [s for r in res for s in r]

    # ---------- proof step ----------
    def proof_step(self):
        try:
            self._proof_step()
        finally:
            for e in self.proof["errors"]:
                self.fail("proof", e, key="proof:" + e[:60])

    def _proof_step(self):
        pr = self.proof
        vfile = os.path.join(COQ, "Properties", "%s.v" % self.pid)
        os.makedirs(os.path.join(COQ, "logs"), exist_ok=True)
        # 1. forbidden tokens anywhere in the development
        bad = []
        # the development = the files listed in _CoqProject (what setup_cmd builds) + this property's file and its local imports
        listed = ["_CoqProject"] + [l.strip() for l in open(os.path.join(COQ, "_CoqProject")) if l.strip().endswith(".v")]
        mine = "Properties/%s.v" % self.pid
        todo, seen_f = [mine], set(listed)
        while todo:
            f = todo.pop()
            if f not in seen_f:
                seen_f.add(f)
                listed.append(f)
            if os.path.exists(os.path.join(COQ, f)):
                for grp, names in re.findall(r"From PyOMA\.(\w+) Require (?:Import|Export) ([^.]*)\.", open(os.path.join(COQ, f)).read()):
                    for nme in names.split():
                        g = "%s/%s.v" % (grp, nme)
                        if g not in seen_f and g not in todo:
                            todo.append(g)
        for fn in listed:
            path = os.path.join(COQ, fn)
            if not os.path.exists(path):
                bad.append("%s: listed but missing" % fn)
                continue
            txt = open(path).read()
            txt_nc = re.sub(r"\(\*.*?\*\)", "", txt, flags=re.S)
            for m in FORBIDDEN.finditer(txt_nc):
                bad.append("%s: %s" % (fn, m.group(0)))
        if bad:
            pr["errors"].append("forbidden tokens: " + "; ".join(bad[:5]))
        # 2. full build (no-op when up to date)
        skip_make = os.environ.get("VERIF_SKIP_MAKE") == "1"  # development aid: files were compiled by hand with coqc
        mk = subprocess.CompletedProcess("", 0, "", "") if skip_make else subprocess.run(
            "cd %s && flock .lock sh -c '(test -f Makefile && test Makefile -nt _CoqProject || coq_makefile -f _CoqProject -o Makefile) >/dev/null"
            " && timeout 3000 make -j14 Properties/%s.vo 2>&1 | tail -30'" % (COQ, self.pid),
            shell=True,
            capture_output=True,
            text=True,
        )
        if "Error" in mk.stdout or mk.returncode != 0:
            pr["errors"].append("make failed: " + mk.stdout[-1500:])
        # 3. re-check the property file itself and read Print Assumptions
        src = open(vfile).read()
        src_nc = re.sub(r"\(\*.*?\*\)", "", src, flags=re.S)
        thms = re.findall(r"^\s*(?:Theorem|Corollary|Lemma)\s+(\w+)", src_nc, re.M)
        examples = re.findall(r"^\s*Example\s+(\w+)", src_nc, re.M)
        printed = re.findall(r"^\s*Print Assumptions\s+(\w+)\s*\.", src_nc, re.M)
        pr["obligations"] = len(thms) + len(examples)
        pr["theorems"] = thms + examples
        p = subprocess.run(
            ["timeout", "1200", "coqc", "-R", COQ, "PyOMA", vfile, "-o", os.path.join(self.work, "%s.vo" % self.pid)],
            capture_output=True,
            text=True,
            cwd=COQ,
        )
        open(os.path.join(COQ, "logs", "%s.assumptions" % self.pid), "w").write(p.stdout + p.stderr)
        if p.returncode != 0:
            pr["errors"].append("Properties/%s.v does not compile: %s" % (self.pid, (p.stderr or p.stdout)[-1500:]))
            return
        blocks = re.split(r"^(?=Closed under the global context|Axioms:)", p.stdout, flags=re.M)
        blocks = [b for b in blocks if b.startswith("Closed under") or b.startswith("Axioms:")]
        if len(blocks) != len(printed):
            pr["errors"].append("Print Assumptions blocks %d != statements %d" % (len(blocks), len(printed)))
            return
        missing = [t for t in thms if t not in printed]
        if missing:
            pr["errors"].append("theorems without Print Assumptions: %s" % missing)
        axioms = set()
        okc = 0
        for name, b in zip(printed, blocks):
            if b.startswith("Closed"):
                okc += 1
                continue
            names = re.findall(r"^([A-Za-z_][\w.']*)\s*:", b, re.M)
            names = [x for x in names if x != "Axioms"]
            notok = [x for x in names if x not in ALLOWED_AXIOMS and x.split(".")[-1] not in ALLOWED_AXIOMS]
            axioms.update(names)
            if notok:
                pr["errors"].append("theorem %s depends on non-allow-listed axioms %s" % (name, notok))
            else:
                okc += 1
        pr["axioms"] = sorted(axioms)
        pr["discharged"] = okc + len(examples) if not pr["errors"] else 0
        if self.tier == "thorough" and not pr["errors"]:
            c = subprocess.run(
                "cd %s && timeout 2400 coqchk -silent -o -R %s PyOMA PyOMA.Properties.%s 2>&1 | tail -40" % (COQ, COQ, self.pid),
                shell=True,
                capture_output=True,
                text=True,
            )
            self.extra["coqchk"] = c.stdout[-3000:]
            if "Fatal" in c.stdout or "Error" in c.stdout:
                pr["errors"].append("coqchk: " + c.stdout[-800:])

    # ---------- known findings ----------
    def known(self):
        ks = []
        path = os.path.join(VERIF, "KNOWN_FINDINGS.txt")
        if os.path.exists(path):
            for line in open(path):
                m = re.match(r"known:\s+property=(\w+)\s+key=(\S+)\s+(.*)", line.strip())
                if m and m.group(1) == self.pid:
                    ks.append((m.group(2), m.group(3)))
        return ks

    # ---------- end of run ----------
    def finish(self):
        known = self.known()
        listed, unlisted = {}, []
        for f in self.failures:
            hit = next((k for k in known if k[0] == f["key"]), None)
            if hit:
                listed.setdefault(hit[0], hit[1])
            else:
                unlisted.append(f)
        for k, text in listed.items():
            print("KNOWN-FINDING: property=%s %s" % (self.pid, text))
        rc = 0
        if unlisted:
            rc = 1
            os.makedirs(os.path.join(VERIF, "replays"), exist_ok=True)
            oracle = [f for f in unlisted if f["kind"] == "oracle"]
            other = [f for f in unlisted if f["kind"] != "oracle"]
            seen = set()
            k = 0
            for f in oracle[:50]:
                if f["key"] in seen:
                    continue
                seen.add(f["key"])
                path = os.path.join(VERIF, "replays", "%s-%d-%d.json" % (self.pid, self.seed, k))
                k += 1
                json.dump({"property": self.pid, "kind": "failing-input", "what": f["what"], "key": f["key"], "case": f["case"],
                           "also_broken": [o["what"] for o in other[:10]]}, open(path, "w"), indent=1)
                print("VIOLATION property=%s replay=%s" % (self.pid, path))
                if k >= 5:
                    break
            if not oracle:
                path = os.path.join(VERIF, "replays", "%s-%d-nofail.json" % (self.pid, self.seed))
                json.dump({"property": self.pid, "kind": "no-failing-input-found",
                           "no_longer_checks": [{"kind": o["kind"], "what": o["what"], "case": o["case"]} for o in other[:20]]},
                          open(path, "w"), indent=1)
                print("VIOLATION property=%s replay=%s no-failing-input-found" % (self.pid, path))
        self.write_evidence(len(unlisted), sorted(listed))
        shutil.rmtree(self.work, ignore_errors=True)
        return rc

    def write_evidence(self, nviol, listed):
        pr = self.proof
        tb = [
            "Coq 8.16.1 kernel + coqc; vm_compute for model evaluation and Examples; no native_compute; no extraction",
            "axioms reported by Print Assumptions for this property's theorems: %s" % (", ".join(pr["axioms"]) or "none (closed under the global context)"),
            "hand-written Gallina model tied to /repo/src by the correspondence step (differential testing, bounded by its generator)",
            "harness: generators, float<->rational conversion, Show.v printers, comparison rules (DESIGN.md 3.5)",
        ] + self.assumptions
        ev = {
            "property_id": self.pid,
            "tier": self.tier,
            "seed": self.seed,
            "level": "proof",
            "coverage": {
                "obligations": pr["obligations"],
                "discharged": pr["discharged"],
                "checker_cmd": "cd /verif/coq && make && coqc -R . PyOMA Properties/%s.v  (Print Assumptions audited against the allow-list)%s"
                % (self.pid, "; coqchk -o" if self.tier == "thorough" else ""),
                "trusted_base": tb,
                "theorems": pr["theorems"],
                "evaluations": self.evaluations,
                "distinct_nontrivial": len(self.nontrivial),
                "rule": self.extra.get("rule", "cases hashed after canonicalisation; non-trivial per property module"),
                "samples": self.samples,
                "histograms": self.hists,
                "not_judged": self.not_judged,
                "known_findings_seen": listed,
                "notes": self.notes,
            },
            "assumptions": tb,
            "wall_s": round(time.time() - self.t0, 2),
            "violations": nviol,
        }
        for k, v in self.extra.items():
            if k != "rule":
                ev["coverage"][k] = jsonable(v)
        evdir = os.path.join(VERIF, "evidence")
        if os.environ.get("VERIF_REPO_SRC", "/repo/src") != "/repo/src" or getattr(self, "no_proof", False):
            evdir = os.path.join(VERIF, ".work", "evidence-scratch")
        os.makedirs(evdir, exist_ok=True)
        json.dump(ev, open(os.path.join(evdir, "%s.json" % self.pid), "w"), indent=1)


def coverage_report(ctx, cov, src):
    """Line coverage of the property's anchored files by this run's in-process calls (development aid, VERIF_COVERAGE=1)."""
    anchors = []
    for line in open(os.path.join(VERIF, "properties.jsonl")):
        p = json.loads(line)
        if p["id"] == ctx.pid:
            anchors = p["anchors"]["files"]
    rep = {}
    for f in anchors:
        path = os.path.join(os.path.dirname(src.rstrip("/")), f) if not f.startswith("src/") else os.path.join(os.path.dirname(src.rstrip("/")), f)
        path = os.path.join(src, f[len("src/"):]) if f.startswith("src/") else path
        try:
            _, stmts, _, missing, _ = cov.analysis2(path)
        except Exception as e:  # file not imported / not measurable
            rep[f] = {"error": str(e)[:100]}
            continue
        runs, start, prev = [], None, None
        for m in missing:
            if start is None:
                start = prev = m
            elif m <= prev + 2:
                prev = m
            else:
                runs.append((start, prev)); start = prev = m
        if start is not None:
            runs.append((start, prev))
        rep[f] = {"statements": len(stmts), "executed": len(stmts) - len(missing),
                  "missing": ["%d-%d" % r if r[0] != r[1] else str(r[0]) for r in runs]}
    # per anchored function: names mentioned in the anchors' 'where' fields, located with ast in the current source
    import ast
    names = set()
    for line in open(os.path.join(VERIF, "properties.jsonl")):
        p = json.loads(line)
        if p["id"] == ctx.pid:
            for m in p["anchors"]["mechanism"]:
                names.update(re.findall(r"[A-Za-z_][A-Za-z_0-9]{2,}", " ".join(re.findall(r"\(([^)]*)\)", m.get("where", "")))))
    fn_rep = {}
    for f in anchors:
        path = os.path.join(src, f[len("src/"):]) if f.startswith("src/") else f
        try:
            tree = ast.parse(open(path).read())
            _, stmts, _, missing, _ = cov.analysis2(path)
        except Exception:
            continue
        for node in ast.walk(tree):
            if isinstance(node, (ast.FunctionDef,)) and node.name in names:
                lo, hi = node.lineno, node.end_lineno
                st = [x for x in stmts if lo < x <= hi]
                ms = [x for x in missing if lo < x <= hi]
                fn_rep["%s:%s" % (os.path.basename(f), node.name)] = {"statements": len(st), "missing_lines": ms}
    ctx.extra["anchored_function_coverage"] = fn_rep
    rep["_functions"] = fn_rep
    ctx.extra["anchored_line_coverage"] = {k: v for k, v in rep.items() if k != "_functions"}
    out = os.path.join(VERIF, ".work", "coverage_%s.json" % ctx.pid)
    os.makedirs(os.path.dirname(out), exist_ok=True)
    json.dump(rep, open(out, "w"), indent=1)


def source_fingerprint(path):
    """Hash of the module's AST with docstrings dropped (comments and formatting do not matter)."""
    import ast
    try:
        tree = ast.parse(open(path).read())
    except Exception as e:
        return "unparsable:%s" % type(e).__name__
    for node in ast.walk(tree):
        if isinstance(node, (ast.FunctionDef, ast.AsyncFunctionDef, ast.ClassDef, ast.Module)):
            b = node.body
            if b and isinstance(b[0], ast.Expr) and isinstance(getattr(b[0], "value", None), ast.Constant) and isinstance(b[0].value.value, str):
                node.body = b[1:] or [ast.Pass()]
    return hashlib.sha256(ast.dump(tree).encode()).hexdigest()[:20]


def anchored_changes(pid, src):
    """Anchored files of property pid whose fingerprint differs from anchors_baseline.json (empty list if no baseline)."""
    bpath = os.path.join(VERIF, "anchors_baseline.json")
    if not os.path.exists(bpath):
        return [], []
    base = json.load(open(bpath))
    anchored = []
    for line in open(os.path.join(VERIF, "properties.jsonl")):
        p = json.loads(line)
        if p["id"] == pid:
            anchored = p["anchors"]["files"]
    changed, other = [], []
    for f in sorted(base):
        path = os.path.join(src, f[len("src/"):]) if f.startswith("src/") else os.path.join(REPO, f)
        if source_fingerprint(path) != base[f]:
            (changed if f in anchored else other).append(f)
    return changed, other


import logging

def quiet_debug_logging():
    """The library is exercised with its logger at DEBUG (the most talkative documented setting, PYOMA_LOG_LEVEL=DEBUG, which also
    enables every INFO-guarded statement) but with all output swallowed: code that only runs under `logger.isEnabledFor(DEBUG)`
    is part of what a user can execute.  VERIF_LOG_OFF=1 restores the silent (disabled) state."""
    if os.environ.get("VERIF_LOG_OFF") == "1":
        logging.disable(logging.CRITICAL)
        return
    for name in ("pyoma2",):
        lg = logging.getLogger(name)
        for h in list(lg.handlers):
            lg.removeHandler(h)
        lg.addHandler(logging.NullHandler())
        lg.setLevel(logging.DEBUG)
        lg.propagate = False
    for name in ("matplotlib", "PIL", "numba"):
        logging.getLogger(name).setLevel(logging.ERROR)
    logging.getLogger().setLevel(logging.ERROR)
