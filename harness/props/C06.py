"""C06 - FDD picks the dominant line in the band and its singular vector; stored singular values / vectors are a
faithful decomposition.  Model: coq/Model/M_fdd.v; theorems: coq/Properties/C06.v.

A  fdd.FDD_mpe on synthetic tables (random monotone grids, positive S_val tables with exact ties, complex S_vec):
   correspondence with the model evaluated in Coq (Fn exact, idx exact, Phi 1e-9, raise <-> Err) + property oracle.
B  fdd.SD_svalsvec on Hermitian and rectangular (PreGER-like) spectral matrices: property oracle (faithful
   decomposition, either convention sigma / sqrt(sigma) consistently) + the model's exact certificate of the SVD
   witness and the model's stored pair.
C  FDD / EFDD / FSDD through SingleSetup, FDD_MS / EFDD_MS through MultiSetup_PreGER on small random records:
   property oracle on result.{Fn,Phi,S_val,S_vec,Sy,freq}; narrow-band records with known complex amplitudes fix the
   conjugation convention from first principles.
"""
import glob
import json
import os
import time
from fractions import Fraction

import numpy as np

from common import VERIF, clist, fq, parse_c, parse_q, qc, qc_c
from pyoma2.functions import fdd

HEADER = "From PyOMA.Model Require Import M_fdd."
TOL = 1e-9


# ----------------------------------------------------------------------------------------------------------------------
# helpers
def qq(x):
    """Coq term of type Q (no notation scope needed)."""
    f = fq(x)
    return "(Qmake (%d) %d)" % (f.numerator, f.denominator)


def cplx(z):
    return [float(np.real(z)), float(np.imag(z))]


def mac(a, b):
    a = np.asarray(a, complex).ravel()
    b = np.asarray(b, complex).ravel()
    den = (np.vdot(a, a).real) * (np.vdot(b, b).real)
    return abs(np.vdot(a, b)) ** 2 / den if den > 0 else float("nan")


def unity_ok(phi, tol):
    """unity normalisation: no component exceeds modulus 1 and one of the largest ones is exactly 1."""
    return abs(np.abs(phi).max() - 1.0) <= tol and np.abs(phi - 1.0).min() <= tol


def nearest_set(freq, x):
    d = np.abs(freq - x)
    m = d.min()
    return [int(i) for i in np.nonzero(d <= m + 1e-12 * max(1.0, abs(x)))[0]]


def pick_ok(freq, ratio, f, DF, idx):
    """Property text: idx is a line of the band whose limits are the grid lines nearest to f-DF and f+DF (either
    nearest line on an exact tie; upper limit line in- or excluded - the text does not say) and the ratio there is
    the largest in that band.  Returns (ok, judged)."""
    los, his = nearest_set(freq, f - DF), nearest_set(freq, f + DF)
    near = False
    for lo in los:
        for hi in his:
            for up in (hi - 1, hi):
                if lo <= idx <= up:
                    seg = ratio[lo : up + 1]
                    m = seg.max()
                    if ratio[idx] >= m:
                        return True, True
                    if ratio[idx] >= m * (1 - 1e-9):
                        near = True
    return (True, False) if near else (False, True)


def sym_key(z):
    return tuple(sorted((abs(z.real), abs(z.imag))))


def amax_ambiguous(v):
    """exact tie of the largest modulus between components that are not mirror images of each other: np.abs (hypot)
    may round them differently - such a case is not judged."""
    n2 = [z.real * z.real + z.imag * z.imag for z in v]
    m = max(n2)
    top = [v[i] for i in range(len(v)) if abs(n2[i] - m) <= 1e-12 * max(m, 1e-300)]
    return len(set(sym_key(z) for z in top)) > 1


# ----------------------------------------------------------------------------------------------------------------------
# A. FDD_mpe on synthetic tables
def q3(t):
    return clist([clist([clist([qq(x) for x in ln]) for ln in row]) for row in t])


def c3(t):
    return clist([clist([clist([qc_c(z) for z in ln]) for ln in row]) for row in t])


def mpe_expr(case):
    freq, Sval, Svec = case["freq"], case["Sval"], case["Svec"]
    Svc = [[[complex(z[0], z[1]) for z in ln] for ln in row] for row in Svec]
    return "show_mpe (fdd_mpe %s %s %s %s %s)" % (
        clist([qq(x) for x in freq]), q3(Sval), c3(Svc), clist([qq(x) for x in case["sel"]]), qq(case["DF"]))


def parse_mpe(s):
    if s.startswith("E:"):
        return s[2:], None
    out = []
    for part in s.split("|"):
        i, fn, phi = part.split("@")
        out.append((int(i), parse_q(fn), [parse_c(z) for z in phi.split(" ")] if phi else []))
    return None, out


def gen_mpe_case(rng, ctx, malformed):
    nf = int(rng.integers(6, ctx.n(28, 48)))
    a, b = int(rng.integers(1, 4)), int(rng.integers(2, 6))          # Svec: a rows x b channels x nf
    n1, n2 = int(rng.integers(2, 4)), int(rng.integers(2, 4))        # Sval: n1 x n2 x nf
    uniform = rng.random() < 0.5
    if uniform:
        df = float(rng.choice([0.125, 0.25, 0.5, 1.0, 0.375]))
        f0 = float(rng.choice([0.0, 0.0, df, 2.5]))
        freq = f0 + df * np.arange(nf)
        hmax = df
    else:
        inc = rng.integers(1, 9, size=nf) / 8.0
        freq = np.cumsum(inc) - inc[0] + float(rng.choice([0.0, 0.5]))
        hmax = float(inc[1:].max())
    mode = int(rng.integers(0, 3))
    Sval = rng.integers(1, 65, size=(n1, n2, nf)) / 16.0
    if mode == 0:      # few distinct ratios: exact ties
        s2 = rng.integers(1, 5, size=nf) / 2.0
        r = rng.choice([1.0, 1.5, 2.0, 3.0, 4.0], size=nf)
        Sval[1, 1, :] = s2
        Sval[0, 0, :] = s2 * r
    elif mode == 1:    # sigma1 peaks where the ratio does not
        Sval[0, 0, :] = rng.integers(8, 65, size=nf) / 4.0
        Sval[1, 1, :] = rng.integers(1, 33, size=nf) / 8.0
    Svec = (rng.integers(-8, 9, size=(a, b, nf)) + 1j * rng.integers(-8, 9, size=(a, b, nf))) / 4.0
    for k in range(nf):
        if not np.any(Svec[0, :, k]):
            Svec[0, 0, k] = 1.0
        if rng.random() < 0.15 and b >= 2:   # mirror-image ties of the largest modulus
            z = Svec[0, int(np.argmax(np.abs(Svec[0, :, k]))), k]
            j = int(rng.integers(0, b))
            Svec[0, j, k] = [z.conjugate(), -z, 1j * z, z][int(rng.integers(0, 4))]
    nsel = int(rng.integers(1, 4))
    sel = []
    for _ in range(nsel):
        k = int(rng.integers(2, nf - 2))
        off = float(rng.choice([0.0, 0.0, 0.5, 0.25, -0.5, -0.375])) * (freq[k + 1] - freq[k])
        sel.append(float(freq[k] + off))
    DF = hmax * float(rng.choice([1.0, 1.0, 1.5, 2.0, 2.5, 3.25]))
    kind = "valid"
    if malformed:
        kind = ["empty-band", "one-singular-value", "outside-grid", "one-sided"][int(rng.integers(0, 4))]
        if kind == "empty-band":
            DF = 0.0 if rng.random() < 0.5 else hmax / 16.0
            sel = [float(freq[int(rng.integers(1, nf - 1))])]
        elif kind == "one-singular-value":
            Sval = Sval[:1, :1, :] if rng.random() < 0.5 else Sval[:, :1, :]
        elif kind == "outside-grid":
            sel = [float(freq[-1] + 8 * hmax + 1.0)] if rng.random() < 0.5 else [float(freq[0] - 8 * hmax - 1.0)]
        else:  # band cut by the end of the grid: still a valid pick
            sel = [float(freq[0]), float(freq[-1])][: int(rng.integers(1, 3))]
    return dict(kind=kind, freq=freq.tolist(), Sval=Sval.tolist(), Svec=[[[cplx(z) for z in ln] for ln in row] for row in Svec],
                sel=sel, DF=float(DF))


FORMS = ("list", "tuple", "ndarray", "int-list", "int-tuple", "int64", "int32", "mixed")


def in_form(sel, form):
    """the same selected frequencies in the form a caller may pass them (the values are integers for the int forms)."""
    if form == "tuple":
        return tuple(float(x) for x in sel)
    if form == "ndarray":
        return np.array(sel, dtype=float)
    if form == "int-list":
        return [int(x) for x in sel]
    if form == "int-tuple":
        return tuple(int(x) for x in sel)
    if form == "int64":
        return np.array([int(x) for x in sel], dtype=np.int64)
    if form == "int32":
        return np.array([int(x) for x in sel], dtype=np.int32)
    if form == "mixed":
        return [int(x) if i % 2 == 0 else float(x) for i, x in enumerate(sel)]
    return [float(x) for x in sel]


def same_seq(a, b):
    if isinstance(a, np.ndarray) or isinstance(b, np.ndarray):
        return type(a) is type(b) and a.dtype == b.dtype and np.array_equal(a, b)
    return type(a) is type(b) and len(a) == len(b) and all(type(x) is type(y) and x == y for x, y in zip(a, b))


def df_form(case):
    return int(case["DF"]) if case.get("DF_int") else case["DF"]


def run_mpe(case, positional=True):
    """one FDD_mpe call: fully positional in the parameter order of the pristine signature
    FDD_mpe(Sval, Svec, freq, sel_freq, DF) - written out here, never read from the tree under test - or fully by keyword."""
    freq = np.array(case["freq"], float)
    Sval = np.array(case["Sval"], float)
    Svec = np.array([[[complex(z[0], z[1]) for z in ln] for ln in row] for row in case["Svec"]])
    sel = in_form(case["sel"], case.get("form", "list"))
    keep = (freq.copy(), Sval.copy(), Svec.copy(), in_form(case["sel"], case.get("form", "list")))
    if case.get("readonly"):
        for a in (freq, Sval, Svec) + ((sel,) if isinstance(sel, np.ndarray) else ()):
            a.setflags(write=False)
    try:
        if positional:
            Fn, Phi = fdd.FDD_mpe(Sval, Svec, freq, sel, df_form(case))
        else:
            Fn, Phi = fdd.FDD_mpe(DF=df_form(case), sel_freq=sel, freq=freq, Svec=Svec, Sval=Sval)
        out = (None, np.asarray(Fn), np.asarray(Phi))
    except Exception as e:  # noqa: BLE001
        out = (type(e).__name__, None, None)
    changed = [n for n, a, b in (("freq", freq, keep[0]), ("Sval", Sval, keep[1]), ("Svec", Svec, keep[2])) if not np.array_equal(a, b)]
    if not same_seq(sel, keep[3]):
        changed.append("sel_freq")
    return out + (changed,)


def judge_mpe(ctx, case, model_s, site="FDD_mpe"):
    """correspondence with the model + property oracle for one FDD_mpe call."""
    freq = np.array(case["freq"], float)
    Sval = np.array(case["Sval"], float)
    Svec = np.array([[[complex(z[0], z[1]) for z in ln] for ln in row] for row in case["Svec"]])
    exc, Fn, Phi, changed = run_mpe(case)
    merr, mres = parse_mpe(model_s)
    ctx.hist("mpe-outcome", exc or "ok")
    small = {k: case[k] for k in ("kind", "freq", "sel", "DF")}
    small.update(Sval=case["Sval"], Svec=case["Svec"])
    small.update({k: case[k] for k in ("form", "DF_int", "readonly") if k in case})
    if changed:
        ctx.fail("oracle", "%s modifies its argument(s) %s in place (the stored tables are no longer the decomposition of Sy)" % (site, changed), small,
                 key="C06:%s:args-mutated" % site)
    # the call judged here is the fully positional one; the same values by keyword must give the same outcome, bit for bit
    kexc, kFn, kPhi, _ = run_mpe(case, positional=False)
    if kexc != exc or (exc is None and (kFn.shape != Fn.shape or kPhi.shape != Phi.shape or not np.array_equal(kFn, Fn, equal_nan=True)
                                        or not np.array_equal(kPhi, Phi, equal_nan=True))):
        ctx.fail("oracle", "%s(Sval, Svec, freq, sel_freq, DF) called positionally in the documented parameter order %s, called with the same values by keyword %s"
                 % (site, "raises " + exc if exc else "gives Fn %s" % Fn.tolist(), "raises " + kexc if kexc else "gives Fn %s" % kFn.tolist()),
                 small, key="C06:%s:positional-call" % site)
    nontriv = False
    # ---- correspondence
    if merr == "NoModel":
        ctx.not_judged += 1
        return exc, Fn, Phi
    if merr is not None:
        if exc is None:
            ctx.fail("correspondence", "%s returns where the model raises %sError" % (site, merr), small, key="C06:%s:corr-raise" % site)
    elif exc is not None:
        ctx.fail("correspondence", "%s raises %s where the model returns" % (site, exc), small, key="C06:%s:corr-raise" % site)
        if case.get("readonly"):
            ctx.fail("oracle", "%s raises %s when its input arrays are read-only (it has no business writing to them) on a valid band" % (site, exc),
                     dict(small, readonly=True), key="C06:%s:readonly-raise" % site)
    if exc is None:
        nsel = len(case["sel"])
        if Fn.shape != (nsel,) or Phi.shape != (Svec.shape[1], nsel):
            ctx.fail("oracle", "%s: Fn/Phi have shapes %s/%s for %d selected frequencies and %d channels"
                     % (site, Fn.shape, Phi.shape, nsel, Svec.shape[1]), small, key="C06:%s:shape" % site)
            return exc, None, None
        ratio = Sval[0, 0, :] / Sval[1, 1, :]
        for i, f in enumerate(case["sel"]):
            where = np.nonzero(freq == Fn[i])[0]
            # ---- oracle (property text)
            if len(where) != 1:
                ctx.fail("oracle", "%s: Fn=%r is not a line of the frequency grid" % (site, float(Fn[i])), dict(small, i=i), key="C06:%s:fn-off-grid" % site)
                continue
            idx = int(where[0])
            ok, judged = pick_ok(freq, ratio, f, case["DF"], idx)
            if not judged:
                ctx.not_judged += 1
            elif not ok:
                ctx.fail("oracle", "%s: Fn=%r (line %d) is not the line of the band around %r +- %r where S_val[0,0]/S_val[1,1] is largest"
                         % (site, float(Fn[i]), idx, f, case["DF"]), dict(small, i=i), key="C06:%s:pick" % site)
            v = Svec[0, :, idx]
            m = mac(Phi[:, i], v)
            if not (m >= 1 - TOL):
                ctx.fail("oracle", "%s: MAC(Phi, S_vec[0,:,line]) = %.12g, not 1" % (site, m), dict(small, i=i), key="C06:%s:mac" % site)
            if not unity_ok(Phi[:, i], TOL):
                ctx.fail("oracle", "%s: Phi = %s is not normalised to a largest component equal to 1" % (site, np.round(Phi[:, i], 6).tolist()),
                         dict(small, i=i), key="C06:%s:unity" % site)
            # ---- correspondence
            if mres is not None and i < len(mres):
                midx, mfn, mphi = mres[i]
                los, his = nearest_set(freq, f - case["DF"]), nearest_set(freq, f + case["DF"])
                nontriv = nontriv or (his[0] - los[0] >= 2)
                if (Fraction(float(Fn[i])) != mfn or idx != midx) and 0 <= midx < len(ratio) and ratio[idx] == ratio[midx] and ok and judged:
                    # two lines of the band carry EXACTLY the same, largest ratio: the model pins the first (what the present code does), the
                    # property only asks for a line where the ratio is largest - the oracle above has just confirmed that
                    ctx.not_judged += 1
                    ctx.hist("exact tie of the largest ratio: another maximiser than the model's", site)
                elif Fraction(float(Fn[i])) != mfn or idx != midx:
                    ctx.fail("correspondence", "%s: Fn=%r (line %d), model: line %d" % (site, float(Fn[i]), idx, midx), dict(small, i=i),
                             key="C06:%s:corr-fn" % site)
                elif amax_ambiguous(v):
                    ctx.not_judged += 1
                elif len(mphi) != Phi.shape[0] or np.abs(np.array(mphi) - Phi[:, i]).max() > TOL * max(1.0, np.abs(np.array(mphi)).max()):
                    ctx.fail("correspondence", "%s: Phi differs from the model's unity-normalised S_vec[0,:,idx]" % site, dict(small, i=i),
                             key="C06:%s:corr-phi" % site)
    ctx.count(small, nontrivial=nontriv)
    return exc, Fn, Phi


# scale family: the property is about the RATIO of the singular values, so multiplying the whole S_val table (and,
# independently, the S_vec table) by a power of two - exact in floating point and in Q - must change neither the picked
# line nor Phi, and every scaled instance must satisfy the property text on its own.
def band_decisive(ratio, s1, lo, hi):
    """the ratio has one clear largest line on [lo,hi) and on [lo,hi], and sigma1 peaks somewhere else."""
    if hi - lo < 3 or hi >= len(ratio):
        return False
    a = int(np.argmax(ratio[lo:hi]))
    if int(np.argmax(ratio[lo : hi + 1])) != a:
        return False
    rest = np.delete(ratio[lo : hi + 1], a)
    return bool(rest.max() < ratio[lo + a] * (1 - 1e-6) and int(np.argmax(s1[lo:hi])) != a)


def gen_scale_base(rng, ctx):
    for _ in range(400):
        case = gen_mpe_case(rng, ctx, malformed=False)
        freq = np.array(case["freq"])
        Sval = np.array(case["Sval"])
        ratio, s1 = Sval[0, 0] / Sval[1, 1], Sval[0, 0]
        ok = True
        for f in case["sel"]:
            los, his = nearest_set(freq, f - case["DF"]), nearest_set(freq, f + case["DF"])
            ok = ok and len(los) == 1 and len(his) == 1 and band_decisive(ratio, s1, los[0], his[0])
        if ok:
            return case
    return None


def gen_form_base(rng, ctx):
    """a valid case on a uniform grid that contains integer frequencies, with integer selected frequencies (in any
    order) so that every input form of FORMS denotes exactly the same numbers."""
    for _ in range(200):
        case = gen_mpe_case(rng, ctx, malformed=False)
        nf = len(case["freq"])
        dfs = [d for d in (0.125, 0.25, 0.5) if nf * d >= 3.5] or [0.5]
        df = float(rng.choice(dfs))
        freq = df * np.arange(nf) + float(rng.choice([0.0, 1.0, 2.0]))
        ints = [v for v in range(int(np.ceil(freq[1])), int(np.floor(freq[-2])) + 1)]
        if not ints:
            continue
        nsel = int(rng.integers(1, min(3, len(ints)) + 1))
        sel = [float(v) for v in rng.choice(ints, size=nsel, replace=False)]
        DF = float(rng.choice([v for v in (df, 1.5 * df, 2 * df, 3 * df, 0.3, 0.7, 1.0, 2.0) if v >= df]))
        return dict(case, kind="form-base", form="list", freq=freq.tolist(), sel=sel, DF=DF)
    return None


def scaled_case(case, k, j):
    Sval = (np.array(case["Sval"]) * 2.0**k).tolist()
    Svec = [[[[z[0] * 2.0**j, z[1] * 2.0**j] for z in ln] for ln in row] for row in case["Svec"]]
    return dict(case, kind="scaled", Sval=Sval, Svec=Svec, scale_log2=[k, j])


# ----------------------------------------------------------------------------------------------------------------------
# B / C oracle: stored singular values and vectors are a faithful decomposition of Sy (property text, NumPy only)
def faithful(ctx, Sy, S_val, S_vec, case, site, tol=1e-8):
    nr, nc, nf = Sy.shape
    key = "C06:%s:" % site
    if S_val.shape != (nc, nc, nf) or S_vec.shape != (nr, nr, nf):
        ctx.fail("oracle", "%s: S_val/S_vec shapes %s/%s for a spectral matrix %s" % (site, S_val.shape, S_vec.shape, Sy.shape), case, key=key + "shape")
        return None
    sv = np.array([np.linalg.svd(Sy[:, :, k], compute_uv=False) for k in range(nf)])          # nf x nc
    d = np.array([np.real(np.diag(S_val[:, :, k])) for k in range(nf)])
    scale = max(sv.max(), 1e-300)
    for k in range(nf):
        off = S_val[:, :, k] - np.diag(np.diag(S_val[:, :, k]))
        if np.abs(off).max() > 0 or np.abs(np.imag(S_val[:, :, k])).max() > 0:
            ctx.fail("oracle", "%s: stored singular values are not a real diagonal at line %d" % (site, k), case, key=key + "diag")
            return None
    if d.min() < 0 or np.any(d[:, :-1] - d[:, 1:] < -max(TOL, tol) * max(d.max(), 1e-300)):
        ctx.fail("oracle", "%s: stored singular values are not non-negative and non-increasing" % site, case, key=key + "order")
        return None
    as_sqrt = np.abs(d * d - sv).max() <= tol * scale
    as_sig = np.abs(d - sv).max() <= tol * scale
    if not (as_sqrt or as_sig):
        ctx.fail("oracle", "%s: stored values are neither the singular values nor (consistently) their square roots (max dev %.3g / %.3g)"
                 % (site, np.abs(d * d - sv).max() / scale, np.abs(d - sv).max() / scale), case, key=key + "values")
        return None
    ctx.hist("sval-convention", "sqrt" if as_sqrt else "sigma")
    sig = d * d if as_sqrt else d
    for k in range(nf):
        W = S_vec[:, :, k]
        if np.abs(W @ W.conj().T - np.eye(nr)).max() > tol or np.abs(W.conj().T @ W - np.eye(nr)).max() > tol:
            ctx.fail("oracle", "%s: stored singular vectors are not unitary at line %d" % (site, k), case, key=key + "unitary")
            return None
        G = Sy[:, :, k] @ Sy[:, :, k].conj().T
        D = np.zeros(nr)
        D[:nc] = sig[k] ** 2
        # rows of S_vec = conj of the left singular vectors: Sy Sy^H = S_vec^H diag(sigma^2) S_vec
        if np.abs(W.conj().T @ np.diag(D) @ W - G).max() > tol * max(np.abs(G).max(), 1e-300):
            ctx.fail("oracle", "%s: S_vec^H diag(sigma^2) S_vec does not reconstruct Sy Sy^H at line %d (rows of S_vec are not the conjugated left singular vectors)"
                     % (site, k), case, key=key + "recon")
            return None
    return sv


def dy_c(rng, shape, lim=8, den=4.0):
    return (rng.integers(-lim, lim + 1, size=shape) + 1j * rng.integers(-lim, lim + 1, size=shape)) / den


def cmat(M):
    return clist([clist([qc_c(z) for z in row]) for row in M])


def part_B(ctx):
    rng = ctx.np_rng
    exprs, meta = [], []
    ncases = ctx.n(14, 60)
    for c in range(ncases):
        herm = c % 2 == 0
        nf = int(rng.integers(2, 5))
        if herm:
            n = int(rng.integers(2, 6))
            m = n + int(rng.integers(0, 3))
            A = dy_c(rng, (n, m, nf))
            SD = np.stack([A[:, :, k] @ A[:, :, k].conj().T for k in range(nf)], axis=2)
        else:
            nr = int(rng.integers(3, 7))
            nc = int(rng.integers(2, min(nr, 4)))
            SD = dy_c(rng, (nr, nc, nf))
        nr, nc, _ = SD.shape
        case = dict(kind="svalsvec", hermitian=herm, SD=[[[cplx(z) for z in ln] for ln in row] for row in SD])
        ctx.hist("svalsvec-shape", (nr, nc, "herm" if herm else "rect"))
        try:
            SD_in = SD.copy()
            if c % 3 == 1:
                SD_in.setflags(write=False)
            S_val, S_vec = fdd.SD_svalsvec(SD_in)
            if not np.array_equal(SD_in, SD):
                ctx.fail("oracle", "SD_svalsvec modifies the spectral matrix it is given", case, key="C06:SD_svalsvec:args-mutated")
        except Exception as e:  # noqa: BLE001
            ctx.fail("oracle", "SD_svalsvec raises %s on a %dx%d spectral matrix" % (type(e).__name__, nr, nc), case, key="C06:SD_svalsvec:raise")
            continue
        try:    # pristine signature SD_svalsvec(SD): the call above is the positional one, this is the keyword one
            kS_val, kS_vec = fdd.SD_svalsvec(SD=SD.copy())
            kdiff = not (np.array_equal(np.asarray(kS_val), np.asarray(S_val)) and np.array_equal(np.asarray(kS_vec), np.asarray(S_vec)))
        except Exception:  # noqa: BLE001
            kdiff = True
        if kdiff:
            ctx.fail("oracle", "SD_svalsvec(SD) called positionally and SD_svalsvec(SD=...) called by keyword on the same matrices do not give the same stored pair",
                     case, key="C06:SD_svalsvec:positional-call")
        ctx.count(case, nontrivial=True)
        ctx.sample(dict(kind="svalsvec", shape=list(SD.shape), hermitian=herm))
        sv = faithful(ctx, SD, np.asarray(S_val), np.asarray(S_vec), case, "SD_svalsvec")
        if sv is None:
            continue
        # model: witness SVD computed here (never pyoma2's), certificate and stored pair evaluated exactly in Coq
        if c < ctx.n(5, 24):
            k = int(rng.integers(0, nf))
            U, S, Vh = np.linalg.svd(SD[:, :, k])
            sq = np.sqrt(S)
            Sl = clist([qc(x) for x in S])
            e = ('showCMat (svd_resid %d %d %s %s %s %s) ++ "#" ++ showCMat (unit_resid %d %s) ++ "#" ++ showRow (sqrt_resid %s %s)'
                 ' ++ "#" ++ showCMat (svec_l %d %s) ++ "#" ++ showMat (sval_l %d %s) ++ "#" ++ showCRow (row0_action %d %d (svec_l %d %s) %s)'
                 % (nr, nc, cmat(SD[:, :, k]), cmat(U), cmat(Vh), Sl, nr, cmat(U), clist([qc(x) for x in sq]), Sl,
                    nr, cmat(U), nc, clist([qc(x) for x in sq]), nr, nc, nr, cmat(U), cmat(SD[:, :, k])))
            exprs.append(e)
            meta.append((case, k, SD[:, :, k], S, Vh, np.asarray(S_val)[:, :, k], np.asarray(S_vec)[:, :, k]))
    res = ctx.coq_eval(HEADER, exprs, shard=1)
    for (case, k, M, S, Vh, Sv_k, Sw_k), s in zip(meta, res):
        r1, r2, r3, sw, sv, act = s.split("#")
        pm = lambda t: np.array([[parse_c(z) for z in row.split(" ")] for row in t.split(";")])  # noqa: E731
        scale = max(S.max(), 1.0)
        if np.abs(pm(r1)).max() > 1e-9 * scale or np.abs(pm(r2)).max() > 1e-9 or max(abs(float(parse_q(x))) for x in r3.split(" ")) > 1e-9 * scale:
            ctx.fail("correspondence", "numpy.linalg.svd / numpy.sqrt witness does not meet the contract assumed by C06_svalsvec_faithful_* (exact residuals %.3g, %.3g)"
                     % (np.abs(pm(r1)).max(), np.abs(pm(r2)).max()), dict(case, line=k), key="C06:witness:contract")
            continue
        Wm = pm(sw)
        Dm = np.array([[float(parse_q(x)) for x in row.split(" ")] for row in sv.split(";")])
        a = np.array([parse_c(z) for z in act.split(" ")])
        # stored values: the model's diag(sqrt S) or, consistently, diag(S)
        if not (np.abs(Dm - Sv_k).max() <= 1e-9 * scale or np.abs(Dm @ Dm - Sv_k).max() <= 1e-9 * scale):
            ctx.fail("correspondence", "SD_svalsvec: S_val differs from the model (diag of sqrt(S), or of S)", dict(case, line=k), key="C06:SD_svalsvec:corr-sval")
        gaps = np.abs(np.diff(S)) if len(S) > 1 else np.array([1.0])
        if gaps.min() <= 1e-6 * scale or S.min() <= 1e-6 * scale:
            ctx.not_judged += 1
        else:
            nc = len(S)
            for i in range(nc):   # rows belonging to distinct non-zero singular values are unique up to a unit phase
                ph = np.vdot(Wm[i], Sw_k[i])
                if abs(abs(ph) - 1) > 1e-8 or np.abs(Sw_k[i] - ph * Wm[i]).max() > 1e-8:
                    ctx.fail("correspondence", "SD_svalsvec: row %d of S_vec is not (a unit phase times) the model's row conj(U[:,%d])" % (i, i),
                             dict(case, line=k), key="C06:SD_svalsvec:corr-svec")
                    break
        # theorem C06_svalsvec_left_action on the witness: row 0 of S_vec applied to Sy = sigma_0 Vh[0,:]
        if np.abs(a - S[0] * Vh[0, :]).max() > 1e-8 * scale:
            ctx.fail("correspondence", "model: S_vec[0,:] Sy differs from sigma_0 Vh[0,:] on the witness", dict(case, line=k), key="C06:witness:left-action")


def zero_pattern(SD, pattern, rng):
    """exactly-zero parts of a spectral-matrix sequence: the DC line, a masked band of lines, every line of one channel."""
    nr, nc, nf = SD.shape
    SD = SD.copy()
    if pattern == "dc":
        SD[:, :, 0] = 0
    elif pattern == "band":
        k1 = int(rng.integers(0, nf - 1))
        SD[:, :, k1 : k1 + int(rng.integers(1, nf - k1))] = 0
    elif pattern == "channel":
        ch = int(rng.integers(0, nr))
        SD[ch, :, :] = 0
        if nr == nc:
            SD[:, ch, :] = 0
    elif pattern == "all":
        SD[:] = 0
    return SD


def part_B_zero(ctx, corpus_cases=()):
    """the decomposition is faithful at EVERY line, also where the spectral matrix is exactly zero (stored values 0,
    stored vectors still unitary) or rank deficient."""
    rng = ctx.np_rng
    todo = [(np.array([[[complex(z[0], z[1]) for z in ln] for ln in row] for row in c["SD"]]), c.get("pattern", "corpus")) for c in corpus_cases]
    pats = ["dc", "band", "channel", "all", "dc", "band", "channel"]
    for c in range(ctx.n(8, 36)):
        nf = int(rng.integers(3, 7))
        if c % 2 == 0:
            n = int(rng.integers(2, 6))
            A = dy_c(rng, (n, n + 1, nf))
            SD = np.stack([A[:, :, k] @ A[:, :, k].conj().T for k in range(nf)], axis=2)
        else:
            nr = int(rng.integers(3, 7))
            SD = dy_c(rng, (nr, int(rng.integers(2, min(nr, 4))), nf))
        todo.append((zero_pattern(SD, pats[c % len(pats)], rng), pats[c % len(pats)]))
    for SD, pat in todo:
        nr, nc, nf = SD.shape
        case = dict(kind="svalsvec-zero", pattern=pat, SD=[[[cplx(z) for z in ln] for ln in row] for row in SD])
        ctx.hist("svalsvec-zero", (pat, "square" if nr == nc else "rect"))
        try:
            S_val, S_vec = fdd.SD_svalsvec(SD.copy())
        except Exception as e:  # noqa: BLE001
            ctx.fail("oracle", "SD_svalsvec raises %s on a %dx%d spectral matrix with exactly-zero lines (%s)" % (type(e).__name__, nr, nc, pat), case,
                     key="C06:SD_svalsvec:raise")
            continue
        ctx.count(case, nontrivial=True)
        faithful(ctx, SD, np.asarray(S_val), np.asarray(S_vec), case, "SD_svalsvec")


DTYPES = (("int64", np.int64, 1e-8), ("int32", np.int32, 1e-8), ("float64", np.float64, 1e-8), ("float32", np.float32, 2e-4),
          ("complex64", np.complex64, 2e-4), ("complex128", np.complex128, 1e-8))


def part_B_dtypes(ctx, corpus_specs=()):
    """the same spectral-matrix sequence in other storage dtypes: integer-valued real symmetric PSD sequences (G G^T) as
    int64 / int32 / float64 / float32, complex Hermitian ones (A A^H, small Gaussian integers) as complex64, each next to
    its complex128 image.  SD_svalsvec must be faithful at every line in every form, and FDD_mpe on the stored pair must
    pick the same line and give MAC 1 with conj(u1) of the complex128 image (tolerance by precision for 32-bit forms).
    Inputs are handed over read-only in every other form."""
    rng = ctx.np_rng

    def one(spec):
        g = np.random.default_rng(int(spec["seed"]))
        n, nf, cplx_ = int(spec["n"]), int(spec["nf"]), bool(spec["complex"])
        G = g.integers(-3, 4, size=(n, n + 1, nf)).astype(float)
        if cplx_:
            G = G + 1j * g.integers(-3, 4, size=(n, n + 1, nf))
        img = np.stack([G[:, :, k] @ G[:, :, k].conj().T for k in range(nf)], axis=2).astype(np.complex128)
        freq = 0.5 * np.arange(nf)
        sel, DF = [float(freq[nf // 2])], float(spec["DF"])
        sv = np.array([np.linalg.svd(img[:, :, k], compute_uv=False) for k in range(nf)])
        ratio = np.sqrt(sv[:, 0] / sv[:, 1])
        ref = None
        forms = [d for d in DTYPES if (d[0].startswith("complex") if cplx_ else True)]
        for j, (name, dt, tol) in enumerate(forms[::-1]):      # complex128 image first
            SD = (img if name.startswith("complex") else img.real).astype(dt)
            ro = (j + int(spec["seed"])) % 2 == 1
            case = dict(spec, kind="svalsvec-dtype", dtype=name, readonly=ro, SD=[[[cplx(z) for z in ln] for ln in row] for row in img])
            SD_in = SD.copy()
            fq = freq.copy()
            if ro:
                SD_in.setflags(write=False)
                fq.setflags(write=False)
            try:
                S_val, S_vec = fdd.SD_svalsvec(SD_in)
            except Exception as e:  # noqa: BLE001
                ctx.fail("oracle", "SD_svalsvec raises %s on a %s spectral matrix sequence%s" % (type(e).__name__, name, " handed over read-only" if ro else ""),
                         case, key="C06:SD_svalsvec:dtype-raise")
                continue
            ctx.count({k: v for k, v in case.items() if k != "SD"}, nontrivial=True)
            ctx.hist("svalsvec-dtype", (name, "read-only" if ro else "writable"))
            if not np.array_equal(SD_in, SD):
                ctx.fail("oracle", "SD_svalsvec modifies the spectral matrix it is given", case, key="C06:SD_svalsvec:args-mutated")
            if faithful(ctx, img, np.asarray(S_val), np.asarray(S_vec), case, "SD_svalsvec", tol=tol) is None:
                continue
            Sv, Sw = np.asarray(S_val), np.asarray(S_vec)
            if ro:
                Sv.setflags(write=False)
                Sw.setflags(write=False)
            try:
                Fn, Phi = fdd.FDD_mpe(Sv, Sw, fq, list(sel), DF=DF)
            except Exception as e:  # noqa: BLE001
                ctx.fail("oracle", "FDD_mpe raises %s on the pair stored for a %s sequence%s" % (type(e).__name__, name, " (read-only inputs)" if ro else ""),
                         case, key="C06:FDD_mpe:dtype-raise")
                continue
            Fn, Phi = np.asarray(Fn), np.asarray(Phi)
            where = np.nonzero(freq == Fn[0])[0]
            if len(where) != 1:
                ctx.fail("oracle", "FDD_mpe (%s sequence): Fn=%r is not a grid line" % (name, float(Fn[0])), case, key="C06:FDD_mpe:fn-off-grid")
                continue
            idx = int(where[0])
            ok, judged = pick_ok(freq, ratio, sel[0], DF, idx)
            lo, hi = nearest_set(freq, sel[0] - DF)[0], nearest_set(freq, sel[0] + DF)[-1]
            top = np.sort(ratio[lo : hi + 1])[::-1]
            if not judged or (len(top) > 1 and top[1] >= top[0] * (1 - 10 * tol)):
                ctx.not_judged += 1
                continue
            if not ok:
                ctx.fail("oracle", "FDD_mpe (%s sequence): Fn=%r is not the line of the band where sigma1/sigma2 is largest" % (name, float(Fn[0])), case,
                         key="C06:FDD_mpe:dtype-pick")
                continue
            if sv[idx, 0] - sv[idx, 1] < 0.05 * sv[idx, 0]:
                ctx.not_judged += 1
                continue
            U = np.linalg.svd(img[:, :, idx])[0]
            m = mac(Phi[:, 0], U[:, 0].conj())
            if not (m >= 1 - 10 * tol) or not unity_ok(Phi[:, 0], 10 * tol):
                ctx.fail("oracle", "FDD_mpe (%s sequence): Phi = %s has MAC %.6g with the dominant singular vector of the matrix at the picked line (1 expected)"
                         % (name, np.round(Phi[:, 0], 4).tolist(), m), case, key="C06:FDD_mpe:dtype-mac")
                continue
            if ref is None:
                ref = (Fn, Phi)
            elif not np.array_equal(ref[0], Fn) or np.abs(ref[1] - Phi).max() > 50 * tol:
                ctx.fail("oracle", "FDD_mpe: the %s form of the sequence gives Fn %s / Phi %s, its complex128 image %s / %s"
                         % (name, Fn.tolist(), np.round(Phi[:, 0], 5).tolist(), ref[0].tolist(), np.round(ref[1][:, 0], 5).tolist()), case,
                         key="C06:FDD_mpe:dtype-differs")

    for spec in corpus_specs:
        one(spec)
    for c in range(ctx.n(6, 30)):
        one(dict(n=int(rng.integers(2, 5)), nf=int(rng.integers(7, 13)), complex=bool(c % 3 == 2), DF=float(rng.choice([1.0, 1.5, 2.0])),
                 seed=int(rng.integers(0, 2**31))))


# ----------------------------------------------------------------------------------------------------------------------
# C. through the setup classes
def record(rng, N, fs, shapes, freqs, noise):
    """sum of narrow-band responses with slowly wandering phase + white noise; shapes: nmodes x nch complex."""
    t = np.arange(N) / fs
    x = noise * rng.standard_normal((N, shapes.shape[1]))
    for a, f in zip(shapes, freqs):
        ph = np.cumsum(rng.standard_normal(N)) * 0.02
        env = 1.0 + 0.3 * np.sin(2 * np.pi * 0.11 * t + rng.uniform(0, 6))
        x += np.real(a[None, :] * (env * np.exp(1j * (2 * np.pi * f * t + ph)))[:, None])
    return x


def class_oracle(ctx, res, sel, DF, case, site, fn_on_grid=True, check_faithful=True):
    Sy, freq = np.asarray(res.Sy), np.asarray(res.freq)
    if check_faithful:
        sv = faithful(ctx, Sy, np.asarray(res.S_val), np.asarray(res.S_vec), case, site)
        if sv is None:
            return
    else:
        sv = np.array([np.linalg.svd(Sy[:, :, k], compute_uv=False) for k in range(Sy.shape[2])])
    ratio = sv[:, 0] / sv[:, 1]
    Fn, Phi = np.asarray(res.Fn), np.asarray(res.Phi)
    nr = Sy.shape[0]
    if Phi.shape != (nr, len(sel)):
        ctx.fail("oracle", "%s: Phi has shape %s for %d channels and %d selected frequencies" % (site, Phi.shape, nr, len(sel)), case, key="C06:%s:shape" % site)
        return
    for i, f in enumerate(sel):
        if fn_on_grid:
            where = np.nonzero(freq == Fn[i])[0]
            if len(where) != 1:
                ctx.fail("oracle", "%s: Fn=%r is not a line of result.freq" % (site, float(Fn[i])), dict(case, i=i), key="C06:%s:fn-off-grid" % site)
                continue
            cands = [int(where[0])]
            ok, judged = pick_ok(freq, ratio, f, DF, cands[0])
            if not judged:
                ctx.not_judged += 1
                continue
            if not ok:
                ctx.fail("oracle", "%s: Fn=%r (line %d) is not the line of the band %r +- %r where sigma1/sigma2 of result.Sy is largest"
                         % (site, float(Fn[i]), cands[0], f, DF), dict(case, i=i), key="C06:%s:pick" % site)
                continue
        else:   # EFDD/FSDD: Fn is refined by the second stage; the first-stage shape belongs to the picked line
            cands = []
            los, his = nearest_set(freq, f - DF), nearest_set(freq, f + DF)
            for lo in los:
                for hi in his:
                    for up in (hi - 1, hi):
                        if up >= lo:
                            seg = ratio[lo : up + 1]
                            top = np.sort(seg)[::-1]
                            if len(top) > 1 and top[1] >= top[0] * (1 - 1e-9):
                                cands = None
                                break
                            cands.append(lo + int(np.argmax(seg)))
                    if cands is None:
                        break
                if cands is None:
                    break
            if not cands:
                ctx.not_judged += 1
                continue
        best = 0.0
        for idx in set(cands):
            U, S, _ = np.linalg.svd(Sy[:, :, idx])
            best = max(best, mac(Phi[:, i], U[:, 0].conj()))
        if not (best >= 1 - 1e-8):
            ctx.fail("oracle", "%s: MAC(Phi, conj(dominant left singular vector of result.Sy at the picked line)) = %.10g, not 1" % (site, best),
                     dict(case, i=i), key="C06:%s:mac" % site)
        if not unity_ok(Phi[:, i], 1e-8):
            ctx.fail("oracle", "%s: Phi = %s is not normalised to a largest component equal to 1" % (site, np.round(Phi[:, i], 6).tolist()), dict(case, i=i),
                     key="C06:%s:unity" % site)


RES_FIELDS = ("freq", "Sy", "S_val", "S_vec")


def snapshot(res):
    return {k: np.array(getattr(res, k), copy=True) for k in RES_FIELDS}


def unchanged(ctx, snap, res, case, site, by="mpe"):
    """result.{freq,Sy,S_val,S_vec} are what run() stored: mpe must leave them bit-identical."""
    bad = [k for k, v in snap.items() if np.asarray(getattr(res, k)).shape != v.shape or not np.array_equal(np.asarray(getattr(res, k)), v)]
    if bad:
        ctx.fail("oracle", "%s: result.%s changed by %s (the stored decomposition must stay that of result.Sy)" % (site, "/".join(bad), by), case,
                 key="C06:%s:result-mutated" % site)
    return not bad


def inputs_same(ctx, triples, case, site):
    """arrays / lists handed to the setup classes and to mpe come back bit-unchanged.  triples: (name, now, kept)."""
    for name, now, kept in triples:
        if isinstance(now, np.ndarray):
            same = np.array_equal(now, kept)
        elif len(now) and isinstance(now[0], np.ndarray):
            same = len(now) == len(kept) and all(np.array_equal(x, y) for x, y in zip(now, kept))
        else:
            same = now == kept
        if not same:
            ctx.fail("oracle", "%s: the %s passed in is modified in place" % (site, name), case, key="C06:%s:args-mutated" % site)


def narrow_band(ctx, spec):
    """Conjugation convention from first principles, for both spectral estimators and every FDD-family class: a
    narrow-band response x_c(t) = |a_c| cos(2 pi f0 t + arg a_c) with genuinely complex amplitude ratios (phase lags
    far from 0/180 degrees) must give Phi / Phi[0] = a / a[0] - not conj(a)."""
    from pyoma2.algorithms import EFDD, FDD, FDD_MS, FSDD
    from pyoma2.setup import MultiSetup_PreGER, SingleSetup

    fs, N, nxseg = 32.0, 4096, 128
    df = fs / nxseg
    f0 = float(spec["f0"])
    a = np.array([1.0] + [m * np.exp(1j * np.deg2rad(l)) for m, l in zip(spec["mods"], spec["lags_deg"])])
    nch = len(a)
    g = np.random.default_rng(int(spec["noise_seed"]))
    t = np.arange(N) / fs
    x = np.real(a[None, :] * np.exp(2j * np.pi * f0 * t)[:, None]) + 1e-3 * g.standard_normal((N, nch))
    x2 = np.real(a[None, :] * np.exp(2j * np.pi * f0 * t + 0.4j)[:, None]) + 1e-3 * g.standard_normal((N, nch))
    tol = 0.1     # 'per' is exact to 2e-4, the correlogram estimator to 5e-2; conj(a) is at least 0.5 away for lags of 40..140 degrees
    for method in spec.get("methods", ["per", "cor"]):
        case = dict(spec, kind="narrow-band", method=method, a=[cplx(z) for z in a], fs=fs, N=N, nxseg=nxseg)
        for cls, name in ((FDD, "FDD"), (EFDD, "EFDD"), (FSDD, "FSDD")):
            Phi = None
            for kw in (dict(DF2=2.0, sppk=1, npmax=4), dict(DF2=4.0, sppk=1, npmax=2), dict(DF2=1.0, sppk=0, npmax=3)):
                ss = SingleSetup(x.copy(), fs=fs)
                alg = cls(name="a", nxseg=nxseg, method_SD=method)
                ss.add_algorithms(alg)
                ss.run_by_name("a")
                try:
                    if cls is FDD:
                        ss.mpe("a", sel_freq=[f0], DF=2 * df)
                    else:
                        ss.mpe("a", sel_freq=[f0], DF1=2 * df, **kw)
                    Phi = np.asarray(alg.result.Phi)[:, 0]
                    break
                except Exception as e:  # noqa: BLE001
                    if cls is FDD:
                        ctx.fail("oracle", "FDD.mpe raises %s on a narrow-band record" % type(e).__name__, dict(case, cls=name), key="C06:FDD:raise")
                        break
            if Phi is None:
                ctx.not_judged += 1
                continue
            ctx.count(dict(case, cls=name), nontrivial=True)
            ctx.hist("narrow-band", (name, method))
            got = Phi / Phi[0]
            if got.shape != a.shape or np.abs(got - a).max() > tol:
                ctx.fail("oracle", "%s (method_SD=%s): narrow-band response with channel amplitudes %s gives Phi/Phi[0] = %s (MAC %.3f; equals the conjugate: %s)"
                         % (name, method, np.round(a, 3).tolist(), np.round(got, 3).tolist(), mac(got, a) if got.shape == a.shape else float("nan"),
                            bool(got.shape == a.shape and np.abs(got - a.conj()).max() < tol)),
                         dict(case, cls=name), key="C06:%s:narrow-band-amplitudes" % name)
        # PreGER: the same physical response seen by two setups sharing the references 0 and 1
        if nch >= 3:
            c1, c2 = [0, 1, 2], [0, 1, nch - 1]
            ms = MultiSetup_PreGER(fs=fs, ref_ind=[[0, 1], [0, 1]], datasets=[x[:, c1].copy(), x2[:, c2].copy()])
            alg = FDD_MS(name="m", nxseg=nxseg, method_SD=method)
            ms.add_algorithms(alg)
            ms.run_by_name("m")
            try:
                ms.mpe("m", sel_freq=[f0], DF=2 * df)
            except Exception as e:  # noqa: BLE001
                ctx.fail("oracle", "FDD_MS.mpe raises %s on a narrow-band record" % type(e).__name__, dict(case, cls="FDD_MS"), key="C06:FDD_MS:raise")
                continue
            Phi = np.asarray(alg.result.Phi)[:, 0]
            want = np.array([a[0], a[1], a[2], a[nch - 1]])
            ctx.count(dict(case, cls="FDD_MS"), nontrivial=True)
            ctx.hist("narrow-band", ("FDD_MS", method))
            got = Phi / Phi[0]
            if got.shape != want.shape or np.abs(got - want).max() > tol:
                ctx.fail("oracle", "FDD_MS (method_SD=%s): narrow-band response with amplitudes %s gives Phi/Phi[0] = %s (equals the conjugate: %s)"
                         % (method, np.round(want, 3).tolist(), np.round(got, 3).tolist(), bool(got.shape == want.shape and np.abs(got - want.conj()).max() < tol)),
                         dict(case, cls="FDD_MS"), key="C06:FDD_MS:narrow-band-amplitudes")


def part_C(ctx, corpus_nb=()):
    from pyoma2.algorithms import EFDD, EFDD_MS, FDD, FDD_MS, FSDD
    from pyoma2.setup import MultiSetup_PreGER, SingleSetup

    rng = ctx.np_rng
    fs = 32.0
    for spec in corpus_nb:
        narrow_band(ctx, spec)
    nrec = ctx.n(6, 30)
    for c in range(nrec):
        nch = int(rng.integers(2, 5))
        N = int(rng.choice([2048, 3072]))
        nxseg = int(rng.choice([64, 128]))
        df = fs / nxseg
        modes = sorted(rng.choice(np.arange(8, nxseg // 2 - 8), size=2, replace=False) * df + rng.choice([0.0, df / 3]))
        shapes = dy_c(rng, (2, nch), 8, 8.0)
        shapes[:, 0] = 1.0
        x = record(rng, N, fs, shapes, modes, 0.05)
        method = "per" if c % 3 else "cor"
        sel = [float(m + rng.choice([0.0, df / 2, -df / 4])) for m in modes]
        DF = float(df * rng.choice([1.0, 2.0, 3.5]))
        base = dict(kind="class", nch=nch, N=N, nxseg=nxseg, method=method, sel=sel, DF=DF, fs=fs, seed_case=c,
                    shapes=[[cplx(z) for z in r] for r in shapes], modes=[float(m) for m in modes])
        # a second mpe call on the SAME object with other arguments: each call is judged against its own arguments
        sel2 = [float(modes[1] + rng.choice([0.0, -df / 2]))]
        DF2 = float(df * rng.choice([v for v in (1.0, 2.0, 3.5, 5.0) if v * df != DF]))
        for cls in (FDD, EFDD, FSDD):
            x_in = x.copy()
            if c % 2 == 1:
                x_in.setflags(write=False)      # the classes never write to the caller's array
            ss = SingleSetup(x_in, fs=fs)
            alg = cls(name="a", nxseg=nxseg, method_SD=method)
            ss.add_algorithms(alg)
            ss.run_by_name("a")
            snap = snapshot(alg.result)
            ctx.hist("class", cls.__name__)
            for call, (sel_k, DF_k) in enumerate(((sel, DF), (sel2, DF2), (sel, DF))):
                case = dict(base, cls=cls.__name__, call=call, sel=sel_k, DF=DF_k, earlier_calls=[[sel, DF], [sel2, DF2]][:call])
                sel_in = list(sel_k)
                try:
                    if cls is FDD:
                        ss.mpe("a", sel_freq=sel_in, DF=DF_k)
                    else:
                        ss.mpe("a", sel_freq=sel_in, DF1=DF_k, DF2=2.0, sppk=1, npmax=4)
                except Exception as e:  # noqa: BLE001
                    if cls is FDD:
                        ctx.fail("oracle", "FDD.mpe raises %s on a valid band" % type(e).__name__, case, key="C06:FDD:raise")
                    else:
                        ctx.not_judged += 1   # second stage (C07) could not fit: first stage not observable
                    continue
                ctx.count(case, nontrivial=True)
                inputs_same(ctx, (("data", x_in, x), ("sel_freq", sel_in, list(sel_k))), case, cls.__name__)
                run_params_ok(ctx, alg, {"sel_freq": list(sel_k), "DF": DF_k} if cls is FDD else {"sel_freq": list(sel_k), "DF1": DF_k}, case, cls.__name__)
                if unchanged(ctx, snap, alg.result, case, cls.__name__):
                    class_oracle(ctx, alg.result, sel_k, DF_k, case, cls.__name__, fn_on_grid=cls is FDD)
        ctx.sample({k: base[k] for k in ("nch", "N", "nxseg", "method", "sel", "DF", "modes")})

    # multi-setup PreGER (at least two reference sensors: the ratio needs a second singular value)
    for c in range(ctx.n(4, 16)):
        nref = int(rng.integers(2, 4))
        nmov = [int(rng.integers(1, 3)) for _ in range(int(rng.integers(2, 4)))]
        N, nxseg = 2048, int(rng.choice([64, 128]))
        df = fs / nxseg
        modes = sorted(rng.choice(np.arange(8, nxseg // 2 - 8), size=2, replace=False) * df)
        ntot = nref + sum(nmov)
        shapes = dy_c(rng, (2, ntot), 8, 8.0)
        shapes[:, 0] = 1.0
        datasets, ref_ind = [], []
        pos = nref
        for m in nmov:
            cols = list(range(nref)) + list(range(pos, pos + m))
            pos += m
            xs = record(rng, N, fs, shapes[:, cols] * rng.choice([1.0, 2.0, 0.5]), modes, 0.05)
            # references are not the first columns of the file: permute the columns
            perm = list(rng.permutation(len(cols)))
            datasets.append(xs[:, perm])
            ref_ind.append([perm.index(r) for r in range(nref)])
        sel = [float(m + rng.choice([0.0, df / 2])) for m in modes]
        DF = float(df * rng.choice([1.0, 2.0, 3.0]))
        sel2 = [float(modes[0] + rng.choice([0.0, df / 4]))]
        DF2 = float(df * rng.choice([v for v in (1.0, 2.0, 3.0, 4.5) if v * df != DF]))
        for cls in (FDD_MS, EFDD_MS):
            d_in = [d.copy() for d in datasets]
            if c % 2 == 1:
                for d in d_in:
                    d.setflags(write=False)
            ms = MultiSetup_PreGER(fs=fs, ref_ind=[list(r) for r in ref_ind], datasets=d_in)
            alg = cls(name="m", nxseg=nxseg, method_SD="per" if c % 2 else "cor")
            ms.add_algorithms(alg)
            ms.run_by_name("m")
            snap = snapshot(alg.result)
            ctx.hist("class", cls.__name__)
            for call, (sel_k, DF_k) in enumerate(((sel, DF), (sel2, DF2))):
                case = dict(kind="class", cls=cls.__name__, nref=nref, nmov=nmov, nxseg=nxseg, sel=sel_k, DF=DF_k, seed_case=c, ref_ind=ref_ind, call=call,
                            earlier_calls=[[sel, DF]][:call])
                sel_in = list(sel_k)
                try:
                    if cls is FDD_MS:
                        ms.mpe("m", sel_freq=sel_in, DF=DF_k)
                    else:
                        ms.mpe("m", sel_freq=sel_in, DF1=DF_k, DF2=2.0, sppk=1, npmax=4)
                except Exception as e:  # noqa: BLE001
                    if cls is FDD_MS:
                        ctx.fail("oracle", "FDD_MS.mpe raises %s on a valid band with %d references" % (type(e).__name__, nref), case, key="C06:FDD_MS:raise")
                    else:
                        ctx.not_judged += 1
                    continue
                ctx.count(case, nontrivial=True)
                inputs_same(ctx, (("datasets", d_in, datasets), ("sel_freq", sel_in, list(sel_k))), case, cls.__name__)
                run_params_ok(ctx, alg, {"sel_freq": list(sel_k), "DF": DF_k} if cls is FDD_MS else {"sel_freq": list(sel_k), "DF1": DF_k}, case, cls.__name__)
                if unchanged(ctx, snap, alg.result, case, cls.__name__):
                    class_oracle(ctx, alg.result, sel_k, DF_k, case, cls.__name__, fn_on_grid=cls is FDD_MS)

    # conjugation convention from first principles (both estimators, FDD / EFDD / FSDD / FDD_MS) - see narrow_band
    for c in range(ctx.n(3, 12)):
        nch = int(rng.integers(3, 5))
        lags = [float(l) for l in rng.choice([40.0, 75.0, 110.0, -40.0, -75.0, -110.0, 140.0, -140.0], size=nch - 1, replace=False)]
        narrow_band(ctx, dict(f0=float(0.5 * rng.integers(5, 26)), mods=[float(m) for m in np.round(rng.uniform(0.4, 0.9, nch - 1), 3)],
                              lags_deg=lags, noise_seed=int(rng.integers(0, 2**31)), methods=["per", "cor"]))


def find_band(rng, freq, sv, df):
    """a (sel_freq, DF) whose band has one clear ratio peak while sigma1 peaks at another line."""
    ratio, s1 = sv[:, 0] / sv[:, 1], sv[:, 0]
    for _ in range(300):
        k0 = int(rng.integers(6, len(freq) - 6))
        DF = float(df * rng.choice([2.0, 3.0, 4.0]))
        f = float(freq[k0] + rng.choice([0.0, df / 4]))
        los, his = nearest_set(freq, f - DF), nearest_set(freq, f + DF)
        if len(los) == 1 and len(his) == 1 and band_decisive(ratio, s1, los[0], his[0]):
            return f, DF
    return None


def part_C_scale(ctx):
    """records multiplied by 2^k (spectra by 2^(2k), 2k spread over about [-90, 90]): every scaled run must satisfy the
    property text, and the picked line and Phi must not move.  Noise-dominated records: sigma1 and sigma1/sigma2 peak at
    different lines of the chosen band."""
    from pyoma2.algorithms import EFDD, FDD, FDD_MS
    from pyoma2.setup import MultiSetup_PreGER, SingleSetup

    rng = ctx.np_rng
    fs = 32.0

    def run_single(cls, x, nxseg, method, sel, DF):
        ss = SingleSetup(x.copy(), fs=fs)
        alg = cls(name="a", nxseg=nxseg, method_SD=method)
        ss.add_algorithms(alg)
        ss.run_by_name("a")
        if sel is not None:
            if cls is FDD:
                ss.mpe("a", sel_freq=list(sel), DF=DF)
            else:
                ss.mpe("a", sel_freq=list(sel), DF1=DF, **efdd_kw)
        return alg.result

    def run_multi(datasets, ref_ind, nxseg, method, sel, DF):
        ms = MultiSetup_PreGER(fs=fs, ref_ind=[list(r) for r in ref_ind], datasets=[d.copy() for d in datasets])
        alg = FDD_MS(name="m", nxseg=nxseg, method_SD=method)
        ms.add_algorithms(alg)
        ms.run_by_name("m")
        if sel is not None:
            ms.mpe("m", sel_freq=list(sel), DF=DF)
        return alg.result

    def compare(site, base, res, k, case):
        Fn0, Phi0, Fn1, Phi1 = np.asarray(base.Fn), np.asarray(base.Phi), np.asarray(res.Fn), np.asarray(res.Phi)
        fn_same = np.array_equal(Fn0, Fn1) if site != "EFDD" else True   # EFDD's Fn comes from the second stage (C07)
        if Phi0.shape != Phi1.shape or not fn_same or np.abs(Phi0 - Phi1).max() > 1e-7:
            ctx.fail("oracle", "%s: multiplying the record by 2^%d changes the result: Fn %s -> %s, max |dPhi| = %.3g (sigma1/sigma2 is unchanged)"
                     % (site, k, Fn0.tolist(), Fn1.tolist(), np.abs(Phi0 - Phi1).max() if Phi0.shape == Phi1.shape else float("nan")),
                     case, key="C06:%s:scale-invariance" % site)

    kall = [-45, -41, -37, -33, -24, -12, 9, 21, 33, 45]
    efdd_kw = {}
    for c in range(ctx.n(3, 8)):
        nch = int(rng.integers(2, 5))
        N, nxseg = 2048, int(rng.choice([64, 128]))
        df = fs / nxseg
        method = "per" if c % 2 == 0 else "cor"
        shapes = dy_c(rng, (2, nch), 8, 8.0)
        for _attempt in range(4):
            x = record(rng, N, fs, shapes, [4.0, 9.5], 1.0)
            r0 = run_single(FDD, x, nxseg, method, None, None)
            sv = np.array([np.linalg.svd(np.asarray(r0.Sy)[:, :, k], compute_uv=False) for k in range(len(r0.freq))])
            band = find_band(rng, np.asarray(r0.freq), sv, df)
            if band is not None:
                break
        if band is None:
            ctx.hist("class-scale-skip", "no decisive band")
            ctx.not_judged += 1
            continue
        sel, DF = [band[0]], band[1]
        xl = x.tolist()
        ks = kall if not ctx.quick() else [-45, int(rng.choice([-41, -37])), int(rng.choice([-24, -12])), int(rng.choice([9, 21, 33])), 45]
        for cls, name in ((FDD, "FDD"), (EFDD, "EFDD")):
            base = None
            for efdd_kw in (dict(DF2=2.0, sppk=1, npmax=4), dict(DF2=4.0, sppk=1, npmax=2), dict(DF2=1.0, sppk=0, npmax=3)):
                try:   # the second stage (C07) must be able to fit, otherwise the first stage of EFDD is not observable
                    base = run_single(cls, x, nxseg, method, sel, DF)
                    break
                except Exception:  # noqa: BLE001
                    continue
            if base is None:
                ctx.hist("class-scale-skip", name + ": second stage cannot fit")
                ctx.not_judged += 1
                continue
            for k in ks if cls is FDD else (ks[0], ks[-1]):
                case = dict(kind="class-scale", cls=name, nch=nch, nxseg=nxseg, method=method, sel=sel, DF=DF, scale_log2=k, seed_case=c,
                            fs=fs, record_before_scaling=xl)
                try:
                    res = run_single(cls, x * 2.0**k, nxseg, method, sel, DF)
                except Exception as e:  # noqa: BLE001
                    if cls is FDD:
                        ctx.fail("oracle", "FDD.mpe raises %s when the record is multiplied by 2^%d" % (type(e).__name__, k), case, key="C06:FDD:scale-raise")
                    else:
                        ctx.not_judged += 1
                    continue
                ctx.count({k2: v for k2, v in case.items() if k2 != "record_before_scaling"}, nontrivial=True)
                ctx.hist("class-scale-log2", (name, 2 * k))
                class_oracle(ctx, res, sel, DF, case, name, fn_on_grid=cls is FDD)
                compare(name, base, res, k, case)
    for c in range(ctx.n(1, 5)):
        nxseg = int(rng.choice([64, 128]))
        df = fs / nxseg
        method = "per" if c % 2 == 0 else "cor"
        nref, nmov = 2, [int(rng.integers(1, 3)), int(rng.integers(1, 3))]
        shapes = dy_c(rng, (2, nref + sum(nmov)), 8, 8.0)
        datasets, pos = [], nref
        for m in nmov:
            cols = list(range(nref)) + list(range(pos, pos + m))
            pos += m
            datasets.append(record(rng, 2048, fs, shapes[:, cols], [4.0, 9.5], 1.0))
        ref_ind = [[0, 1], [0, 1]]
        r0 = run_multi(datasets, ref_ind, nxseg, method, None, None)
        sv = np.array([np.linalg.svd(np.asarray(r0.Sy)[:, :, k], compute_uv=False) for k in range(len(r0.freq))])
        band = find_band(rng, np.asarray(r0.freq), sv, df)
        if band is None:
            ctx.not_judged += 1
            continue
        sel, DF = [band[0]], band[1]
        base = run_multi(datasets, ref_ind, nxseg, method, sel, DF)
        dl = [d.tolist() for d in datasets]
        for k in (kall if not ctx.quick() else [-45, -37, 33]):
            case = dict(kind="class-scale", cls="FDD_MS", nmov=nmov, nxseg=nxseg, method=method, sel=sel, DF=DF, scale_log2=k, seed_case=c,
                        fs=fs, ref_ind=ref_ind, datasets_before_scaling=dl)
            try:
                res = run_multi([d * 2.0**k for d in datasets], ref_ind, nxseg, method, sel, DF)
            except Exception as e:  # noqa: BLE001
                ctx.fail("oracle", "FDD_MS.mpe raises %s when the records are multiplied by 2^%d" % (type(e).__name__, k), case, key="C06:FDD_MS:scale-raise")
                continue
            ctx.count({k2: v for k2, v in case.items() if k2 != "datasets_before_scaling"}, nontrivial=True)
            ctx.hist("class-scale-log2", ("FDD_MS", 2 * k))
            class_oracle(ctx, res, sel, DF, case, "FDD_MS", fn_on_grid=True)
            compare("FDD_MS", base, res, k, case)


def part_C_forms(ctx):
    """sel_freq / DF handed to the classes' mpe in every form a user may write them (ints, int arrays, tuples, float
    arrays, mixed, reversed order; DF int or float): each call is judged by the property text with the exact values and
    must give the result of the float-list call."""
    from pyoma2.algorithms import EFDD, FDD, FDD_MS
    from pyoma2.setup import MultiSetup_PreGER, SingleSetup

    rng = ctx.np_rng
    fs = 32.0

    def call(setup, name, cls, sel, DF):
        if cls in (FDD, FDD_MS):
            setup.mpe(name, sel_freq=sel, DF=DF)
        else:
            setup.mpe(name, sel_freq=sel, DF1=DF, DF2=2.0, sppk=1, npmax=4)

    def family(setup, name, alg, cls, site, selv, DFv, info, forms):
        try:
            call(setup, name, cls, [float(v) for v in selv], float(DFv))
        except Exception:  # noqa: BLE001
            ctx.not_judged += 1
            return
        Fn0, Phi0 = np.array(alg.result.Fn, copy=True), np.array(alg.result.Phi, copy=True)
        snap = snapshot(alg.result)
        for fm in forms:
            rev = len(selv) > 1 and rng.random() < 0.4
            vals = selv[::-1] if rev else selv
            DF_int = bool(float(DFv).is_integer() and rng.random() < 0.7)
            sel_in, sel_keep = in_form(vals, fm), in_form(vals, fm)
            case = dict(info, kind="class-form", cls=site, sel=[float(v) for v in vals], DF=float(DFv), form=fm, DF_int=DF_int, reversed=rev)
            try:
                call(setup, name, cls, sel_in, int(DFv) if DF_int else float(DFv))
            except Exception as e:  # noqa: BLE001
                ctx.fail("oracle", "%s.mpe raises %s for sel_freq passed as %s (it returns for the same numbers as a list of floats)" % (site, type(e).__name__, fm),
                         case, key="C06:%s:input-form" % site)
                continue
            ctx.count(case, nontrivial=True)
            ctx.hist("class-form", (site, fm, "DF int" if DF_int else "DF float"))
            if not same_seq(sel_in, sel_keep):
                ctx.fail("oracle", "%s: the sel_freq passed in is modified in place" % site, case, key="C06:%s:args-mutated" % site)
            if not unchanged(ctx, snap, alg.result, case, site):
                continue
            class_oracle(ctx, alg.result, case["sel"], case["DF"], case, site, fn_on_grid=cls in (FDD, FDD_MS))
            Fn1, Phi1 = np.asarray(alg.result.Fn), np.asarray(alg.result.Phi)
            if rev:
                Fn1, Phi1 = Fn1[::-1], Phi1[:, ::-1]
            if Fn1.shape != Fn0.shape or Phi1.shape != Phi0.shape or not np.array_equal(Fn1, Fn0) or np.abs(Phi1 - Phi0).max() > 1e-12:
                ctx.fail("oracle", "%s: sel_freq = %r passed as %s%s, DF = %r as %s gives Fn %s where the float list gives %s"
                         % (site, case["sel"], fm, " (reversed order)" if rev else "", case["DF"], "int" if DF_int else "float", Fn1.tolist(), Fn0.tolist()),
                         case, key="C06:%s:input-form" % site)

    for c in range(ctx.n(2, 8)):
        nch = int(rng.integers(2, 5))
        nxseg = int(rng.choice([64, 128]))
        df = fs / nxseg
        modes = sorted(int(v) for v in rng.choice(np.arange(3, 14), size=2, replace=False))
        shapes = dy_c(rng, (2, nch), 8, 8.0)
        shapes[:, 0] = 1.0
        x = record(rng, 2048, fs, shapes, [float(m) for m in modes], 0.05)
        method = "per" if c % 2 == 0 else "cor"
        DFv = float(rng.choice([v for v in (0.3, 0.6, 0.75) if v >= df])) if c % 2 == 0 else float(rng.choice([1.0, 2.0]))   # below one Hz / an int
        info = dict(nch=nch, nxseg=nxseg, method=method, fs=fs, seed_case=c, modes=modes, record=x.tolist())
        for cls, site, forms in ((FDD, "FDD", FORMS[1:] if not ctx.quick() else ("int-list", "int64", "int32", "int-tuple")),
                                 (EFDD, "EFDD", ("int-list", "int64") if ctx.quick() else ("int-list", "int64", "int32", "tuple"))):
            ss = SingleSetup(x.copy(), fs=fs)
            alg = cls(name="a", nxseg=nxseg, method_SD=method)
            ss.add_algorithms(alg)
            ss.run_by_name("a")
            family(ss, "a", alg, cls, site, [float(m) for m in modes], DFv, info, forms)
    for c in range(ctx.n(1, 4)):
        nxseg = int(rng.choice([64, 128]))
        df = fs / nxseg
        modes = sorted(int(v) for v in rng.choice(np.arange(3, 14), size=2, replace=False))
        shapes = dy_c(rng, (2, 5), 8, 8.0)
        shapes[:, 0] = 1.0
        datasets = [record(rng, 2048, fs, shapes[:, cols], [float(m) for m in modes], 0.05) for cols in ([0, 1, 2], [0, 1, 3, 4])]
        ms = MultiSetup_PreGER(fs=fs, ref_ind=[[0, 1], [0, 1]], datasets=[d.copy() for d in datasets])
        alg = FDD_MS(name="m", nxseg=nxseg, method_SD="per" if c % 2 else "cor")
        ms.add_algorithms(alg)
        ms.run_by_name("m")
        DFv = float(rng.choice([v for v in (0.3, 0.6, 1.0) if v >= df]))
        info = dict(nxseg=nxseg, fs=fs, seed_case=c, modes=modes, ref_ind=[[0, 1], [0, 1]], datasets=[d.tolist() for d in datasets])
        family(ms, "m", alg, FDD_MS, "FDD_MS", [float(m) for m in modes], DFv, info, ("int-list", "int32", "int64") if ctx.quick() else FORMS[1:])


class _ScriptedPicks:
    """head-less stand-in for pyoma2.support.sel_from_plot.SelFromPlot: the frequencies a user would click (no Tk)."""
    picks = []
    calls = []

    def __init__(self, algo=None, freqlim=None, plot="FDD", *args, **kwargs):
        type(self).calls.append((type(algo).__name__, freqlim, plot))
        self.algo, self.freqlim, self.plot = algo, freqlim, plot
        self.sel_freq = list(type(self).picks)
        self.result = (self.sel_freq, None)


def run_params_ok(ctx, alg, want, case, site, key=None):
    """run_params reflect the arguments of the call just made."""
    rp = alg.run_params
    for name, val in want.items():
        got = getattr(rp, name, None)
        same = (got is not None and len(got) == len(val) and all(float(a) == float(b) for a, b in zip(got, val))) if isinstance(val, list) \
            else (got is not None and float(got) == float(val))
        if not same:
            ctx.fail("oracle", "%s: run_params.%s = %r after a call made with %s = %r" % (site, name, got, name, val), case, key=key or "C06:%s:run_params" % site)


def part_C_plot(ctx, corpus_specs=()):
    """the interactive path: Setup.mpe_from_plot -> FDD / FDD_MS (and the first stage of EFDD / FSDD / EFDD_MS), driven
    head-less with scripted picks; DF well above and below the default 0.1.  Same oracle as for mpe, against the band
    REQUESTED in the call; the result must also be the one mpe gives for the same picks and DF."""
    import pyoma2.algorithms.fdd as alg_mod
    import pyoma2.support.sel_from_plot as sfp_mod
    from pyoma2.algorithms import EFDD, EFDD_MS, FDD, FDD_MS, FSDD
    from pyoma2.setup import MultiSetup_PreGER, SingleSetup

    rng = ctx.np_rng
    fs = 32.0
    saved = (alg_mod.SelFromPlot, sfp_mod.SelFromPlot)
    alg_mod.SelFromPlot = _ScriptedPicks
    sfp_mod.SelFromPlot = _ScriptedPicks

    def one(spec):
        g = np.random.default_rng(int(spec["seed"]))
        nch, nxseg, N, DF, method = int(spec["nch"]), int(spec["nxseg"]), int(spec["N"]), float(spec["DF"]), spec["method"]
        df = fs / nxseg
        modes = [float(m) for m in spec["modes"]]
        shapes = dy_c(g, (len(modes), nch + 2), 8, 8.0)
        shapes[:, 0] = 1.0
        x = record(g, N, fs, shapes[:, :nch], modes, 0.05)
        picks = [float(round(m / df) * df + o * df) for m, o in zip(modes, spec["pick_offset_lines"])]   # grid lines, as the GUI returns them
        base = dict(spec, kind="plot-path", picks=picks, fs=fs)
        kw2 = dict(DF2=2.0, sppk=1, npmax=4)
        jobs = [(FDD, "FDD", None), (EFDD, "EFDD", None), (FSDD, "FSDD", None)]
        # two setups sharing the references 0, 1 (columns permuted in the second file)
        d2 = record(g, N, fs, shapes[:, [0, 1, nch, nch + 1]], modes, 0.05)[:, [2, 0, 3, 1]]
        multi = dict(ref_ind=[[0, 1], [1, 3]], datasets=[x[:, : max(nch, 3)] if nch >= 3 else np.hstack([x, x[:, :1] * 0.5 + 0.01 * g.standard_normal((N, 1))]), d2])
        jobs += [(FDD_MS, "FDD_MS", multi), (EFDD_MS, "EFDD_MS", multi)]
        for cls, name, mu in jobs:
            site = name + ".mpe_from_plot"
            plain = cls in (FDD, FDD_MS)

            def fresh():
                if mu is None:
                    st = SingleSetup(x.copy(), fs=fs)
                else:
                    st = MultiSetup_PreGER(fs=fs, ref_ind=[list(r) for r in mu["ref_ind"]], datasets=[d.copy() for d in mu["datasets"]])
                al = cls(name="a", nxseg=nxseg, method_SD=method)
                st.add_algorithms(al)
                st.run_by_name("a")
                return st, al

            st, al = fresh()
            snap = snapshot(al.result)
            case = dict(base, cls=name)
            _ScriptedPicks.picks, _ScriptedPicks.calls = list(picks), []
            try:
                if plain:
                    st.mpe_from_plot("a", DF=DF)
                else:
                    st.mpe_from_plot("a", DF1=DF, **kw2)
            except Exception as e:  # noqa: BLE001
                if plain:
                    ctx.fail("oracle", "%s raises %s for picks %s with DF = %r (a valid band)" % (site, type(e).__name__, picks, DF), case, key="C06:%s:raise" % site)
                else:
                    ctx.not_judged += 1
                continue
            if not _ScriptedPicks.calls:
                ctx.note("%s did not go through SelFromPlot" % site)
            ctx.count(case, nontrivial=True)
            ctx.hist("plot-path", (name, "DF %g" % DF))
            run_params_ok(ctx, al, {"DF": DF} if plain else {"DF1": DF}, case, site)
            if not unchanged(ctx, snap, al.result, case, site, by="mpe_from_plot"):
                continue
            class_oracle(ctx, al.result, picks, DF, case, site, fn_on_grid=plain)
            # the programmatic call with the same picks and DF on a fresh object
            st2, al2 = fresh()
            try:
                if plain:
                    st2.mpe("a", sel_freq=list(picks), DF=DF)
                else:
                    st2.mpe("a", sel_freq=list(picks), DF1=DF, **kw2)
            except Exception:  # noqa: BLE001
                continue
            F1, P1, F2, P2 = np.asarray(al.result.Fn), np.asarray(al.result.Phi), np.asarray(al2.result.Fn), np.asarray(al2.result.Phi)
            if F1.shape != F2.shape or P1.shape != P2.shape or not np.array_equal(F1, F2) or np.abs(P1 - P2).max() > 1e-12:
                ctx.fail("oracle", "%s with picks %s and DF = %r gives Fn %s, mpe(sel_freq = the same picks, DF = %r) gives %s"
                         % (site, picks, DF, F1.tolist(), DF, F2.tolist()), case, key="C06:%s:differs-from-mpe" % site)

    try:
        for spec in corpus_specs:
            one(spec)
        for c in range(ctx.n(3, 12)):
            fine = c % 3 == 2      # a fine grid and a band NARROWER than the default; otherwise bands much wider than it
            nxseg = 1024 if fine else int(rng.choice([128, 256]))
            df = fs / nxseg
            modes = sorted(float(v) for v in rng.choice(np.arange(3, 14), size=2, replace=False))
            offs = [int(rng.choice([-3, 3])) for _ in modes] if fine else [int(rng.choice([-3, -2, 2, 3]) * (0.25 / df)) for _ in modes]
            one(dict(nch=int(rng.integers(2, 5)), nxseg=nxseg, N=4096 if fine else 2048, modes=modes, pick_offset_lines=offs,
                     DF=0.05 if fine else float(rng.choice([1.0, 1.5, 2.5])), method="per" if c % 2 == 0 else "cor", seed=int(rng.integers(0, 2**31))))
    finally:
        alg_mod.SelFromPlot, sfp_mod.SelFromPlot = saved


def part_C_refill(ctx, corpus_specs=()):
    """first stage of EFDD / FSDD on a sequence of spectral matrices of one shape: the same ndarray refilled in place
    with another spectrum and analysed again, many fresh arrays analysed in a row, and the classes' mpe after result.Sy
    was refilled in place.  Every analysis is judged on what the array HOLDS at the time of the call."""
    import gc
    from types import SimpleNamespace

    from pyoma2.algorithms import EFDD, EFDD_MS, FSDD
    from pyoma2.setup import MultiSetup_PreGER, SingleSetup

    rng = ctx.np_rng
    fs = 32.0
    kws = (dict(DF2=2.0, sppk=1, npmax=4), dict(DF2=4.0, sppk=1, npmax=2), dict(DF2=1.0, sppk=0, npmax=3))

    def analyse(Sy, freq, method_sd, meth, sel, DF1):
        for kw in kws:
            try:
                return np.asarray(fdd.EFDD_mpe(Sy, freq, 1 / fs, list(sel), method_sd, method=meth, DF1=DF1, **kw)[2])
            except (IndexError, ValueError, RuntimeError):
                continue
        return None

    def judge(held, freq, Phi, sel, DF1, case, site):
        if Phi is None:
            ctx.not_judged += 1    # the second stage (C07) cannot fit: the first stage is not observable
            return
        ctx.count(case, nontrivial=True)
        ctx.hist("refill", (site, case["step"].split(" ")[0]))
        class_oracle(ctx, SimpleNamespace(Sy=held, freq=freq, Fn=None, Phi=Phi, S_val=None, S_vec=None), sel, DF1, case, site,
                     fn_on_grid=False, check_faithful=False)

    def one(spec):
        g = np.random.default_rng(int(spec["seed"]))
        nch, nxseg, method_sd, nrec = int(spec["nch"]), int(spec["nxseg"]), spec["method"], int(spec["nrec"])
        df = fs / nxseg
        modes = [float(m) for m in spec["modes"]]
        sel = [m + o * df for m, o in zip(modes, spec["sel_offset_lines"])]
        DF1 = float(spec["DF"])
        recs = []
        for _ in range(nrec):     # same modes, independent complex shapes: the dominant vectors of two records are far apart
            shp = dy_c(g, (len(modes), nch), 8, 8.0)
            shp[:, 0] = 1.0
            recs.append(record(g, 2048, fs, shp, modes, 0.05))
        spectra = []
        for x in recs:
            freq, Sy = fdd.SD_est(x.T, x.T, 1 / fs, nxseg, method=method_sd, pov=0.5)
            spectra.append(np.array(Sy, copy=True))
        freq = np.asarray(freq)
        base = dict(spec, kind="refill", fs=fs, sel=sel)
        for meth in ("EFDD", "FSDD"):
            # (a) one buffer, refilled in place
            buf = spectra[0].copy()
            for i in range(nrec):
                if i:
                    buf[...] = spectra[i]
                Phi = analyse(buf, freq, method_sd, meth, sel, DF1)
                case = dict(base, method_mpe=meth, step="buffer<-record%d" % i + (" (refilled in place)" if i else ""))
                if not np.array_equal(buf, spectra[i]):
                    ctx.fail("oracle", "EFDD_mpe modifies the spectral matrix it is given", case, key="C06:EFDD_mpe:args-mutated")
                    buf[...] = spectra[i]
                judge(spectra[i], freq, Phi, sel, DF1, case, "EFDD_mpe")
            del buf
            # (b) fresh arrays of the same shape, one after the other (the previous one is released first)
            for i in list(range(nrec)) + list(range(nrec)):
                arr = spectra[i].copy()
                arr.setflags(write=False)
                Phi = analyse(arr, freq, method_sd, meth, sel, DF1)
                judge(spectra[i], freq, Phi, sel, DF1, dict(base, method_mpe=meth, step="fresh array record%d" % i), "EFDD_mpe")
                del arr
                gc.collect()
        # (c) the classes: mpe, then result.Sy refilled in place with the spectrum of another record, mpe again
        for cls in (EFDD, FSDD):
            ss = SingleSetup(recs[0].copy(), fs=fs)
            alg = cls(name="a", nxseg=nxseg, method_SD=method_sd)
            ss.add_algorithms(alg)
            ss.run_by_name("a")
            for i in range(min(nrec, 3)):
                if i:
                    alg.result.Sy[...] = spectra[i]
                case = dict(base, cls=cls.__name__, step="result.Sy<-record%d" % i + (" (refilled in place)" if i else ""))
                Phi = None
                for kw in kws:
                    try:
                        ss.mpe("a", sel_freq=list(sel), DF1=DF1, **kw)
                        Phi = np.asarray(alg.result.Phi)
                        break
                    except (IndexError, ValueError, RuntimeError):
                        continue
                judge(spectra[i], np.asarray(alg.result.freq), Phi, sel, DF1, case, cls.__name__)
        # EFDD_MS: rectangular Sy refilled in place
        mres = []
        for i in range(2):
            shp = dy_c(g, (len(modes), 5), 8, 8.0)
            shp[:, 0] = 1.0
            ds = [record(g, 2048, fs, shp[:, cols], modes, 0.05) for cols in ([0, 1, 2], [0, 1, 3, 4])]
            ms = MultiSetup_PreGER(fs=fs, ref_ind=[[0, 1], [0, 1]], datasets=ds)
            alg = EFDD_MS(name="m", nxseg=nxseg, method_SD=method_sd)
            ms.add_algorithms(alg)
            ms.run_by_name("m")
            mres.append((ms, alg, np.array(alg.result.Sy, copy=True)))
        ms, alg, _ = mres[0]
        for i in range(2):
            if i:
                alg.result.Sy[...] = mres[1][2]
            Phi = None
            for kw in kws:
                try:
                    ms.mpe("m", sel_freq=list(sel), DF1=DF1, **kw)
                    Phi = np.asarray(alg.result.Phi)
                    break
                except (IndexError, ValueError, RuntimeError):
                    continue
            judge(mres[i][2], np.asarray(alg.result.freq), Phi, sel, DF1,
                  dict(base, cls="EFDD_MS", step="result.Sy<-setups%d" % i + (" (refilled in place)" if i else "")), "EFDD_MS")

    for spec in corpus_specs:
        one(spec)
    for c in range(ctx.n(2, 8)):
        nxseg = int(rng.choice([64, 128]))
        modes = sorted(float(v) for v in rng.choice(np.arange(3, 14), size=2, replace=False))
        one(dict(nch=int(rng.integers(2, 5)), nxseg=nxseg, method="per" if c % 2 == 0 else "cor", nrec=3 if ctx.quick() else 4, modes=modes,
                 sel_offset_lines=[int(rng.choice([-1, 0, 1])) for _ in modes], DF=float(fs / nxseg * rng.choice([2.0, 3.0])), seed=int(rng.integers(0, 2**31))))


def part_C_wide_search(ctx):
    """first stage of EFDD / FSDD with a search band WIDER than the band used for the bell (DF1 > DF2, both legal): a weak mode at the
    requested frequency, a stronger one inside DF1 but beyond DF2.  The property fixes the first stage by DF1 alone: the shape is that of
    the line of largest s1/s2 in [sel - DF1, sel + DF1], whatever DF2 is.  Function level and through the classes' mpe."""
    from types import SimpleNamespace

    from pyoma2.algorithms import EFDD, FSDD
    from pyoma2.setup import SingleSetup

    rng = ctx.np_rng
    fs = 32.0
    for c in range(ctx.n(2, 6)):
        g = np.random.default_rng(int(rng.integers(0, 2**31)))
        nch, nxseg = int(rng.integers(3, 6)), 128
        fa = float(rng.choice([5.0, 6.0, 7.0]))
        gap = float(rng.choice([1.25, 1.5, 1.75])) * (1 if c % 2 == 0 else -1)
        fb = fa + gap
        shp = dy_c(g, (2, nch), 8, 8.0)
        shp[:, 0] = 1.0
        shp[0] *= 0.25                      # the requested mode is the weaker one
        x = record(g, 4096, fs, shp, [fa, fb], 0.02)
        DF1, DF2 = abs(gap) + 0.5, float(rng.choice([0.5, 0.75]))   # DF2 < |gap| < DF1
        for method_sd in ("per", "cor"):
            freq, Sy = fdd.SD_est(x.T, x.T, 1 / fs, nxseg, method=method_sd, pov=0.5)
            held = np.array(Sy, copy=True)
            for meth, cls in (("EFDD", EFDD), ("FSDD", FSDD)):
                base = dict(kind="wide-search", nch=nch, nxseg=nxseg, fs=fs, modes=[fa, fb], sel=[fa], DF1=DF1, DF2=DF2, method=method_sd, method_mpe=meth)
                Phi = None
                for kw in (dict(sppk=1, npmax=3), dict(sppk=0, npmax=2), dict(sppk=1, npmax=1)):
                    try:
                        Phi = np.asarray(fdd.EFDD_mpe(Sy, freq, 1 / fs, [fa], method_sd, method=meth, DF1=DF1, DF2=DF2, **kw)[2])
                        break
                    except (IndexError, ValueError, RuntimeError):
                        continue
                if Phi is None:
                    ctx.not_judged += 1
                else:
                    ctx.count(dict(base, level="function"), nontrivial=True)
                    class_oracle(ctx, SimpleNamespace(Sy=held, freq=np.asarray(freq), Fn=None, Phi=Phi, S_val=None, S_vec=None), [fa], DF1,
                                 dict(base, level="function"), "EFDD_mpe", fn_on_grid=False, check_faithful=False)
                ss = SingleSetup(x.copy(), fs=fs)
                alg = cls(name="a", nxseg=nxseg, method_SD=method_sd)
                ss.add_algorithms(alg)
                ss.run_by_name("a")
                got = None
                for kw in (dict(sppk=1, npmax=3), dict(sppk=0, npmax=2), dict(sppk=1, npmax=1)):
                    try:
                        ss.mpe("a", sel_freq=[fa], DF1=DF1, DF2=DF2, **kw)
                        got = np.asarray(alg.result.Phi)
                        break
                    except (IndexError, ValueError, RuntimeError):
                        continue
                if got is None:
                    ctx.not_judged += 1
                    continue
                ctx.count(dict(base, level="class"), nontrivial=True)
                class_oracle(ctx, SimpleNamespace(Sy=np.asarray(alg.result.Sy), freq=np.asarray(alg.result.freq), Fn=None, Phi=got, S_val=None, S_vec=None),
                             [fa], DF1, dict(base, level="class"), cls.__name__, fn_on_grid=False, check_faithful=False)


def part_C_constant(ctx, corpus_specs=()):
    """records with constant channels: the detrended spectrum of such a channel is exactly zero at every line (one
    constant channel: rank-deficient Sy; all channels constant: Sy = 0 everywhere).  The stored decomposition must be
    faithful at every line, and FDD must still pick correctly from the remaining channels."""
    from pyoma2.algorithms import EFDD, FDD, FDD_MS
    from pyoma2.setup import MultiSetup_PreGER, SingleSetup

    rng = ctx.np_rng
    fs = 32.0

    def one(spec):
        g = np.random.default_rng(int(spec["seed"]))
        nch, nxseg, method = int(spec["nch"]), int(spec["nxseg"]), spec["method"]
        df = fs / nxseg
        modes = [float(m) for m in spec["modes"]]
        shp = dy_c(g, (len(modes), nch), 8, 8.0)
        shp[:, 0] = 1.0
        x = record(g, 2048, fs, shp, modes, 0.05)
        for ch, val in zip(spec["constant_channels"], spec["constants"]):
            x[:, int(ch)] = float(val)
        live = nch - len(spec["constant_channels"])
        base = dict(spec, kind="constant-channels", fs=fs)
        for cls in (FDD, EFDD):
            ss = SingleSetup(x.copy(), fs=fs)
            alg = cls(name="a", nxseg=nxseg, method_SD=method)
            ss.add_algorithms(alg)
            case = dict(base, cls=cls.__name__)
            try:
                ss.run_by_name("a")
            except Exception as e:  # noqa: BLE001
                ctx.fail("oracle", "%s.run raises %s on a record with constant channels %s" % (cls.__name__, type(e).__name__, spec["constant_channels"]),
                         case, key="C06:%s:raise" % cls.__name__)
                continue
            ctx.count(case, nontrivial=True)
            ctx.hist("constant-channels", (cls.__name__, "%d of %d" % (nch - live, nch)))
            res = alg.result
            if faithful(ctx, np.asarray(res.Sy), np.asarray(res.S_val), np.asarray(res.S_vec), case, cls.__name__) is None:
                continue
            if cls is FDD and live >= 3:       # a second non-zero singular value exists at every line
                sel, DF = [m + df for m in modes], 3 * df
                try:
                    ss.mpe("a", sel_freq=list(sel), DF=DF)
                except Exception as e:  # noqa: BLE001
                    ctx.fail("oracle", "FDD.mpe raises %s on a record with a constant channel" % type(e).__name__, case, key="C06:FDD:raise")
                    continue
                class_oracle(ctx, res, sel, DF, dict(case, sel=sel, DF=DF), "FDD")
        if spec.get("multi") and live >= 2:    # a constant MOVING sensor in the second setup
            shp5 = dy_c(g, (len(modes), 5), 8, 8.0)
            shp5[:, 0] = 1.0
            ds = [record(g, 2048, fs, shp5[:, cols], modes, 0.05) for cols in ([0, 1, 2], [0, 1, 3, 4])]
            ds[1][:, 3] = float(spec["constants"][0])
            ms = MultiSetup_PreGER(fs=fs, ref_ind=[[0, 1], [0, 1]], datasets=ds)
            alg = FDD_MS(name="m", nxseg=nxseg, method_SD=method)
            ms.add_algorithms(alg)
            case = dict(base, cls="FDD_MS")
            try:
                ms.run_by_name("m")
                sel, DF = [m + df for m in modes], 3 * df
                ms.mpe("m", sel_freq=list(sel), DF=DF)
            except Exception as e:  # noqa: BLE001
                ctx.fail("oracle", "FDD_MS raises %s with a constant moving sensor" % type(e).__name__, case, key="C06:FDD_MS:raise")
                return
            ctx.count(case, nontrivial=True)
            ctx.hist("constant-channels", ("FDD_MS", "moving sensor"))
            class_oracle(ctx, alg.result, sel, DF, dict(case, sel=sel, DF=DF), "FDD_MS")

    for spec in corpus_specs:
        one(spec)
    for c in range(ctx.n(3, 10)):
        nch = int(rng.integers(2, 6))
        allc = c % 3 == 1
        chans = list(range(nch)) if allc else [int(rng.integers(0, nch))]
        modes = sorted(float(v) for v in rng.choice(np.arange(3, 14), size=2, replace=False))
        one(dict(nch=nch, nxseg=int(rng.choice([64, 128])), method="per" if c % 2 == 0 else "cor", modes=modes, constant_channels=chans,
                 constants=[float(v) for v in rng.choice([0.0, 2.5, -1.0, 0.375, 16.0], size=len(chans))], multi=bool(c % 3 == 0),
                 seed=int(rng.integers(0, 2**31))))


# ----------------------------------------------------------------------------------------------------------------------
# P. positional call forms.  The parameter orders below are those of the PRISTINE signatures, written out here on
# purpose: they are never read from the tree under test (a changed tree must not redefine the documented order).
#   fdd.SD_est(Yall, Yref, dt, nxseg, method, pov)        fdd.SD_svalsvec(SD)        fdd.FDD_mpe(Sval, Svec, freq, sel_freq, DF)
#   fdd.EFDD_mpe(Sy, freq, dt, sel_freq, methodSy, method, DF1, DF2, cm, MAClim, sppk, npmax)
#   SingleSetup(data, fs)        MultiSetup_PreGER(fs, ref_ind, datasets)        setup.run_by_name(name)
#   setup.mpe(name, <the algorithm's mpe parameters>)        setup.mpe_from_plot(name, <the algorithm's mpe_from_plot parameters>)
#   FDD.mpe(sel_freq, DF)        FDD.mpe_from_plot(freqlim, DF)                                  (FDD_MS inherits both)
#   EFDD.mpe(sel_freq, DF1, DF2, cm, MAClim, sppk, npmax)
#   EFDD.mpe_from_plot(DF1, DF2, cm, MAClim, sppk, npmax, freqlim)                               (FSDD, EFDD_MS inherit both)
# Every value is non-default and differs from its neighbours (defaults: DF 0.1, DF1 0.1, DF2 1.0, cm 1, MAClim 0.85,
# sppk 3, npmax 20, method "FSDD", freqlim None; SD_est: nxseg 1024, method "cor", pov 0.5).
POS_STAGE2 = (1.25, 2, 0.6, 1, 5)                        # DF2, cm, MAClim, sppk, npmax
POS_STAGE2_NAMES = ("DF2", "cm", "MAClim", "sppk", "npmax")
POS_FREQLIM = (1.0, 14.0)


def both_forms(ctx, entry, order, kw_call, pos_call, arrays, case, tol=0.0):
    """the same call by keyword and fully positionally: the positional one must return, with the keyword call's answer.
    Returns the positional call's value (to be judged by the property's oracle) or None."""
    try:
        rk = kw_call()
    except Exception as e:  # noqa: BLE001
        ctx.not_judged += 1     # judged elsewhere (plain FDD) or the second stage (C07) cannot fit
        ctx.hist("positional", (entry, "keyword call raises %s: not judged" % type(e).__name__))
        return None
    try:
        rp = pos_call()
    except Exception as e:  # noqa: BLE001
        ctx.fail("oracle", "%s: the positional call in the documented order %s raises %s where the keyword call with the same values returns"
                 % (entry, order, type(e).__name__), dict(case, entry=entry), key="C06:%s:positional-call" % entry)
        return None
    bad = []
    for i, (a, b) in enumerate(zip(arrays(rk), arrays(rp))):
        a, b = np.asarray(a), np.asarray(b)
        if a.shape != b.shape or not (np.array_equal(a, b, equal_nan=True) if tol == 0.0 else bool(np.abs(a - b).max() <= tol)):
            bad.append(i)
    ctx.count(dict(case, entry=entry), nontrivial=True)
    ctx.hist("positional", (entry, "both forms return"))
    if bad:
        ctx.fail("oracle", "%s: the positional call in the documented order %s does not give the keyword call's answer (outputs %s differ): "
                 "its values are bound to other parameters" % (entry, order, bad), dict(case, entry=entry), key="C06:%s:positional-call" % entry)
    return rp


def part_positional(ctx, corpus_specs=()):
    """every public entry point this check drives, called by keyword and fully positionally (see the table above):
    same answer, and the property's oracle on the positional call's answer."""
    from types import SimpleNamespace

    import pyoma2.algorithms.fdd as alg_mod
    import pyoma2.support.sel_from_plot as sfp_mod
    from pyoma2.algorithms import EFDD, EFDD_MS, FDD, FDD_MS, FSDD
    from pyoma2.setup import MultiSetup_PreGER, SingleSetup

    rng = ctx.np_rng
    fs = 32.0
    dt = 1 / fs
    saved = (alg_mod.SelFromPlot, sfp_mod.SelFromPlot)
    alg_mod.SelFromPlot = _ScriptedPicks
    sfp_mod.SelFromPlot = _ScriptedPicks

    def one(spec):
        g = np.random.default_rng(int(spec["seed"]))
        nch, nxseg, method = int(spec["nch"]), int(spec["nxseg"]), spec["method"]
        df = fs / nxseg
        modes = [float(m) for m in spec["modes"]]
        shp = dy_c(g, (len(modes), 5), 8, 8.0)
        shp[:, 0] = 1.0
        x = record(g, 2048, fs, shp[:, :nch], modes, 0.3)
        sel = [m + o * df for m, o in zip(modes, spec["sel_offset_lines"])]       # grid lines, 1-2 lines off the peaks
        DF = float(spec["DF_lines"]) * df                                            # >= 0.5: far from the default 0.1
        sel_b, DF_b = [sel[-1]], DF + df                                             # a second call with other arguments
        base = dict(spec, kind="positional", fs=fs, sel=sel, DF=DF)

        # ---- the functions: SD_est -> SD_svalsvec -> FDD_mpe (square and rectangular spectral matrices), EFDD_mpe
        Y = np.ascontiguousarray(x.T)
        for Yref, tag in ((Y, "square"), (Y[:2].copy(), "rect")):
            case = dict(base, pipeline=tag)
            r = both_forms(ctx, "SD_est", "(Yall, Yref, dt, nxseg, method, pov)",
                           lambda: fdd.SD_est(pov=0.25, method="per", nxseg=nxseg, dt=dt, Yref=Yref, Yall=Y),
                           lambda: fdd.SD_est(Y, Yref, dt, nxseg, "per", 0.25), lambda o: [o[0], o[1]], case)
            if r is None:
                continue
            freq, Sy = np.asarray(r[0]), np.asarray(r[1])
            r = both_forms(ctx, "SD_svalsvec", "(SD)", lambda: fdd.SD_svalsvec(SD=Sy), lambda: fdd.SD_svalsvec(Sy), lambda o: [o[0], o[1]], case)
            if r is None:
                continue
            S_val, S_vec = np.asarray(r[0]), np.asarray(r[1])
            r = both_forms(ctx, "FDD_mpe", "(Sval, Svec, freq, sel_freq, DF)",
                           lambda: fdd.FDD_mpe(DF=DF, sel_freq=list(sel), freq=freq, Svec=S_vec, Sval=S_val),
                           lambda: fdd.FDD_mpe(S_val, S_vec, freq, list(sel), DF), lambda o: [o[0], o[1]], case)
            if r is not None:
                class_oracle(ctx, SimpleNamespace(Sy=Sy, freq=freq, Fn=np.asarray(r[0]), Phi=np.asarray(r[1]), S_val=S_val, S_vec=S_vec), sel, DF,
                             dict(case, entry="FDD_mpe"), "FDD_mpe")
            if tag != "square":
                continue
            if method == "cor":     # the estimator the classes below use, so that methodSy is exercised with both values
                freq, Sy = (np.asarray(v) for v in fdd.SD_est(Y, Y, dt, nxseg, "cor", 0.5))
            for meth in ("EFDD", "FSDD"):
                r = both_forms(ctx, "EFDD_mpe", "(Sy, freq, dt, sel_freq, methodSy, method, DF1, DF2, cm, MAClim, sppk, npmax)",
                               lambda: fdd.EFDD_mpe(npmax=POS_STAGE2[4], sppk=POS_STAGE2[3], MAClim=POS_STAGE2[2], cm=POS_STAGE2[1], DF2=POS_STAGE2[0], DF1=DF,
                                                    method=meth, methodSy=method, sel_freq=list(sel), dt=dt, freq=freq, Sy=Sy),
                               lambda: fdd.EFDD_mpe(Sy, freq, dt, list(sel), method, meth, DF, *POS_STAGE2), lambda o: [o[0], o[1], o[2]], dict(case, method_mpe=meth))
                if r is not None:
                    class_oracle(ctx, SimpleNamespace(Sy=Sy, freq=freq, Fn=None, Phi=np.asarray(r[2]), S_val=None, S_vec=None), sel, DF,
                                 dict(case, entry="EFDD_mpe", method_mpe=meth), "EFDD_mpe", fn_on_grid=False, check_faithful=False)

        # ---- the classes through the setups
        datasets = [record(g, 2048, fs, shp[:, cols], modes, 0.3) for cols in ([0, 1, 2], [0, 1, 3, 4])]
        ref_ind = [[0, 1], [0, 1]]
        for cls, name, multi in ((FDD, "FDD", False), (EFDD, "EFDD", False), (FSDD, "FSDD", False), (FDD_MS, "FDD_MS", True), (EFDD_MS, "EFDD_MS", True)):
            plain = cls in (FDD, FDD_MS)
            case = dict(base, cls=name)
            res_of = (lambda o: [o[1].result.Fn, o[1].result.Phi]) if plain else (lambda o: [o[1].result.Fn, o[1].result.Xi, o[1].result.Phi])

            def build(positional):
                if multi and positional:
                    st = MultiSetup_PreGER(fs, [list(r) for r in ref_ind], [d.copy() for d in datasets])
                elif multi:
                    st = MultiSetup_PreGER(datasets=[d.copy() for d in datasets], ref_ind=[list(r) for r in ref_ind], fs=fs)
                else:
                    st = SingleSetup(x.copy(), fs) if positional else SingleSetup(fs=fs, data=x.copy())
                al = cls(name="a", nxseg=nxseg, method_SD=method)      # run parameters: a pydantic model, keyword-only
                st.add_algorithms(al)
                if positional:
                    st.run_by_name("a")
                else:
                    st.run_by_name(name="a")
                return st, al

            ctor = "MultiSetup_PreGER" if multi else "SingleSetup"
            r = both_forms(ctx, ctor, "(fs, ref_ind, datasets)" if multi else "(data, fs)", lambda: build(False), lambda: build(True),
                           lambda o: [getattr(o[1].result, k) for k in RES_FIELDS], case)
            if r is None:
                continue
            st_p, al_p = r
            st_k, al_k = build(False)

            def judged(r, sel_j, DF_j, entry):
                if r is None:
                    return
                want = {"DF": DF_j} if plain else dict(zip(("DF1",) + POS_STAGE2_NAMES, (DF_j,) + POS_STAGE2))
                if "from_plot" not in entry:
                    want["sel_freq"] = list(sel_j)
                run_params_ok(ctx, al_p, want, dict(case, entry=entry, sel=sel_j, DF=DF_j), entry + " called positionally", key="C06:%s:positional-call" % entry)
                class_oracle(ctx, al_p.result, sel_j, DF_j, dict(case, entry=entry, sel=sel_j, DF=DF_j), name, fn_on_grid=plain)

            # setup.mpe(name, ...)
            if plain:
                order = "(name, sel_freq, DF)"
                kw = lambda: (st_k.mpe(name="a", DF=DF, sel_freq=list(sel)), al_k)                                            # noqa: E731
                ps = lambda: (st_p.mpe("a", list(sel), DF), al_p)                                                              # noqa: E731
            else:
                order = "(name, sel_freq, DF1, DF2, cm, MAClim, sppk, npmax)"
                kw = lambda: (st_k.mpe(name="a", sel_freq=list(sel), DF1=DF, **dict(zip(POS_STAGE2_NAMES[::-1], POS_STAGE2[::-1]))), al_k)   # noqa: E731
                ps = lambda: (st_p.mpe("a", list(sel), DF, *POS_STAGE2), al_p)                                                 # noqa: E731
            judged(both_forms(ctx, name + ".mpe", order + " through the setup", kw, ps, res_of, case), sel, DF, name + ".mpe")
            # the algorithm's own mpe(...), other arguments
            if plain:
                order = "(sel_freq, DF)"
                kw = lambda: (al_k.mpe(DF=DF_b, sel_freq=list(sel_b)), al_k)                                                  # noqa: E731
                ps = lambda: (al_p.mpe(list(sel_b), DF_b), al_p)                                                               # noqa: E731
            else:
                order = "(sel_freq, DF1, DF2, cm, MAClim, sppk, npmax)"
                kw = lambda: (al_k.mpe(sel_freq=list(sel_b), DF1=DF_b, **dict(zip(POS_STAGE2_NAMES[::-1], POS_STAGE2[::-1]))), al_k)     # noqa: E731
                ps = lambda: (al_p.mpe(list(sel_b), DF_b, *POS_STAGE2), al_p)                                                  # noqa: E731
            judged(both_forms(ctx, name + ".mpe", order + " on the algorithm", kw, ps, res_of, dict(case, call="direct")), sel_b, DF_b, name + ".mpe")
            # setup.mpe_from_plot(name, ...), scripted picks
            _ScriptedPicks.picks = list(sel)
            if plain:
                order = "(name, freqlim, DF)"
                kw = lambda: (st_k.mpe_from_plot(name="a", DF=DF, freqlim=POS_FREQLIM), al_k)                                 # noqa: E731
                ps = lambda: (st_p.mpe_from_plot("a", POS_FREQLIM, DF), al_p)                                                  # noqa: E731
            else:
                order = "(name, DF1, DF2, cm, MAClim, sppk, npmax, freqlim)"
                kw = lambda: (st_k.mpe_from_plot(name="a", freqlim=POS_FREQLIM, DF1=DF, **dict(zip(POS_STAGE2_NAMES[::-1], POS_STAGE2[::-1]))), al_k)  # noqa: E731
                ps = lambda: (st_p.mpe_from_plot("a", DF, *(POS_STAGE2 + (POS_FREQLIM,))), al_p)                               # noqa: E731
            _ScriptedPicks.calls = []
            r = both_forms(ctx, name + ".mpe_from_plot", order + " through the setup", kw, ps, res_of, dict(case, picks=list(sel)))
            if r is not None and _ScriptedPicks.calls and (_ScriptedPicks.calls[-1][1] is None or tuple(_ScriptedPicks.calls[-1][1]) != POS_FREQLIM):
                ctx.fail("oracle", "%s.mpe_from_plot%s: freqlim = %r passed positionally reaches the plot as %r"
                         % (name, order, POS_FREQLIM, _ScriptedPicks.calls[-1][1]), dict(case, entry=name + ".mpe_from_plot"),
                         key="C06:%s.mpe_from_plot:positional-call" % name)
            judged(r, sel, DF, name + ".mpe_from_plot")

    try:
        for spec in corpus_specs:
            one(spec)
        for c in range(ctx.n(2, 8)):
            nxseg = int(rng.choice([64, 128]))
            modes = sorted(float(v) for v in rng.choice(np.arange(3, 14), size=2, replace=False))
            one(dict(nch=int(rng.integers(3, 5)), nxseg=nxseg, method="per" if c % 2 == 0 else "cor", modes=modes,
                     sel_offset_lines=[int(rng.choice([-2, -1, 1, 2])) for _ in modes], DF_lines=3 if nxseg == 128 else int(rng.choice([2, 3])),
                     seed=int(rng.integers(0, 2**31))))
    finally:
        alg_mod.SelFromPlot, sfp_mod.SelFromPlot = saved


# ----------------------------------------------------------------------------------------------------------------------
def run(ctx):
    rng = ctx.np_rng
    # at most three recorded failures per key, so that one flooding site cannot hide the other sites' failing inputs
    record_fail, per_key = ctx.fail, {}

    def capped_fail(kind, what, case=None, key=None):
        per_key[key or what] = per_key.get(key or what, 0) + 1
        if per_key[key or what] <= 3:
            record_fail(kind, what, case, key)

    ctx.fail = capped_fail
    ctx.extra["rule"] = ("A: FDD_mpe cases (grid, S_val table, complex S_vec, sel_freq, DF); non-trivial when the call returns and a band holds >= 2 lines. "
                         "Scale families: the same table / record times 2^k, k over [-90,90] for tables and [-45,45] for records (spectra 2^-90..2^90), on bands where sigma1 and sigma1/sigma2 peak at different lines. "
                         "B: SD_svalsvec on Hermitian / rectangular dyadic complex matrices. C: class runs on random records. Distinct by hash of the whole case.")
    ctx.assumptions += [
        "oracle contract (Section hypotheses of C06_svalsvec_faithful_*, C06_svalsvec_left_action, C06_narrowband_collinear): numpy.linalg.svd returns U, S, Vh "
        "with Sy = U[:, :nc] diag(S) Vh, U^H U = U U^H = I, S non-negative non-increasing; numpy.sqrt(S)^2 = S - re-checked exactly in Q on witness calls made by the harness",
        "IEEE-754: exact rational ties of S_val[0,0]/S_val[1,1] are float ties (correctly rounded division); largest-modulus ties between components that are not mirror images are not judged",
        "MAC = 1 and the band-membership of Fn are judged by NumPy oracles at 1e-8..1e-9; the band's end lines are accepted in- or excluded, either nearest line on exact ties",
    ]
    cases = []
    # corpus first
    if ctx.replay:
        cases.append(json.load(open(ctx.replay)).get("case"))
    for p in sorted(glob.glob(os.path.join(VERIF, "corpus", "C06", "*.json"))):
        cases.append(json.load(open(p)))
    ncorp = len(cases)
    n = ctx.n(130, 2200)
    for k in range(n):
        cases.append(gen_mpe_case(rng, ctx, malformed=(k % 7 == 3)))
    corpus_nb = [c for c in cases[:ncorp] if c and c.get("kind") == "narrow-band"]
    corpus_plot = [c for c in cases[:ncorp] if c and c.get("kind") == "plot-path"]
    corpus_zero = [c for c in cases[:ncorp] if c and c.get("kind") == "svalsvec-zero"]
    corpus_dtype = [c for c in cases[:ncorp] if c and c.get("kind") == "svalsvec-dtype"]
    corpus_refill = [c for c in cases[:ncorp] if c and c.get("kind") == "refill"]
    corpus_const = [c for c in cases[:ncorp] if c and c.get("kind") == "constant-channels"]
    corpus_pos = [c for c in cases[:ncorp] if c and c.get("kind") == "positional"]
    ncorp = len([c for c in cases[:ncorp] if c and "freq" in c])
    cases = [c for c in cases if c and "freq" in c]
    # scale families: base table (sigma1 peaks away from the ratio peak, no ties) and the same table times 2^k
    fam = {}
    for b in range(ctx.n(8, 60)):
        base = gen_scale_base(rng, ctx)
        if base is None:
            continue
        base = dict(base, kind="scale-base")
        ks = [-90, int(rng.integers(-89, -40)), int(rng.integers(-40, -26)), int(rng.integers(-26, 0)), int(rng.integers(1, 41)), int(rng.integers(41, 90)), 90]
        ks = ks if not ctx.quick() else [ks[0], ks[1], ks[2], ks[int(rng.integers(3, 5))], ks[int(rng.integers(5, 7))]]
        bi = len(cases)
        cases.append(base)
        fam[bi] = []
        for k in ks:
            fam[bi].append(len(cases))
            cases.append(scaled_case(base, k, int(rng.choice([0, 0, -40, 17, 40]))))
    # input-form families: the same numbers as Python ints, int32 / int64 arrays, tuples, float arrays, mixed lists, DF as
    # int or float, the selected frequencies also in reversed order - one expected result (the model takes the exact values)
    for b in range(ctx.n(7, 50)):
        base = gen_form_base(rng, ctx)
        if base is None:
            continue
        bi = len(cases)
        cases.append(base)
        fam[bi] = []
        forms = list(FORMS[1:])
        if ctx.quick():
            forms = ["int-list", str(rng.choice(["int64", "int32"])), str(rng.choice(["int-tuple", "tuple", "ndarray", "mixed"]))]
        for fm in forms:
            m = dict(base, kind="form", form=fm, DF_int=bool(float(base["DF"]).is_integer() and rng.random() < 0.7))
            if len(base["sel"]) > 1 and rng.random() < 0.4:
                m["sel"] = base["sel"][::-1]
                m["reversed"] = True
            fam[bi].append(len(cases))
            cases.append(m)
    for i, c in enumerate(cases):
        if i % 3 == 1 and c.get("kind", "").split("-")[0] != "corpus":
            c["readonly"] = True
    exprs = [mpe_expr(c) for c in cases]
    uniq = list(dict.fromkeys(exprs))
    res_u = dict(zip(uniq, ctx.coq_eval(HEADER, uniq, shard=ctx.n(14, 100))))
    res = [res_u[e] for e in exprs]
    outs = []
    for i, (case, s) in enumerate(zip(cases, res)):
        ctx.hist("mpe-kind", case.get("kind", "corpus"))
        if "form" in case:
            ctx.hist("sel_freq-form", (case["form"], "DF int" if case.get("DF_int") else "DF float"))
        if "scale_log2" in case:
            ctx.hist("scale-log2", 10 * int(np.floor(case["scale_log2"][0] / 10.0)))
        outs.append(judge_mpe(ctx, case, s))
        if ncorp <= i < ncorp + 2:
            ctx.sample(dict(kind=case["kind"], freq=case["freq"][:6], sel=case["sel"], DF=case["DF"], note="first grid lines only"))
    for b, members in fam.items():
        e0, Fn0, Phi0 = outs[b]
        for m in members:
            e1, Fn1, Phi1 = outs[m]
            cm = cases[m]
            small = {k: cm[k] for k in ("kind", "freq", "sel", "DF", "Sval", "Svec", "scale_log2", "form", "DF_int", "reversed") if k in cm}
            if "scale_log2" in cm:
                how, key = "S_val is multiplied by 2^%d (S_vec by 2^%d)" % tuple(cm["scale_log2"]), "C06:FDD_mpe:scale-invariance"
            else:
                how = "sel_freq = %r is passed as %s%s and DF = %r as %s" % (cm["sel"], cm["form"], " in reversed order" if cm.get("reversed") else "",
                                                                          cm["DF"], "int" if cm.get("DF_int") else "float")
                key = "C06:FDD_mpe:input-form"
            if Fn1 is not None and cm.get("reversed"):
                Fn1, Phi1 = Fn1[::-1], Phi1[:, ::-1]
            if (e0 is None) != (e1 is None) or (Fn0 is None) != (Fn1 is None):
                ctx.fail("oracle", "FDD_mpe: outcome changes (%s -> %s) when %s" % (e0 or "returns", e1 or "returns", how), small, key=key)
            elif Fn0 is not None and (Fn0.shape != Fn1.shape or not np.array_equal(Fn0, Fn1) or np.abs(Phi0 - Phi1).max() > 1e-12):
                ctx.fail("oracle", "FDD_mpe: the result changes when %s: Fn %s -> %s (same numbers, same band, same ratios)" % (how, Fn0.tolist(), Fn1.tolist()),
                         small, key=key)
    ctx.extra["t_A"] = round(time.time() - ctx.t0, 1)
    part_B(ctx)
    part_B_zero(ctx, corpus_zero)
    part_B_dtypes(ctx, corpus_dtype)
    ctx.extra["t_AB"] = round(time.time() - ctx.t0, 1)
    part_C(ctx, corpus_nb)
    part_C_scale(ctx)
    part_C_forms(ctx)
    part_C_plot(ctx, corpus_plot)
    part_C_refill(ctx, corpus_refill)
    part_C_wide_search(ctx)
    part_C_constant(ctx, corpus_const)
    ctx.extra["t_ABC"] = round(time.time() - ctx.t0, 1)
    part_positional(ctx, corpus_pos)
    ctx.extra["t_ABCP"] = round(time.time() - ctx.t0, 1)
